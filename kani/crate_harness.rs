// Kani harnesses compiled INSIDE the real whirlpool crate (cfg(kani) only). Crate-level ones: need only public items.
use crate::state::*;

/// little-endian round trip of the machine integers the memory-mapped views rely on (backs fragment lebytes)
#[kani::proof]
fn le_roundtrip() {
    let a: u128 = kani::any();
    assert!(u128::from_le_bytes(a.to_le_bytes()) == a);
    let b: i128 = kani::any();
    assert!(i128::from_le_bytes(b.to_le_bytes()) == b);
    let c: u64 = kani::any();
    assert!(u64::from_le_bytes(c.to_le_bytes()) == c);
    let d: i32 = kani::any();
    assert!(i32::from_le_bytes(d.to_le_bytes()) == d);
    let e: u16 = kani::any();
    assert!(u16::from_le_bytes(e.to_le_bytes()) == e);
    let bytes: [u8; 16] = kani::any();
    assert!(u128::from_le_bytes(bytes).to_le_bytes() == bytes);
}

/// popcount facts assumed by fragment tick_arrays (axiom_popcount_below): the number of set bits below position k is at most k
#[kani::proof]
fn popcount_below() {
    let x: u128 = kani::any();
    let k: u32 = kani::any();
    kani::assume(k < 88);
    let mask = (1u128 << k) - 1;
    let c = (x & mask).count_ones();
    assert!(c <= k);
}
