// Kani harnesses inside crate::pinocchio (can see the private `state` and `ported` modules). cfg(kani) only.
use super::state::whirlpool::tick_array::tick::MemoryMappedTick;
use super::state::whirlpool::{MemoryMappedPosition, MemoryMappedWhirlpool};
use crate::state::{Position, Tick, Whirlpool};
use anchor_lang::AnchorDeserialize;

/// C12(ii): every field the Pinocchio Position view reads is the field the Anchor (Borsh) account deserialises from the same 216 bytes
#[kani::proof]
#[kani::unwind(33)]
fn position_layout() {
    let bytes: [u8; 216] = kani::any();
    let view: &MemoryMappedPosition = unsafe { &*(bytes.as_ptr() as *const MemoryMappedPosition) };
    let mut data: &[u8] = &bytes[8..];
    let p = Position::deserialize(&mut data).unwrap();
    assert!(view.liquidity() == p.liquidity);
    assert!(view.tick_lower_index() == p.tick_lower_index);
    assert!(view.tick_upper_index() == p.tick_upper_index);
    assert!(view.fee_growth_checkpoint_a() == p.fee_growth_checkpoint_a);
    assert!(view.fee_owed_a() == p.fee_owed_a);
    assert!(view.fee_growth_checkpoint_b() == p.fee_growth_checkpoint_b);
    assert!(view.fee_owed_b() == p.fee_owed_b);
    assert!(view.whirlpool() == &p.whirlpool.to_bytes());
    assert!(view.position_mint() == &p.position_mint.to_bytes());
    let ri = view.reward_infos();
    assert!(ri[0].growth_inside_checkpoint() == p.reward_infos[0].growth_inside_checkpoint);
    assert!(ri[0].amount_owed() == p.reward_infos[0].amount_owed);
    assert!(ri[1].growth_inside_checkpoint() == p.reward_infos[1].growth_inside_checkpoint);
    assert!(ri[1].amount_owed() == p.reward_infos[1].amount_owed);
    assert!(ri[2].growth_inside_checkpoint() == p.reward_infos[2].growth_inside_checkpoint);
    assert!(ri[2].amount_owed() == p.reward_infos[2].amount_owed);
}

/// C12(ii): the memory-mapped tick view against the zero-copy (packed) Anchor Tick over all 113 bytes
#[kani::proof]
#[kani::unwind(50)]
fn tick_layout() {
    let bytes: [u8; 113] = kani::any();
    kani::assume(bytes[0] <= 1); // a bool byte written by the program
    let view: &MemoryMappedTick = unsafe { &*(bytes.as_ptr() as *const MemoryMappedTick) };
    let t: Tick = unsafe { core::ptr::read_unaligned(bytes.as_ptr() as *const Tick) };
    let (init, net, gross, fa, fb, rg) = (
        t.initialized,
        t.liquidity_net,
        t.liquidity_gross,
        t.fee_growth_outside_a,
        t.fee_growth_outside_b,
        t.reward_growths_outside,
    );
    assert!(view.initialized() == init);
    assert!(view.liquidity_net() == net);
    assert!(view.liquidity_gross() == gross);
    assert!(view.fee_growth_outside_a() == fa);
    assert!(view.fee_growth_outside_b() == fb);
    assert!(view.reward_growths_outside() == rg);
}

// NOTE (C13): a fully symbolic Kani harness for MemoryMappedDynamicTickArray::update_tick (symbolic bitmap -> symbolic byte offset into the
// 9944-byte tick region, std slice rotation, unsafe tick view) was tried and dropped: with core's rotate as is CBMC unwinds the infeasible
// gcd/swap branches for symbolic lengths (50 min, no end); with the memmove branch stubbed in, propositional reduction ran out of memory
// (62 GB) on the symbolic-offset memmove, `--arrays-uf-always` did not finish in 18 min and the SMT back end crashed. The byte-level
// contract is proved deductively instead (Verus, fragment pino_tick_arrays), with the rotation and the unsafe view as assumed shims.

/// C12(ii): every field the Pinocchio Whirlpool view reads is the field the Anchor (Borsh) account deserialises from the same 653 bytes
#[kani::proof]
#[kani::unwind(33)]
fn whirlpool_view_reads() {
    let bytes: [u8; 653] = kani::any();
    let w = {
        let mut data: &[u8] = &bytes[8..];
        Whirlpool::deserialize(&mut data).unwrap()
    };
    {
        let view: &MemoryMappedWhirlpool =
            unsafe { &*(bytes.as_ptr() as *const MemoryMappedWhirlpool) };
        assert!(view.tick_spacing() == w.tick_spacing);
        assert!(view.liquidity() == w.liquidity);
        assert!(view.sqrt_price() == w.sqrt_price);
        assert!(view.tick_current_index() == w.tick_current_index);
        assert!(view.token_mint_a() == &w.token_mint_a.to_bytes());
        assert!(view.token_mint_b() == &w.token_mint_b.to_bytes());
        assert!(view.token_vault_a() == &w.token_vault_a.to_bytes());
        assert!(view.token_vault_b() == &w.token_vault_b.to_bytes());
        assert!(view.fee_growth_global_a() == w.fee_growth_global_a);
        assert!(view.fee_growth_global_b() == w.fee_growth_global_b);
        assert!(view.reward_last_updated_timestamp() == w.reward_last_updated_timestamp);
        let ri = view.reward_infos();
        let mut k = 0;
        while k < 3 {
            assert!(ri[k].mint() == &w.reward_infos[k].mint.to_bytes());
            assert!(ri[k].vault() == &w.reward_infos[k].vault.to_bytes());
            assert!(ri[k].extension() == &w.reward_infos[k].extension);
            assert!(ri[k].emissions_per_second_x64() == w.reward_infos[k].emissions_per_second_x64);
            assert!(ri[k].growth_global_x64() == w.reward_infos[k].growth_global_x64);
            assert!(ri[k].initialized() == w.reward_infos[k].initialized());
            k += 1;
        }
    }
}

/// C12(ii): the one Pinocchio writer of the Whirlpool view changes exactly liquidity, the three reward growths and the reward timestamp
#[kani::proof]
#[kani::unwind(33)]
fn whirlpool_view_writes() {
    let mut bytes: [u8; 653] = kani::any();
    let w = {
        let mut data: &[u8] = &bytes[8..];
        Whirlpool::deserialize(&mut data).unwrap()
    };
    let liq: u128 = kani::any();
    let g: [u128; 3] = kani::any();
    let ts: u64 = kani::any();
    {
        let view: &mut MemoryMappedWhirlpool =
            unsafe { &mut *(bytes.as_mut_ptr() as *mut MemoryMappedWhirlpool) };
        view.update_liquidity_and_reward_growth_global(liq, &g, ts);
    }
    let w2 = {
        let mut data: &[u8] = &bytes[8..];
        Whirlpool::deserialize(&mut data).unwrap()
    };
    let mut expect = w.clone();
    expect.liquidity = liq;
    expect.reward_last_updated_timestamp = ts;
    expect.reward_infos[0].growth_global_x64 = g[0];
    expect.reward_infos[1].growth_global_x64 = g[1];
    expect.reward_infos[2].growth_global_x64 = g[2];
    assert!(
        w2.whirlpools_config == expect.whirlpools_config
            && w2.whirlpool_bump == expect.whirlpool_bump
            && w2.tick_spacing == expect.tick_spacing
    );
    assert!(
        w2.fee_tier_index_seed == expect.fee_tier_index_seed
            && w2.fee_rate == expect.fee_rate
            && w2.protocol_fee_rate == expect.protocol_fee_rate
    );
    assert!(
        w2.liquidity == expect.liquidity
            && w2.sqrt_price == expect.sqrt_price
            && w2.tick_current_index == expect.tick_current_index
    );
    assert!(
        w2.protocol_fee_owed_a == expect.protocol_fee_owed_a
            && w2.protocol_fee_owed_b == expect.protocol_fee_owed_b
    );
    assert!(
        w2.token_mint_a == expect.token_mint_a
            && w2.token_vault_a == expect.token_vault_a
            && w2.fee_growth_global_a == expect.fee_growth_global_a
    );
    assert!(
        w2.token_mint_b == expect.token_mint_b
            && w2.token_vault_b == expect.token_vault_b
            && w2.fee_growth_global_b == expect.fee_growth_global_b
    );
    assert!(w2.reward_last_updated_timestamp == expect.reward_last_updated_timestamp);
    let mut k = 0;
    while k < 3 {
        assert!(w2.reward_infos[k] == expect.reward_infos[k]);
        k += 1;
    }
}
