// Kani harnesses inside crate::pinocchio (can see the private `state` and `ported` modules). cfg(kani) only.
use super::state::whirlpool::tick_array::tick::MemoryMappedTick;
use super::state::whirlpool::{MemoryMappedPosition, MemoryMappedWhirlpool};
use crate::state::{Position, Tick, Whirlpool};
use anchor_lang::AnchorDeserialize;

/// C12(ii): every field the Pinocchio Position view reads is the field the Anchor (Borsh) account deserialises from the same 216 bytes
#[kani::proof]
#[kani::unwind(33)]
fn position_layout() {
    let bytes: [u8; 216] = kani::any();
    let view: &MemoryMappedPosition = unsafe { &*(bytes.as_ptr() as *const MemoryMappedPosition) };
    let mut data: &[u8] = &bytes[8..];
    let p = Position::deserialize(&mut data).unwrap();
    assert!(view.liquidity() == p.liquidity);
    assert!(view.tick_lower_index() == p.tick_lower_index);
    assert!(view.tick_upper_index() == p.tick_upper_index);
    assert!(view.fee_growth_checkpoint_a() == p.fee_growth_checkpoint_a);
    assert!(view.fee_owed_a() == p.fee_owed_a);
    assert!(view.fee_growth_checkpoint_b() == p.fee_growth_checkpoint_b);
    assert!(view.fee_owed_b() == p.fee_owed_b);
    assert!(view.whirlpool() == &p.whirlpool.to_bytes());
    assert!(view.position_mint() == &p.position_mint.to_bytes());
    let ri = view.reward_infos();
    assert!(ri[0].growth_inside_checkpoint() == p.reward_infos[0].growth_inside_checkpoint);
    assert!(ri[0].amount_owed() == p.reward_infos[0].amount_owed);
    assert!(ri[1].growth_inside_checkpoint() == p.reward_infos[1].growth_inside_checkpoint);
    assert!(ri[1].amount_owed() == p.reward_infos[1].amount_owed);
    assert!(ri[2].growth_inside_checkpoint() == p.reward_infos[2].growth_inside_checkpoint);
    assert!(ri[2].amount_owed() == p.reward_infos[2].amount_owed);
}

/// C12(ii): the memory-mapped tick view against the zero-copy (packed) Anchor Tick over all 113 bytes
#[kani::proof]
#[kani::unwind(50)]
fn tick_layout() {
    let bytes: [u8; 113] = kani::any();
    kani::assume(bytes[0] <= 1); // a bool byte written by the program
    let view: &MemoryMappedTick = unsafe { &*(bytes.as_ptr() as *const MemoryMappedTick) };
    let t: Tick = unsafe { core::ptr::read_unaligned(bytes.as_ptr() as *const Tick) };
    let (init, net, gross, fa, fb, rg) = (t.initialized, t.liquidity_net, t.liquidity_gross, t.fee_growth_outside_a, t.fee_growth_outside_b, t.reward_growths_outside);
    assert!(view.initialized() == init);
    assert!(view.liquidity_net() == net);
    assert!(view.liquidity_gross() == gross);
    assert!(view.fee_growth_outside_a() == fa);
    assert!(view.fee_growth_outside_b() == fb);
    assert!(view.reward_growths_outside() == rg);
}

// NOTE (C13): a fully symbolic Kani harness for MemoryMappedDynamicTickArray::update_tick (symbolic bitmap -> symbolic byte offset into the
// 9944-byte tick region, std slice rotation, unsafe tick view) was tried and dropped: with core's rotate as is CBMC unwinds the infeasible
// gcd/swap branches for symbolic lengths (50 min, no end); with the memmove branch stubbed in, propositional reduction ran out of memory
// (62 GB) on the symbolic-offset memmove, `--arrays-uf-always` did not finish in 18 min and the SMT back end crashed. The byte-level
// contract is proved deductively instead (Verus, fragment pino_tick_arrays), with the rotation and the unsafe view as assumed shims.
