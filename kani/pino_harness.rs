// Kani harnesses inside crate::pinocchio (can see the private `state` and `ported` modules). cfg(kani) only.
use super::state::whirlpool::tick_array::tick::MemoryMappedTick;
use super::state::whirlpool::{MemoryMappedPosition, MemoryMappedWhirlpool};
use crate::state::{Position, Tick, Whirlpool};
use anchor_lang::AnchorDeserialize;

/// C12(ii): every field the Pinocchio Position view reads is the field the Anchor (Borsh) account deserialises from the same 216 bytes
#[kani::proof]
#[kani::unwind(33)]
fn position_layout() {
    let bytes: [u8; 216] = kani::any();
    let view: &MemoryMappedPosition = unsafe { &*(bytes.as_ptr() as *const MemoryMappedPosition) };
    let mut data: &[u8] = &bytes[8..];
    let p = Position::deserialize(&mut data).unwrap();
    assert!(view.liquidity() == p.liquidity);
    assert!(view.tick_lower_index() == p.tick_lower_index);
    assert!(view.tick_upper_index() == p.tick_upper_index);
    assert!(view.fee_growth_checkpoint_a() == p.fee_growth_checkpoint_a);
    assert!(view.fee_owed_a() == p.fee_owed_a);
    assert!(view.fee_growth_checkpoint_b() == p.fee_growth_checkpoint_b);
    assert!(view.fee_owed_b() == p.fee_owed_b);
    assert!(view.whirlpool() == &p.whirlpool.to_bytes());
    assert!(view.position_mint() == &p.position_mint.to_bytes());
    let ri = view.reward_infos();
    assert!(ri[0].growth_inside_checkpoint() == p.reward_infos[0].growth_inside_checkpoint);
    assert!(ri[0].amount_owed() == p.reward_infos[0].amount_owed);
    assert!(ri[1].growth_inside_checkpoint() == p.reward_infos[1].growth_inside_checkpoint);
    assert!(ri[1].amount_owed() == p.reward_infos[1].amount_owed);
    assert!(ri[2].growth_inside_checkpoint() == p.reward_infos[2].growth_inside_checkpoint);
    assert!(ri[2].amount_owed() == p.reward_infos[2].amount_owed);
}

/// C12(ii): the memory-mapped tick view against the zero-copy (packed) Anchor Tick over all 113 bytes
#[kani::proof]
#[kani::unwind(50)]
fn tick_layout() {
    let bytes: [u8; 113] = kani::any();
    kani::assume(bytes[0] <= 1); // a bool byte written by the program
    let view: &MemoryMappedTick = unsafe { &*(bytes.as_ptr() as *const MemoryMappedTick) };
    let t: Tick = unsafe { core::ptr::read_unaligned(bytes.as_ptr() as *const Tick) };
    let (init, net, gross, fa, fb, rg) = (t.initialized, t.liquidity_net, t.liquidity_gross, t.fee_growth_outside_a, t.fee_growth_outside_b, t.reward_growths_outside);
    assert!(view.initialized() == init);
    assert!(view.liquidity_net() == net);
    assert!(view.liquidity_gross() == gross);
    assert!(view.fee_growth_outside_a() == fa);
    assert!(view.fee_growth_outside_b() == fb);
    assert!(view.reward_growths_outside() == rg);
}

// ---------------------------------------------------------------------------------------------------------------------------------
// C13: byte-level encoding of the dynamic tick array (Pinocchio accessor). Fully symbolic state: any bitmap, any 9944 tick bytes that
// are well formed for the bitmap (slot i starts at 113 * #initialized-below + 1 * #uninitialized-below and its first byte is the
// bitmap bit), any slot k, any update. All loops are bounded by the fixed array geometry (88 slots, 113 bytes), so the harness is a
// complete proof for its statement, not a bounded stand-in.
use super::state::whirlpool::tick_array::dynamic_tick_array::MemoryMappedDynamicTickArray;
use super::state::whirlpool::tick_array::{TickArray as PinoTickArray, TickUpdate as PinoTickUpdate};

const DYN_HEADER: usize = 8 + 4 + 32 + 16;
const DYN_TICKS: usize = 113 * 88;

/// independent description of the layout: offsets of all 88 slots (and the used length at index 88) for a bitmap
fn dyn_offsets(bitmap: u128) -> [usize; 89] {
    let mut offs = [0usize; 89];
    let mut i = 0;
    while i < 88 {
        offs[i + 1] = offs[i] + if (bitmap >> i) & 1 == 1 { 113 } else { 1 };
        i += 1;
    }
    offs
}

#[kani::proof]
#[kani::unwind(114)]
fn dyn_update_tick_pino() {
    let bitmap: u128 = kani::any();
    kani::assume(bitmap >> 88 == 0);
    let ticks: [u8; DYN_TICKS] = kani::any();
    let offs = dyn_offsets(bitmap);
    // well-formedness of the pre-state: every slot's tag byte is its bitmap bit
    let mut i = 0;
    while i < 88 {
        kani::assume(ticks[offs[i]] == ((bitmap >> i) & 1) as u8);
        i += 1;
    }
    let mut buf = [0u8; DYN_HEADER + DYN_TICKS];
    buf[44..60].copy_from_slice(&bitmap.to_le_bytes()); // start_tick_index stays 0
    buf[DYN_HEADER..].copy_from_slice(&ticks);
    let arr: &mut MemoryMappedDynamicTickArray = unsafe { &mut *(buf.as_mut_ptr() as *mut MemoryMappedDynamicTickArray) };

    let k: usize = kani::any();
    kani::assume(k < 88);
    let update = PinoTickUpdate {
        initialized: kani::any(), liquidity_net: kani::any(), liquidity_gross: kani::any(),
        fee_growth_outside_a: kani::any(), fee_growth_outside_b: kani::any(),
        reward_growths_outside: [kani::any(), kani::any(), kani::any()],
    };
    let r = arr.update_tick(k as i32, 1, &update);
    assert!(r.is_ok());

    // post-state
    let new_bitmap = u128::from_le_bytes([buf[44], buf[45], buf[46], buf[47], buf[48], buf[49], buf[50], buf[51], buf[52], buf[53], buf[54], buf[55], buf[56], buf[57], buf[58], buf[59]]);
    let expect_bitmap = if update.initialized { bitmap | (1u128 << k) } else { bitmap & !(1u128 << k) };
    assert!(new_bitmap == expect_bitmap);
    let offs2 = dyn_offsets(new_bitmap);
    let t = &buf[DYN_HEADER..];
    // slot k holds the update
    if update.initialized {
        assert!(t[offs2[k]] == 1);
        let view = arr_tick(&buf, offs2[k]);
        assert!(view.0 == update.liquidity_net && view.1 == update.liquidity_gross && view.2 == update.fee_growth_outside_a && view.3 == update.fee_growth_outside_b);
        assert!(view.4 == update.reward_growths_outside);
    } else {
        assert!(t[offs2[k]] == 0);
    }
    // every other slot (one arbitrary witness j) keeps its tag and, if initialized, its 112 data bytes, at its new offset
    let j: usize = kani::any();
    kani::assume(j < 88 && j != k);
    assert!(t[offs2[j]] == ((bitmap >> j) & 1) as u8);
    if (bitmap >> j) & 1 == 1 {
        let mut b = 0;
        while b < 113 {
            assert!(t[offs2[j] + b] == ticks[offs[j] + b]);
            b += 1;
        }
    }
}

/// little-endian fields of the 113-byte tick record at `off` of the ticks region
fn arr_tick(buf: &[u8; DYN_HEADER + DYN_TICKS], off: usize) -> (i128, u128, u128, u128, [u128; 3]) {
    let b = DYN_HEADER + off + 1;
    let rd = |p: usize| -> u128 {
        let mut v: u128 = 0;
        let mut i = 0;
        while i < 16 { v |= (buf[p + i] as u128) << (8 * i); i += 1; }
        v
    };
    (rd(b) as i128, rd(b + 16), rd(b + 32), rd(b + 48), [rd(b + 64), rd(b + 80), rd(b + 96)])
}
