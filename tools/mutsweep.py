#!/usr/bin/env python3
"""dev helper (not a registered check): line-level WIRING mutants (a<->b, lower<->upper, one<->two, input<->output, min<->max) of given source files,
each verified against one generated crate; prints the survivors (mutants for which every obligation still verifies).
usage: tools/mutsweep.py <crate> <file relative to programs/whirlpool/src>... [--jobs N] [--from L --to L]"""
import os, re, sys, json, shutil, subprocess, concurrent.futures as cf
VERIF = os.path.dirname(os.path.dirname(os.path.abspath(__file__)))
SRC = "/repo/programs/whirlpool/src"
PAIRS = [("_a", "_b"), ("lower", "upper"), ("_one", "_two"), ("input", "output"), ("_min", "_max"), ("a_to_b", "!a_to_b"), ("is_input", "!is_input")]

def mutants(path):
    lines = open(os.path.join(SRC, path)).read().split("\n")
    intest = False
    for i, l in enumerate(lines):
        if "#[cfg(test)]" in l:
            break
        s = l.strip()
        if not s or s.startswith("//") or s.startswith("#[") or s.startswith("use ") or s.startswith("pub ") and s.endswith(","):
            continue
        for (x, y) in PAIRS:
            for (p, q) in ((x, y), (y, x)):
                if p.startswith("!"):
                    continue
                for m in re.finditer(re.escape(p) + r"\b", l):
                    if q.startswith("!") and l[max(0, m.start() - 1):m.start()] == "!":
                        continue
                    nl = l[:m.start()] + q + l[m.end():]
                    if nl != l:
                        yield (i, l, nl)

def run_one(args):
    k, crate, path, i, l, nl = args
    root = f"/tmp/ms_{os.getpid()}_{k}"
    shutil.rmtree(root, ignore_errors=True)
    os.makedirs(root + "/programs/whirlpool")
    shutil.copytree(SRC, root + "/programs/whirlpool/src")
    f = os.path.join(root, "programs/whirlpool/src", path)
    lines = open(f).read().split("\n")
    lines[i] = nl
    open(f, "w").write("\n".join(lines))
    work = root + "/work"
    env = dict(os.environ, VERIF_REPO=root)
    r = subprocess.run(["python3", os.path.join(VERIF, "tools/vx.py"), "try", work, crate], capture_output=True, text=True, env=env, cwd=VERIF)
    if r.returncode != 0:
        shutil.rmtree(root, ignore_errors=True)
        return (path, i + 1, nl.strip(), "gen-fail")
    subprocess.run("verus gen.rs --output-json --time --error-format=json --multiple-errors 2 > out.json 2> err.txt", shell=True, cwd=work)
    verdict = "undecided"
    try:
        o = json.load(open(work + "/out.json"))
        mods = o.get("times-ms", {}).get("smt", {}).get("smt-run-module-times")
        if not mods:
            verdict = "compile-error"
        else:
            real = [f["function"] for m in mods for f in m["function-breakdown"] if not f["success"] and "reach_canary_" not in f["function"]]
            vac = [f["function"].split("::")[-1] for m in mods for f in m["function-breakdown"] if f["success"] and "reach_canary_" in f["function"]]
            # a reachability canary that verifies: the mutated function can no longer succeed (the check reports undecided: liveness, not a property violation)
            verdict = "KILLED " + ",".join(x.split("::")[-1] for x in real[:3]) if real else ("VACUOUS " + ",".join(vac[:2]) if vac else "SURVIVED")
    except Exception as e:
        verdict = "undecided " + str(e)[:60]
    shutil.rmtree(root, ignore_errors=True)
    return (path, i + 1, nl.strip(), verdict)

if __name__ == "__main__":
    a = sys.argv[1:]
    jobs = 5
    if "--jobs" in a:
        jobs = int(a[a.index("--jobs") + 1]); del a[a.index("--jobs"):a.index("--jobs") + 2]
    crate, files = a[0], a[1:]
    tasks, k = [], 0
    for p in files:
        for (i, l, nl) in mutants(p):
            tasks.append((k, crate, p, i, l, nl)); k += 1
    print(f"{len(tasks)} mutants", flush=True)
    with cf.ThreadPoolExecutor(max_workers=jobs) as ex:
        for res in ex.map(run_one, tasks):
            if not res[3].startswith("KILLED") and res[3] not in ("compile-error", "gen-fail"):
                print(res, flush=True)
            elif "--all" in sys.argv:
                print(res, flush=True)
    print("done", flush=True)
