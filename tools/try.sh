#!/bin/sh
# dev helper: tools/try.sh <frag>...  -> generate + verify in .work/try, print rc and diagnostics
cd /verif && python3 tools/vx.py try .work/try "$@" || exit 2
cd .work/try && verus gen.rs --output-json --time --multiple-errors 6 ${VARGS} > out.json 2> err.txt; rc=$?
echo "verus rc=$rc  $(python3 -c "import json;o=json.load(open('out.json'));print(o.get('verification-results'))" 2>/dev/null)"
grep -c "Internal Verus Error\|panicked" err.txt | sed 's/^/ICE lines: /'
grep -A${CTX:-14} "^error" err.txt | head -${LINES_MAX:-120}
