#!/usr/bin/env python3
"""vx: mechanical extractor that turns spec fragments (Verus text with //@ directives)
plus the CURRENT text of /repo into one single-file Verus crate.

Bodies of functions are copied byte-for-byte from the repository; the fragment only
supplies contract headers, loop clauses, ghost injections and (logged) rewrites.
See DESIGN.md section 3.1.
"""
import hashlib
import json
import os
import re
import sys

REPO = os.environ.get("VERIF_REPO", "/repo")
VERIF = os.path.dirname(os.path.dirname(os.path.abspath(__file__)))
FRAG_DIR = os.path.join(VERIF, "specs", "frag")


class Undecided(Exception):
    """Anchor lost / pattern not found / malformed fragment: exit 2, never an alarm."""


# --------------------------------------------------------------------------------------
# Rust text scanning
# --------------------------------------------------------------------------------------
_CHAR_RE = re.compile(r"'(\\(x[0-9a-fA-F]{2}|u\{[0-9a-fA-F_]+\}|.)|[^\\'\n])'")


def code_mask(src):
    """Same-length copy of src where comments and string/char literal contents are blanks."""
    out = list(src)
    i, n = 0, len(src)
    while i < n:
        c = src[i]
        if src.startswith("//", i):
            j = src.find("\n", i)
            j = n if j < 0 else j
            for k in range(i, j):
                out[k] = " "
            i = j
        elif src.startswith("/*", i):
            depth, j = 1, i + 2
            while j < n and depth:
                if src.startswith("/*", j):
                    depth += 1
                    j += 2
                elif src.startswith("*/", j):
                    depth -= 1
                    j += 2
                else:
                    j += 1
            for k in range(i, j):
                if out[k] != "\n":
                    out[k] = " "
            i = j
        elif c == '"' or (c == "r" and re.match(r'r#*"', src[i:i + 8]) and not (i > 0 and (src[i - 1].isalnum() or src[i - 1] == "_"))):
            if c == "r":
                m = re.match(r'r(#*)"', src[i:])
                hashes = m.group(1)
                end = src.find('"' + hashes, i + len(m.group(0)))
                j = n if end < 0 else end + 1 + len(hashes)
                for k in range(i + len(m.group(0)), j - 1 - len(hashes)):
                    if out[k] != "\n":
                        out[k] = " "
                i = j
            else:
                j = i + 1
                while j < n and src[j] != '"':
                    if src[j] == "\\":
                        j += 1
                    j += 1
                for k in range(i + 1, min(j, n)):
                    if out[k] != "\n":
                        out[k] = " "
                i = j + 1
        elif c == "'":
            m = _CHAR_RE.match(src, i)
            if m:
                for k in range(i + 1, m.end() - 1):
                    out[k] = " "
                i = m.end()
            else:
                i += 1
        else:
            i += 1
    return "".join(out)


def match_brace(mask, open_idx):
    """index just after the brace matching mask[open_idx] == '{'"""
    assert mask[open_idx] == "{", mask[open_idx:open_idx + 20]
    d = 0
    for k in range(open_idx, len(mask)):
        ch = mask[k]
        if ch == "{":
            d += 1
        elif ch == "}":
            d -= 1
            if d == 0:
                return k + 1
    raise Undecided("unbalanced braces")


def depth_at(mask, idx, start=0, base=0):
    d = base
    for k in range(start, idx):
        ch = mask[k]
        if ch == "{":
            d += 1
        elif ch == "}":
            d -= 1
    return d


def line_of(src, idx):
    return src.count("\n", 0, idx) + 1


class Source:
    _cache = {}

    def __init__(self, rel):
        self.rel = rel
        self.path = os.path.join(REPO, rel)
        if not os.path.isfile(self.path):
            raise Undecided(f"source file missing: {rel}")
        self.text = open(self.path, encoding="utf-8").read()
        self.mask = code_mask(self.text)

    @classmethod
    def get(cls, rel):
        if rel not in cls._cache:
            cls._cache[rel] = Source(rel)
        return cls._cache[rel]

    def item_start(self, idx):
        """extend idx (start of a line holding an item) upwards over attributes and doc comments"""
        b = self.text.rfind("\n", 0, idx) + 1
        while b > 0:
            pl = self.text.rfind("\n", 0, b - 1) + 1
            line = self.text[pl:b].strip()
            if line.startswith("#[") or line.startswith("///") or line.startswith("//!"):
                b = pl
            else:
                break
        return b

    def find_block(self, header_re, lo=0, hi=None, want_depth=None):
        """find an item whose header matches header_re (searched on the mask); returns (start_with_attrs, open_brace or None, end)"""
        hi = len(self.text) if hi is None else hi
        base_depth = depth_at(self.mask, lo)
        for m in re.finditer(header_re, self.mask[lo:hi], re.M):
            i = lo + m.start()
            if want_depth is not None and depth_at(self.mask, i, lo, 0) != want_depth:
                continue
            # header extends to first '{' or ';' at paren depth 0
            j, dp = i, 0
            while j < hi:
                ch = self.mask[j]
                if ch in "([":
                    dp += 1
                elif ch in ")]":
                    dp -= 1
                elif ch == "{" and dp == 0:
                    return (self.item_start(i), j, match_brace(self.mask, j))
                elif ch == ";" and dp == 0:
                    return (self.item_start(i), None, j + 1)
                j += 1
        return None


# --------------------------------------------------------------------------------------
# attribute filtering (rule R6)
# --------------------------------------------------------------------------------------
KEEP_DERIVES = {"Clone", "Copy", "PartialEq", "Eq", "Debug", "PartialOrd", "Ord"}
DROP_ATTR_RE = re.compile(
    r"^\s*#\[(account|zero_copy|repr|error_code|msg|inline|allow|cfg_attr|constant|must_use|event|doc|deprecated|access_control|instruction|cold|default|non_exhaustive)\b")


def split_top(text):
    """split at commas outside any bracket"""
    parts, d, cur = [], 0, ""
    for ch in text:
        if ch in "([{":
            d += 1
        elif ch in ")]}":
            d -= 1
        if ch == "," and d == 0:
            parts.append(cur)
            cur = ""
        else:
            cur += ch
    if cur.strip():
        parts.append(cur)
    return parts


def _join_multiline_attrs(lines):
    """an attribute whose brackets close on a later line (`#[instruction(\n a: u64,\n)]`) becomes one logical line"""
    out, i = [], 0
    while i < len(lines):
        ln = lines[i]
        if re.match(r"^\s*#\[", ln) and ln.count("[") + ln.count("(") > ln.count("]") + ln.count(")"):
            j, acc = i, ln
            while j + 1 < len(lines) and acc.count("[") + acc.count("(") > acc.count("]") + acc.count(")"):
                j += 1
                acc = acc.rstrip() + " " + lines[j].strip()
            out.append(acc)
            i = j + 1
        else:
            out.append(ln)
            i += 1
    return out


def filter_attr_lines(lines, log):
    out = []
    for ln in _join_multiline_attrs(lines):
        s = ln.strip()
        if s.startswith("///") or s.startswith("//!"):
            continue
        if re.match(r"^\s*#\[(zero_copy|account\(zero_copy)", ln):
            # anchor's zero_copy expands to #[derive(Copy, Clone)] #[repr(..)] + bytemuck impls
            log.append(f"R6 replace `{s}` by #[derive(Clone, Copy)]")
            out.append(re.match(r"^\s*", ln).group(0) + "#[derive(Clone, Copy)]")
            continue
        if re.match(r"^\s*#\[error_code\]", ln):
            # anchor's #[error_code] derives Debug/Clone/Copy (+ the numeric conversions, which are not modelled)
            log.append(f"R6 replace `{s}` by #[derive(Debug, Clone, Copy)]")
            out.append(re.match(r"^\s*", ln).group(0) + "#[derive(Debug, Clone, Copy)]")
            continue
        if re.match(r"^\s*#\[account\]", ln):
            # anchor's #[account] derives AnchorSerialize/AnchorDeserialize/Clone and the discriminator impls
            log.append(f"R6 replace `{s}` by #[derive(Clone)]")
            out.append(re.match(r"^\s*", ln).group(0) + "#[derive(Clone)]")
            continue
        if DROP_ATTR_RE.match(ln):
            log.append(f"R6 drop attribute `{s}`")
            continue
        m = re.match(r"^(\s*)#\[derive\(([^)]*)\)\]\s*$", ln)
        if m:
            names = [x.strip() for x in m.group(2).split(",") if x.strip()]
            keep = [x for x in names if x.split("::")[-1] in KEEP_DERIVES and x.split("::")[-1] != "Debug"]
            dropped = [x for x in names if x not in keep]
            if dropped:
                log.append(f"R6 drop derives {dropped}")
            if keep:
                out.append(f"{m.group(1)}#[derive({', '.join(keep)})]")
            continue
        out.append(ln)
    return out


# --------------------------------------------------------------------------------------
# generated output with a source map
# --------------------------------------------------------------------------------------
class Out:
    def __init__(self):
        self.lines = []  # (text, origin, tags, fnname)

    def emit(self, text, origin, tags, fn=None):
        for k, ln in enumerate(text.split("\n")):
            o = origin
            if origin and origin[0] == "repo":
                o = ("repo", origin[1], origin[2] + k)
            elif origin and origin[0] == "tpl":
                o = ("tpl", origin[1], origin[2] + k)
            self.lines.append((ln, o, tags, fn))

    def text(self):
        return "\n".join(l[0] for l in self.lines) + "\n"


def parse_directive(line):
    """'//@ fn a/b.rs name in=/impl X \\{/ -> r tags=C01,C02 stub' -> (cmd, [tokens])"""
    body = line.strip()[3:].strip()
    toks = []
    i = 0
    while i < len(body):
        if body[i].isspace():
            i += 1
            continue
        m = re.match(r"(\w+=)?/((?:[^/\\]|\\.)*)/", body[i:])
        if m and (m.group(1) or body[i] == "/"):
            toks.append((m.group(1) or "") + "/" + m.group(2) + "/")
            i += m.end()
            continue
        j = i
        while j < len(body) and not body[j].isspace():
            j += 1
        toks.append(body[i:j])
        i = j
    return toks[0] if toks else "", toks[1:]


def rx(tok):
    assert tok.startswith("/") and tok.endswith("/"), tok
    return tok[1:-1]


class Gen:
    def __init__(self, crate_name):
        self.crate = crate_name
        self.out = Out()
        self.log = []          # rewrite / drop log (trusted base)
        self.functions = []    # dicts: name, file, lines, sha, tags, stub, gen_start, gen_end
        self.root = "programs/whirlpool/src"
        self.tags = []
        self.frags_done = []
        self.substs = []
        self.assumptions = []  # free-text assumptions declared by fragments
        self.stubs = []

    # ---- fragment handling ----
    def frag_path(self, name):
        return os.path.join(FRAG_DIR, name + ".rs")

    def frag_needs(self, name):
        p = self.frag_path(name)
        if not os.path.isfile(p):
            raise Undecided(f"fragment missing: {name}")
        needs = []
        for ln in open(p):
            if ln.startswith("//@ needs"):
                needs += ln.split()[2:]
        return needs

    def add_fragment(self, name, stub=False):
        base = name
        if name.endswith("(stub)"):
            base, stub = name[:-6], True
        if base in [f for f, _ in self.frags_done]:
            return
        for dep in self.frag_needs(base):
            self.add_fragment(dep, stub=False if not dep.endswith("(stub)") else True)
        self.frags_done.append((base, stub))
        self._expand(base, stub)

    def _expand(self, name, stub_all):
        path = self.frag_path(name)
        lines = open(path, encoding="utf-8").read().split("\n")
        self.tags = []
        self.substs = []
        self.root = "programs/whirlpool/src"
        i = 0
        rel_tpl = os.path.relpath(path, VERIF)
        while i < len(lines):
            ln = lines[i]
            if not ln.lstrip().startswith("//@"):
                self.out.emit(ln, ("tpl", rel_tpl, i + 1), list(self.tags))
                i += 1
                continue
            cmd, toks = parse_directive(ln)
            if cmd in ("needs",):
                pass
            elif cmd == "root":
                self.root = toks[0]
                if self.root.startswith("glob:"):
                    import glob as _g
                    hits = sorted(_g.glob(os.path.expanduser(self.root[5:])))
                    if not hits:
                        raise Undecided(f"dependency source not found: {self.root}")
                    self.root = hits[0]
                    self.log.append(f"note: dependency source root {self.root}")
            elif cmd == "tags":
                self.tags = [t for t in toks]
            elif cmd == "subst":
                # fragment-wide logged rewrite applied to every function body extracted after this line
                self.substs.append((rx(toks[0]), rx(toks[2])))
            elif cmd == "assume":
                self.assumptions.append(" ".join(toks))
            elif cmd in ("const", "static"):
                src = Source.get(os.path.join(self.root, toks[0]))
                mkpub = "pub" in toks[1:]
                dosubst = "subst" in toks[1:]  # the fragment-wide substitutions apply to this item's text as well (logged)
                for nm in toks[1:]:
                    if nm in ("pub", "subst"):
                        continue
                    self._emit_item(src, r"^\s*(pub(\([a-z]+\))?\s+)?(const|static)\s+" + re.escape(nm) + r"\b", name, mkpub, dosubst)
            elif cmd in ("struct", "enum", "trait"):
                src = Source.get(os.path.join(self.root, toks[0]))
                mkpub = "pub" in toks[1:]
                for nm in toks[1:]:
                    if nm == "pub":
                        continue
                    self._emit_item(src, r"^\s*(pub(\([a-z]+\))?\s+)?" + cmd + r"\s+" + re.escape(nm) + r"\b", name, mkpub)
            elif cmd == "pubkey":
                # //@ pubkey <file> NAME...  : `pub const NAME: Pubkey = pubkey!("<base58>")` of the repository becomes the same constant with its 32 decoded bytes
                src = Source.get(os.path.join(self.root, toks[0]))
                for nm in toks[1:]:
                    m = re.search(r"pub const " + re.escape(nm) + r"\s*:\s*Pubkey\s*=\s*pubkey!\(\"([1-9A-HJ-NP-Za-km-z]+)\"\);", src.text)
                    if not m:
                        raise Undecided(f"lost anchor: pubkey constant {nm} not found in {src.rel}")
                    alphabet = "123456789ABCDEFGHJKLMNPQRSTUVWXYZabcdefghijkmnopqrstuvwxyz"
                    n = 0
                    for ch in m.group(1):
                        n = n * 58 + alphabet.index(ch)
                    raw = n.to_bytes(32, "big") if n.bit_length() <= 256 else None
                    if raw is None:
                        raise Undecided(f"pubkey constant {nm}: not a 32-byte key")
                    self.out.emit(f"pub const {nm}: Pubkey = Pubkey([" + ", ".join(str(b) for b in raw) + "]);", ("repo", src.rel, line_of(src.text, m.start())), list(self.tags))
                    self.log.append(f"PUBKEY {src.rel}::{nm} = base58 {m.group(1)} decoded to 32 bytes")
                    self.functions.append(dict(kind="item", name=nm, file=src.rel, lines=[line_of(src.text, m.start())] * 2,
                                               sha=hashlib.sha256(m.group(0).encode()).hexdigest()[:16], tags=list(self.tags)))
            elif cmd == "discriminants":
                # //@ discriminants <file> <Enum> <spec_fn_name> <int type>: D1 - the number -> variant table of a #[repr(uN)] fieldless enum, generated from the
                # declaration order (implicit discriminants count up from the previous one, explicit `= <int literal>` is honoured); the
                # TryFromPrimitive / `as` conversions are trusted to follow exactly this table
                src = Source.get(os.path.join(self.root, toks[0]))
                ename, fname, ity = toks[1], toks[2], (toks[3] if len(toks) > 3 else "u16")
                r = src.find_block(r"^\s*(pub(\([a-z]+\))?\s+)?enum\s+" + re.escape(ename) + r"\b")
                if r is None or r[1] is None:
                    raise Undecided(f"lost anchor: enum {ename} not found in {src.rel}")
                b, ob, e = r
                bodym = src.mask[ob + 1:e - 1]
                nxt, rows = 0, []
                for part in split_top(bodym):
                    part = " ".join(l for l in part.split("\n") if not l.strip().startswith("#[")).strip()
                    part = re.sub(r"#\[[^\]]*\]", "", part).strip()
                    if not part:
                        continue
                    mv = re.fullmatch(r"(\w+)(?:\s*=\s*(\d[\d_]*))?", part)
                    if not mv:
                        raise Undecided(f"enum {ename} in {src.rel}: variant `{part[:40]}` is outside the D1 subset (fieldless, integer-literal discriminants)")
                    if mv.group(2):
                        nxt = int(mv.group(2).replace("_", ""))
                    rows.append((nxt, mv.group(1)))
                    nxt += 1
                ref = ("repo", src.rel, line_of(src.text, b))
                self.out.emit(f"/// generated (D1) from the declaration of enum {ename} in {src.rel}: discriminant -> variant", None, list(self.tags))
                self.out.emit(f"pub open spec fn {fname}(n: {ity}) -> Option<{ename}> {{", ref, list(self.tags))
                for (k, v) in rows:
                    self.out.emit(f"    if n == {k} {{ Some({ename}::{v}) }} else", ref, list(self.tags))
                self.out.emit("    { None }", None, list(self.tags))
                self.out.emit("}", None, list(self.tags))
                self.log.append(f"D1 {fname}: {len(rows)} discriminants of {src.rel}::{ename} tabulated from its declaration")
                self.functions.append(dict(kind="item", name=fname, file=src.rel, lines=[line_of(src.text, b), line_of(src.text, e - 1)],
                                           sha=hashlib.sha256(src.text[b:e].encode()).hexdigest()[:16], tags=list(self.tags)))
            elif cmd == "constraints":
                # //@ constraints <file> <Struct> [method:<name> ...]
                src = Source.get(os.path.join(self.root, toks[0]))
                self._freefns = [t.split(":", 1)[1] for t in toks[2:] if t.startswith("fn:")]
                self._emit_constraints(src, toks[1], [t.split(":", 1)[1] for t in toks[2:] if t.startswith("method:")])
            elif cmd == "item":
                src = Source.get(os.path.join(self.root, toks[0]))
                self._emit_item(src, rx(toks[1]), name)
            elif cmd == "seg":
                # //@ seg <file> <fn> from=/re/ to=/re/   followed by the hand-written signature + contract, then //@ end
                j = i + 1
                block = []
                while j < len(lines) and not lines[j].strip().startswith("//@ end"):
                    block.append((j + 1, lines[j]))
                    j += 1
                self._emit_seg(toks, block, rel_tpl, i + 1)
                i = j
            elif cmd == "segcheck":
                self._seg_check(toks, rel_tpl, i + 1)
            elif cmd == "fn":
                # collect sub-block until //@ end
                j = i + 1
                block = []
                while j < len(lines) and not lines[j].strip().startswith("//@ end"):
                    block.append((j + 1, lines[j]))
                    j += 1
                if j >= len(lines):
                    raise Undecided(f"{rel_tpl}:{i+1}: //@ fn without //@ end")
                self._emit_fn(toks, block, rel_tpl, i + 1, stub_all)
                i = j
            else:
                raise Undecided(f"{rel_tpl}:{i+1}: unknown directive {cmd}")
            i += 1

    def _emit_item(self, src, header_re, fragname, mkpub=False, dosubst=False):
        r = src.find_block(header_re)
        if r is None:
            raise Undecided(f"lost anchor: item /{header_re}/ not found in {src.rel}")
        b, ob, e = r
        text = src.text[b:e]
        text_out = text
        if dosubst:
            for (pat, rep) in getattr(self, "substs", []):
                t2, nsub = re.subn(pat, rep, text_out)
                if nsub:
                    self.log.append(f"SUBST in item {src.rel} /{header_re}/: /{pat}/ => /{rep}/ x{nsub}")
                    text_out = t2
        lines = text_out.split("\n")
        # split leading attribute lines from the rest, filter only attributes anywhere in item
        lines = filter_attr_lines(lines, self.log)
        if mkpub:
            # visibility only: a private constant made nameable from pub open spec functions (logged)
            for i, l in enumerate(lines):
                if re.match(r"\s*(const|static|enum|struct)\s", l):
                    lines[i] = re.sub(r"^(\s*)(const|static|enum|struct)", r"\1pub \2", l)
                    self.log.append(f"VIS {src.rel}: private item made pub in the generated crate: {l.strip()[:60]}")
                    break
        self.out.emit("\n".join(lines), ("repo", src.rel, line_of(src.text, b)), list(self.tags))
        self.functions.append(dict(kind="item", name=header_re, file=src.rel,
                                   lines=[line_of(src.text, b), line_of(src.text, e - 1)],
                                   sha=hashlib.sha256(text.encode()).hexdigest()[:16], tags=list(self.tags)))

    def _emit_constraints(self, src, sname, methods):
        """K-rules: the #[account(..)] attributes of a #[derive(Accounts)] struct become one spec predicate constraints_<Struct>(a, <instruction args>).
        Translated (K1..K3): has_one = x  ->  a.F.data.x == a.x.skey();  address = E / constraint = E where E is built from  F.key() / F.key,
        F.field (account data), F.method(..) for whitelisted methods (-> a.F.data.method_spec(..)), indexing `[i as usize]`, instruction arguments and
        the operators == != ! && ||.  Everything else (mut, init, payer, space, seeds, bump, close, token::*, mint::*, associated_token::*, owner,
        expressions naming constants or to_account_info()) is NOT translated and is listed in the log and in the assumption entry."""
        r = src.find_block(r"^\s*pub struct " + re.escape(sname) + r"\b")
        if r is None or r[1] is None:
            raise Undecided(f"lost anchor: accounts struct {sname} not found in {src.rel}")
        b, ob, e = r
        dv = src.text.rfind("#[derive(Accounts)]", 0, ob)
        if dv < 0 or src.mask[dv:b].count("{"):
            raise Undecided(f"lost anchor: #[derive(Accounts)] of {sname} not found in {src.rel}")
        b = min(b, dv)
        head = src.text[b:ob]  # from the derive on: a multi-line #[instruction(..)] is not part of the item start the line scanner finds
        body, bmask = src.text[ob + 1:e - 1], src.mask[ob + 1:e - 1]
        # instruction arguments
        args = []
        mi = re.search(r"#\[instruction\(", head)
        if mi:
            j, d = mi.end(), 1
            while d:
                d += head[j] in "([" and 1 or 0
                d -= head[j] in ")]" and 1 or 0
                j += 1
            for part in split_top(head[mi.end():j - 1]):
                part = " ".join(part.split())
                if part:
                    nm, ty = [x.strip() for x in part.split(":", 1)]
                    args.append((nm, ty))
        # fields and their account attributes
        fields, pend, i = [], [], 0
        while i < len(body):
            if bmask.startswith("#[", i):
                j, d = i + 2, 1
                while d:
                    d += bmask[j] in "([" and 1 or 0
                    d -= bmask[j] in ")]" and 1 or 0
                    j += 1
                at = body[i:j]
                am = re.match(r"#\[account\((.*)\)\]$", at, re.S)
                if am:
                    # comments and string contents blanked (mask): translatable clauses contain neither
                    raw = "\n".join(re.sub(r"//.*$", "", ln) for ln in body[i + len("#[account("):j - 2].split("\n"))
                    pend.append((bmask[i + len("#[account("):j - 2], raw))
                i = j
                continue
            fm = re.match(r"pub\s+(\w+)\s*:", bmask[i:])
            if fm:
                j, d = i + fm.end(), 0
                while j < len(bmask) and not (bmask[j] == "," and d == 0):
                    d += bmask[j] in "(<[" and 1 or 0
                    d -= bmask[j] in ")>]" and 1 or 0
                    j += 1
                fields.append((fm.group(1), body[i + fm.end():j].strip(), pend))
                pend = []
                i = j + 1
                continue
            i += 1
        fnames = {f for f, _, _ in fields}
        anames = {a for a, _ in args}
        clauses, skipped, used_args = [], [], set()

        def tr(expr):
            x = " ".join(expr.split())
            # K4: `*F.to_account_info().owner` (the program owning account F) -> a.F.sowner()
            x = re.sub(r"\*(\w+)\.to_account_info\(\)\.owner\b", lambda m: f"a.{m.group(1)}.sowner()" if m.group(1) in fnames else m.group(0), x)
            if "to_account_info" in x or "::" in x:
                return None
            for w in anames:
                if re.search(r"(?<![\w.])" + re.escape(w) + r"\b", x):
                    used_args.add(w)
            x = re.sub(r"\b(\w+)\.key\(\)", lambda m: f"a.{m.group(1)}.skey()" if m.group(1) in fnames else m.group(0), x)
            x = re.sub(r"(?<![\w.])(\w+)\.key\b(?!\()", lambda m: f"a.{m.group(1)}.skey()" if m.group(1) in fnames else m.group(0), x)
            def meth(m):
                if m.group(1) in fnames and m.group(2) in methods:
                    return f"a.{m.group(1)}.data.{m.group(2)}_spec({m.group(3)})"
                return m.group(0)
            x = re.sub(r"(?<![\w.])(\w+)\.(\w+)\(([^()]*)\)", meth, x)
            x = re.sub(r"(?<![\w.])(\w+)\.(?!skey\(\)|data\.)(\w+)\b(?!\()", lambda m: f"a.{m.group(1)}.data.{m.group(2)}" if m.group(1) in fnames else m.group(0), x)
            x = re.sub(r"\[(\w+) as usize\]", r"[\1 as int]", x)
            # K7: a whitelisted free function `f(args)` of the crate -> f_spec(args) (the real f is extracted and proved equal to f_spec)
            for ff in getattr(self, "_freefns", []):
                x = re.sub(r"(?<![\w.])" + re.escape(ff) + r"\(", ff + "_spec(", x)
            # anything left that is a call other than skey() / *_spec(..), or a bare identifier that is neither a parameter nor a literal: untranslatable
            chk = re.sub(r"a\.\w+\.s(key|owner)\(\)", "K", x)
            chk = re.sub(r"a\.\w+\.data\.\w+_spec\(", "K(", chk)
            for ff in getattr(self, "_freefns", []):
                chk = re.sub(r"(?<![\w.])" + re.escape(ff) + r"_spec\(", "K(", chk)
            chk = re.sub(r"a\.\w+\.data(\.\w+|\[\w+ as int\])+", "K", chk)
            for idm in re.finditer(r"(?<![\w.])([A-Za-z_]\w*)\b", chk):
                w = idm.group(1)
                if w in ("K", "as", "int", "true", "false"):
                    continue
                if w in anames:
                    used_args.add(w)
                    continue
                return None
            if re.search(r"[*&](?![&])", chk.replace("&&", "")):
                return None
            return x

        for (fname, fty, attrs) in fields:
            if re.match(r"(Box<)?Signer<", fty):
                # K5: a field of type Signer<'info> is checked by Anchor to have signed the transaction
                clauses.append((fname, "type Signer<'info>", f"a.{fname}.info.is_signer"))
            for (atext, araw) in attrs:
                raw_clauses = split_top(araw) if araw is not None else []
                for ci, cl in enumerate(split_top(atext)):
                    c = " ".join(cl.split())
                    c = re.sub(r"^//[^\n]*", "", c).strip()
                    if not c:
                        continue
                    c0 = c
                    c = re.split(r"\s@\s", c, 1)[0].strip()
                    k = re.split(r"\s*=\s*", c, 1)
                    key, val = k[0], (k[1] if len(k) > 1 else None)
                    out = None
                    if key == "has_one" and val and re.fullmatch(r"\w+", val) and val in fnames:
                        out = f"a.{fname}.data.{val} == a.{val}.skey()"
                    elif key == "address" and val:
                        t = tr(val)
                        out = f"a.{fname}.skey() == {t}" if t else None
                    elif key == "constraint" and val:
                        out = tr(val)
                    elif key == "seeds" and val and ci < len(raw_clauses):
                        # K6: `seeds = [e1, e2, ..]` (with `bump`): the account's address is the program-derived address of these seeds
                        rawval = re.split(r"\s*=\s*", " ".join(raw_clauses[ci].split()), 1)
                        rawval = rawval[1] if len(rawval) > 1 else ""
                        mseed = re.fullmatch(r"\[(.*)\]", rawval.strip(), re.S)
                        parts, okp = [], bool(mseed)
                        for se in (split_top(mseed.group(1)) if mseed else []):
                            se = se.strip()
                            if not se:
                                continue
                            m1 = re.fullmatch(r'b"([^"\\]*)"(?:\.as_ref\(\))?', se)
                            m2 = re.fullmatch(r"(\w+)\.key\(\)\.as_ref\(\)", se)
                            m3 = re.fullmatch(r"(\w+)\.(\w+)(?:\.key\(\))?\.as_ref\(\)", se)
                            m4 = re.fullmatch(r"(\w+)\.to_le_bytes\(\)\.as_ref\(\)", se)
                            m5 = re.fullmatch(r"(\w+)\.(\w+)\.to_le_bytes\(\)\.as_ref\(\)", se)
                            m6 = re.fullmatch(r"(\w+)\.to_string\(\)\.as_bytes\(\)", se)
                            if m1:
                                parts.append("crate::anchor_shim::Seed::Lit(0x" + (m1.group(1).encode().hex() or "0") + "int)")
                            elif m2 and m2.group(1) in fnames:
                                parts.append(f"crate::anchor_shim::Seed::Key(a.{m2.group(1)}.skey())")
                            elif m3 and m3.group(1) in fnames and m3.group(2) != "key":
                                parts.append(f"crate::anchor_shim::Seed::Key(a.{m3.group(1)}.data.{m3.group(2)})")
                            elif m4 and m4.group(1) in anames:
                                used_args.add(m4.group(1)); parts.append(f"crate::anchor_shim::Seed::Le({m4.group(1)} as int)")
                            elif m5 and m5.group(1) in fnames:
                                parts.append(f"crate::anchor_shim::Seed::Le(a.{m5.group(1)}.data.{m5.group(2)} as int)")
                            elif m6 and m6.group(1) in anames:
                                used_args.add(m6.group(1)); parts.append(f"crate::anchor_shim::Seed::Dec({m6.group(1)} as int)")
                            else:
                                okp = False
                        if okp and parts:
                            out = f"a.{fname}.skey() == crate::anchor_shim::pda_of(seq![" + ", ".join(parts) + "])"
                            c0 = " ".join(raw_clauses[ci].split())
                    if out:
                        clauses.append((fname, c0, out))
                    elif key not in ("mut", "signer", "bump"):
                        skipped.append(f"{fname}: {c0}")
        used = [(a, t) for (a, t) in args if a in used_args]
        params = "".join(f", {a}: {t}" for a, t in used)
        o = self.out
        ref = ("repo", src.rel, line_of(src.text, b))
        o.emit(f"/// generated (K-rules) from the #[account(..)] attributes of {sname} in {src.rel}: the clauses derive(Accounts) enforces before the handler body runs", None, list(self.tags))
        o.emit(f"pub open spec fn constraints_{sname}(a: &{sname}{params}) -> bool {{", ref, list(self.tags))
        for (fname, c0, out) in clauses:
            o.emit(f"    &&& ({out}) // {fname}: {c0}", ref, list(self.tags))
        o.emit("    &&& true", None, list(self.tags))
        o.emit("}", None, list(self.tags))
        self.log.append(f"K constraints_{sname}: {len(clauses)} clause(s) translated; not translated: " + ("; ".join(skipped) if skipped else "none"))
        self.assumptions.append(f"Anchor derive(Accounts) enforces every #[account(..)] clause of {sname} before the handler runs; the translated clauses are the precondition constraints_{sname} "
                                f"({len(clauses)} clause(s)); clauses outside the translated subset, never used as an assumption: " + ("; ".join(skipped) if skipped else "none"))
        txt = src.text[b:e]
        self.functions.append(dict(kind="item", name=f"constraints_{sname}", file=src.rel, lines=[line_of(src.text, b), line_of(src.text, e - 1)],
                                   sha=hashlib.sha256(txt.encode()).hexdigest()[:16], tags=list(self.tags)))

    def _emit_fn(self, toks, block, rel_tpl, tpl_line, stub_all):
        rel = os.path.join(self.root, toks[0])
        name = toks[1]
        opts = toks[2:]
        binder = None
        in_re = None
        tags = list(self.tags)
        stub = stub_all
        nodec = False
        make_pub = False
        rename = None
        want_canary = False
        k = 0
        while k < len(opts):
            o = opts[k]
            if o == "->":
                binder = opts[k + 1]
                k += 1
            elif o.startswith("in="):
                in_re = rx(o[3:])
            elif o.startswith("tags="):
                tags = o[5:].split(",")
            elif o == "stub":
                stub = True
            elif o == "nostub":
                stub = False
            elif o == "nodec":
                nodec = True
            elif o == "pub":
                make_pub = True
            elif o.startswith("as="):
                rename = o[3:]
            elif o == "canary":
                want_canary = True
            else:
                raise Undecided(f"{rel_tpl}:{tpl_line}: bad option {o}")
            k += 1
        src = Source.get(rel)
        lo, hi, want = 0, len(src.text), 0
        if in_re:
            r = src.find_block(in_re, want_depth=None)
            if r is None or r[1] is None:
                raise Undecided(f"lost anchor: block /{in_re}/ not found in {rel}")
            lo, hi = r[1] + 1, r[2] - 1
            want = 0
        r = None
        for m in re.finditer(r"\bfn\s+" + re.escape(name) + r"\b", src.mask[lo:hi]):
            idx = lo + m.start()
            if depth_at(src.mask, idx, lo, 0) == want:
                ls = src.text.rfind("\n", 0, idx) + 1
                r = src.find_block(r"\bfn\s+" + re.escape(name) + r"\b", lo=ls, hi=hi)
                break
        if r is None:
            raise Undecided(f"lost anchor: fn {name} not found in {rel}" + (f" within /{in_re}/" if in_re else ""))
        b, ob, e = r
        full = src.text[b:e]
        sha = hashlib.sha256(full.encode()).hexdigest()[:16]
        l0 = line_of(src.text, b)
        # --- split attrs / signature / body
        fn_kw = src.mask.find("fn", b, e)
        m = re.search(r"\bfn\s+" + re.escape(name) + r"\b", src.mask[b:e])
        sig_start_line = src.text.rfind("\n", 0, b + m.start()) + 1
        attr_text = src.text[b:sig_start_line]
        sig = src.text[sig_start_line:(ob if ob is not None else e - 1)]
        sig_mask = src.mask[sig_start_line:(ob if ob is not None else e - 1)]
        body = src.text[ob:e] if ob is not None else None
        body_mask = src.mask[ob:e] if ob is not None else None
        attrs = filter_attr_lines([x for x in attr_text.split("\n") if x.strip()], self.log)
        # --- parse the contract block
        self._ghostparam = None
        contract, loops, injects, rewrites = self._parse_block(block, rel_tpl)
        # --- signature: name the result
        sig_out = sig
        if self._ghostparam:
            mm = re.search(r"\bfn\s+" + re.escape(name) + r"\b", sig_mask)
            po = sig_mask.find("(", mm.end())
            d, pc = 0, None
            for ix in range(po, len(sig_mask)):
                if sig_mask[ix] == "(":
                    d += 1
                elif sig_mask[ix] == ")":
                    d -= 1
                    if d == 0:
                        pc = ix
                        break
            if pc is None:
                raise Undecided(f"{rel_tpl}:{tpl_line}: cannot find the parameter list of {name}")
            inner = sig[po + 1:pc].rstrip()
            sep = "" if (not inner.strip() or inner.endswith(",")) else ","
            sig = sig[:po + 1] + inner + sep + " " + self._ghostparam + sig[pc:]
            sig_mask = sig_mask[:po + 1] + sig_mask[po + 1:po + 1 + len(inner)] + " " * (len(sep) + 1 + len(self._ghostparam)) + sig_mask[pc:]
            sig_out = sig
            self.log.append(f"G1 ghost parameter `{self._ghostparam}` appended to the signature of {rel}::{name} (state-passing model of the account heap)")
        if binder:
            sig_out = self._bind_result(sig, sig_mask, binder, name, rel)
        if make_pub and not re.match(r"\s*pub\b", sig_out):
            sig_out = re.sub(r"^(\s*)", r"\1pub ", sig_out, count=1)
            self.log.append(f"note: visibility of {rel}::{name} widened to pub (module layout of the generated crate)")
        if rename:
            sig_out = re.sub(r"\bfn\s+" + re.escape(name) + r"\b", "fn " + rename, sig_out, count=1)
        # R4: `_` parameters
        def r4(mo):
            self.log.append(f"R4 rename `_` parameter in {rel}::{name}")
            return mo.group(1) + "_unused_param" + mo.group(2)
        sig_out = re.sub(r"([(,]\s*)_(\s*:)", r4, sig_out)
        gen_start = len(self.out.lines) + 1
        fnname = name if not rename else rename
        o = self.out
        if stub and body is not None:
            o.emit("#[verifier::external_body]", None, tags, fnname)
        elif nodec:
            o.emit("#[verifier::exec_allows_no_decreases_clause]", None, tags, fnname)
        for a in attrs:
            o.emit(a, None, tags, fnname)
        o.emit(sig_out.rstrip(), ("repo", src.rel, line_of(src.text, sig_start_line)), tags, fnname)
        for (tl, tx, ctags) in self._contract_with_tags(contract, tags):
            o.emit(tx, ("tpl", rel_tpl, tl), ctags, fnname)
        if body is None:
            o.emit(";", None, tags, fnname)
        elif stub:
            o.emit("{ unimplemented!() }", None, tags, fnname)
            self.stubs.append(f"{rel}::{name}")
        else:
            self._emit_body(src, ob, body, body_mask, loops, injects, rewrites, rel_tpl, tags, fnname, rel, name)
        self.functions.append(dict(kind="fn", name=fnname, file=src.rel, lines=[l0, line_of(src.text, e - 1)], sha=sha,
                                   tags=tags, stub=bool(stub and body is not None), nodec=nodec,
                                   gen_start=gen_start, gen_end=len(self.out.lines),
                                   has_contract=any(t.strip() for _, t in contract)))
        if want_canary and body is not None and not stub and binder and re.search(r"->\s*\(\w+:\s*(core::result::|std::result::)?Result<", sig_out):
            # reachability canary (vacuity guard): the SAME body with the same requires, loop clauses, ghost injections and rewrites, but with the contract
            # `ensures <binder> is Err` ("never succeeds"); tools/run.py demands that exactly this postcondition fails
            cname = "reach_canary_" + fnname
            ctext = "\n".join(tx for _, tx in contract)
            km = re.search(r"\bensures\b", ctext)
            req = (ctext[:km.start()] if km else ctext).rstrip()
            sig_c = re.sub(r"\bfn\s+" + re.escape(fnname) + r"\b", "fn " + cname, sig_out, count=1)
            if nodec:
                o.emit("#[verifier::exec_allows_no_decreases_clause]", None, tags, cname)
            for a in attrs:
                o.emit(a, None, tags, cname)
            o.emit(sig_c.rstrip(), ("repo", src.rel, line_of(src.text, sig_start_line)), tags, cname)
            if req.strip():
                o.emit(req, ("tpl", rel_tpl, tpl_line), tags, cname)
            o.emit(f"    ensures {binder} is Err,", ("tpl", rel_tpl, tpl_line), tags, cname)
            self._emit_body(src, ob, body, body_mask, loops, injects, rewrites, rel_tpl, tags, cname, rel, name)

    def _parse_block(self, block, rel_tpl):
        """contract lines and the sub-directives (loop / inject / rewrite*) of a //@ fn or //@ seg block"""
        contract, loops, injects, rewrites = [], {}, [], []
        cur = ("contract", None)
        for (tl, tx) in block:
            s = tx.strip()
            if s.startswith("//@"):
                c, t = parse_directive(tx)
                if c == "loop":
                    cur = ("loop", int(t[0]))
                    loops[cur[1]] = []
                elif c == "inject":
                    pos = t[0]
                    occ = int(t[2]) if len(t) > 2 else 1
                    cur = ("inject", len(injects))
                    injects.append(dict(pos=pos, re=rx(t[1]), occ=occ, text=[], tl=tl))
                elif c == "rewrite_rev":
                    cnt = int(t[0]) if t else 1
                    rewrites.append(dict(pat=r"for (\w+) in \(([^()]*?)\.\.([^()]*(?:\(\))?[^()]*?)\)\.rev\(\) \{",
                                         rep=r"let mut \1_rev: usize = \3; while \1_rev > \2 { \1_rev = \1_rev - 1; let \1 = \1_rev;",
                                         count=cnt, tl=tl))
                    cur = ("none", None)
                elif c in ("rewrite_for", "rewrite_enum", "rewrite_enum_mut", "rewrite_iter_mut", "rewrite_iter", "rewrite_iter_mut_ref"):
                    cnt = int(t[0]) if t else 1
                    pats = {
                        # R1/R2/R3: Verus has no Enumerate/IterMut specs and no `continue` in for-loops; index-based while loops are equivalent
                        "rewrite_for": (r"for (\w+) in ([\w.()]+)\.\.([\w.() +\-]+?) \{",
                                        r"let mut \1_it: usize = \2; while \1_it < \3 { let \1 = \1_it; \1_it = \1_it + 1;"),
                        "rewrite_enum": (r"for \((\w+), (\w+)\) in ([\w.]+)\.iter\(\)\.enumerate\(\) \{",
                                         r"let mut \1_it: usize = 0; while \1_it < \3.len() { let \1 = \1_it; \1_it = \1_it + 1; let \2 = &\3[\1];"),
                        "rewrite_enum_mut": (r"for \((\w+), (\w+)\) in ([\w.]+)\.iter_mut\(\)\.enumerate\(\) \{",
                                             r"let mut \1_it: usize = 0; while \1_it < \3.len() { let \1 = \1_it; \1_it = \1_it + 1; let \2 = &mut \3[\1];"),
                        "rewrite_iter_mut": (r"for (\w+) in ([\w.]+)\.iter_mut\(\) \{",
                                             r"let mut \1_it: usize = 0; while \1_it < \2.len() { let \1_ix = \1_it; \1_it = \1_it + 1; let \1 = &mut \2[\1_ix];"),
                        "rewrite_iter_mut_ref": (r"for (\w+) in &mut ([\w.]+) \{",
                                             r"let mut \1_it: usize = 0; while \1_it < \2.len() { let \1_ix = \1_it; \1_it = \1_it + 1; let \1 = &mut \2[\1_ix];"),
                        "rewrite_iter": (r"for (\w+) in ([\w.]+)\.iter\(\) \{",
                                         r"let mut \1_it: usize = 0; while \1_it < \2.len() { let \1_ix = \1_it; \1_it = \1_it + 1; let \1 = &\2[\1_ix];"),
                    }
                    rewrites.append(dict(pat=pats[c][0], rep=pats[c][1], count=cnt, tl=tl))
                    cur = ("none", None)
                elif c == "ghostparam":
                    # //@ ghostparam <param text>: one more (ghost/tracked) parameter appended to the signature - the state-passing model of
                    # interior mutability (the account heap the real code reaches through raw pointers); logged
                    self._ghostparam = tx.strip()[len("//@ ghostparam"):].strip()
                elif c == "rewrite":
                    # //@ rewrite /pattern/ => /replacement/ [count]
                    cnt = int(t[3]) if len(t) > 3 else 1
                    rewrites.append(dict(pat=rx(t[0]), rep=rx(t[2]), count=cnt, tl=tl))
                    cur = ("none", None)
                else:
                    raise Undecided(f"{rel_tpl}:{tl}: unknown sub-directive {c}")
            elif cur[0] == "contract":
                contract.append((tl, tx))
            elif cur[0] == "loop":
                loops[cur[1]].append((tl, tx))
            elif cur[0] == "inject":
                injects[cur[1]]["text"].append((tl, tx))

        return contract, loops, injects, rewrites

    def _locate_fn(self, rel, name, in_re=None):
        src = Source.get(rel)
        lo, hi = 0, len(src.text)
        if in_re:
            r = src.find_block(in_re)
            if r is None or r[1] is None:
                raise Undecided(f"lost anchor: block /{in_re}/ not found in {rel}")
            lo, hi = r[1] + 1, r[2] - 1
        for m in re.finditer(r"\bfn\s+" + re.escape(name) + r"\b", src.mask[lo:hi]):
            idx = lo + m.start()
            if depth_at(src.mask, idx, lo, 0) == 0:
                ls = src.text.rfind("\n", 0, idx) + 1
                r = src.find_block(r"\bfn\s+" + re.escape(name) + r"\b", lo=ls, hi=hi)
                if r and r[1] is not None:
                    return src, r
        raise Undecided(f"lost anchor: fn {name} not found in {rel}")

    def _emit_seg(self, toks, block, rel_tpl, tpl_line):
        """A contiguous run of statements of a straight-line function body, wrapped as its own function
        `fn seg(..., ratio_in) -> ratio_out { let mut <var> = <var>_in; <statements verbatim> <var> }` so that a long
        function can be verified piecewise (SMT time was exponential in the chain length). //@ segcheck proves the
        declared segments tile the body without gap or overlap."""
        rel = os.path.join(self.root, toks[0])
        name = toks[1]
        opts = dict(t.split("=", 1) for t in toks[2:] if "=" in t)
        src, (b, ob, e) = self._locate_fn(rel, name, rx(opts["in"]) if "in" in opts else None)
        body = src.text[ob + 1:e - 1]
        mask = src.mask[ob + 1:e - 1]
        m0 = re.search(rx(opts["from"]), mask, re.M)
        to_end = opts["to"] == "END"
        m1 = None if to_end else re.search(rx(opts["to"]), mask, re.M)
        if not m0 or (not m1 and not to_end):
            raise Undecided(f"lost anchor: segment anchors in {rel}::{name} ({rel_tpl}:{tpl_line})")
        s0 = body.rfind("\n", 0, m0.start()) + 1
        s1 = len(body) if to_end else body.rfind("\n", 0, m1.start()) + 1
        if s1 <= s0:
            raise Undecided(f"segment anchors out of order in {rel}::{name} ({rel_tpl}:{tpl_line})")
        seg = body[s0:s1]
        var = opts.get("var", "ratio")
        proof_lines = []
        if any(tx.strip().startswith("//@ proof") for (_, tx) in block):
            k = next(i for i, (_, tx) in enumerate(block) if tx.strip().startswith("//@ proof"))
            proof_lines = block[k + 1:]
            block = block[:k]
            check_ghost_only(proof_lines, rel_tpl)
        contract, loops, injects, rewrites = self._parse_block(block, rel_tpl)
        header = [tx for (_, tx) in contract]
        sig_name = re.search(r"fn\s+(\w+)", "\n".join(header)).group(1)
        tags = list(self.tags)
        gen_start = len(self.out.lines) + 1
        for (tl, tx, ctags) in self._contract_with_tags(contract, tags):
            self.out.emit(tx, ("tpl", rel_tpl, tl), ctags, sig_name)
        ret = opts.get("ret")  # ret=<expr without spaces>: the segment reads only its parameters and yields this expression (no threaded variable)
        base_line = line_of(src.text, ob + 1 + s0)
        if loops or injects or rewrites:
            # a segment with loops / ghost injections / logged rewrites goes through the same body assembler as a whole function
            tail = f"    {ret}\n" if ret else ("" if to_end else f"    {var}\n")
            head = "" if (ret and "var" not in opts) else f"    let mut {var} = {var}_in;\n"
            if proof_lines:
                head += "\n".join(tx for (_, tx) in proof_lines) + "\n"
            wrapped = "{\n" + head + seg.rstrip("\n") + "\n" + tail + "}"
            self._emit_body(src, ob + 1 + s0, wrapped, code_mask(wrapped), loops, injects, rewrites, rel_tpl, tags, sig_name, rel, name + "::" + sig_name)
        else:
            self.out.emit("{", None, tags, sig_name)
            if not ret or "var" in opts:
                self.out.emit(f"    let mut {var} = {var}_in;", None, tags, sig_name)
            for (tl, tx) in proof_lines:
                self.out.emit(tx, ("tpl", rel_tpl, tl), tags, sig_name)
            self.out.emit(seg.rstrip("\n"), ("repo", src.rel, base_line), tags, sig_name)
            if ret:
                self.out.emit(f"    {ret}", None, tags, sig_name)
            elif not to_end:
                self.out.emit(f"    {var}", None, tags, sig_name)
            self.out.emit("}", None, tags, sig_name)
        self.segments = getattr(self, "segments", {})
        self.segments.setdefault((rel, name), []).append((s0, s1, sig_name))
        self.functions.append(dict(kind="fn", name=sig_name, file=src.rel, lines=[base_line, base_line + seg.count("\n")],
                                   sha=hashlib.sha256(seg.encode()).hexdigest()[:16], tags=tags, stub=False, nodec=False,
                                   gen_start=gen_start, gen_end=len(self.out.lines), has_contract=True, segment_of=name))

    def _seg_check(self, toks, rel_tpl, tpl_line):
        rel = os.path.join(self.root, toks[0])
        name = toks[1]
        segs = sorted(getattr(self, "segments", {}).get((rel, name), []))
        if not segs:
            raise Undecided(f"{rel_tpl}:{tpl_line}: no segments declared for {name}")
        for (a, b) in zip(segs, segs[1:]):
            if a[1] != b[0]:
                raise Undecided(f"segments {a[2]} and {b[2]} of {rel}::{name} do not tile the body (gap or overlap)")
        sopts = dict(t.split("=", 1) for t in toks[2:] if "=" in t)
        src, (b0, ob, e) = self._locate_fn(rel, name, rx(sopts["in"]) if "in" in sopts else None)
        body = src.text[ob + 1:e - 1]
        pre = " ".join(body[:segs[0][0]].split())
        post = " ".join(body[segs[-1][1]:].split())
        self.log.append(f"SEGMENTS of {rel}::{name}: {[s[2] for s in segs]} tile the body; prefix=`{pre[:200]}` suffix=`{post[:120]}` (sequential composition of the segment contracts is the assumed step)")

    def _contract_with_tags(self, contract, tags):
        """per-clause attribution: a `//# Cxx` mark at the END of a clause that spans several lines covers all of its lines (a clause ends with the
        line whose code part ends in a comma; Verus reports a failed multi-line clause at its FIRST line)"""
        out, group = [], []
        for (tl, tx) in contract:
            group.append((tl, tx))
            code = re.sub(r"//.*$", "", tx).rstrip()
            if code.endswith(",") or re.search(r"//#", tx) or not code.strip():
                gt = None
                for (_, t2) in group:
                    if re.search(r"//#\s*([A-Z0-9 ,]+)\s*$", t2):
                        gt = self._clause_tags(t2, tags)
                for (l2, t2) in group:
                    out.append((l2, t2, gt if gt is not None else self._clause_tags(t2, tags)))
                group = []
        for (l2, t2) in group:
            out.append((l2, t2, self._clause_tags(t2, tags)))
        return out

    @staticmethod
    def _clause_tags(tx, tags):
        m = re.search(r"//#\s*([A-Z0-9 ,]+)\s*$", tx)
        if m:
            return [t for t in re.split(r"[ ,]+", m.group(1).strip()) if t]
        return tags

    def _bind_result(self, sig, sig_mask, binder, name, rel):
        # find param list
        m = re.search(r"\bfn\s+" + re.escape(name) + r"\b", sig_mask)
        i = m.end()
        # skip generics
        n = len(sig_mask)
        while i < n and sig_mask[i].isspace():
            i += 1
        if i < n and sig_mask[i] == "<":
            d = 0
            while i < n:
                if sig_mask[i] == "<":
                    d += 1
                elif sig_mask[i] == ">" and sig_mask[i - 1] != "-":
                    d -= 1
                    if d == 0:
                        i += 1
                        break
                i += 1
        while i < n and sig_mask[i] != "(":
            i += 1
        d = 0
        while i < n:
            if sig_mask[i] == "(":
                d += 1
            elif sig_mask[i] == ")":
                d -= 1
                if d == 0:
                    i += 1
                    break
            i += 1
        rest_mask = sig_mask[i:]
        am = re.match(r"\s*->\s*", rest_mask)
        if not am:
            raise Undecided(f"{rel}::{name}: result binder requested but function returns ()")
        ts = i + am.end()
        wm = re.search(r"\bwhere\b", sig_mask[ts:])
        te = ts + wm.start() if wm else n
        ty = sig[ts:te].rstrip()
        tail = sig[te:] if wm else ""
        trailing_ws = sig[ts:te][len(ty):]
        return sig[:ts] + f"({binder}: {ty})" + trailing_ws + tail

    def _emit_body(self, src, ob, body, body_mask, loops, injects, rewrites, rel_tpl, tags, fnname, rel, name):
        # fragment-wide substitutions (std calls Verus cannot specify -> shim functions with assumed contracts)
        for (pat, rep) in getattr(self, "substs", []):
            body2, nsub = re.subn(pat, rep, body)
            if nsub:
                self.log.append(f"SUBST in {rel}::{name}: /{pat}/ => /{rep}/ x{nsub}")
                body = body2
                body_mask = code_mask(body)
        # logged rewrites (rules R1..R8) are applied to the repo text first
        for rw in rewrites:
            body2, nsub = re.subn(rw["pat"], rw["rep"].replace("\\n", "\n"), body)
            if nsub != rw["count"]:
                raise Undecided(f"lost anchor: rewrite /{rw['pat']}/ expected {rw['count']} got {nsub} in {rel}::{name} ({rel_tpl}:{rw['tl']})")
            if body2.count("\n") != body.count("\n"):
                self.log.append(f"note: rewrite in {rel}::{name} changes the line count; source map approximate below it")
            body = body2
            self.log.append(f"REWRITE in {rel}::{name}: /{rw['pat']}/ => /{rw['rep']}/ x{nsub}")
        if rewrites:
            body_mask = code_mask(body)
        # insertion points: list of (offset_in_body, text, origin)
        ins = []
        # loops
        loop_heads = []
        for m in re.finditer(r"\b(while|for|loop)\b", body_mask):
            if m.group(1) == "for" and re.match(r"\s*<", body_mask[m.end():]):
                continue
            j, dp = m.end(), 0
            while j < len(body_mask):
                ch = body_mask[j]
                if ch in "([":
                    dp += 1
                elif ch in ")]":
                    dp -= 1
                elif ch == "{" and dp == 0:
                    break
                j += 1
            loop_heads.append(j)
        for idx, clauses in loops.items():
            if idx >= len(loop_heads):
                raise Undecided(f"lost anchor: loop #{idx} of {rel}::{name} (found {len(loop_heads)} loops)")
            for (tl, tx) in clauses:
                ins.append((loop_heads[idx], 0, "\n" + tx, ("tpl", rel_tpl, tl)))
            ins.append((loop_heads[idx], 1, "\n", None))
        for inj in injects:
            ms = list(re.finditer(inj["re"], body_mask, re.M))
            if len(ms) < inj["occ"]:
                raise Undecided(f"lost anchor: inject /{inj['re']}/ #{inj['occ']} in {rel}::{name} ({rel_tpl}:{inj['tl']})")
            mo = ms[inj["occ"] - 1]
            if inj["pos"] == "before":
                at = body.rfind("\n", 0, mo.start()) + 1
            elif inj["pos"] == "after":
                at = body.find("\n", mo.end())
                at = len(body) if at < 0 else at + 1
            elif inj["pos"] == "at":
                at = mo.end()
            else:
                raise Undecided(f"{rel_tpl}:{inj['tl']}: bad inject position")
            check_ghost_only(inj["text"], rel_tpl)
            for q, (tl, tx) in enumerate(inj["text"]):
                ins.append((at, q, tx + "\n", ("tpl", rel_tpl, tl)))
        ins.sort(key=lambda t: (t[0], t[1]))
        # assemble segments
        segs = []
        pos = 0
        base_line = line_of(src.text, ob)
        for (at, _, tx, origin) in ins:
            if at > pos:
                segs.append((body[pos:at], ("repo", src.rel, base_line + body.count("\n", 0, pos))))
                pos = at
            segs.append((tx, origin))
        segs.append((body[pos:], ("repo", src.rel, base_line + body.count("\n", 0, pos))))
        # emit line by line, merging segments
        cur_text, cur_origin = "", None
        for (tx, origin) in segs:
            parts = tx.split("\n")
            for pi, part in enumerate(parts):
                if pi > 0:
                    self.out.emit(cur_text, cur_origin, self._clause_tags(cur_text, tags) if (cur_origin and cur_origin[0] == "tpl") else tags, fnname)
                    cur_text, cur_origin = "", None
                    if origin and origin[0] in ("repo", "tpl") and origin[0] == "repo":
                        origin = ("repo", origin[1], origin[2] + 1)
                if part.strip() and cur_origin is None:
                    cur_origin = origin
                cur_text += part
        self.out.emit(cur_text, cur_origin, self._clause_tags(cur_text, tags) if (cur_origin and cur_origin[0] == "tpl") else tags, fnname)


GHOST_PREFIX = re.compile(r"^(proof\s*\{|let ghost |let tracked |assert\(|assert |broadcast use |reveal\(|$)")


def check_ghost_only(lines, rel_tpl):
    """Injected text must be ghost code: every statement that starts at brace depth 0 of the injection
    has to begin with proof{ / let ghost / assert / broadcast use / reveal. Inside `proof { }` Verus' own
    mode checker rejects executable code, so nothing injected can change what the function computes."""
    depth = 0
    for (tl, tx) in lines:
        m = code_mask(tx)
        st = m.strip()
        if depth == 0 and not GHOST_PREFIX.match(st):
            raise Undecided(f"{rel_tpl}:{tl}: injected text is not ghost-only: `{tx.strip()}`")
        depth += m.count("{") - m.count("}")
        depth += m.count("(") - m.count(")")
    if depth != 0:
        raise Undecided(f"{rel_tpl}:{lines[0][0]}: unbalanced injected block")


HEADER = """// GENERATED by /verif/tools/vx.py from the current working tree of {repo}; do not edit.
// crate: {crate}
#![allow(unused_imports, dead_code, unused_variables, unused_mut, unused_parens, unused_assignments, non_snake_case, unreachable_code, unused_braces, non_camel_case_types, non_upper_case_globals)]
use vstd::prelude::*;
verus! {{
"""
FOOTER = """
} // verus!
fn main() {}
"""


def generate(crate_name, frags, outdir):
    g = Gen(crate_name)
    g.out.emit(HEADER.format(repo=REPO, crate=crate_name).rstrip("\n"), None, [])
    for f in frags:
        g.add_fragment(f)
    g.out.emit(FOOTER.rstrip("\n"), None, [])
    os.makedirs(outdir, exist_ok=True)
    gen_path = os.path.join(outdir, "gen.rs")
    with open(gen_path, "w") as fh:
        fh.write(g.out.text())
    meta = dict(
        crate=crate_name,
        fragments=[{"name": n, "stub": s} for n, s in g.frags_done],
        functions=g.functions,
        log=g.log,
        stubs=g.stubs,
        assumptions=g.assumptions,
        map=[[o, t] for (_, o, t, _) in g.out.lines],
        fn_of_line=[f for (_, _, _, f) in g.out.lines],
    )
    with open(os.path.join(outdir, "gen.meta.json"), "w") as fh:
        json.dump(meta, fh)
    return gen_path, meta


if __name__ == "__main__":
    # vx.py <crate-name> <outdir> frag...
    try:
        p, meta = generate(sys.argv[1], sys.argv[3:], sys.argv[2])
        print(p, len(meta["functions"]), "items")
    except Undecided as e:
        print("UNDECIDED:", e)
        sys.exit(2)
