#!/bin/sh
# usage: tools/seedtest.sh <seed-dir-name> <prop>...   applies /verif/seeded/<name>/patch.diff to /repo, runs the checks (evidence redirected), reverts.
set -e
N="$1"; shift
cd /repo && git apply /verif/seeded/$N/patch.diff
trap 'git -C /repo checkout -- . ' EXIT
for p in "$@"; do
  VERIF_WORK=/tmp/seed_work VERIF_EVIDENCE_DIR=/tmp/seed_ev VERIF_REPLAYS=/tmp/seed_rp /verif/check $p | grep -v "^  failed" || true
done
rm -rf /tmp/seed_work
