#!/usr/bin/env python3
"""Runs Kani harnesses that live in /verif/kani/*.rs and are compiled INSIDE the real whirlpool crate (hook: cfg(kani) modules in
programs/whirlpool/src/lib.rs and pinocchio/mod.rs). Every harness here is loop-free or closed by unwinding assertions over fully
symbolic inputs, i.e. complete for its statement; harnesses listed in BOUNDED are labelled bounded and never counted as proof."""
import os
import re
import subprocess
import time

REPO = os.environ.get("VERIF_REPO", "/repo")
VERIF = os.path.dirname(os.path.dirname(os.path.abspath(__file__)))
BOUNDED = set()


def run(pid, harnesses, outdir):
    os.makedirs(outdir, exist_ok=True)
    target = os.path.join(VERIF, ".work", "kani-target")
    env = dict(os.environ, CARGO_NET_OFFLINE="true")
    results = []
    manifest = os.path.join(REPO, "Cargo.toml")
    if not os.path.isfile(manifest):
        # mutation self-tests run on a source-only copy of the repository: Kani needs the whole workspace
        return [dict(harness=h, status="undecided", reason="no Cargo workspace at VERIF_REPO", checks=0, checks_ok=0, cmd="") for h in harnesses]
    def one(h):
        cmd = ["cargo", "kani", "-p", "whirlpool", "--harness", h, "--target-dir", target]
        t0 = time.time()
        try:
            p = subprocess.run(cmd, cwd=REPO, env=env, capture_output=True, text=True, timeout=3000)
            out = p.stdout + "\n" + p.stderr
        except subprocess.TimeoutExpired:
            return dict(harness=h, status="undecided", reason="kani timeout", checks=0, checks_ok=0, cmd=" ".join(cmd))
        open(os.path.join(outdir, h + ".log"), "w").write(out)
        wall = time.time() - t0
        r = dict(harness=h, cmd="(cd /repo && CARGO_NET_OFFLINE=true " + " ".join(cmd) + ")", wall_s=round(wall, 1), bounded=h in BOUNDED,
                 trusted=[f"[kani] harness {h}: Kani 0.68 / CBMC 6.11 bit-precise model of rustc MIR; unwinding assertions on"])
        m = re.search(r"\*\* (\d+) of (\d+) failed", out)
        vt = re.search(r"Verification Time: ([0-9.]+)s", out)
        r["solver_s"] = float(vt.group(1)) if vt else None
        if "VERIFICATION:- SUCCESSFUL" in out and m and int(m.group(1)) == 0:
            r.update(status="ok", checks=int(m.group(2)), checks_ok=int(m.group(2)))
        elif "VERIFICATION:- FAILED" in out and m:
            failed = re.findall(r"Failed Checks: (.*)", out)
            unwinding = "unwinding assertion" in " ".join(failed) and all("unwinding" in f for f in failed)
            if unwinding:
                r.update(status="undecided", reason="unwinding bound too small: " + "; ".join(failed[:3]), checks=int(m.group(2)), checks_ok=0)
            else:
                r.update(status="fail", checks=int(m.group(2)), checks_ok=int(m.group(2)) - int(m.group(1)),
                         failed_desc="; ".join(failed[:5]), output_tail=out[-3000:])
        else:
            errs = [l for l in out.split("\n") if l.startswith("error")]
            r.update(status="undecided", reason="kani did not produce a verdict (build error or tool failure): " + "; ".join(errs[:3]), checks=0, checks_ok=0)
        return r
    # the first harness runs alone (it builds the crate under cargo's lock); the others then run concurrently on the warm target directory
    import concurrent.futures as cf
    hs = list(harnesses)
    if hs:
        results.append(one(hs[0]))
    if len(hs) > 1:
        with cf.ThreadPoolExecutor(max_workers=min(6, len(hs) - 1)) as ex:
            results += list(ex.map(one, hs[1:]))
    return results


if __name__ == "__main__":
    import json
    import sys
    print(json.dumps(run("X", sys.argv[1:], "/tmp/kani_out"), indent=1))
