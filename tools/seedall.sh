#!/bin/sh
# regression over all stored seeded changes: every property listed in meta.detected_by must raise a VIOLATION on the change; prints a table.
# Works on a scratch worktree (VERIF_REPO) so that /repo stays untouched; Kani harnesses (C12/C13 layout) still compile /repo itself and are
# therefore skipped here (VERIF_NO_KANI=1) - seeds that only Kani detects are re-run with tools/seedtest.sh.
W=${SEED_WT:-/tmp/seedrepo}
git -C /repo worktree remove --force $W 2>/dev/null
git -C /repo worktree add -q --detach $W HEAD || exit 2
cd /verif
for d in seeded/*/; do
  n=$(basename $d)
  if [ -n "$SEED_FILTER" ] && ! echo "$n" | grep -Eq "$SEED_FILTER"; then continue; fi
  [ -f $d/meta.json ] || { echo "$n: no meta.json"; continue; }
  props=$(python3 -c "import json,re;m=json.load(open('$d/meta.json'));print(' '.join(dict.fromkeys(re.findall(r'C[0-9][0-9]', ' '.join(m.get('detected_by') or [m['property']])))))")
  git -C $W apply /verif/$d/patch.diff || { echo "$n: patch does not apply"; continue; }
  for p in $props; do
    out=$(VERIF_REPO=$W VERIF_NO_KANI=1 VERIF_WORK=/tmp/seedall_work VERIF_EVIDENCE_DIR=/tmp/seedall_ev VERIF_REPLAYS=/tmp/seedall_rp ./check $p 2>&1)
    rc=$?
    echo "$n $p rc=$rc $(echo "$out" | grep -c '^VIOLATION') violation-lines"
  done
  git -C $W checkout -q -- .
done
git -C /repo worktree remove --force $W
rm -rf /tmp/seedall_work /tmp/seedall_ev /tmp/seedall_rp
