#!/bin/sh
# regression over all stored seeded changes: every property listed in meta.detected_by must raise a VIOLATION on the change; prints a table
cd /verif
for d in seeded/*/; do
  n=$(basename $d)
  props=$(python3 -c "import json,re;m=json.load(open('$d/meta.json'));print(' '.join(dict.fromkeys(re.findall(r'C[0-9][0-9]', ' '.join(m.get('detected_by') or [m['property']])))))")
  cd /repo && git apply /verif/$d/patch.diff || { echo "$n: patch does not apply"; cd /verif; continue; }
  cd /verif
  for p in $props; do
    out=$(VERIF_WORK=/tmp/seed_work VERIF_EVIDENCE_DIR=/tmp/seed_ev VERIF_REPLAYS=/tmp/seed_rp ./check $p 2>&1)
    rc=$?
    echo "$n $p rc=$rc $(echo "$out" | grep -c '^VIOLATION') violation-lines"
  done
  git -C /repo checkout -- .
done
rm -rf /tmp/seed_work
