#!/usr/bin/env python3
"""dev helper: tools/try2.py <frag>...  -> generate + verify in .work/try; prints REAL failures (with rendered text) and the state of the reachability canaries"""
import json, re, sys, subprocess, os
os.chdir(os.path.dirname(os.path.dirname(os.path.abspath(__file__))))
r = subprocess.run(['python3', 'tools/vx.py', 'try', '.work/try'] + sys.argv[1:], capture_output=True, text=True)
if r.returncode != 0:
    print('GEN FAIL', r.stdout[-600:], r.stderr[-600:]); sys.exit(2)
subprocess.run('cd .work/try && verus gen.rs --output-json --time --error-format=json --multiple-errors 4 > out.json 2> err.txt', shell=True)
try:
    o = json.load(open('.work/try/out.json'))
except Exception:
    print('NO JSON'); print(open('.work/try/err.txt').read()[-1500:]); sys.exit(2)
gen = open('.work/try/gen.rs').read().split('\n')
fails = {}
hard = []
for ln in open('.work/try/err.txt'):
    ln = ln.strip()
    if not ln.startswith('{'):
        continue
    try:
        d = json.loads(ln)
    except Exception:
        continue
    if d.get('level') != 'error':
        continue
    if not d.get('spans'):
        if 'aborting' not in d['message']:
            hard.append(d['message'])
        continue
    sp = [s for s in d['spans'] if s.get('is_primary')] or d['spans']
    L = sp[0]['line_start']; fn = None
    for k in range(L - 1, -1, -1):
        m = re.search(r'\bfn\s+(\w+)', gen[k])
        if m:
            fn = m.group(1); break
    fails.setdefault(fn, []).append((d['message'], gen[L - 1].strip()[:80], d.get('rendered', '')))
vr = o.get('verification-results', {})
print('verus:', {k: vr.get(k) for k in ('verified', 'errors', 'success')})
if 'times-ms' not in o or not o['times-ms'].get('smt', {}).get('smt-run-module-times'):
    for fn, ms in fails.items():
        for m in ms[:3]:
            print('ERROR in', fn, ':', m[0]); print(m[2][:1200])
    for h in hard[:5]:
        print('ERROR:', h)
    sys.exit(1)
can, bad, real = 0, [], []
for m in o['times-ms']['smt']['smt-run-module-times']:
    for f in m['function-breakdown']:
        n = f['function'].split('::')[-1]
        if n.startswith('reach_canary_'):
            can += 1
            if f['success']:
                bad.append(n + ' VERIFIED (vacuous!)')
            elif not any('postcondition' in a and 'is Err' in b for a, b, _ in fails.get(n, [])):
                bad.append(n + ' fails elsewhere: ' + str([(a, b) for a, b, _ in fails.get(n, [])][:2]))
        elif not f['success']:
            real.append(n)
print('canaries:', can, 'bad:', bad)
print('REAL FAILURES:', real)
lim = int(os.environ.get('MAXERR', '4'))
for n in real[:lim]:
    for m in fails.get(n, [])[:3]:
        print('---', n, ':', m[0]); print(m[2][:int(os.environ.get('CTXCH', '1500'))])
