#!/usr/bin/env python3
"""Regenerates /verif/MANIFEST.json from specs/props.json (single source of truth)."""
import json, os
V = os.path.dirname(os.path.dirname(os.path.abspath(__file__)))
P = json.load(open(os.path.join(V, "specs", "props.json")))
checks = []
for pid, d in sorted(P["properties"].items()):
    checks.append({
        "property_id": pid,
        "quick_cmd": f"./check {pid} --tier quick",
        "thorough_cmd": f"./check {pid} --tier thorough",
        "evidence_file": f"/verif/evidence/{pid}.json",
        "replay_cmd_template": f"./check {pid} --replay {{path}}",
        "engine": d.get("engine", "verus"),
        "level_claimed": {"category": "proof", "text": d.get("level_text", ""), "design_ref": d.get("design_ref", "DESIGN.md section 5")},
        "level_note": d.get("level_note", ""),
        "technique": d.get("technique", "contract-based deductive verification (Verus requires/ensures/invariant on functions extracted from /repo on every run)"),
    })
m = {
    "version": 1,
    "setup_cmd": P.get("setup_cmd", "true"),
    "hooks": P["hooks"],
    "engines": P.get("engines", []),
    "checks": checks,
    "notes": P.get("notes", ""),
    "not_applicable": P.get("not_applicable", []),
}
json.dump(m, open(os.path.join(V, "MANIFEST.json"), "w"), indent=1)
print("MANIFEST.json:", len(checks), "checks,", len(m["not_applicable"]), "not applicable")
