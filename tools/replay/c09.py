#!/usr/bin/env python3
"""C09 replay: evaluates the property's clauses, exactly, on values produced by the REAL tick_math.rs (native driver, see native.py) for the
ticks named by a refuted by(compute) obligation. Returns the first failing input or None."""
import os
import re
import sys
sys.path.insert(0, os.path.dirname(os.path.abspath(__file__)))
import native

MIN_T, MAX_T = -443636, 443636
MIN_P, MAX_P = 4295048016, 79226673515401279992447579055


def check_rows(rows):
    for (t, p0, p1, i0, i1) in rows:
        if t == MIN_T and p0 != MIN_P:
            return dict(clause="price at the minimum tick equals the published minimum", input=dict(tick=t), got=p0, expected=MIN_P, call="sqrt_price_from_tick_index")
        if t + 1 == MAX_T and p1 != MAX_P:
            return dict(clause="price at the maximum tick equals the published maximum", input=dict(tick=t + 1), got=p1, expected=MAX_P, call="sqrt_price_from_tick_index")
        if not p0 < p1:
            return dict(clause="sqrt-price strictly increasing in the tick", input=dict(tick=t, next_tick=t + 1), got=[p0, p1], expected="p(t) < p(t+1)", call="sqrt_price_from_tick_index")
        lhs = (p1 << 32) ** 2 * 10000
        if not ((p0 * ((1 << 32) - 1)) ** 2 * 10001 <= lhs <= (p0 * ((1 << 32) + 1)) ** 2 * 10001):
            return dict(clause="each step multiplies the price by sqrt(1.0001) within 2^-32", input=dict(tick=t), got=[p0, p1], expected="|p1/(p0*sqrt(1.0001)) - 1| <= 2^-32", call="sqrt_price_from_tick_index")
        if i0 != t:
            return dict(clause="tick of a sqrt-price is the unique floor tick (round trip)", input=dict(sqrt_price=p0), got=i0, expected=t, call="tick_index_from_sqrt_price")
        if p1 - 1 >= p0 and i1 != t:
            return dict(clause="tick of a sqrt-price is the unique floor tick (one unit below the next boundary)", input=dict(sqrt_price=p1 - 1), got=i1, expected=t, call="tick_index_from_sqrt_price")
    return None


def ranges_of(text):
    """tick ranges named in the text of a refuted assertion"""
    out = []
    for m in re.finditer(r"sweep_ok\((-?\d+), (-?\d+)\)", text or ""):
        out.append((int(m.group(1)), int(m.group(2))))
    for m in re.finditer(r"leaf_ok\((-?\d+)\)", text or ""):
        out.append((int(m.group(1)), int(m.group(1)) + 1))
    if "inv_point_fast(443636" in (text or "") or "inv_point_ok(443636" in (text or ""):
        out.append((MAX_T - 1, MAX_T))
    return out


def witness(failure):
    rs = ranges_of(failure.get("text", "") + " " + failure.get("rendered", ""))
    if not rs:
        return None, "no tick range named by the failed obligation"
    drv = native.build()
    if not drv:
        return None, "native driver could not be built"
    n = 0
    for (lo, hi) in rs:
        lo, hi = max(lo, MIN_T), min(hi, MAX_T)
        rc, out, err = native.run(drv, "ticks", lo, hi)
        if rc != 0:
            return None, "driver failed: " + err[-300:]
        rows = [tuple(int(x) for x in l.split()) for l in out.strip().split("\n") if l.strip()]
        n += len(rows)
        w = check_rows(rows)
        if w:
            w["replayed_on"] = "programs/whirlpool/src/math/tick_math.rs compiled natively (tools/replay/native.py)"
            return w, ""
    return None, f"the real code answers correctly at both ends of all {n} affected tick intervals"


if __name__ == "__main__":
    lo, hi = int(sys.argv[1]), int(sys.argv[2])
    print(witness(dict(text=f"sweep_ok({lo}, {hi})")))
