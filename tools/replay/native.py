#!/usr/bin/env python3
"""Real-code replay for the math-level properties: compiles the repository's OWN files programs/whirlpool/src/math/{u256_math,bit_math,
tick_math,token_math,liquidity_math,swap_math,int_division_math}.rs (included by #[path], byte for byte, from VERIF_REPO's working tree) with
plain rustc into a small command-line driver. The only generated text is `mod errors` (errors.rs with the Anchor attributes stripped - the
enum itself is the repository's) and the driver's main(). overflow-checks are OFF, as in the program's release profile.
Used only to turn a verifier refutation into a concrete failing input; it decides nothing by itself."""
import json
import os
import re
import subprocess

VERIF = os.path.dirname(os.path.dirname(os.path.dirname(os.path.abspath(__file__))))
REPO = os.environ.get("VERIF_REPO", "/repo")

DRIVER = r'''
#![allow(dead_code, unused_imports, unused_variables, unused_mut, non_snake_case, clippy::all)]
pub mod errors { __ERRORS__ }
pub mod math {
    #[path = "__SRC__/math/bit_math.rs"] pub mod bit_math;
    #[path = "__SRC__/math/int_division_math.rs"] pub mod int_division_math;
    #[path = "__SRC__/math/liquidity_math.rs"] pub mod liquidity_math;
    #[path = "__SRC__/math/swap_math.rs"] pub mod swap_math;
    #[path = "__SRC__/math/tick_math.rs"] pub mod tick_math;
    #[path = "__SRC__/math/token_math.rs"] pub mod token_math;
    #[path = "__SRC__/math/u256_math.rs"] pub mod u256_math;
    pub use bit_math::*; pub use int_division_math::*; pub use liquidity_math::*; pub use swap_math::*; pub use tick_math::*; pub use token_math::*; pub use u256_math::*;
}
use math::*;
fn main() {
    let a: Vec<String> = std::env::args().collect();
    match a[1].as_str() {
        // ticks <lo> <hi>: for every tick t in [lo, hi): t, price(t), price(t+1), tick(price(t)), tick(price(t+1)-1)
        "ticks" => {
            let lo: i32 = a[2].parse().unwrap(); let hi: i32 = a[3].parse().unwrap();
            for t in lo..hi {
                let p0 = sqrt_price_from_tick_index(t); let p1 = sqrt_price_from_tick_index(t + 1);
                let i0 = std::panic::catch_unwind(|| tick_index_from_sqrt_price(&p0)).unwrap_or(i32::MIN);
                let q = p1.wrapping_sub(1);
                let i1 = std::panic::catch_unwind(|| tick_index_from_sqrt_price(&q)).unwrap_or(i32::MIN);
                println!("{} {} {} {} {}", t, p0, p1, i0, i1);
            }
        }
        // tick_of <price>
        "tick_of" => { let p: u128 = a[2].parse().unwrap(); println!("{}", tick_index_from_sqrt_price(&p)); }
        // step <amount> <fee_rate> <liquidity> <cur> <target> <specified_input> <a_to_b>
        "step" => {
            let amount: u64 = a[2].parse().unwrap(); let fee: u32 = a[3].parse().unwrap(); let l: u128 = a[4].parse().unwrap();
            let cur: u128 = a[5].parse().unwrap(); let tgt: u128 = a[6].parse().unwrap(); let si = a[7] == "true"; let ab = a[8] == "true";
            match compute_swap(amount, fee, l, cur, tgt, si, ab) {
                Ok(s) => println!("ok {} {} {} {}", s.amount_in, s.amount_out, s.next_price, s.fee_amount),
                Err(e) => println!("err {:?}", e),
            }
        }
        // delta <a|b> <p0> <p1> <liquidity> <round_up>
        "delta" => {
            let p0: u128 = a[3].parse().unwrap(); let p1: u128 = a[4].parse().unwrap(); let l: u128 = a[5].parse().unwrap(); let up = a[6] == "true";
            let r = if a[2] == "a" { get_amount_delta_a(p0, p1, l, up) } else { get_amount_delta_b(p0, p1, l, up) };
            match r { Ok(v) => println!("ok {}", v), Err(e) => println!("err {:?}", e) }
        }
        // div <n_hi> <n_lo> <d_hi> <d_lo> <return_remainder>: U256Muldiv::div on (n_hi*2^128 + n_lo) / (d_hi*2^128 + d_lo); a panic is reported as such
        "div" => {
            let nh: u128 = a[2].parse().unwrap(); let nl: u128 = a[3].parse().unwrap(); let dh: u128 = a[4].parse().unwrap(); let dl: u128 = a[5].parse().unwrap(); let rr = a[6] == "true";
            let r = std::panic::catch_unwind(|| { let (q, r) = U256Muldiv::new(nh, nl).div(U256Muldiv::new(dh, dl), rr);
                (q.get_word(3), q.get_word(2), q.get_word(1), q.get_word(0), r.get_word(3), r.get_word(2), r.get_word(1), r.get_word(0)) });
            match r { Ok(w) => println!("ok q=[{},{},{},{}] r=[{},{},{},{}]", w.0, w.1, w.2, w.3, w.4, w.5, w.6, w.7), Err(_) => println!("panic") }
        }
        _ => { eprintln!("unknown command"); std::process::exit(2); }
    }
}
'''


def build(outdir=None):
    """returns path of the driver binary, or None (then no replay is possible and the caller says so)"""
    outdir = outdir or os.path.join(os.environ.get("VERIF_WORK", os.path.join(VERIF, ".work")), "replay-native")
    os.makedirs(outdir, exist_ok=True)
    src = os.path.join(REPO, "programs", "whirlpool", "src")
    try:
        err = open(os.path.join(src, "errors.rs")).read()
    except OSError:
        return None
    # strip Anchor: the `use anchor_lang` line and the #[error_code] / #[msg(..)] attributes; keep the enum and the From impl
    err = re.sub(r"^use anchor_lang.*$", "", err, flags=re.M)
    err = re.sub(r"^\s*#\[msg\(.*?\)\]\s*$", "", err, flags=re.M | re.S)
    err = re.sub(r"#\[msg\((?:[^()]|\([^()]*\))*\)\]", "", err, flags=re.S)
    err = err.replace("#[error_code]", "#[derive(Debug, Clone, Copy)]")
    main = DRIVER.replace("__ERRORS__", err).replace("__SRC__", src)
    mp = os.path.join(outdir, "driver.rs")
    open(mp, "w").write(main)
    binp = os.path.join(outdir, "driver")
    p = subprocess.run(["rustc", "--edition", "2021", "-O", "-C", "overflow-checks=off", "-A", "warnings", "-o", binp, mp],
                       capture_output=True, text=True, timeout=600)
    if p.returncode != 0:
        open(os.path.join(outdir, "build.err"), "w").write(p.stderr)
        return None
    return binp


def run(binp, *args, timeout=600):
    p = subprocess.run([binp] + [str(a) for a in args], capture_output=True, text=True, timeout=timeout)
    return p.returncode, p.stdout, p.stderr


if __name__ == "__main__":
    import sys
    b = build()
    print("driver:", b)
    if b and len(sys.argv) > 1:
        print(run(b, *sys.argv[1:])[1][:2000])
