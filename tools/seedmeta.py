#!/usr/bin/env python3
"""usage: tools/seedmeta.py <seed-name> <property> <needs> <detected_by csv or -> <missed_because or -> <ran...>"""
import json, sys
name, prop, needs, det, missed = sys.argv[1:6]
ran = sys.argv[6:]
m = {"property": prop, "needs": needs,
     "ran": ["confirmed in the agent's worktree with tools/seedconfirm.sh (confirm.txt): 654 existing tests pass with the change; demo fails with it and passes without"] + ran,
     "detected_by": [] if det == "-" else det.split(",")}
if missed != "-":
    m["missed_because"] = missed
json.dump(m, open(f"/verif/seeded/{name}/meta.json", "w"), indent=1)
print("meta written for", name)
