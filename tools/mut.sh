#!/bin/sh
# usage: tools/mut.sh '<sed expr>' <file relative to programs/whirlpool/src> <prop>...   (self-test helper, not a registered check)
set -e
M=/tmp/vm
rm -rf $M; mkdir -p $M/programs/whirlpool; cp -r /repo/programs/whirlpool/src $M/programs/whirlpool/src
[ -d /repo/rust-sdk ] && mkdir -p $M/rust-sdk && cp -r /repo/rust-sdk/core $M/rust-sdk/core 2>/dev/null || true
EXPR="$1"; F="$2"; shift 2
sed -i "$EXPR" $M/$F
if diff -q /repo/$F $M/$F >/dev/null; then echo "MUTATION DID NOT APPLY"; exit 3; fi
diff /repo/$F $M/$F | head -6
for p in "$@"; do
  VERIF_REPO=$M VERIF_WORK=/tmp/vm_work VERIF_EVIDENCE_DIR=/tmp/vm_ev VERIF_REPLAYS=/tmp/vm_rp /verif/check $p | grep -v "^  failed" || true
done
rm -rf $M /tmp/vm_work
