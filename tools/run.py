#!/usr/bin/env python3
"""Runner: ./check <property> [--tier quick|thorough] [--replay file]

For the property: generate every Verus crate registered for it from the current /repo tree,
run the verifier, attribute each failed obligation to properties through tags, run the Kani
harnesses registered for it, write /verif/evidence/<id>.json, print the verdict.

exit 0  every obligation of the property was generated and discharged
exit 1  VIOLATION property=<id> replay=<path> [no-failing-input-found]
exit 2  undecided (lost anchor, front-end error, rlimit/timeout, missing tool) - never an alarm
"""
import concurrent.futures as cf
import hashlib
import json
import os
import re
import shutil
import subprocess
import sys
import time

HERE = os.path.dirname(os.path.abspath(__file__))
VERIF = os.path.dirname(HERE)
sys.path.insert(0, HERE)
import vx  # noqa: E402

WORK = os.environ.get("VERIF_WORK", os.path.join(VERIF, ".work"))
REPLAYS = os.environ.get("VERIF_REPLAYS", os.path.join(VERIF, "replays"))
EVID = os.environ.get("VERIF_EVIDENCE_DIR", os.path.join(VERIF, "evidence"))
PROPS = json.load(open(os.path.join(VERIF, "specs", "props.json")))
KNOWN = os.path.join(VERIF, "known_findings.json")

VERIF_FAIL_PAT = re.compile(
    r"postcondition not satisfied|precondition not satisfied|assertion failed|invariant not satisfied|"
    r"possible arithmetic (under|over)flow|possible division by zero|possible bit shift|"
    r"decreases not satisfied|failed to unwrap|unreachable|index out of bounds|cannot prove termination|"
    r"possible (truncation|overflow)|may be out of bounds|might be out of bounds|assertion failure|"
    r"function body check|could not prove|not satisfied|by\(compute\)|assert_by_compute|"
    r"failed to simplify down to true|panic|loop must have a decreases|recommendation not met|"
    r"unable to prove|post-condition|pre-condition")
RLIMIT_PAT = re.compile(r"[Rr]esource limit|rlimit|timed? ?out|canceled|incomplete")


def sh(cmd, cwd=None, timeout=None, env=None):
    t0 = time.time()
    try:
        p = subprocess.run(cmd, cwd=cwd, capture_output=True, text=True, timeout=timeout, env=env)
        return p.returncode, p.stdout, p.stderr, time.time() - t0
    except subprocess.TimeoutExpired as e:
        return 124, (e.stdout or b"").decode(errors="replace") if isinstance(e.stdout, bytes) else (e.stdout or ""), \
            (e.stderr or b"").decode(errors="replace") if isinstance(e.stderr, bytes) else (e.stderr or ""), time.time() - t0


class CrateResult:
    def __init__(self, name):
        self.name = name
        self.status = "ok"        # ok | fail | undecided
        self.reason = ""
        self.functions = []       # breakdown entries with tags
        self.failures = []        # dicts
        self.meta = None
        self.gen_path = None
        self.cmd = ""
        self.wall = 0.0
        self.smt_ms = 0
        self.verus_version = ""
        self.expect_fail = []


def module_ranges(gen_lines):
    """top-level `pub mod X {` ... matching `}` ranges (line indexes)"""
    text = "\n".join(gen_lines)
    mask = vx.code_mask(text)
    ranges = {}
    for m in re.finditer(r"^pub mod (\w+) \{", mask, re.M):
        ob = m.end() - 1
        try:
            e = vx.match_brace(mask, ob)
        except vx.Undecided:
            continue
        ranges[m.group(1)] = (text.count("\n", 0, m.start()), text.count("\n", 0, e))
    return ranges


def tags_for_function(fname, gen_lines, meta, mods):
    parts = fname.split("::")
    name = parts[-1]
    mod = parts[1] if len(parts) > 2 else None
    lo, hi = mods.get(mod, (0, len(gen_lines) - 1))
    tags, lines = set(), []
    pat = re.compile(r"\bfn\s+" + re.escape(name) + r"\b")
    for i in range(lo, hi + 1):
        if pat.search(gen_lines[i]):
            tags.update(meta["map"][i][1] or [])
            lines.append(i + 1)
    return sorted(tags), lines


def run_verus_crate(cname, cdef, outdir, threads, extra_args=()):
    res = CrateResult(cname)
    t0 = time.time()
    try:
        gen_path, meta = vx.generate(cname, cdef["frags"], outdir)
    except vx.Undecided as e:
        res.status, res.reason = "undecided", f"extraction: {e}"
        return res
    res.meta, res.gen_path = meta, gen_path
    res.expect_fail = cdef.get("expect_fail", [])
    args = ["verus", "gen.rs", "--output-json", "--time", "--error-format=json", "--multiple-errors", "8"]
    if "--num-threads" not in cdef.get("args", []):
        args += ["--num-threads", str(threads)]
    args += cdef.get("args", []) + list(extra_args)
    res.cmd = " ".join(args)
    rc, out, err, wall = sh(args, cwd=outdir, timeout=cdef.get("timeout", 3000))
    open(os.path.join(outdir, "out.json"), "w").write(out)
    open(os.path.join(outdir, "err.txt"), "w").write(err)
    res.wall = time.time() - t0
    if rc == 124:
        res.status, res.reason = "undecided", "verus timeout"
        return res
    try:
        oj = json.loads(out)
    except Exception:
        res.status, res.reason = "undecided", "verus produced no JSON (front-end failure): " + err[-2000:]
        return res
    res.verus_version = oj.get("verus", {}).get("version", "")
    vr = oj.get("verification-results", {})
    gen_lines = open(gen_path).read().split("\n")
    mods = module_ranges(gen_lines)
    diags = []
    for ln in err.split("\n"):
        ln = ln.strip()
        if not ln.startswith("{"):
            continue
        try:
            d = json.loads(ln)
        except Exception:
            continue
        if d.get("level") == "error" and d.get("spans"):
            diags.append(d)
    smt = oj.get("times-ms", {}).get("smt", {})
    res.smt_ms = smt.get("smt-run", 0)
    for m in smt.get("smt-run-module-times", []):
        for f in m.get("function-breakdown", []):
            tags, lines = tags_for_function(f["function"], gen_lines, meta, mods)
            res.functions.append(dict(function=f["function"], mode=f.get("mode:", f.get("mode")), ok=f["success"],
                                      us=f.get("time-micros", 0), rlimit=f.get("rlimit", 0), tags=tags, lines=lines))
    # a by(compute) assertion whose expression evaluates to `false` is a refutation by evaluation (Verus reports it as a VIR-level error and stops
    # before the SMT phase); it is a verdict about the obligation, not a tool failure
    COMPUTE_REFUTED = "simplifies to false"
    refuted = [d for d in diags if COMPUTE_REFUTED in d["message"]]
    if refuted and all(COMPUTE_REFUTED in d["message"] or VERIF_FAIL_PAT.search(d["message"]) for d in diags):
        pass  # (other obligations may fail next to it: those are verification verdicts too)
    elif vr.get("encountered-vir-error") or not vr or (not res.functions and not vr.get("success")):
        msgs = "; ".join(d.get("message", "") for d in diags[:5]) or err[-1500:]
        res.status, res.reason = "undecided", "verus front-end / VIR error: " + msgs
        return res
    # front-end (rustc) errors show up as errors without verification: detect by message class
    hard = [d for d in diags if not VERIF_FAIL_PAT.search(d["message"]) and not RLIMIT_PAT.search(d["message"]) and COMPUTE_REFUTED not in d["message"]]
    if hard:
        res.status, res.reason = "undecided", "non-verification diagnostic: " + "; ".join(d["message"] for d in hard[:5])
        return res
    for d in diags:
        prim = [s for s in d["spans"] if s.get("is_primary")] or d["spans"]
        sp = prim[0]
        L = sp["line_start"]
        origin, tags = (meta["map"][L - 1] if 0 < L <= len(meta["map"]) else (None, []))
        fn = meta["fn_of_line"][L - 1] if 0 < L <= len(meta["fn_of_line"]) else None
        if fn is None:
            for k in range(L - 1, -1, -1):
                mm = re.search(r"\bfn\s+(\w+)", gen_lines[k])
                if mm:
                    fn = mm.group(1)
                    if not tags:
                        tags = meta["map"][k][1]
                    break
        # a failed invariant / precondition is reported at the place where it is violated (primary span) with the failed clause as a secondary span:
        # if that clause carries clause-level tags (`//# Cxx`), they decide the attribution
        for s2 in d["spans"]:
            L2 = s2["line_start"]
            if s2 is not sp and 0 < L2 <= len(gen_lines) and "//#" in gen_lines[L2 - 1] and ("failed" in (s2.get("label") or "") or "invariant" in d["message"]):
                tags = meta["map"][L2 - 1][1]
                break
        other = [dict(line=s["line_start"], label=s.get("label"), text=(s.get("text") or [{}])[0].get("text", "").strip(),
                      origin=meta["map"][s["line_start"] - 1][0] if 0 < s["line_start"] <= len(meta["map"]) else None)
                 for s in d["spans"]]
        res.failures.append(dict(message=d["message"], function=fn, gen_line=L, origin=origin, tags=tags or [],
                                 text=(sp.get("text") or [{}])[0].get("text", "").strip(), spans=other,
                                 rendered=d.get("rendered", ""), rlimit=bool(RLIMIT_PAT.search(d["message"])),
                                 computed=COMPUTE_REFUTED in d["message"]))
    if res.failures:
        res.status = "fail"
    elif not vr.get("success"):
        res.status, res.reason = "undecided", "verus reported failure without diagnostics"
    return res


def load_known():
    if os.path.isfile(KNOWN):
        return json.load(open(KNOWN))
    return {"findings": [], "fixed": []}


def main(argv):
    if len(argv) < 2:
        print(__doc__)
        return 2
    pid = argv[1]
    tier = os.environ.get("VERIF_TIER", "quick")
    replay = None
    i = 2
    while i < len(argv):
        if argv[i] == "--tier":
            tier = argv[i + 1]
            i += 1
        elif argv[i] == "--replay":
            replay = argv[i + 1]
            i += 1
        i += 1
    seed = int(os.environ.get("VERIF_SEED", "0") or 0)
    if pid not in PROPS["properties"]:
        print(f"unknown or not-applicable property {pid}")
        return 2
    pdef = PROPS["properties"][pid]
    t0 = time.time()
    crates = list(pdef.get("quick", []))
    if tier == "thorough":
        crates += [c for c in pdef.get("thorough", []) if c not in crates]
    crates_all = ["canary"] + crates
    base = os.path.join(WORK, pid)
    shutil.rmtree(base, ignore_errors=True)
    os.makedirs(base, exist_ok=True)
    ncpu = os.cpu_count() or 4
    threads = max(2, ncpu // max(1, min(len(crates_all), 4)))
    results = {}
    only_fn = None
    if replay:
        rj = json.load(open(replay))
        print(f"replay: obligation {rj.get('obligation')} in crate {rj.get('crate')}")
        crates_all = ["canary", rj["crate"]]
    with cf.ThreadPoolExecutor(max_workers=max(4, min(len(crates_all), ncpu))) as ex:
        futs = {}
        for c in crates_all:
            cdef = PROPS["crates"][c]
            futs[ex.submit(run_verus_crate, c, cdef, os.path.join(base, c), threads)] = c
        for f in cf.as_completed(futs):
            results[futs[f]] = f.result()
    # Kani harnesses
    kani_results = []
    kani_list = list(pdef.get("kani_quick", [])) + (list(pdef.get("kani_thorough", [])) if tier == "thorough" else [])
    if kani_list and not replay and not os.environ.get("VERIF_NO_KANI"):  # VERIF_NO_KANI: dev-only switch used by tools/seedall.sh (never set by the registered commands)
        import kani_run
        kani_results = kani_run.run(pid, kani_list, os.path.join(base, "kani"))

    # ---- verdict
    undecided, violations = [], []
    can = results["canary"]
    exp = set(PROPS["crates"]["canary"].get("expect_fail", []))
    got = set(f["function"] for f in can.failures)
    if can.status != "fail" or not exp.issubset(got):
        undecided.append(f"canary did not fail as expected (status={can.status} {can.reason}; failed={sorted(got)}): tool chain unsound or broken")
    obligations, discharged, samples, trusted, funcs_under_contract = 0, 0, [], [], []
    known_all = load_known()
    known_for = [f for f in known_all.get("findings", []) if f.get("property") == pid]
    known_obligs = set(k.get("obligation") for k in known_all.get("findings", []) if k.get("property") == pid)
    rewrites, assumptions = [], []
    smt_ms, checker_cmds = 0, []
    other_failures = []
    counted = set()
    for c in crates_all:
        if c == "canary":
            continue
        r = results[c]
        checker_cmds.append(f"[{c}] {r.cmd}")
        smt_ms += r.smt_ms
        if r.status == "undecided":
            undecided.append(f"crate {c}: {r.reason}")
            continue
        # reachability canaries: a function named reach_canary_* asserts that a contract under test can NOT be met (e.g. `assert(r is Err)` after a call);
        # it must FAIL - if it verifies, some stub / constant / precondition is contradictory and every success below would be vacuous
        canaries = [f for f in r.functions if f["function"].split("::")[-1].startswith("reach_canary_")]
        proper = set(fl["function"] for fl in r.failures if (fl["function"] or "").startswith("reach_canary_") and "postcondition" in fl["message"])
        for f in canaries:
            short = f["function"].split("::")[-1]
            if f["ok"]:
                undecided.append(f"crate {c}: reachability canary {f['function']} verified: a contract or stub is contradictory (vacuous)")
            elif short not in proper and r.status != "undecided":
                undecided.append(f"crate {c}: reachability canary {short} failed for another reason than its postcondition `never succeeds`: reachability of the success path is not shown")
        r.failures = [fl for fl in r.failures if not (fl["function"] or "").startswith("reach_canary_")]
        r.functions = [f for f in r.functions if not f["function"].split("::")[-1].startswith("reach_canary_")]
        mine = [f for f in r.functions if pid in f["tags"] and f["mode"] in ("exec", "proof")]
        if not mine and not r.failures:
            undecided.append(f"crate {c}: no obligation tagged {pid} was generated (vacuous run)")
        failed_names = set()
        for fl in r.failures:
            if pid in fl["tags"] or (not fl["tags"]):
                if fl["rlimit"]:
                    undecided.append(f"crate {c}: rlimit/timeout in {fl['function']}")
                else:
                    violations.append((c, fl))
                failed_names.add(fl["function"])
            else:
                other_failures.append(f"{c}:{fl['function']}: {fl['message']} (tags {fl['tags']}, not {pid})")
        for f in mine:
            short = f["function"].split("::")[-1]
            if f["function"] in counted and f["ok"]:
                continue  # the same dependency module verified again in another crate of this check: counted once
            counted.add(f["function"])
            if short in known_obligs:
                continue  # carries only a clause recorded as a known finding; reported separately, never counted as discharged
            obligations += 1
            if f["ok"] and short not in failed_names:
                discharged += 1
            if len(samples) < 400:
                samples.append(dict(obligation=f["function"], crate=c, mode=f["mode"], discharged=bool(f["ok"]),
                                    solver_us=f["us"], rlimit=f["rlimit"], backend="verus/z3"))
        meta = r.meta
        for fn in meta["functions"]:
            if fn.get("kind") == "fn" and pid in fn.get("tags", []):
                funcs_under_contract.append(dict(function=fn["name"], file=fn["file"], lines=fn["lines"], sha256_16=fn["sha"],
                                                 assumed_stub=fn.get("stub", False), termination_unproved=fn.get("nodec", False),
                                                 has_contract=fn.get("has_contract", False), crate=c))
        for s in meta["stubs"]:
            trusted.append(f"[{c}] assumed contract (external_body stub): {s}")
        for a in meta["assumptions"]:
            assumptions.append(f"[{c}] {a}")
        rewrites += [f"[{c}] {x}" for x in meta["log"] if x.startswith("REWRITE") or x.startswith("R4")]
        # mechanical scan of the generated text
        gl = open(r.gen_path).read()
        for kw in ("assume(", "admit(", "external_body", "assume_specification", "exec_allows_no_decreases_clause", "#[verifier::external", "uninterp spec fn"):
            n = gl.count(kw)
            if n:
                trusted.append(f"[{c}] scan: `{kw}` occurs {n}x in generated crate")
    for k in kani_results:
        obligations += k["checks"]
        discharged += k["checks_ok"]
        checker_cmds.append(k["cmd"])
        samples.append(dict(obligation="kani::" + k["harness"], backend="kani/cbmc", discharged=k["status"] == "ok",
                            checks=k["checks"], solver_s=k.get("solver_s"), bounded=k.get("bounded", False)))
        trusted += k.get("trusted", [])
        if k["status"] == "fail":
            violations.append(("kani", dict(function=k["harness"], message="Kani check FAILED: " + k.get("failed_desc", ""),
                                            origin=None, tags=[pid], rendered=k.get("output_tail", ""), text="", gen_line=0,
                                            spans=[], kani=k)))
        elif k["status"] == "undecided":
            undecided.append(f"kani {k['harness']}: {k.get('reason','')}")

    # real-code replay of refutations (where a replay driver exists for the property)
    if pid == "C09" and violations:
        sys.path.insert(0, os.path.join(HERE, "replay"))
        import c09 as replay_c09
        kept = []
        for (c, fl) in violations:
            if fl.get("computed"):
                w, why = replay_c09.witness(fl)
                if w:
                    fl["witness"] = w
                    kept.append((c, fl))
                else:
                    undecided.append(f"crate {c}: by(compute) obligation in {fl['function']} refuted ({fl.get('text','')[:120]}) but {why}: the refuted fact is a sufficient condition only - undecided, not reported as a violation")
            else:
                kept.append((c, fl))
        violations = kept
    real_violations = []
    for (c, fl) in violations:
        match = None
        for kf in known_for:
            if kf.get("obligation") == fl["function"] and kf.get("crate", c) == c and (not kf.get("clause") or kf["clause"] in (fl.get("text") or "")):
                match = kf
        if match:
            print(f"KNOWN-FINDING: property={pid} {match['what']}")
        else:
            real_violations.append((c, fl))

    wall = time.time() - t0
    status = "ok"
    if real_violations:
        status = "violation"
    elif undecided:
        status = "undecided"
    ev = dict(
        property_id=pid, tier=tier, seed=seed, level="proof",
        coverage=dict(
            obligations=obligations, discharged=discharged,
            checker_cmd=" ;; ".join(checker_cmds) or "none",
            trusted_base=sorted(set(trusted)) + rewrites,
            samples=samples[:400],
            functions_under_contract=funcs_under_contract,
            solver_time_ms=smt_ms,
            verus_version=next((results[c].verus_version for c in results if results[c].verus_version), ""),
            canary="failed as expected" if not any("canary" in u for u in undecided) else "BROKEN",
            undecided=undecided, other_property_failures=other_failures,
            status=status,
            explanation=pdef.get("explanation", ""),
            bounded=[k["harness"] for k in kani_results if k.get("bounded")],
            not_covered=pdef.get("not_covered", []),
            known_findings=[k["what"] for k in known_for],
        ),
        assumptions=sorted(set(assumptions)) + pdef.get("assumptions", []),
        wall_s=round(wall, 2), violations=len(real_violations),
    )
    os.makedirs(EVID, exist_ok=True)
    if not replay:
        json.dump(ev, open(os.path.join(EVID, pid + ".json"), "w"), indent=1)
    print(f"[{pid}] tier={tier} crates={crates} obligations={obligations} discharged={discharged} kani={len(kani_results)} wall={wall:.1f}s status={status}")
    for u in undecided:
        print("UNDECIDED:", u)
    if real_violations:
        os.makedirs(REPLAYS, exist_ok=True)
        seen = set()
        for (c, fl) in real_violations:
            oblig = fl["function"] or "unknown"
            if (c, oblig) in seen:
                print(f"  failed obligation: {c}::{oblig}: {fl['message']} :: {fl.get('text','')}  (repo: {fl.get('origin')})")
                continue
            seen.add((c, oblig))
            rp = os.path.join(REPLAYS, f"{pid}-{c}-{oblig}.json")
            witness = None
            if fl.get("kani") and fl["kani"].get("witness"):
                witness = fl["kani"]["witness"]
            if fl.get("witness"):
                witness = fl["witness"]
            json.dump(dict(property=pid, crate=c, obligation=oblig, verifier_message=fl["message"], failed_clause=fl.get("text"),
                           repo_origin=fl.get("origin"), spans=fl.get("spans"), verifier_output=fl.get("rendered"),
                           witness=witness, how_to_replay=f"./check {pid} --replay {rp}"), open(rp, "w"), indent=1)
            tail = "" if witness else " no-failing-input-found"
            print(f"  failed obligation: {c}::{oblig}: {fl['message']} :: {fl.get('text','')}  (repo: {fl.get('origin')})")
            if witness:
                print(f"  failing input on the real code: {json.dumps(witness)[:600]}")
            print(f"VIOLATION property={pid} replay={rp}{tail}")
        return 1
    if undecided:
        return 2
    return 0


if __name__ == "__main__":
    sys.exit(main(sys.argv))
