#!/bin/sh
# usage: tools/seedimport.sh <Cxx> <name> <demo-filter> <check-props...>
# imports /tmp/${ROUND:-s2}_<Cxx>_out as /verif/seeded/<name>, confirms it in the agent's worktree, runs the checks against it
P="$1"; N="$2"; F="$3"; shift 3
D=/verif/seeded/$N
mkdir -p $D && cp /tmp/${ROUND:-s2}_${P}_out/patch.diff /tmp/${ROUND:-s2}_${P}_out/demo.diff /tmp/${ROUND:-s2}_${P}_out/notes.md $D/
/verif/tools/seedconfirm.sh /tmp/${ROUND:-s2}_$P /tmp/${ROUND:-s2}_${P}_out "$F" > $D/confirm.txt 2>&1
cat $D/confirm.txt | grep -E "^==|^test result"
/verif/tools/seedtest.sh $N "$@" 2>&1 | tee $D/checks.txt | grep -E "^\[C|VIOLATION|UNDECIDED|failing input" | cut -c1-400
