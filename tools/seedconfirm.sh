#!/bin/sh
# usage: tools/seedconfirm.sh <worktree> <outdir> <demo-filter>
# confirms a sub-agent's seeded change in ITS worktree: (1) existing tests pass with the change, (2) demo fails with the change, (3) demo passes without
W="$1"; O="$2"; F="$3"
export CARGO_TARGET_DIR="$W/target" CARGO_NET_OFFLINE=true
cd "$W" || exit 2
git checkout -q -- . && git clean -qfd -e target
git apply "$O/patch.diff" || { echo "patch does not apply"; exit 2; }
echo "== (1) existing in-crate tests with the change"
cargo test -p whirlpool --lib --offline 2>&1 | grep -E "^test result|FAILED|failed" | head -5
git apply "$O/demo.diff" || { echo "demo does not apply on top"; exit 2; }
echo "== (2) demo with the change (expected: FAIL)"
cargo test -p whirlpool --lib --offline "$F" 2>&1 | grep -E "^test result|^test .*(FAILED|ok)$" | head -8
git checkout -q -- . && git clean -qfd -e target
git apply "$O/demo.diff"
echo "== (3) demo without the change (expected: ok)"
cargo test -p whirlpool --lib --offline "$F" 2>&1 | grep -E "^test result|^test .*(FAILED|ok)$" | head -8
git checkout -q -- . && git clean -qfd -e target
