//@ needs specs errors stdspecs lebytes anchor_shim state_core oracle tick_math_abs authority validators mint_admission
// C19 at handler level: a pool is created only over two admitted mints (each checked with the badge of THIS config for THIS mint), with the fee tier's
// default rate, and in the state Whirlpool::initialize establishes. Account wrappers are shims; #[account(..)] attributes are dropped and NOT checked.
pub mod pool_init_handlers {
use vstd::prelude::*;
use crate::errors::ErrorCode;
use crate::specs::*;
use crate::anchor_shim::*;
use crate::authority::{InterfaceAccount, Signer, TokenAccount};
use crate::state_core::Whirlpool;
use crate::validators::*;
use crate::mint_admission::{Mint, UncheckedAccount, BadgeAccount, verify_supported_token_mint, is_non_transferable_position_required, mint_supported, badge_ok};
use crate::tick_math::tick_of;
//@ tags C19
//@ assume pool-init shims: Context (accounts behind &mut, bumps opaque), Program / Interface / Sysvar markers; initialize_vault_token_account (create + initialize the vault token account: system and token CPIs) and the PoolInitialized event are external stubs; WhirlpoolControlFlags::empty / `|=` / the REQUIRE_NON_TRANSFERABLE_POSITION bit are the bitflags shim flag_empty / flag_union / FLAG_NTP (logged rewrites)
pub struct Bumps { pub whirlpool: u8 }
pub struct Context<'a, 'b, 'c, 'info, T> { pub accounts: &'b mut T, pub bumps: Bumps, pub p: core::marker::PhantomData<(&'a (), &'c (), &'info ())> }
pub struct Program<'info, T> { pub k: Pubkey, pub p: core::marker::PhantomData<&'info T> }
pub struct Interface<'info, T> { pub k: Pubkey, pub p: core::marker::PhantomData<&'info T> }
impl<'info, T> Interface<'info, T> { pub fn key(&self) -> (r: Pubkey) ensures r == self.k { self.k } }
impl<'info, T> SKey for Interface<'info, T> { open spec fn skey(&self) -> Pubkey { self.k } }
impl<'info, T> SKey for Program<'info, T> { open spec fn skey(&self) -> Pubkey { self.k } }
impl<'a> SOwner for InterfaceAccount<'a, Mint> { open spec fn sowner(&self) -> Pubkey { self.data.owner_program } }
pub struct Sysvar<'info, T> { pub p: core::marker::PhantomData<&'info T> }
pub struct TokenInterface {}
pub struct System {}
pub struct Rent {}
pub const FLAG_NTP: u16 = 1;
pub fn flag_empty() -> (r: WhirlpoolControlFlags) ensures r.0 == 0 { WhirlpoolControlFlags(0) }
pub fn flag_union(a: WhirlpoolControlFlags, b: u16) -> (r: WhirlpoolControlFlags) ensures r.0 == a.0 | b { WhirlpoolControlFlags(a.0 | b) }
#[verifier::external_body]
pub fn initialize_vault_token_account<'info>(whirlpool: &Account<'info, Whirlpool>, vault: &Signer<'info>, mint: &InterfaceAccount<'info, Mint>, funder: &Signer<'info>, token_program: &Interface<'info, TokenInterface>, system_program: &Program<'info, System>) -> (r: Result<()>)
    ensures r is Ok ==> vault_initialized(*vault.info.key, mint.data.k, token_program.k, whirlpool.k) { unimplemented!() }
/// C19 / C15: the vault account `vault` was created as a token account of `mint` under `program`, owned by the pool `authority`
pub uninterp spec fn vault_initialized(vault: Pubkey, mint: Pubkey, program: Pubkey, authority: Pubkey) -> bool;
//@ struct events.rs PoolInitialized
#[verifier::external_body]
pub fn emit_pool_initialized(e: PoolInitialized) { unimplemented!() }
//@ struct instructions/v2/initialize_pool.rs InitializePoolV2
//@ constraints instructions/v2/initialize_pool.rs InitializePoolV2
/// C19: success implies both mints are admitted with the badge issued by THIS config for THAT mint, the mints are ordered and distinct, the price is within the
/// protocol bounds, the pool carries the fee tier's default rate (<= 6%) and the config's protocol rate (<= 25%), the given spacing, the two vault accounts, and starts empty
//@ fn instructions/v2/initialize_pool.rs handler -> r as=initialize_pool_v2_handler canary
    requires constraints_InitializePoolV2(old(ctx.accounts), tick_spacing), old(ctx.accounts).fee_tier.data.tick_spacing > 0, // fee tiers have a non-zero spacing (FeeTier::initialize)
    ensures
        r is Ok ==> vault_initialized(*old(ctx.accounts).token_vault_a.info.key, old(ctx.accounts).token_mint_a.data.k, old(ctx.accounts).token_program_a.k, old(ctx.accounts).whirlpool.k) && vault_initialized(*old(ctx.accounts).token_vault_b.info.key, old(ctx.accounts).token_mint_b.data.k, old(ctx.accounts).token_program_b.k, old(ctx.accounts).whirlpool.k), // each vault is a token account of ITS mint under that mint's token program, owned by the pool
        r is Ok ==> old(ctx.accounts).token_badge_a.skey() == crate::anchor_shim::pda_of(seq![crate::anchor_shim::Seed::Lit(0x746f6b656e5f6261646765int), crate::anchor_shim::Seed::Key(old(ctx.accounts).whirlpools_config.skey()), crate::anchor_shim::Seed::Key(old(ctx.accounts).token_mint_a.skey())]) && old(ctx.accounts).token_badge_b.skey() == crate::anchor_shim::pda_of(seq![crate::anchor_shim::Seed::Lit(0x746f6b656e5f6261646765int), crate::anchor_shim::Seed::Key(old(ctx.accounts).whirlpools_config.skey()), crate::anchor_shim::Seed::Key(old(ctx.accounts).token_mint_b.skey())]), // the badge accounts examined are the ones derived from ("token_badge", this config, that mint)
        r is Ok ==> old(ctx.accounts).fee_tier.data.whirlpools_config == old(ctx.accounts).whirlpools_config.k && old(ctx.accounts).fee_tier.data.tick_spacing == tick_spacing, // the pool takes its rate from a fee tier of ITS config for ITS spacing
        r is Ok ==> mint_supported(old(ctx.accounts).token_mint_a.data, badge_ok(old(ctx.accounts).token_badge_a, old(ctx.accounts).whirlpools_config.k, old(ctx.accounts).token_mint_a.data.k)),
        r is Ok ==> mint_supported(old(ctx.accounts).token_mint_b.data, badge_ok(old(ctx.accounts).token_badge_b, old(ctx.accounts).whirlpools_config.k, old(ctx.accounts).token_mint_b.data.k)),
        r is Ok ==> ({ let w = final(ctx.accounts).whirlpool.data; let a0 = old(ctx.accounts);
            &&& pk_lt(a0.token_mint_a.data.k, a0.token_mint_b.data.k) && price_ok(initial_sqrt_price as int)
            &&& w.token_mint_a == a0.token_mint_a.data.k && w.token_mint_b == a0.token_mint_b.data.k
            &&& w.token_vault_a == *a0.token_vault_a.info.key && w.token_vault_b == *a0.token_vault_b.info.key
            &&& w.whirlpools_config == a0.whirlpools_config.k && w.tick_spacing == tick_spacing
            &&& w.fee_rate == a0.fee_tier.data.default_fee_rate && w.fee_rate <= 60_000 && w.protocol_fee_rate <= 2_500
            &&& w.sqrt_price == initial_sqrt_price && w.tick_current_index as int == tick_of(initial_sqrt_price as int) && w.liquidity == 0 }),
//@ rewrite /WhirlpoolControlFlags::empty\(\)/ => /flag_empty()/
//@ rewrite /control_flags \|= WhirlpoolControlFlags::REQUIRE_NON_TRANSFERABLE_POSITION;/ => /control_flags = flag_union(control_flags, FLAG_NTP);/ 2
//@ rewrite /emit!\(PoolInitialized \{/ => /emit_pool_initialized(PoolInitialized {/
//@ end

// ------------------------------------------------------------------ plain SPL-token pool
pub struct Token {}
pub struct WhirlpoolBumps { pub whirlpool: u8 }
impl<'info, T> Program<'info, T> { pub fn key(&self) -> (r: Pubkey) ensures r == self.k { self.k } }
//@ struct instructions/initialize_pool.rs InitializePool
//@ constraints instructions/initialize_pool.rs InitializePool
//@ fn instructions/initialize_pool.rs handler -> r as=initialize_pool_handler canary
    requires constraints_InitializePool(old(ctx.accounts), tick_spacing), old(ctx.accounts).fee_tier.data.tick_spacing > 0,
    ensures
        r is Ok ==> old(ctx.accounts).fee_tier.data.whirlpools_config == old(ctx.accounts).whirlpools_config.k && old(ctx.accounts).fee_tier.data.tick_spacing == tick_spacing,
        r is Ok ==> ({ let w = final(ctx.accounts).whirlpool.data; let a0 = old(ctx.accounts);
            &&& pk_lt(a0.token_mint_a.k, a0.token_mint_b.k) && price_ok(initial_sqrt_price as int)
            &&& w.token_mint_a == a0.token_mint_a.k && w.token_mint_b == a0.token_mint_b.k
            &&& w.token_vault_a == a0.token_vault_a.k && w.token_vault_b == a0.token_vault_b.k
            &&& w.whirlpools_config == a0.whirlpools_config.k && w.tick_spacing == tick_spacing
            &&& w.fee_rate == a0.fee_tier.data.default_fee_rate && w.fee_rate <= 60_000 && w.protocol_fee_rate <= 2_500
            &&& w.sqrt_price == initial_sqrt_price && w.tick_current_index as int == tick_of(initial_sqrt_price as int) && w.liquidity == 0 }),
//@ rewrite /WhirlpoolControlFlags::empty\(\)/ => /flag_empty()/
//@ rewrite /emit!\(PoolInitialized \{/ => /emit_pool_initialized(PoolInitialized {/
//@ end

// ------------------------------------------------------------------ adaptive-fee pool: the trade-enable timestamp rule (C14 / C19)
//@ const state/oracle.rs pub MAX_TRADE_ENABLE_TIMESTAMP_DELTA
/// a trade-enable timestamp may be set only on a permissioned tier, at most 72 hours ahead and at most 30 seconds in the past
//@ fn instructions/adaptive_fee/initialize_pool_with_adaptive_fee.rs is_valid_trade_enable_timestamp -> r tags=C14,C19
    ensures r == (match trade_enable_timestamp { None => true,
        Some(t) => is_permissioned_adaptive_fee_tier && (if t > current_timestamp { t - current_timestamp <= 259_200 } else { current_timestamp - t <= 30 }) }),
//@ end
}
