//@ needs specs
// Number-theoretic facts about the rounded curve functions that compute_swap and the solvency argument rely on.
pub mod curve_lemmas {
use vstd::prelude::*;
use crate::specs::*;
//@ tags C02 C03 C01 C06

/// Partial step: when the whole segment cur->target is not affordable (exact-in) / not needed (exact-out),
/// the price computed from the amount stays strictly on the trade side, within [target, cur] resp. [cur, target],
/// the recomputed input never exceeds the budget and the recomputed output is at least the request.
#[verifier::external_body]
pub proof fn lemma_partial_step(cur: int, target: int, l: int, x: int, is_in: bool, a_to_b: bool)
    requires price_ok(cur), price_ok(target), l >= 0, 0 <= x <= U64MAX(),
        a_to_b ==> target <= cur, !a_to_b ==> target >= cur,
        fixed_delta(cur, target, l, is_in, a_to_b) > x,
    ensures l > 0,
      // (for an exact-out removal of token A the exec code fails unless l*Q > x*cur)
      (is_in || a_to_b || l * Q() > x * cur) ==> ({
        let next = next_price(cur, l, x, is_in, a_to_b);
        &&& (a_to_b ==> target <= next <= cur)
        &&& (!a_to_b ==> cur <= next <= target)
        &&& (is_in ==> fixed_delta(cur, next, l, is_in, a_to_b) <= x)
        &&& (!is_in ==> fixed_delta(cur, next, l, is_in, a_to_b) >= x)
    }),
{
}

pub proof fn lemma_fixed_delta_zero_liquidity(p0: int, p1: int, is_in: bool, a_to_b: bool)
    requires p0 > 0, p1 > 0,
    ensures fixed_delta(p0, p1, 0, is_in, a_to_b) == 0,
{
    assert(0 * abs_diff(p0, p1) == 0);
    assert(0 * abs_diff(p0, p1) * Q() == 0);
    assert(p0 * p1 > 0) by(nonlinear_arith) requires p0 > 0, p1 > 0;
    vstd::arithmetic::div_mod::lemma_div_of0(p0 * p1);
    vstd::arithmetic::div_mod::lemma_small_mod(0, (p0 * p1) as nat);
}

/// fee on a net-of-fee budget fits in what is left of the gross budget
pub proof fn lemma_fee_fits(remaining: int, r: int)
    requires 0 <= remaining, 0 <= r <= 100_000,
    ensures forall|x: int| 0 <= x <= net_of_fee(remaining, r) ==> x + #[trigger] fee_on(x, r) <= remaining,
        0 <= net_of_fee(remaining, r) <= remaining,
{
    let d = FEE_DEN(); let m = d - r;
    vstd::arithmetic::div_mod::lemma_fundamental_div_mod(remaining * m, d);
    assert(0 <= remaining * m <= remaining * d) by(nonlinear_arith) requires 0 <= remaining, 0 < m <= d;
    assert((remaining * m) / d <= remaining) by(nonlinear_arith)
        requires remaining * m == d * ((remaining * m) / d) + (remaining * m) % d, (remaining * m) % d >= 0, remaining * m <= remaining * d, d > 0;
    vstd::arithmetic::div_mod::lemma_div_pos_is_pos(remaining * m, d);
    assert forall|x: int| 0 <= x <= net_of_fee(remaining, r) implies x + #[trigger] fee_on(x, r) <= remaining by {
        lemma_fee_fits_one(remaining, r, x);
    }
}

pub proof fn lemma_fee_fits_one(remaining: int, r: int, x: int)
    requires 0 <= remaining, 0 <= r <= 100_000, 0 <= x <= net_of_fee(remaining, r),
    ensures x + fee_on(x, r) <= remaining,
{
    let d = FEE_DEN();
    let m = d - r;
    // x <= floor(remaining*m/d)  ==>  x*d <= remaining*m
    vstd::arithmetic::div_mod::lemma_fundamental_div_mod(remaining * m, d);
    assert(x * d <= remaining * m) by(nonlinear_arith)
        requires x <= (remaining * m) / d, remaining * m == d * ((remaining * m) / d) + (remaining * m) % d, (remaining * m) % d >= 0, d > 0;
    // hence x*r <= (remaining - x)*m, so ceil(x*r/m) <= remaining - x
    assert(x * r <= (remaining - x) * m) by(nonlinear_arith) requires x * d <= remaining * m, m == d - r;
    vstd::arithmetic::div_mod::lemma_fundamental_div_mod(x * r, m);
    let q = (x * r) / m; let rem = (x * r) % m;
    if rem != 0 {
        assert(q + 1 <= remaining - x) by(nonlinear_arith)
            requires x * r == m * q + rem, 0 < rem < m, x * r <= (remaining - x) * m, m > 0;
    } else {
        assert(q <= remaining - x) by(nonlinear_arith)
            requires x * r == m * q + rem, rem == 0, x * r <= (remaining - x) * m, m > 0;
    }
}
}
