//@ needs specs
// Number-theoretic facts about the rounded curve functions that compute_swap and the solvency argument rely on.
pub mod curve_lemmas {
use vstd::prelude::*;
use crate::specs::*;
//@ tags C02 C03 C01 C06

/// k <= floor(y / d)  <==>  k * d <= y      (d > 0)
pub proof fn lemma_le_floor(k: int, y: int, d: int)
    requires d > 0,
    ensures k <= y / d <==> k * d <= y,
{
    vstd::arithmetic::div_mod::lemma_fundamental_div_mod(y, d);
    vstd::arithmetic::div_mod::lemma_mod_bound(y, d);
    let e = y / d; let m = y % d;
    assert(k <= e <==> k * d <= y) by(nonlinear_arith) requires y == d * e + m, 0 <= m < d, d > 0;
}
/// ceil(n / d) <= x  <==>  n <= x * d      (d > 0)
pub proof fn lemma_ceil_le(n: int, d: int, x: int)
    requires d > 0,
    ensures div_round(n, d, true) <= x <==> n <= x * d,
{
    vstd::arithmetic::div_mod::lemma_fundamental_div_mod(n, d);
    vstd::arithmetic::div_mod::lemma_mod_bound(n, d);
    let c = div_round(n, d, true);
    assert(c <= x <==> n <= x * d) by(nonlinear_arith)
        requires n == d * (n / d) + n % d, 0 <= n % d < d, d > 0, c == (if n % d != 0 { n / d + 1 } else { n / d });
}
/// ceil(n/d) * d >= n   and   floor(n/d) * d <= n
pub proof fn lemma_round_bounds(n: int, d: int)
    requires d > 0,
    ensures div_round(n, d, true) * d >= n, div_round(n, d, false) * d <= n, n >= 0 ==> div_round(n, d, false) >= 0 && div_round(n, d, true) >= 0,
{
    lemma_ceil_le(n, d, div_round(n, d, true));
    lemma_le_floor(div_round(n, d, false), n, d);
    if n >= 0 { vstd::arithmetic::div_mod::lemma_div_pos_is_pos(n, d); }
}

/// token B, exact-in (price moves up by floor(x*Q/l)): stays at or below the target, recomputed input <= x
pub proof fn lemma_partial_b_in(cur: int, target: int, l: int, x: int)
    requires cur > 0, target >= cur, l > 0, x >= 0, delta_b(cur, target, l, true) > x,
    ensures ({ let next = next_from_b(cur, l, x, true); cur <= next <= target && delta_b(cur, next, l, true) <= x }),
{
    let q = Q(); let d = target - cur; let e = (x * q) / l; let next = cur + e;
    assert(x * q >= 0) by(nonlinear_arith) requires x >= 0, q > 0;
    vstd::arithmetic::div_mod::lemma_div_pos_is_pos(x * q, l);
    lemma_le_floor(e, x * q, l);                 // e*l <= x*q
    lemma_ceil_le(l * d, q, x);                  // ceil(l*d/q) > x  ==>  l*d > x*q
    assert(abs_diff(cur, target) == d);
    assert(e < d || d == 0 && false) by(nonlinear_arith) requires e * l <= x * q, l * d > x * q, l > 0, e >= 0, d >= 0;
    assert(abs_diff(cur, next) == e);
    lemma_ceil_le(l * e, q, x);
    assert(l * e == e * l) by(nonlinear_arith);
}
/// token B, exact-out (price moves down by ceil(x*Q/l)): stays at or above the target, recomputed output >= x
pub proof fn lemma_partial_b_out(cur: int, target: int, l: int, x: int)
    requires target > 0, target <= cur, l > 0, x >= 0, delta_b(cur, target, l, false) > x,
    ensures ({ let next = next_from_b(cur, l, x, false); target <= next <= cur && delta_b(cur, next, l, false) >= x }),
{
    let q = Q(); let d = cur - target; let c = div_round(x * q, l, true); let next = cur - c;
    assert(x * q >= 0) by(nonlinear_arith) requires x >= 0, q > 0;
    lemma_round_bounds(x * q, l);                // c*l >= x*q, c >= 0
    assert(abs_diff(cur, target) == d);
    lemma_le_floor(x + 1, l * d, q);             // floor(l*d/q) >= x+1  ==>  (x+1)*q <= l*d
    assert(x * q <= d * l) by(nonlinear_arith) requires (x + 1) * q <= l * d, q > 0;
    lemma_ceil_le(x * q, l, d);                  // c <= d
    assert(abs_diff(cur, next) == c);
    lemma_le_floor(x, l * c, q);
    assert(l * c == c * l) by(nonlinear_arith);
}
/// token A, exact-in (price moves down to ceil(l*p*Q / (l*Q + x*p))): stays at or above the target, recomputed input <= x
pub proof fn lemma_partial_a_in(cur: int, target: int, l: int, x: int)
    requires target > 0, target <= cur, l > 0, x >= 0, delta_a(cur, target, l, true) > x,
    ensures ({ let next = next_from_a(cur, l, x, true); target <= next <= cur && delta_a(cur, next, l, true) <= x }),
{
    let q = Q();
    if x == 0 {
        assert(abs_diff(cur, cur) == 0);
        assert(l * 0 * q == 0) by(nonlinear_arith);
        assert(cur * cur > 0) by(nonlinear_arith) requires cur > 0;
        vstd::arithmetic::div_mod::lemma_div_of0(cur * cur);
        vstd::arithmetic::div_mod::lemma_small_mod(0, (cur * cur) as nat);
    } else {
        let d = cur - target;
        let nn = l * cur * q; let den = l * q + x * cur;
        assert(den > 0 && x * cur >= 0) by(nonlinear_arith) requires l > 0, q > 0, x > 0, cur > 0, den == l * q + x * cur;
        let n = div_round(nn, den, true);
        assert(abs_diff(cur, target) == d);
        assert(cur * target > 0) by(nonlinear_arith) requires cur > 0, target > 0;
        lemma_ceil_le(l * d * q, cur * target, x);            // l*d*q > x*cur*target
        // n <= cur
        assert(nn <= cur * den) by(nonlinear_arith) requires nn == l * cur * q, den == l * q + x * cur, x * cur >= 0, cur > 0;
        lemma_ceil_le(nn, den, cur);
        // n >= target:  nn > target*den >= (target-1)*den
        assert(nn > (target - 1) * den) by(nonlinear_arith)
            requires nn == l * cur * q, den == l * q + x * cur, l * d * q > x * (cur * target), d == cur - target, den > 0;
        lemma_ceil_le(nn, den, target - 1);
        // recomputed input: l*(cur-n)*q <= x*cur*n  <==  nn <= n*den
        lemma_round_bounds(nn, den);
        assert(abs_diff(cur, n) == cur - n);
        assert(cur * n > 0) by(nonlinear_arith) requires cur > 0, n >= target, target > 0;
        assert(l * (cur - n) * q <= x * (cur * n)) by(nonlinear_arith) requires n * den >= nn, nn == l * cur * q, den == l * q + x * cur;
        lemma_ceil_le(l * (cur - n) * q, cur * n, x);
    }
}
/// token A, exact-out (price moves up to ceil(l*p*Q / (l*Q - x*p))): stays at or below the target, recomputed output >= x
pub proof fn lemma_partial_a_out(cur: int, target: int, l: int, x: int)
    requires cur > 0, target >= cur, l > 0, x >= 0, delta_a(cur, target, l, false) > x, l * Q() > x * cur,
    ensures ({ let next = next_from_a(cur, l, x, false); cur <= next <= target && delta_a(cur, next, l, false) >= x }),
{
    let q = Q();
    if x == 0 {
        assert(abs_diff(cur, cur) == 0);
        assert(l * 0 * q == 0) by(nonlinear_arith);
        assert(cur * cur > 0) by(nonlinear_arith) requires cur > 0;
        vstd::arithmetic::div_mod::lemma_div_of0(cur * cur);
        vstd::arithmetic::div_mod::lemma_small_mod(0, (cur * cur) as nat);
    } else {
        let d = target - cur;
        let nn = l * cur * q; let den = l * q - x * cur;
        assert(den > 0);
        let n = div_round(nn, den, true);
        assert(abs_diff(cur, target) == d);
        assert(cur * target > 0) by(nonlinear_arith) requires cur > 0, target > 0;
        lemma_le_floor(x + 1, l * d * q, cur * target);        // (x+1)*cur*target <= l*d*q
        assert(x * (cur * target) <= l * d * q) by(nonlinear_arith) requires (x + 1) * (cur * target) <= l * d * q, cur * target > 0;
        // n >= cur:  nn > (cur-1)*den
        assert(x * cur > 0) by(nonlinear_arith) requires x > 0, cur > 0;
        assert(nn > (cur - 1) * den) by(nonlinear_arith) requires nn == l * cur * q, den == l * q - x * cur, den > 0, x * cur > 0, cur > 0;
        lemma_ceil_le(nn, den, cur - 1);
        // n <= target:  nn <= target*den
        assert(nn <= target * den) by(nonlinear_arith)
            requires nn == l * cur * q, den == l * q - x * cur, x * (cur * target) <= l * d * q, d == target - cur;
        lemma_ceil_le(nn, den, target);
        // recomputed output: x*cur*n <= l*(n-cur)*q  <==  nn <= n*den
        lemma_round_bounds(nn, den);
        assert(abs_diff(cur, n) == n - cur);
        assert(cur * n > 0) by(nonlinear_arith) requires cur > 0, n >= cur;
        assert(x * (cur * n) <= l * (n - cur) * q) by(nonlinear_arith) requires n * den >= nn, nn == l * cur * q, den == l * q - x * cur;
        lemma_le_floor(x, l * (n - cur) * q, cur * n);
    }
}

/// Partial step: when the whole segment cur->target is not affordable (exact-in) / not needed (exact-out),
/// the price computed from the amount stays on the trade side, within [target, cur] resp. [cur, target],
/// the recomputed input never exceeds the budget and the recomputed output is at least the request.
pub proof fn lemma_partial_step(cur: int, target: int, l: int, x: int, is_in: bool, a_to_b: bool)
    requires price_ok(cur), price_ok(target), l >= 0, 0 <= x <= U64MAX(),
        a_to_b ==> target <= cur, !a_to_b ==> target >= cur,
        fixed_delta(cur, target, l, is_in, a_to_b) > x,
    ensures l > 0,
      // (for an exact-out removal of token A the exec code fails unless l*Q > x*cur)
      (is_in || a_to_b || l * Q() > x * cur) ==> ({
        let next = next_price(cur, l, x, is_in, a_to_b);
        &&& (a_to_b ==> target <= next <= cur)
        &&& (!a_to_b ==> cur <= next <= target)
        &&& (is_in ==> fixed_delta(cur, next, l, is_in, a_to_b) <= x)
        &&& (!is_in ==> fixed_delta(cur, next, l, is_in, a_to_b) >= x)
    }),
{
    if l == 0 { lemma_fixed_delta_zero_liquidity(cur, target, is_in, a_to_b); }
    if is_in && a_to_b { lemma_partial_a_in(cur, target, l, x); }
    else if is_in && !a_to_b { lemma_partial_b_in(cur, target, l, x); }
    else if !is_in && a_to_b { lemma_partial_b_out(cur, target, l, x); }
    else if l * Q() > x * cur { lemma_partial_a_out(cur, target, l, x); }
}

pub proof fn lemma_fixed_delta_zero_liquidity(p0: int, p1: int, is_in: bool, a_to_b: bool)
    requires p0 > 0, p1 > 0,
    ensures fixed_delta(p0, p1, 0, is_in, a_to_b) == 0,
{
    assert(0 * abs_diff(p0, p1) == 0);
    assert(0 * abs_diff(p0, p1) * Q() == 0);
    assert(p0 * p1 > 0) by(nonlinear_arith) requires p0 > 0, p1 > 0;
    vstd::arithmetic::div_mod::lemma_div_of0(p0 * p1);
    vstd::arithmetic::div_mod::lemma_small_mod(0, (p0 * p1) as nat);
}

/// fee on a net-of-fee budget fits in what is left of the gross budget
pub proof fn lemma_fee_fits(remaining: int, r: int)
    requires 0 <= remaining, 0 <= r <= 100_000,
    ensures forall|x: int| 0 <= x <= net_of_fee(remaining, r) ==> x + #[trigger] fee_on(x, r) <= remaining,
        0 <= net_of_fee(remaining, r) <= remaining,
{
    let d = FEE_DEN(); let m = d - r;
    vstd::arithmetic::div_mod::lemma_fundamental_div_mod(remaining * m, d);
    assert(0 <= remaining * m <= remaining * d) by(nonlinear_arith) requires 0 <= remaining, 0 < m <= d;
    assert((remaining * m) / d <= remaining) by(nonlinear_arith)
        requires remaining * m == d * ((remaining * m) / d) + (remaining * m) % d, (remaining * m) % d >= 0, remaining * m <= remaining * d, d > 0;
    vstd::arithmetic::div_mod::lemma_div_pos_is_pos(remaining * m, d);
    assert forall|x: int| 0 <= x <= net_of_fee(remaining, r) implies x + #[trigger] fee_on(x, r) <= remaining by {
        lemma_fee_fits_one(remaining, r, x);
    }
}

pub proof fn lemma_fee_fits_one(remaining: int, r: int, x: int)
    requires 0 <= remaining, 0 <= r <= 100_000, 0 <= x <= net_of_fee(remaining, r),
    ensures x + fee_on(x, r) <= remaining,
{
    let d = FEE_DEN();
    let m = d - r;
    // x <= floor(remaining*m/d)  ==>  x*d <= remaining*m
    vstd::arithmetic::div_mod::lemma_fundamental_div_mod(remaining * m, d);
    assert(x * d <= remaining * m) by(nonlinear_arith)
        requires x <= (remaining * m) / d, remaining * m == d * ((remaining * m) / d) + (remaining * m) % d, (remaining * m) % d >= 0, d > 0;
    // hence x*r <= (remaining - x)*m, so ceil(x*r/m) <= remaining - x
    assert(x * r <= (remaining - x) * m) by(nonlinear_arith) requires x * d <= remaining * m, m == d - r;
    vstd::arithmetic::div_mod::lemma_fundamental_div_mod(x * r, m);
    let q = (x * r) / m; let rem = (x * r) % m;
    if rem != 0 {
        assert(q + 1 <= remaining - x) by(nonlinear_arith)
            requires x * r == m * q + rem, 0 < rem < m, x * r <= (remaining - x) * m, m > 0;
    } else {
        assert(q <= remaining - x) by(nonlinear_arith)
            requires x * r == m * q + rem, rem == 0, x * r <= (remaining - x) * m, m > 0;
    }
}
}
