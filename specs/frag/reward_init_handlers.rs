//@ needs specs errors stdspecs lebytes anchor_shim state_core oracle tick_math_abs authority validators mint_admission pool_init_handlers(stub)
// C04 / C19 / C15 / C11 at handler level: a reward is initialized only on the signature of the pool's reward authority, (v2) only over an admitted mint with the
// badge of THIS pool's config for THAT mint and with the token program that owns the mint, in index order, recording mint and vault in the given slot.
pub mod reward_init_handlers {
use vstd::prelude::*;
use crate::errors::ErrorCode;
use crate::specs::*;
use crate::anchor_shim::*;
use crate::authority::{InterfaceAccount, Signer, TokenAccount};
use crate::state_core::{Whirlpool, WhirlpoolRewardInfo};
use crate::mint_admission::{Mint, UncheckedAccount, verify_supported_token_mint, mint_supported, badge_ok};
use crate::pool_init_handlers::{Context, Program, Interface, Sysvar, TokenInterface, System, Rent, Token, initialize_vault_token_account};
//@ tags C04 C19 C15 C11
//@ assume reward-init shims: as in fragment pool_init_handlers (Context, Program / Interface / Sysvar markers, initialize_vault_token_account a stub)

//@ struct instructions/initialize_reward.rs InitializeReward
//@ constraints instructions/initialize_reward.rs InitializeReward method:reward_authority
/// C04 / C19: the pool's reward authority signed; the slot with this index is the lowest uninitialized one and now names this mint and vault
//@ fn instructions/initialize_reward.rs handler -> r as=initialize_reward_handler canary
    requires constraints_InitializeReward(old(ctx.accounts)),
    ensures
        r is Ok ==> old(ctx.accounts).reward_authority.skey() == old(ctx.accounts).whirlpool.data.reward_authority_spec() && old(ctx.accounts).reward_authority.info.is_signer, //# C04
        r is Ok ==> reward_index < 3 && !old(ctx.accounts).whirlpool.data.reward_infos[reward_index as int].is_init()
            && (forall|j: int| 0 <= j < reward_index ==> old(ctx.accounts).whirlpool.data.reward_infos[j].is_init()), //# C19 C11
        r is Ok ==> final(ctx.accounts).whirlpool.data.reward_infos[reward_index as int] == (WhirlpoolRewardInfo { mint: old(ctx.accounts).reward_mint.k, vault: old(ctx.accounts).reward_vault.k,
                ..old(ctx.accounts).whirlpool.data.reward_infos[reward_index as int] })
            && (forall|j: int| 0 <= j < 3 && j != reward_index ==> final(ctx.accounts).whirlpool.data.reward_infos[j] == old(ctx.accounts).whirlpool.data.reward_infos[j])
            && final(ctx.accounts).whirlpool.data == (Whirlpool { reward_infos: final(ctx.accounts).whirlpool.data.reward_infos, ..old(ctx.accounts).whirlpool.data }), //# C19 C11
        r is Err ==> final(ctx.accounts).whirlpool.data == old(ctx.accounts).whirlpool.data,
//@ end

//@ struct instructions/v2/initialize_reward.rs InitializeRewardV2
//@ constraints instructions/v2/initialize_reward.rs InitializeRewardV2 method:reward_authority
/// C04 / C19 / C15 (v2): additionally the mint is admitted with the badge issued by THIS pool's config for THAT mint, and the token program owns the mint
//@ fn instructions/v2/initialize_reward.rs handler -> r as=initialize_reward_v2_handler canary
    requires constraints_InitializeRewardV2(old(ctx.accounts)),
    ensures
        r is Ok ==> old(ctx.accounts).reward_token_badge.skey() == crate::anchor_shim::pda_of(seq![crate::anchor_shim::Seed::Lit(0x746f6b656e5f6261646765int), crate::anchor_shim::Seed::Key(old(ctx.accounts).whirlpool.data.whirlpools_config), crate::anchor_shim::Seed::Key(old(ctx.accounts).reward_mint.skey())]), //# C19
        r is Ok ==> old(ctx.accounts).reward_authority.skey() == old(ctx.accounts).whirlpool.data.reward_authority_spec() && old(ctx.accounts).reward_authority.info.is_signer, //# C04
        r is Ok ==> mint_supported(old(ctx.accounts).reward_mint.data, badge_ok(old(ctx.accounts).reward_token_badge, old(ctx.accounts).whirlpool.data.whirlpools_config, old(ctx.accounts).reward_mint.data.k)), //# C19
        r is Ok ==> old(ctx.accounts).reward_token_program.skey() == old(ctx.accounts).reward_mint.data.owner_program, //# C15
        r is Ok ==> reward_index < 3 && !old(ctx.accounts).whirlpool.data.reward_infos[reward_index as int].is_init()
            && (forall|j: int| 0 <= j < reward_index ==> old(ctx.accounts).whirlpool.data.reward_infos[j].is_init()), //# C19 C11
        r is Ok ==> final(ctx.accounts).whirlpool.data.reward_infos[reward_index as int] == (WhirlpoolRewardInfo { mint: old(ctx.accounts).reward_mint.data.k, vault: *old(ctx.accounts).reward_vault.info.key,
                ..old(ctx.accounts).whirlpool.data.reward_infos[reward_index as int] })
            && (forall|j: int| 0 <= j < 3 && j != reward_index ==> final(ctx.accounts).whirlpool.data.reward_infos[j] == old(ctx.accounts).whirlpool.data.reward_infos[j])
            && final(ctx.accounts).whirlpool.data == (Whirlpool { reward_infos: final(ctx.accounts).whirlpool.data.reward_infos, ..old(ctx.accounts).whirlpool.data }), //# C19 C11
        r is Err ==> final(ctx.accounts).whirlpool.data == old(ctx.accounts).whirlpool.data,
//@ end
}
