//@ needs specs errors
// Abstract interface of math/tick_math.rs used by the other fragments: the two conversion functions as contracts over
// the spec function price_at. Fragment tick_math (property C09) proves these contracts on the real code; here they are
// external_body stubs carrying the same text.
pub mod tick_math {
use vstd::prelude::*;
use crate::specs::*;
//@ tags C09 C14 C08 C03 C10 C18 C19
//@ const math/tick_math.rs MAX_SQRT_PRICE_X64 MIN_SQRT_PRICE_X64 FULL_RANGE_ONLY_TICK_SPACING_THRESHOLD
//@ const state/tick.rs MAX_TICK_INDEX MIN_TICK_INDEX
/// sqrt-price (Q64.64) of a tick index
pub uninterp spec fn price_at(tick: int) -> int;
pub open spec fn tick_ok(t: int) -> bool { -443636 <= t <= 443636 }
#[verifier::external_body]
pub proof fn axiom_price_at()
    ensures
        price_at(-443636) == MIN_PRICE(), price_at(443636) == MAX_PRICE(),
        forall|a: int, b: int| tick_ok(a) && tick_ok(b) && a < b ==> #[trigger] price_at(a) < #[trigger] price_at(b),
        forall|a: int| tick_ok(a) ==> MIN_PRICE() <= #[trigger] price_at(a) <= MAX_PRICE(),
{}
//@ fn math/tick_math.rs sqrt_price_from_tick_index -> r stub
    requires tick_ok(tick as int),
    ensures r as int == price_at(tick as int), price_ok(r as int),
//@ end
/// the tick of a sqrt-price (C09 proves: tick_inverse::inv_spec, the unique floor tick)
pub uninterp spec fn tick_of(p: int) -> int;
/// C09's inverse theorem, as used by the other properties: tick_of(p) is the floor tick of p (proved in the thorough tier of C09: tick_props::lemma_inverse_correct)
#[verifier::external_body]
pub proof fn axiom_tick_of(p: int)
    requires price_ok(p),
    ensures tick_ok(tick_of(p)), price_at(tick_of(p)) <= p, tick_of(p) < 443636 ==> p < price_at(tick_of(p) + 1),
{}
/// consequence: converting a tick's price back gives the tick
pub proof fn lemma_tick_of_price(t: int) requires tick_ok(t) ensures tick_of(price_at(t)) == t
{
    axiom_price_at(); axiom_tick_of(price_at(t));
    let u = tick_of(price_at(t));
    if u < t { assert(price_at(u + 1) <= price_at(t)) by { if u + 1 < t { } } } else if u > t { }
}
//@ fn math/tick_math.rs tick_index_from_sqrt_price -> r stub
    requires price_ok(*sqrt_price_x64 as int),
    ensures r as int == tick_of(*sqrt_price_x64 as int), tick_ok(r as int), price_at(r as int) <= *sqrt_price_x64 as int, r < 443636 ==> (*sqrt_price_x64 as int) < price_at(r as int + 1),
//@ end
}
