//@ needs errors
// Shim for the parts of anchor_lang::prelude the extracted functions mention. Plain data + assumed specs (trusted base).
pub mod anchor_shim {
use vstd::prelude::*;
use crate::errors::ErrorCode;
//@ assume anchor_lang shim: Pubkey is 32 opaque bytes with structural equality and an uninterpreted total order; anchor Error carries only the ErrorCode; Account<T> derefs to T
#[derive(Clone, Copy, Eq)]
pub struct Pubkey(pub [u8; 32]);
impl vstd::std_specs::cmp::PartialEqSpecImpl for Pubkey {
    open spec fn obeys_eq_spec() -> bool { true }
    open spec fn eq_spec(&self, other: &Pubkey) -> bool { *self == *other }
}
impl PartialEq for Pubkey {
    #[verifier::external_body]
    fn eq(&self, other: &Pubkey) -> (r: bool) { self.0 == other.0 }
}
pub uninterp spec fn pk_lt(a: Pubkey, b: Pubkey) -> bool;
pub uninterp spec fn pk_default() -> Pubkey;
impl Pubkey {
    #[verifier::external_body]
    pub fn ne(&self, other: &Pubkey) -> (r: bool) ensures r == (*self != *other) { unimplemented!() }
    #[verifier::external_body]
    pub fn ge(&self, other: &Pubkey) -> (r: bool) ensures r == !pk_lt(*self, *other) { unimplemented!() }
    #[verifier::external_body]
    pub fn default() -> (r: Pubkey) ensures r == pk_default() { unimplemented!() }
    #[verifier::external_body]
    pub fn to_bytes(&self) -> (r: [u8; 32]) ensures r == self.0 { unimplemented!() }
}
pub struct Error { pub code: ErrorCode }
pub type Result<T> = core::result::Result<T, Error>;
impl vstd::std_specs::convert::FromSpecImpl<ErrorCode> for Error {
    open spec fn obeys_from_spec() -> bool { true }
    open spec fn from_spec(v: ErrorCode) -> Self { Error { code: v } }
}
impl From<ErrorCode> for Error {
    fn from(e: ErrorCode) -> (r: Self) { Error { code: e } }
}
//@ assume the `?` operator converts an ErrorCode into the anchor Error with From::from (vstd leaves the conversion relation spec_from uninterpreted)
#[verifier::external_body]
pub broadcast proof fn ax_qmark_anchor(e: ErrorCode, r: Error) requires #[trigger] vstd::std_specs::control_flow::spec_from::<Error, ErrorCode>(e, r) ensures r == (Error { code: e }) {}
pub open spec fn err<T>(c: ErrorCode) -> Result<T> { Err(Error { code: c }) }

/// Anchor `Account<'info, T>`: only the deref to the deserialized data and the key are modelled.
pub struct Account<'info, T> { pub data: T, pub k: Pubkey, pub p: core::marker::PhantomData<&'info ()> }
impl<'info, T> Account<'info, T> {
    pub fn key(&self) -> (r: Pubkey) ensures r == self.k { self.k }
}
/// the address of an account wrapper, as a spec function (used by the generated constraints_<Struct> predicates)
pub trait SKey { spec fn skey(&self) -> Pubkey; }
/// program-derived addresses (K6): one seed of a `seeds = [..]` attribute - a byte-string literal (its bytes as a big-endian number), an account key, an
/// integer's little-endian bytes, an integer's decimal text - and the address derived from a seed list under the whirlpool program id (uninterpreted)
pub enum Seed { Lit(int), Key(Pubkey), Le(int), Dec(int) }
pub uninterp spec fn pda_of(seeds: Seq<Seed>) -> Pubkey;
/// the program that owns an account (AccountInfo::owner), as a spec function
pub trait SOwner { spec fn sowner(&self) -> Pubkey; }
impl<T: SOwner> SOwner for Box<T> { open spec fn sowner(&self) -> Pubkey { (**self).sowner() } }
impl<'info, T> SKey for Account<'info, T> { open spec fn skey(&self) -> Pubkey { self.k } }
impl<T: SKey> SKey for Box<T> { open spec fn skey(&self) -> Pubkey { (**self).skey() } }
impl<'info, T> std::ops::Deref for Account<'info, T> {
    type Target = T;
    fn deref(&self) -> (r: &T) ensures *r == self.data { &self.data }
}
impl<'info, T> std::ops::DerefMut for Account<'info, T> {
    fn deref_mut(&mut self) -> (r: &mut T) ensures *r == old(self).data, *final(r) == final(self).data, final(self).k == old(self).k { &mut self.data }
}
}
