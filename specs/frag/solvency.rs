//@ needs specs curve_lemmas
// C01: one-step solvency lemmas. A ghost pool tracks, per token, what the vault holds and the exact (rational, denominators
// cleared) value of all claims on it. Each lemma takes as hypotheses ONLY what the contracts of the real functions guarantee
// (C02: step input = ceil / output = floor of the exact curve amount at the in-range liquidity; C08: deposit = ceil, withdrawal =
// floor; C06: fee = protocol cut + LP part, growth floored; C07: credit <= pro rata) and concludes that the invariant
// "vault >= claims" is preserved. The induction over histories and the mapping of instructions to these steps are prose (DESIGN.md).
pub mod solvency {
use vstd::prelude::*;
use crate::specs::*;
use crate::curve_lemmas::*;
//@ tags C01

/// token B: vault_b * Q >= claims_b where claims_b = Q * owed_b + sum_i L_i * (clamp(p, lo_i, hi_i) - lo_i)   [all scaled by Q = 2^64]
pub open spec fn solvent_b(vault: int, owed: int, curve_claim_q: int) -> bool { vault * Q() >= owed * Q() + curve_claim_q }

/// depositing liquidity l over a price distance d of token B (paid amount rounded UP) keeps token B solvent
pub proof fn lemma_deposit_b(vault: int, owed: int, claim: int, l: int, d: int)
    requires solvent_b(vault, owed, claim), l >= 0, d >= 0,
    ensures solvent_b(vault + div_round(l * d, Q(), true), owed, claim + l * d),
{
    lemma_round_bounds(l * d, Q());
    assert((vault + div_round(l * d, Q(), true)) * Q() == vault * Q() + div_round(l * d, Q(), true) * Q()) by(nonlinear_arith);
}
/// withdrawing it (returned amount rounded DOWN) keeps token B solvent; so does any partial withdrawal
pub proof fn lemma_withdraw_b(vault: int, owed: int, claim: int, l: int, d: int)
    requires solvent_b(vault, owed, claim), l >= 0, d >= 0,
    ensures solvent_b(vault - div_round(l * d, Q(), false), owed, claim - l * d),
{
    lemma_round_bounds(l * d, Q());
    assert((vault - div_round(l * d, Q(), false)) * Q() == vault * Q() - div_round(l * d, Q(), false) * Q()) by(nonlinear_arith);
}
/// a swap step that moves the price by d inside one constant-liquidity segment: token B in (ceil) resp. out (floor) at the in-range liquidity
pub proof fn lemma_swap_step_b(vault: int, owed: int, claim: int, l: int, d: int, b_in: bool)
    requires solvent_b(vault, owed, claim), l >= 0, d >= 0,
    ensures b_in ==> solvent_b(vault + delta_b(0, d, l, true), owed, claim + l * d),
            !b_in ==> solvent_b(vault - delta_b(0, d, l, false), owed, claim - l * d),
{
    assert(abs_diff(0, d) == d);
    if b_in { lemma_deposit_b(vault, owed, claim, l, d); } else { lemma_withdraw_b(vault, owed, claim, l, d); }
}

/// token A: claims are measured in 1/p. For a move between prices p0 < p1 at liquidity l the exact claim change is
/// l * Q * (p1 - p0) / (p0 * p1); with the common denominator D = p0 * p1 cleared:  vault_a * D >= owed * D + claim_D
pub open spec fn solvent_a(vault: int, owed: int, claim_d: int, den: int) -> bool { vault * den >= owed * den + claim_d }
pub proof fn lemma_step_a(vault: int, owed: int, claim_d: int, l: int, p0: int, p1: int, a_in: bool)
    requires 0 < p0 <= p1, l >= 0, solvent_a(vault, owed, claim_d, p0 * p1),
    ensures a_in ==> solvent_a(vault + delta_a(p0, p1, l, true), owed, claim_d + l * (p1 - p0) * Q(), p0 * p1),
            !a_in ==> solvent_a(vault - delta_a(p0, p1, l, false), owed, claim_d - l * (p1 - p0) * Q(), p0 * p1),
{
    let den = p0 * p1;
    assert(den > 0) by(nonlinear_arith) requires p0 > 0, p1 > 0, den == p0 * p1;
    assert(abs_diff(p0, p1) == p1 - p0);
    let n = l * (p1 - p0) * Q();
    lemma_round_bounds(n, den);
    if a_in {
        assert((vault + div_round(n, den, true)) * den == vault * den + div_round(n, den, true) * den) by(nonlinear_arith);
    } else {
        assert((vault - div_round(n, den, false)) * den == vault * den - div_round(n, den, false) * den) by(nonlinear_arith);
    }
}

/// the fee of a step enters the vault in full; the protocol cut (floor) and the LP accrual (growth floored) together claim at most that fee
pub proof fn lemma_fee_covered(vault: int, owed: int, claim: int, fee: int, rate: int, l: int)
    requires solvent_b(vault, owed, claim), fee >= 0, 0 <= rate <= 10_000, l > 0,
    ensures ({
        let cut = (fee * rate) / 10_000;
        let growth = ((fee - cut) * Q()) / l;           // added to fee_growth_global (Q64.64 per unit of liquidity)
        // positions in range hold at most l in total, so they can later be credited at most l * growth / Q <= fee - cut
        solvent_b(vault + fee, owed + cut, claim + l * growth) && 0 <= cut <= fee
    }),
{
    let cut = (fee * rate) / 10_000;
    assert(0 <= fee * rate <= fee * 10_000) by(nonlinear_arith) requires fee >= 0, 0 <= rate <= 10_000;
    lemma_le_floor(cut, fee * rate, 10_000);
    lemma_le_floor(fee, fee * rate, 10_000);
    vstd::arithmetic::div_mod::lemma_div_pos_is_pos(fee * rate, 10_000);
    assert(cut <= fee) by { if cut > fee { assert(cut * 10_000 > fee * 10_000); } }
    let lp = fee - cut;
    let growth = (lp * Q()) / l;
    lemma_le_floor(growth, lp * Q(), l);                // growth * l <= lp * Q
    assert((vault + fee) * Q() == vault * Q() + cut * Q() + lp * Q()) by(nonlinear_arith) requires lp == fee - cut;
    assert((owed + cut) * Q() == owed * Q() + cut * Q()) by(nonlinear_arith);
    assert(l * growth == growth * l) by(nonlinear_arith);
}

/// pro-rata credit: positions with liquidity l1, l2 (l1 + l2 <= l) are credited floor(l_i * growth / Q) each; together never more than the LP fee
pub proof fn lemma_credit_pro_rata(l1: int, l2: int, l: int, lp: int)
    requires 0 <= l1, 0 <= l2, l1 + l2 <= l, l > 0, lp >= 0,
    ensures ({ let growth = (lp * Q()) / l; (l1 * growth) / Q() + (l2 * growth) / Q() <= lp }),
{
    let growth = (lp * Q()) / l;
    assert(lp * Q() >= 0) by(nonlinear_arith) requires lp >= 0;
    vstd::arithmetic::div_mod::lemma_div_pos_is_pos(lp * Q(), l);
    lemma_le_floor(growth, lp * Q(), l);                // growth * l <= lp * Q
    assert(l1 * growth >= 0 && l2 * growth >= 0) by(nonlinear_arith) requires l1 >= 0, l2 >= 0, growth >= 0;
    lemma_round_bounds(l1 * growth, Q()); lemma_round_bounds(l2 * growth, Q());
    let c1 = (l1 * growth) / Q(); let c2 = (l2 * growth) / Q();
    assert((c1 + c2) * Q() <= lp * Q()) by(nonlinear_arith)
        requires c1 * Q() <= l1 * growth, c2 * Q() <= l2 * growth, growth * l <= lp * Q(), l1 + l2 <= l, growth >= 0, l1 >= 0, l2 >= 0;
    assert(c1 + c2 <= lp) by(nonlinear_arith) requires (c1 + c2) * Q() <= lp * Q(), Q() > 0;
}

/// a trader who swaps there and back inside one segment never ends with more of one token and no less of the other:
/// token B paid going up (ceil) is at least token B received coming back down (floor) over the same price distance
pub proof fn lemma_round_trip_b(l: int, d: int)
    requires l >= 0, d >= 0,
    ensures delta_b(0, d, l, true) >= delta_b(0, d, l, false),
{
    assert(abs_diff(0, d) == d);
}
pub proof fn lemma_round_trip_a(l: int, p0: int, p1: int)
    requires l >= 0, 0 < p0 <= p1,
    ensures delta_a(p0, p1, l, true) >= delta_a(p0, p1, l, false),
{
}
}
