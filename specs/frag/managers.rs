//@ needs specs errors anchor_shim stdspecs state_core liquidity_math bit_math
pub mod managers {
use vstd::prelude::*;
use crate::errors::ErrorCode;
use crate::specs::*;
use crate::anchor_shim::{Pubkey, pk_default};
use crate::state_core::*;
use crate::liquidity_math::*;
use crate::bit_math::*;
broadcast use {crate::bitlemmas::bits64, vstd::arithmetic::mul::group_mul_basics};

pub open spec fn wsub(a: u128, b: u128) -> u128 { (if a >= b { a - b } else { a - b + 0x1_0000_0000_0000_0000_0000_0000_0000_0000int }) as u128 }
pub open spec fn wadd(a: u128, b: u128) -> u128 { (if a + b > u128::MAX { a + b - 0x1_0000_0000_0000_0000_0000_0000_0000_0000int } else { a + b }) as u128 }
pub open spec fn wadd64(a: u64, b: u64) -> u64 { (if a + b > u64::MAX { a + b - 0x1_0000_0000_0000_0000int } else { a + b }) as u64 }

// ---------------------------------------------------------------- tick_manager
//@ tags C05 C07 C11 C12 C01
/// crossing a tick flips its outside accumulators to the other side and leaves the liquidity fields alone
pub open spec fn cross_spec(tick: Tick, ga: u128, gb: u128, ri: [WhirlpoolRewardInfo; 3], u: TickUpdate) -> bool {
    &&& u.initialized == tick.initialized && u.liquidity_net == tick.liquidity_net && u.liquidity_gross == tick.liquidity_gross
    &&& u.fee_growth_outside_a == wsub(ga, tick.fee_growth_outside_a)
    &&& u.fee_growth_outside_b == wsub(gb, tick.fee_growth_outside_b)
    &&& forall|k: int| 0 <= k < 3 ==> #[trigger] u.reward_growths_outside[k] ==
            (if ri[k].is_init() { wsub(ri[k].growth_global_x64, tick.reward_growths_outside[k]) } else { tick.reward_growths_outside[k] })
}
//@ fn manager/tick_manager.rs next_tick_cross_update -> r
    ensures r matches Ok(u) && cross_spec(*tick, fee_growth_global_a, fee_growth_global_b, *reward_infos, u),
//@ rewrite_enum
//@ loop 0
        invariant i_it <= 3, reward_infos.len() == 3,
            update.initialized == tick.initialized && update.liquidity_net == tick.liquidity_net && update.liquidity_gross == tick.liquidity_gross,
            update.fee_growth_outside_a == wsub(fee_growth_global_a, tick.fee_growth_outside_a),
            update.fee_growth_outside_b == wsub(fee_growth_global_b, tick.fee_growth_outside_b),
            forall|k: int| 0 <= k < i_it ==> #[trigger] update.reward_growths_outside[k] ==
                (if reward_infos[k].is_init() { wsub(reward_infos[k].growth_global_x64, tick.reward_growths_outside[k]) } else { tick.reward_growths_outside[k] }),
            forall|k: int| i_it <= k < 3 ==> update.reward_growths_outside[k] == tick.reward_growths_outside[k],
        decreases 3 - i_it,
//@ end

/// liquidity change at a range bound (C05: net +-delta by side, gross + delta; C07: new-tick convention).
/// Split into the error outcome and the predicate on a successful result so that the Anchor and the Pinocchio implementation carry the same text (C12).
pub open spec fn tick_modify_err(tick: Tick, delta: int, is_upper: bool) -> Option<ErrorCode> {
    let gross = tick.liquidity_gross as int + delta;
    let net = if is_upper { tick.liquidity_net as int - delta } else { tick.liquidity_net as int + delta };
    if delta == 0 { None }
    else if gross > U128MAX() { Some(ErrorCode::LiquidityOverflow) }
    else if gross < 0 { Some(ErrorCode::LiquidityUnderflow) }
    else if gross == 0 { None }
    else if net > i128::MAX as int || net < i128::MIN as int { Some(ErrorCode::LiquidityNetError) }
    else { None }
}
pub open spec fn tick_modify_ok(tick: Tick, tick_index: int, cur: int, ga: u128, gb: u128, g: spec_fn(int) -> u128, delta: int, is_upper: bool, u: TickUpdate) -> bool {
    let gross = tick.liquidity_gross as int + delta;
    let net = if is_upper { tick.liquidity_net as int - delta } else { tick.liquidity_net as int + delta };
    if delta == 0 { u == tick.as_update() }
    else if gross == 0 { is_tick_update_default(u) }
    else {
        u.initialized && u.liquidity_gross as int == gross && u.liquidity_net as int == net
        && (if tick.liquidity_gross == 0 {
                if cur >= tick_index {
                    u.fee_growth_outside_a == ga && u.fee_growth_outside_b == gb
                    && (forall|k: int| 0 <= k < 3 ==> #[trigger] u.reward_growths_outside[k] == g(k))
                } else {
                    u.fee_growth_outside_a == 0 && u.fee_growth_outside_b == 0
                    && (forall|k: int| 0 <= k < 3 ==> #[trigger] u.reward_growths_outside[k] == 0)
                }
            } else {
                u.fee_growth_outside_a == tick.fee_growth_outside_a && u.fee_growth_outside_b == tick.fee_growth_outside_b
                && u.reward_growths_outside == tick.reward_growths_outside
            })
    }
}
pub open spec fn tick_modify_spec(tick: Tick, tick_index: int, cur: int, ga: u128, gb: u128, ri: [WhirlpoolRewardInfo; 3], delta: int, is_upper: bool, r: Result<TickUpdate, ErrorCode>) -> bool {
    match r {
        Ok(u) => tick_modify_err(tick, delta, is_upper) is None && tick_modify_ok(tick, tick_index, cur, ga, gb, |k: int| ri[k].growth_global_x64, delta, is_upper, u),
        Err(e) => tick_modify_err(tick, delta, is_upper) == Some(e),
    }
}
//@ fn manager/tick_manager.rs next_tick_modify_liquidity_update -> r canary
    ensures tick_modify_spec(*tick, tick_index as int, tick_current_index as int, fee_growth_global_a, fee_growth_global_b, *reward_infos, liquidity_delta as int, is_upper_tick, r),
//@ end

pub open spec fn growth_inside(cur: int, lower_init: bool, lower_out: u128, lower_index: int, upper_init: bool, upper_out: u128, upper_index: int, global: u128) -> u128 {
    let below = if !lower_init { global } else if cur < lower_index { wsub(global, lower_out) } else { lower_out };
    let above = if !upper_init { 0u128 } else if cur < upper_index { upper_out } else { wsub(global, upper_out) };
    wsub(wsub(global, below), above)
}
//@ fn manager/tick_manager.rs next_fee_growths_inside -> r tags=C07,C12,C01
    ensures
        r.0 == growth_inside(tick_current_index as int, tick_lower.initialized, tick_lower.fee_growth_outside_a, tick_lower_index as int,
                             tick_upper.initialized, tick_upper.fee_growth_outside_a, tick_upper_index as int, fee_growth_global_a),
        r.1 == growth_inside(tick_current_index as int, tick_lower.initialized, tick_lower.fee_growth_outside_b, tick_lower_index as int,
                             tick_upper.initialized, tick_upper.fee_growth_outside_b, tick_upper_index as int, fee_growth_global_b),
//@ end

//@ fn manager/tick_manager.rs next_reward_growths_inside -> r tags=C11,C12,C01
    ensures forall|k: int| 0 <= k < 3 ==> #[trigger] r[k] == (if reward_infos[k].is_init() {
            growth_inside(tick_current_index as int, tick_lower.initialized, tick_lower.reward_growths_outside[k], tick_lower_index as int,
                          tick_upper.initialized, tick_upper.reward_growths_outside[k], tick_upper_index as int, reward_infos[k].growth_global_x64) } else { 0u128 }),
//@ rewrite_for
//@ loop 0
        invariant i_it <= 3,
            forall|k: int| 0 <= k < i_it ==> #[trigger] reward_growths_inside[k] == (if reward_infos[k].is_init() {
                growth_inside(tick_current_index as int, tick_lower.initialized, tick_lower.reward_growths_outside[k], tick_lower_index as int,
                          tick_upper.initialized, tick_upper.reward_growths_outside[k], tick_upper_index as int, reward_infos[k].growth_global_x64) } else { 0u128 }),
            forall|k: int| i_it <= k < 3 ==> reward_growths_inside[k] == 0,
        decreases 3 - i_it,
//@ end

// ---------------------------------------------------------------- position_manager
//@ tags C05 C07 C11 C12 C01
/// amount credited for a growth delta: floor(L * delta / 2^64), or nothing when the product or the result overflows
pub open spec fn credit(l: u128, delta: u128) -> u64 {
    if l as int * delta as int <= U128MAX() && (l as int * delta as int) / Q() <= U64MAX() { ((l as int * delta as int) / Q()) as u64 } else { 0u64 }
}
pub open spec fn position_modify_err(p: Position, delta: int) -> Option<ErrorCode> {
    let l = p.liquidity as int + delta;
    if l > U128MAX() { Some(ErrorCode::LiquidityOverflow) } else if l < 0 { Some(ErrorCode::LiquidityUnderflow) } else { None }
}
pub open spec fn position_modify_ok(p: Position, delta: int, fa: u128, fb: u128, rg: [u128; 3], u: PositionUpdate) -> bool {
    u.liquidity as int == p.liquidity as int + delta
    && u.fee_growth_checkpoint_a == fa && u.fee_growth_checkpoint_b == fb
    && u.fee_owed_a == wadd64(p.fee_owed_a, credit(p.liquidity, wsub(fa, p.fee_growth_checkpoint_a)))
    && u.fee_owed_b == wadd64(p.fee_owed_b, credit(p.liquidity, wsub(fb, p.fee_growth_checkpoint_b)))
    && (forall|k: int| 0 <= k < 3 ==> (#[trigger] u.reward_infos[k]).growth_inside_checkpoint == rg[k]
          && u.reward_infos[k].amount_owed == wadd64(p.reward_infos[k].amount_owed, credit(p.liquidity, wsub(rg[k], p.reward_infos[k].growth_inside_checkpoint))))
}
pub open spec fn position_modify_spec(p: Position, delta: int, fa: u128, fb: u128, rg: [u128; 3], r: Result<PositionUpdate, ErrorCode>) -> bool {
    match r {
        Ok(u) => position_modify_err(p, delta) is None && position_modify_ok(p, delta, fa, fb, rg, u),
        Err(e) => position_modify_err(p, delta) == Some(e),
    }
}
//@ fn manager/position_manager.rs next_position_modify_liquidity_update -> r canary
    ensures position_modify_spec(*position, liquidity_delta as int, fee_growth_inside_a, fee_growth_inside_b, *reward_growths_inside, r),
//@ rewrite_enum_mut
//@ loop 0
        invariant i_it <= 3, update.reward_infos.len() == 3,
            update.fee_growth_checkpoint_a == fee_growth_inside_a && update.fee_growth_checkpoint_b == fee_growth_inside_b,
            update.fee_owed_a == wadd64(position.fee_owed_a, credit(position.liquidity, wsub(fee_growth_inside_a, position.fee_growth_checkpoint_a))),
            update.fee_owed_b == wadd64(position.fee_owed_b, credit(position.liquidity, wsub(fee_growth_inside_b, position.fee_growth_checkpoint_b))),
            forall|k: int| 0 <= k < i_it ==> (#[trigger] update.reward_infos[k]).growth_inside_checkpoint == reward_growths_inside[k]
              && update.reward_infos[k].amount_owed == wadd64(position.reward_infos[k].amount_owed, credit(position.liquidity, wsub(reward_growths_inside[k], position.reward_infos[k].growth_inside_checkpoint))),
        decreases 3 - i_it,
//@ end

// ---------------------------------------------------------------- whirlpool_manager
//@ tags C11 C05 C12 C01
/// growth added to an initialized reward over dt seconds: floor(dt * emissions / L), or nothing when dt * emissions overflows
pub open spec fn reward_delta(dt: int, e: u128, l: u128) -> u128 {
    if dt * e as int <= U128MAX() && l > 0 { ((dt * e as int) / l as int) as u128 } else { 0u128 }
}
/// next global growth of reward k at time `next` (C11): unchanged without liquidity / elapsed time / for an uninitialized reward
pub open spec fn next_growth(w: Whirlpool, next: int, k: int) -> u128 {
    let cur = w.reward_last_updated_timestamp as int;
    if w.liquidity == 0 || next == cur || !w.reward_infos[k].is_init() { w.reward_infos[k].growth_global_x64 }
    else { wadd(w.reward_infos[k].growth_global_x64, reward_delta(next - cur, w.reward_infos[k].emissions_per_second_x64, w.liquidity)) }
}
pub open spec fn reward_infos_spec(w: Whirlpool, next: int, r: Result<[WhirlpoolRewardInfo; 3], ErrorCode>) -> bool {
    let cur = w.reward_last_updated_timestamp as int;
    match r {
        Err(e) => next < cur && e == ErrorCode::InvalidTimestamp,
        Ok(ri) => next >= cur && forall|k: int| 0 <= k < 3 ==> #[trigger] ri[k] == (WhirlpoolRewardInfo { growth_global_x64: next_growth(w, next, k), ..w.reward_infos[k] }),
    }
}
//@ fn manager/whirlpool_manager.rs next_whirlpool_reward_infos -> r tags=C11,C12,C01 canary
    ensures reward_infos_spec(*whirlpool, next_timestamp as int, r),
//@ rewrite_iter_mut
//@ loop 0
        invariant reward_info_it <= 3, next_reward_infos.len() == 3, time_delta as int == next_timestamp as int - curr_timestamp as int, whirlpool.liquidity > 0,
            curr_timestamp == whirlpool.reward_last_updated_timestamp, next_timestamp > curr_timestamp,
            forall|k: int| 0 <= k < reward_info_it ==> #[trigger] next_reward_infos[k] == (WhirlpoolRewardInfo { growth_global_x64: next_growth(*whirlpool, next_timestamp as int, k), ..whirlpool.reward_infos[k] }),
            forall|k: int| reward_info_it <= k < 3 ==> next_reward_infos[k] == whirlpool.reward_infos[k],
        decreases 3 - reward_info_it,
//@ end

//@ fn manager/whirlpool_manager.rs next_whirlpool_liquidity -> r tags=C05,C12,C01 canary
    ensures
        ({
            let in_range = tick_lower_index <= whirlpool.tick_current_index < tick_upper_index;
            let l = whirlpool.liquidity as int + liquidity_delta as int;
            if !in_range { r == Ok::<u128, ErrorCode>(whirlpool.liquidity) }
            else if l > U128MAX() { r == Err::<u128, ErrorCode>(ErrorCode::LiquidityOverflow) }
            else if l < 0 { r == Err::<u128, ErrorCode>(ErrorCode::LiquidityUnderflow) }
            else { r == Ok::<u128, ErrorCode>(l as u128) }
        }),
//@ end
}
