//@ needs specs errors stdspecs lebytes anchor_shim state_core oracle tick_math_abs authority validators settings_handlers(stub)
// C04 / C19 / C14 at handler level: adaptive fee tiers are created and re-parameterised only on the signature of the config's fee authority, for a tier of
// that config, and only with constants that satisfy the published validity rules (the state-level validators are verified in fragment validators).
pub mod adaptive_settings_handlers {
use vstd::prelude::*;
use crate::errors::ErrorCode;
use crate::specs::*;
use crate::anchor_shim::*;
use crate::authority::Signer;
use crate::oracle::*;
use crate::validators::{WhirlpoolsConfig, AdaptiveFeeTier, Oracle};
use crate::settings_handlers::{Context, Program, System};
//@ tags C04 C19 C14

//@ struct instructions/adaptive_fee/initialize_adaptive_fee_tier.rs InitializeAdaptiveFeeTier
//@ constraints instructions/adaptive_fee/initialize_adaptive_fee_tier.rs InitializeAdaptiveFeeTier
//@ fn instructions/adaptive_fee/initialize_adaptive_fee_tier.rs handler -> r as=initialize_adaptive_fee_tier_handler canary
    requires constraints_InitializeAdaptiveFeeTier(old(ctx.accounts), fee_tier_index),
    ensures
        r is Ok ==> old(ctx.accounts).fee_authority.skey() == old(ctx.accounts).whirlpools_config.data.fee_authority && old(ctx.accounts).fee_authority.info.is_signer, //# C04
        r is Ok ==> ({ let t = final(ctx.accounts).adaptive_fee_tier.data;
            &&& t.whirlpools_config == old(ctx.accounts).whirlpools_config.skey() && t.fee_tier_index == fee_tier_index && t.tick_spacing == tick_spacing
            &&& tick_spacing != 0 && fee_tier_index != tick_spacing && t.default_base_fee_rate == default_base_fee_rate && default_base_fee_rate <= 60_000
            &&& t.initialize_pool_authority == initialize_pool_authority && t.delegated_fee_authority == delegated_fee_authority
            &&& t.constants_valid() }), //# C19 C14
//@ end

//@ struct instructions/adaptive_fee/set_preset_adaptive_fee_constants.rs SetPresetAdaptiveFeeConstants
//@ constraints instructions/adaptive_fee/set_preset_adaptive_fee_constants.rs SetPresetAdaptiveFeeConstants
//@ fn instructions/adaptive_fee/set_preset_adaptive_fee_constants.rs handler -> r as=set_preset_adaptive_fee_constants_handler canary
    requires constraints_SetPresetAdaptiveFeeConstants(old(ctx.accounts)),
    ensures
        r is Ok ==> old(ctx.accounts).fee_authority.skey() == old(ctx.accounts).whirlpools_config.data.fee_authority && old(ctx.accounts).fee_authority.info.is_signer, //# C04
        r is Ok ==> old(ctx.accounts).adaptive_fee_tier.data.whirlpools_config == old(ctx.accounts).whirlpools_config.skey(), //# C04
        r is Ok ==> final(ctx.accounts).adaptive_fee_tier.data.constants_valid()
            && final(ctx.accounts).adaptive_fee_tier.data == (AdaptiveFeeTier { filter_period, decay_period, reduction_factor, adaptive_fee_control_factor,
                    max_volatility_accumulator, tick_group_size, major_swap_threshold_ticks, ..old(ctx.accounts).adaptive_fee_tier.data }), //# C19 C14
        r is Err ==> final(ctx.accounts).adaptive_fee_tier.data == old(ctx.accounts).adaptive_fee_tier.data,
//@ end

// ------------------------------------------------------------------ set_adaptive_fee_constants (per-pool constants in the oracle account)
//@ assume set_adaptive_fee_constants shims: AccountLoader<Oracle>::load_mut hands out the oracle account mutably (the zero-copy borrow is not modelled); `updated_constants == existing_constants` (derived PartialEq on a plain-data struct) is structural equality (helper constants_eq); Option::unwrap_or has its std meaning
use crate::state_core::Whirlpool;
pub struct AccountLoader<'info, T> { pub data: T, pub k: Pubkey, pub p: core::marker::PhantomData<&'info ()> }
impl<'info, T> AccountLoader<'info, T> {
    #[verifier::external_body]
    pub fn load_mut(&mut self) -> (r: Result<&mut T>) ensures r matches Ok(x) ==> *x == old(self).data && *final(x) == final(self).data && final(self).k == old(self).k, r is Err ==> *final(self) == *old(self) { unimplemented!() }
}
impl<'info, T> SKey for AccountLoader<'info, T> { open spec fn skey(&self) -> Pubkey { self.k } }
#[verifier::external_body]
pub fn constants_eq(a: &AdaptiveFeeConstants, b: &AdaptiveFeeConstants) -> (r: bool) ensures r == (*a == *b) { unimplemented!() }
//@ struct instructions/adaptive_fee/set_adaptive_fee_constants.rs SetAdaptiveFeeConstants
//@ constraints instructions/adaptive_fee/set_adaptive_fee_constants.rs SetAdaptiveFeeConstants
/// C04 / C14 / C19: the config's fee authority signed, the pool belongs to that config and the oracle to that pool; the new constants (each given value replaces
/// the stored one) differ from the stored ones and are valid for the pool's tick spacing; the adaptive-fee variables restart from their defaults
//@ fn instructions/adaptive_fee/set_adaptive_fee_constants.rs handler -> r as=set_adaptive_fee_constants_handler canary
    requires constraints_SetAdaptiveFeeConstants(old(ctx.accounts)),
    ensures
        r is Ok ==> old(ctx.accounts).fee_authority.skey() == old(ctx.accounts).whirlpools_config.data.fee_authority && old(ctx.accounts).fee_authority.info.is_signer, //# C04
        r is Ok ==> old(ctx.accounts).whirlpool.data.whirlpools_config == old(ctx.accounts).whirlpools_config.skey() && old(ctx.accounts).oracle.data.whirlpool == old(ctx.accounts).whirlpool.skey(), //# C04 C15
        r is Ok ==> ({ let c0 = old(ctx.accounts).oracle.data.adaptive_fee_constants; let c1 = final(ctx.accounts).oracle.data.adaptive_fee_constants;
            &&& c1.filter_period == (match filter_period { Some(v) => v, None => c0.filter_period }) && c1.decay_period == (match decay_period { Some(v) => v, None => c0.decay_period })
            &&& c1.reduction_factor == (match reduction_factor { Some(v) => v, None => c0.reduction_factor })
            &&& c1.adaptive_fee_control_factor == (match adaptive_fee_control_factor { Some(v) => v, None => c0.adaptive_fee_control_factor })
            &&& c1.max_volatility_accumulator == (match max_volatility_accumulator { Some(v) => v, None => c0.max_volatility_accumulator })
            &&& c1.tick_group_size == (match tick_group_size { Some(v) => v, None => c0.tick_group_size })
            &&& c1.major_swap_threshold_ticks == (match major_swap_threshold_ticks { Some(v) => v, None => c0.major_swap_threshold_ticks })
            &&& c1 != c0 && c1.valid_for(old(ctx.accounts).whirlpool.data.tick_spacing as int)
            &&& is_vars_default(final(ctx.accounts).oracle.data.adaptive_fee_variables)
            &&& final(ctx.accounts).oracle.data.whirlpool == old(ctx.accounts).oracle.data.whirlpool && final(ctx.accounts).oracle.data.trade_enable_timestamp == old(ctx.accounts).oracle.data.trade_enable_timestamp }), //# C14 C19
//@ rewrite /let mut oracle = ctx\.accounts\.oracle\.load_mut\(\)\?;/ => /let oracle = ctx.accounts.oracle.load_mut()?;/
//@ rewrite /if updated_constants == existing_constants \{/ => /if constants_eq(&updated_constants, &existing_constants) {/
//@ end
}
