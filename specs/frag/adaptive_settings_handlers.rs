//@ needs specs errors stdspecs lebytes anchor_shim state_core oracle tick_math_abs authority validators settings_handlers(stub)
// C04 / C19 / C14 at handler level: adaptive fee tiers are created and re-parameterised only on the signature of the config's fee authority, for a tier of
// that config, and only with constants that satisfy the published validity rules (the state-level validators are verified in fragment validators).
pub mod adaptive_settings_handlers {
use vstd::prelude::*;
use crate::errors::ErrorCode;
use crate::specs::*;
use crate::anchor_shim::*;
use crate::authority::Signer;
use crate::oracle::*;
use crate::validators::{WhirlpoolsConfig, AdaptiveFeeTier};
use crate::settings_handlers::{Context, Program, System};
//@ tags C04 C19 C14

//@ struct instructions/adaptive_fee/initialize_adaptive_fee_tier.rs InitializeAdaptiveFeeTier
//@ constraints instructions/adaptive_fee/initialize_adaptive_fee_tier.rs InitializeAdaptiveFeeTier
//@ fn instructions/adaptive_fee/initialize_adaptive_fee_tier.rs handler -> r as=initialize_adaptive_fee_tier_handler canary
    requires constraints_InitializeAdaptiveFeeTier(old(ctx.accounts)),
    ensures
        r is Ok ==> old(ctx.accounts).fee_authority.skey() == old(ctx.accounts).whirlpools_config.data.fee_authority && old(ctx.accounts).fee_authority.info.is_signer, //# C04
        r is Ok ==> ({ let t = final(ctx.accounts).adaptive_fee_tier.data;
            &&& t.whirlpools_config == old(ctx.accounts).whirlpools_config.skey() && t.fee_tier_index == fee_tier_index && t.tick_spacing == tick_spacing
            &&& tick_spacing != 0 && fee_tier_index != tick_spacing && t.default_base_fee_rate == default_base_fee_rate && default_base_fee_rate <= 60_000
            &&& t.initialize_pool_authority == initialize_pool_authority && t.delegated_fee_authority == delegated_fee_authority
            &&& t.constants_valid() }), //# C19 C14
//@ end

//@ struct instructions/adaptive_fee/set_preset_adaptive_fee_constants.rs SetPresetAdaptiveFeeConstants
//@ constraints instructions/adaptive_fee/set_preset_adaptive_fee_constants.rs SetPresetAdaptiveFeeConstants
//@ fn instructions/adaptive_fee/set_preset_adaptive_fee_constants.rs handler -> r as=set_preset_adaptive_fee_constants_handler canary
    requires constraints_SetPresetAdaptiveFeeConstants(old(ctx.accounts)),
    ensures
        r is Ok ==> old(ctx.accounts).fee_authority.skey() == old(ctx.accounts).whirlpools_config.data.fee_authority && old(ctx.accounts).fee_authority.info.is_signer, //# C04
        r is Ok ==> old(ctx.accounts).adaptive_fee_tier.data.whirlpools_config == old(ctx.accounts).whirlpools_config.skey(), //# C04
        r is Ok ==> final(ctx.accounts).adaptive_fee_tier.data.constants_valid()
            && final(ctx.accounts).adaptive_fee_tier.data == (AdaptiveFeeTier { filter_period, decay_period, reduction_factor, adaptive_fee_control_factor,
                    max_volatility_accumulator, tick_group_size, major_swap_threshold_ticks, ..old(ctx.accounts).adaptive_fee_tier.data }), //# C19 C14
        r is Err ==> final(ctx.accounts).adaptive_fee_tier.data == old(ctx.accounts).adaptive_fee_tier.data,
//@ end
}
