//@ needs specs errors stdspecs lebytes anchor_shim state_core authority position_rules managers bit_math swap_handlers(stub) handlers_small tick_math_abs liquidity_manager anchor_handlers(stub)
// C18 / C04 at handler level, token-extension positions: close_position_with_token_extensions (not when locked, only when empty, on the authority's signature,
// burning the position's own mint) and open_position_with_token_extensions (bound derived from the pool's sqrt-price, valid range, one token minted and sealed).
pub mod position_te_handlers {
use vstd::prelude::*;
use crate::errors::ErrorCode;
use crate::specs::*;
use crate::anchor_shim::{Pubkey, Error, Result, err, ax_qmark_anchor, SKey, SOwner};
use crate::authority::{authority_rule, copt, verify_position_authority_interface, is_locked_position, InterfaceAccount, TokenAccount, Signer, AccountInfo};
use crate::state_core::{Whirlpool, Position};
use crate::position_rules::range_valid;
use crate::handlers_small::{resolve_one_sided_position_ticks, one_sided_spec};
use crate::swap_handlers::{Context, Account, Program, UncheckedAccount, Mint, Token};
use crate::anchor_handlers::{Token2022, System, AssociatedToken, burned_by_cpi, position_seeds_shim, collect_rent_for_ticks_in_position, PositionOpened, emit_position_opened, position_opened_emitted, opened_ok, minted_one_and_sealed};
broadcast use crate::anchor_shim::ax_qmark_anchor;
//@ tags C18 C04
//@ assume token-extension position shims: burn_and_close_user_position_token_2022, initialize_position_mint_2022, initialize_token_metadata_extension, initialize_position_token_account_2022, mint_position_token_2022_and_remove_authority (Token-2022 / system / ATA CPIs) are external stubs recording a fact each; build_position_token_metadata (string formatting) is a stub; Whirlpool::is_non_transferable_position_required reads an opaque extension segment (uninterpreted predicate of the pool)
#[verifier::external_body]
pub fn burn_and_close_user_position_token_2022<'info>(token_authority: &Signer<'info>, receiver: &UncheckedAccount<'info>, position_mint: &InterfaceAccount<'info, Mint>, position_token_account: &InterfaceAccount<'info, TokenAccount>,
    token_2022_program: &Program<'info, Token2022>, position: &Account<'info, Position>, position_seeds: &[&[u8]]) -> (r: Result<()>)
    ensures r is Ok ==> burned_by_cpi(*position_token_account.info.key) { unimplemented!() }

//@ struct instructions/close_position_with_token_extensions.rs ClosePositionWithTokenExtensions
//@ constraints instructions/close_position_with_token_extensions.rs ClosePositionWithTokenExtensions
/// C18 / C04: a token-extension position is closed only on the signature of the holder of ITS token, never while locked, only when empty; its own token is burned
//@ fn instructions/close_position_with_token_extensions.rs handler -> r as=close_position_with_token_extensions_handler canary
    requires constraints_ClosePositionWithTokenExtensions(old(ctx.accounts)),
    ensures
        r is Ok ==> old(ctx.accounts).position_token_account.data.mint == old(ctx.accounts).position.data.position_mint && old(ctx.accounts).position_token_account.data.amount == 1, //# C04
        r is Ok ==> authority_rule(old(ctx.accounts).position_token_account.data.owner, copt(old(ctx.accounts).position_token_account.data.delegate), old(ctx.accounts).position_token_account.data.delegated_amount,
            *old(ctx.accounts).position_authority.info.key, old(ctx.accounts).position_authority.info.is_signer), //# C04
        r is Ok ==> !old(ctx.accounts).position_token_account.data.frozen, //# C18
        r is Ok ==> old(ctx.accounts).position.data.empty(), //# C18
        r is Ok ==> old(ctx.accounts).position_mint.skey() == old(ctx.accounts).position.data.position_mint && burned_by_cpi(*old(ctx.accounts).position_token_account.info.key), //# C18
//@ rewrite /&\[\s*b"position"\.as_ref\(\),[^\]]*\[ctx\.bumps\.position\],\s*\]/ => /position_seeds_shim()/
//@ end

// ------------------------------------------------------------------ open_position_with_token_extensions
pub uninterp spec fn ntp_required(w: Whirlpool) -> bool;
pub trait WhirlpoolNtp { fn is_non_transferable_position_required(&self) -> (r: bool); }
impl WhirlpoolNtp for Whirlpool {
    #[verifier::external_body]
    fn is_non_transferable_position_required(&self) -> (r: bool) ensures r == ntp_required(*self) { unimplemented!() }
}
pub uninterp spec fn te_mint_initialized(mint: Pubkey, non_transferable: bool) -> bool;
#[verifier::external_body]
pub fn initialize_position_mint_2022<'info>(position_mint: &Signer<'info>, funder: &Signer<'info>, position: &Account<'info, Position>, system_program: &Program<'info, System>,
    token_2022_program: &Program<'info, Token2022>, use_token_metadata_extension: bool, use_non_transferable_extension: bool) -> (r: Result<()>)
    ensures r is Ok ==> te_mint_initialized(*position_mint.info.key, use_non_transferable_extension) { unimplemented!() }
pub struct MetaStr {}
#[verifier::external_body]
pub fn build_position_token_metadata<'info>(position_mint: &Signer<'info>, position: &Account<'info, Position>) -> (r: (MetaStr, MetaStr, MetaStr)) { unimplemented!() }
#[verifier::external_body]
pub fn initialize_token_metadata_extension<'info>(name: MetaStr, symbol: MetaStr, uri: MetaStr, position_mint: &Signer<'info>, position: &Account<'info, Position>, metadata_update_authority: &UncheckedAccount<'info>,
    funder: &Signer<'info>, system_program: &Program<'info, System>, token_2022_program: &Program<'info, Token2022>, position_seeds: &[&[u8]]) -> (r: Result<()>) { unimplemented!() }
#[verifier::external_body]
pub fn initialize_position_token_account_2022<'info>(position_token_account: &UncheckedAccount<'info>, position_mint: &Signer<'info>, funder: &Signer<'info>, owner: &UncheckedAccount<'info>,
    token_2022_program: &Program<'info, Token2022>, system_program: &Program<'info, System>, associated_token_program: &Program<'info, AssociatedToken>) -> (r: Result<()>) { unimplemented!() }
#[verifier::external_body]
pub fn mint_position_token_2022_and_remove_authority<'info>(position: &Account<'info, Position>, position_mint: &Signer<'info>, position_token_account: &UncheckedAccount<'info>,
    token_2022_program: &Program<'info, Token2022>, position_seeds: &[&[u8]]) -> (r: Result<()>)
    ensures r is Ok ==> minted_one_and_sealed(*position_mint.info.key, *position_token_account.k) { unimplemented!() }

//@ struct instructions/open_position_with_token_extensions.rs OpenPositionWithTokenExtensions
//@ constraints instructions/open_position_with_token_extensions.rs OpenPositionWithTokenExtensions
/// C18: the stored range is the requested one with a sentinel bound derived from the pool's current sqrt-price, valid for the pool; the position names the pool and
/// its freshly created mint; exactly one token is minted and the mint sealed; the mint is non-transferable exactly when the pool requires it
//@ fn instructions/open_position_with_token_extensions.rs handler -> r as=open_position_with_token_extensions_handler canary
    requires constraints_OpenPositionWithTokenExtensions(old(ctx.accounts)), old(ctx.accounts).whirlpool.data.tick_spacing > 0, price_ok(old(ctx.accounts).whirlpool.data.sqrt_price as int),
    ensures
        r is Ok ==> opened_ok(*old(ctx.accounts).whirlpool, *old(ctx.accounts).position_mint.info.key, tick_lower_index, tick_upper_index, final(ctx.accounts).position.data), //# C18
        r is Ok ==> te_mint_initialized(*old(ctx.accounts).position_mint.info.key, ntp_required(old(ctx.accounts).whirlpool.data)), //# C18
        r is Ok ==> minted_one_and_sealed(*old(ctx.accounts).position_mint.info.key, *old(ctx.accounts).position_token_account.k), //# C18
//@ rewrite /emit!\(PositionOpened \{/ => /emit_position_opened(PositionOpened {/
//@ rewrite /let position_seeds = \[\s*b"position"\.as_ref\(\),\s*position_mint\.key\.as_ref\(\),\s*&\[ctx\.bumps\.position\],\s*\];/ => /let position_seeds = position_seeds_shim();/
//@ rewrite /&position_seeds/ => /position_seeds/ 2
//@ end

// ------------------------------------------------------------------ open_position_with_metadata (plain SPL position token + Metaplex metadata)
pub struct Metadata {}
pub mod state { pub struct OpenPositionWithMetadataBumps { pub position: u8, pub metadata: u8 } }
pub use crate::anchor_handlers::{Sysvar, Rent, ext_required, WhirlpoolExt};
#[verifier::external_body]
pub fn mint_position_token_with_metadata_and_remove_authority<'info>(whirlpool: &Account<'info, Whirlpool>, position: &Account<'info, Position>, position_mint: &Account<'info, Mint>,
    position_token_account: &Account<'info, TokenAccount>, position_metadata_account: &UncheckedAccount<'info>, metadata_update_auth: &UncheckedAccount<'info>, funder: &Signer<'info>,
    metadata_program: &Program<'info, Metadata>, token_program: &Program<'info, crate::swap_handlers::Token>, system_program: &Program<'info, System>, rent: &Sysvar<'info, Rent>) -> (r: Result<()>)
    ensures r is Ok ==> minted_one_and_sealed(position_mint.k, position_token_account.k) { unimplemented!() }
//@ struct instructions/open_position_with_metadata.rs OpenPositionWithMetadata
//@ constraints instructions/open_position_with_metadata.rs OpenPositionWithMetadata
/// C18: as open_position (sentinel bound from the pool's sqrt-price, valid range, position names pool and mint, one token minted and sealed), refused on pools
/// that require token-extension positions
//@ fn instructions/open_position_with_metadata.rs handler -> r as=open_position_with_metadata_handler canary
    requires constraints_OpenPositionWithMetadata(old(ctx.accounts)), old(ctx.accounts).whirlpool.data.tick_spacing > 0, price_ok(old(ctx.accounts).whirlpool.data.sqrt_price as int),
    ensures
        r is Ok ==> opened_ok(*old(ctx.accounts).whirlpool, old(ctx.accounts).position_mint.k, tick_lower_index, tick_upper_index, final(ctx.accounts).position.data), //# C18
        r is Ok ==> !ext_required(old(ctx.accounts).whirlpool.data), //# C18
        r is Ok ==> minted_one_and_sealed(old(ctx.accounts).position_mint.k, old(ctx.accounts).position_token_account.k), //# C18
//@ rewrite /emit!\(PositionOpened \{/ => /emit_position_opened(PositionOpened {/
//@ end

// ------------------------------------------------------------------ position bundles: initialisation
//@ assume bundle-init shims: mint_position_bundle_token_and_remove_authority / mint_position_bundle_token_with_metadata_and_remove_authority (token + metaplex CPIs) are external stubs recording minted_one_and_sealed; the `position_bundle` seeds slice handed to them is opaque
use crate::position_rules::{PositionBundle, bundle_open};
#[verifier::external_body]
pub fn mint_position_bundle_token_and_remove_authority<'info>(position_bundle: &Account<'info, PositionBundle>, position_bundle_mint: &Account<'info, Mint>, position_bundle_token_account: &Account<'info, TokenAccount>,
    token_program: &Program<'info, Token>, position_bundle_seeds: &[&[u8]]) -> (r: Result<()>)
    ensures r is Ok ==> minted_one_and_sealed(position_bundle_mint.k, position_bundle_token_account.k) { unimplemented!() }
impl PositionBundle {
//@ fn state/position_bundle.rs initialize in=/^impl PositionBundle \{/ -> r
    ensures r is Ok, *final(self) == (PositionBundle { position_bundle_mint: position_bundle_mint, ..*old(self) }),
//@ end
}
//@ struct instructions/initialize_position_bundle.rs InitializePositionBundle
//@ constraints instructions/initialize_position_bundle.rs InitializePositionBundle
/// C18: a new bundle names its own mint, lives at the address derived from ("position_bundle", that mint), has exactly one bundle token minted with the
/// mint sealed, and - the account being freshly created and zeroed - no bundled position open
//@ fn instructions/initialize_position_bundle.rs handler -> r as=initialize_position_bundle_handler canary
    requires constraints_InitializePositionBundle(old(ctx.accounts)),
        forall|j: int| 0 <= j < 256 ==> !#[trigger] bundle_open(old(ctx.accounts).position_bundle.data.position_bitmap, j), // `init`: Anchor hands over a zeroed account
    ensures
        r is Ok ==> final(ctx.accounts).position_bundle.data.position_bundle_mint == old(ctx.accounts).position_bundle_mint.k && final(ctx.accounts).position_bundle.data.position_bitmap == old(ctx.accounts).position_bundle.data.position_bitmap, //# C18
        r is Ok ==> old(ctx.accounts).position_bundle.skey() == crate::anchor_shim::pda_of(seq![crate::anchor_shim::Seed::Lit(0x706f736974696f6e5f62756e646c65int), crate::anchor_shim::Seed::Key(old(ctx.accounts).position_bundle_mint.skey())]), //# C18
        r is Ok ==> minted_one_and_sealed(old(ctx.accounts).position_bundle_mint.k, old(ctx.accounts).position_bundle_token_account.k), //# C18
//@ rewrite /&\[\s*b"position_bundle"\.as_ref\(\),[^\]]*\[bump\],\s*\]/ => /position_seeds_shim()/
//@ end

#[verifier::external_body]
pub fn mint_position_bundle_token_with_metadata_and_remove_authority<'info>(funder: &Signer<'info>, position_bundle: &Account<'info, PositionBundle>, position_bundle_mint: &Account<'info, Mint>,
    position_bundle_token_account: &Account<'info, TokenAccount>, position_bundle_metadata: &UncheckedAccount<'info>, metadata_update_auth: &UncheckedAccount<'info>, metadata_program: &Program<'info, Metadata>,
    token_program: &Program<'info, Token>, system_program: &Program<'info, System>, rent: &Sysvar<'info, Rent>, position_bundle_seeds: &[&[u8]]) -> (r: Result<()>)
    ensures r is Ok ==> minted_one_and_sealed(position_bundle_mint.k, position_bundle_token_account.k) { unimplemented!() }
//@ struct instructions/initialize_position_bundle_with_metadata.rs InitializePositionBundleWithMetadata
//@ constraints instructions/initialize_position_bundle_with_metadata.rs InitializePositionBundleWithMetadata
/// C18: as initialize_position_bundle, with the Metaplex metadata CPI
//@ fn instructions/initialize_position_bundle_with_metadata.rs handler -> r as=initialize_position_bundle_with_metadata_handler canary
    requires constraints_InitializePositionBundleWithMetadata(old(ctx.accounts)),
    ensures
        r is Ok ==> final(ctx.accounts).position_bundle.data.position_bundle_mint == old(ctx.accounts).position_bundle_mint.k && final(ctx.accounts).position_bundle.data.position_bitmap == old(ctx.accounts).position_bundle.data.position_bitmap, //# C18
        r is Ok ==> old(ctx.accounts).position_bundle.skey() == crate::anchor_shim::pda_of(seq![crate::anchor_shim::Seed::Lit(0x706f736974696f6e5f62756e646c65int), crate::anchor_shim::Seed::Key(old(ctx.accounts).position_bundle_mint.skey())]), //# C18
        r is Ok ==> minted_one_and_sealed(old(ctx.accounts).position_bundle_mint.k, old(ctx.accounts).position_bundle_token_account.k), //# C18
//@ rewrite /&\[\s*b"position_bundle"\.as_ref\(\),[^\]]*\[bump\],\s*\]/ => /position_seeds_shim()/
//@ end
}
