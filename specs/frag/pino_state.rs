//@ needs specs errors stdspecs lebytes anchor_shim state_core authority position_rules
// Pinocchio memory-mapped views: the real #[repr(C)] byte-array structs and their accessors, each specified against an
// abstract view() into the Anchor account type (state_core). C12: "read and write exactly the bytes the Anchor types serialize"
// is split: field-level accessor/setter correctness w.r.t. the LE views here (Verus), byte offsets vs Borsh in the Kani layout harnesses.
pub mod pino_state {
use vstd::prelude::*;
use crate::errors::ErrorCode;
use crate::specs::*;
use crate::lebytes::*;
use crate::anchor_shim::{Pubkey, pk_default};
use crate::authority_pino::{Result, UnifiedError};
use crate::state::Tick as _TickAlias;
use crate::state_core::{Tick, Position, PositionRewardInfo, PositionUpdate, Whirlpool, WhirlpoolRewardInfo, tick_usable, FULL_RANGE_ONLY_TICK_SPACING_THRESHOLD};
use crate::position_rules::range_valid;
broadcast use crate::lebytes::le_roundtrip;
//@ tags C12 C18
//@ subst /\b(u128|i128|u64|i32|u16)::from_le_bytes\(/ => /\1_from_le_bytes(/
//@ subst /\.to_le_bytes\(\)/ => /.to_le_bytes_v()/
pub type BytesU16 = [u8; 2];
pub type BytesU64 = [u8; 8];
pub type BytesU128 = [u8; 16];
pub type BytesI128 = [u8; 16];
pub type BytesI32 = [u8; 4];
pub type ByteBool = u8;
//@ const pinocchio/state/whirlpool/tick_array/mod.rs NUM_REWARDS TICK_ARRAY_SIZE TICK_ARRAY_SIZE_USIZE
//@ struct pinocchio/state/whirlpool/tick_array/mod.rs TickUpdate
//@ struct pinocchio/state/whirlpool/tick_array/tick.rs MemoryMappedTick
//@ struct pinocchio/state/whirlpool/position.rs MemoryMappedPositionRewardInfo MemoryMappedPosition
//@ struct pinocchio/state/whirlpool/whirlpool.rs MemoryMappedWhirlpoolRewardInfo MemoryMappedWhirlpool

//@ assume derive(Default) on the pinocchio TickUpdate replaced by an explicit all-zero impl
impl Default for TickUpdate {
    fn default() -> (r: Self) ensures crate::state_core::is_tick_update_default(r.view()) {
        TickUpdate { initialized: false, liquidity_net: 0, liquidity_gross: 0, fee_growth_outside_a: 0, fee_growth_outside_b: 0, reward_growths_outside: [0u128, 0u128, 0u128] }
    }
}
impl TickUpdate {
    /// the pinocchio TickUpdate is field-for-field the Anchor TickUpdate
    pub open spec fn view(&self) -> crate::state_core::TickUpdate {
        crate::state_core::TickUpdate { initialized: self.initialized, liquidity_net: self.liquidity_net, liquidity_gross: self.liquidity_gross,
            fee_growth_outside_a: self.fee_growth_outside_a, fee_growth_outside_b: self.fee_growth_outside_b, reward_growths_outside: self.reward_growths_outside }
    }
}

impl MemoryMappedTick {
    pub closed spec fn view(&self) -> Tick {
        Tick { initialized: self.initialized != 0, liquidity_net: le_i128(self.liquidity_net), liquidity_gross: le_u128(self.liquidity_gross),
            fee_growth_outside_a: le_u128(self.fee_growth_outside_a), fee_growth_outside_b: le_u128(self.fee_growth_outside_b),
            reward_growths_outside: [le_u128(self.reward_growths_outside[0]), le_u128(self.reward_growths_outside[1]), le_u128(self.reward_growths_outside[2])] }
    }
//@ fn pinocchio/state/whirlpool/tick_array/tick.rs initialized in=/^impl MemoryMappedTick \{/ -> r
    ensures r == self.view().initialized,
//@ end
//@ fn pinocchio/state/whirlpool/tick_array/tick.rs liquidity_net in=/^impl MemoryMappedTick \{/ -> r tags=C12,C05
    ensures r == self.view().liquidity_net,
//@ end
//@ fn pinocchio/state/whirlpool/tick_array/tick.rs liquidity_gross in=/^impl MemoryMappedTick \{/ -> r tags=C12,C05
    ensures r == self.view().liquidity_gross,
//@ end
//@ fn pinocchio/state/whirlpool/tick_array/tick.rs fee_growth_outside_a in=/^impl MemoryMappedTick \{/ -> r tags=C12,C07
    ensures r == self.view().fee_growth_outside_a,
//@ end
//@ fn pinocchio/state/whirlpool/tick_array/tick.rs fee_growth_outside_b in=/^impl MemoryMappedTick \{/ -> r tags=C12,C07
    ensures r == self.view().fee_growth_outside_b,
//@ end
//@ fn pinocchio/state/whirlpool/tick_array/tick.rs reward_growths_outside in=/^impl MemoryMappedTick \{/ -> r tags=C12,C11
    ensures r == self.view().reward_growths_outside,
//@ end
//@ fn pinocchio/state/whirlpool/tick_array/tick.rs update in=/^impl MemoryMappedTick \{/ tags=C12,C05,C07,C11,C01
    ensures final(self).view().initialized == update.initialized, final(self).view().liquidity_net == update.liquidity_net, final(self).view().liquidity_gross == update.liquidity_gross,
        final(self).view().fee_growth_outside_a == update.fee_growth_outside_a, final(self).view().fee_growth_outside_b == update.fee_growth_outside_b,
        forall|k: int| 0 <= k < 3 ==> final(self).view().reward_growths_outside[k] == update.reward_growths_outside[k],
        final(self).view().reward_growths_outside =~= update.reward_growths_outside,
//@ end
}

impl MemoryMappedPositionRewardInfo {
    pub closed spec fn view(&self) -> PositionRewardInfo { PositionRewardInfo { growth_inside_checkpoint: le_u128(self.growth_inside_checkpoint), amount_owed: le_u64(self.amount_owed) } }
//@ fn pinocchio/state/whirlpool/position.rs growth_inside_checkpoint in=/^impl MemoryMappedPositionRewardInfo \{/ -> r tags=C12,C11
    ensures r == self.view().growth_inside_checkpoint,
//@ end
//@ fn pinocchio/state/whirlpool/position.rs amount_owed in=/^impl MemoryMappedPositionRewardInfo \{/ -> r tags=C12,C11,C01
    ensures r == self.view().amount_owed,
//@ end
}

impl MemoryMappedPosition {
    pub closed spec fn view(&self) -> Position {
        Position { whirlpool: self.whirlpool, position_mint: self.position_mint, liquidity: le_u128(self.liquidity),
            tick_lower_index: le_i32(self.tick_lower_index), tick_upper_index: le_i32(self.tick_upper_index),
            fee_growth_checkpoint_a: le_u128(self.fee_growth_checkpoint_a), fee_owed_a: le_u64(self.fee_owed_a),
            fee_growth_checkpoint_b: le_u128(self.fee_growth_checkpoint_b), fee_owed_b: le_u64(self.fee_owed_b),
            reward_infos: [self.reward_infos[0].view(), self.reward_infos[1].view(), self.reward_infos[2].view()] }
    }
//@ fn pinocchio/state/whirlpool/position.rs whirlpool in=/^impl MemoryMappedPosition \{/ -> r tags=C15,C12
    ensures *r == self.view().whirlpool,
//@ end
//@ fn pinocchio/state/whirlpool/position.rs position_mint in=/^impl MemoryMappedPosition \{/ -> r tags=C15,C12
    ensures *r == self.view().position_mint,
//@ end
//@ fn pinocchio/state/whirlpool/position.rs liquidity in=/^impl MemoryMappedPosition \{/ -> r tags=C12,C18,C05
    ensures r == self.view().liquidity,
//@ end
//@ fn pinocchio/state/whirlpool/position.rs tick_lower_index in=/^impl MemoryMappedPosition \{/ -> r
    ensures r == self.view().tick_lower_index,
//@ end
//@ fn pinocchio/state/whirlpool/position.rs tick_upper_index in=/^impl MemoryMappedPosition \{/ -> r
    ensures r == self.view().tick_upper_index,
//@ end
//@ fn pinocchio/state/whirlpool/position.rs fee_growth_checkpoint_a in=/^impl MemoryMappedPosition \{/ -> r tags=C12,C07
    ensures r == self.view().fee_growth_checkpoint_a,
//@ end
//@ fn pinocchio/state/whirlpool/position.rs fee_owed_a in=/^impl MemoryMappedPosition \{/ -> r tags=C12,C18,C07,C01
    ensures r == self.view().fee_owed_a,
//@ end
//@ fn pinocchio/state/whirlpool/position.rs fee_growth_checkpoint_b in=/^impl MemoryMappedPosition \{/ -> r tags=C12,C07
    ensures r == self.view().fee_growth_checkpoint_b,
//@ end
//@ fn pinocchio/state/whirlpool/position.rs fee_owed_b in=/^impl MemoryMappedPosition \{/ -> r tags=C12,C18,C07,C01
    ensures r == self.view().fee_owed_b,
//@ end
//@ fn pinocchio/state/whirlpool/position.rs reward_infos in=/^impl MemoryMappedPosition \{/ -> r tags=C12,C18,C11
    ensures forall|k: int| 0 <= k < 3 ==> (#[trigger] r[k]).view() == self.view().reward_infos[k],
//@ end
//@ fn pinocchio/state/whirlpool/position.rs set_liquidity in=/^impl MemoryMappedPosition \{/ tags=C12,C05
    ensures final(self).view() == (Position { liquidity: liquidity, ..old(self).view() }),
//@ end
//@ fn pinocchio/state/whirlpool/position.rs set_tick_lower_index in=/^impl MemoryMappedPosition \{/
    ensures final(self).view() == (Position { tick_lower_index: tick_lower_index, ..old(self).view() }),
//@ end
//@ fn pinocchio/state/whirlpool/position.rs set_tick_upper_index in=/^impl MemoryMappedPosition \{/
    ensures final(self).view() == (Position { tick_upper_index: tick_upper_index, ..old(self).view() }),
//@ end
//@ fn pinocchio/state/whirlpool/position.rs set_fee_growth_checkpoint_a in=/^impl MemoryMappedPosition \{/ tags=C12,C07
    ensures final(self).view() == (Position { fee_growth_checkpoint_a: fee_growth_checkpoint_a, ..old(self).view() }),
//@ end
//@ fn pinocchio/state/whirlpool/position.rs set_fee_growth_checkpoint_b in=/^impl MemoryMappedPosition \{/ tags=C12,C07
    ensures final(self).view() == (Position { fee_growth_checkpoint_b: fee_growth_checkpoint_b, ..old(self).view() }),
//@ end
//@ fn pinocchio/state/whirlpool/position.rs set_fee_owed_a in=/^impl MemoryMappedPosition \{/ tags=C12,C07,C01
    ensures final(self).view() == (Position { fee_owed_a: fee_owed_a, ..old(self).view() }),
//@ end
//@ fn pinocchio/state/whirlpool/position.rs set_fee_owed_b in=/^impl MemoryMappedPosition \{/ tags=C12,C07,C01
    ensures final(self).view() == (Position { fee_owed_b: fee_owed_b, ..old(self).view() }),
//@ end
//@ fn pinocchio/state/whirlpool/position.rs set_reward_infos in=/^impl MemoryMappedPosition \{/ tags=C12,C11,C01
    ensures final(self).view().reward_infos[0] == reward_infos[0] && final(self).view().reward_infos[1] == reward_infos[1] && final(self).view().reward_infos[2] == reward_infos[2],
        final(self).view() == (Position { reward_infos: final(self).view().reward_infos, ..old(self).view() }),
//@ end
/// writing a PositionUpdate through the view gives the same Position as the Anchor Position::update
//@ fn pinocchio/state/whirlpool/position.rs update in=/^impl MemoryMappedPosition \{/ tags=C12,C05,C07,C11,C01
    ensures
        final(self).view().liquidity == update.liquidity,
        final(self).view().fee_growth_checkpoint_a == update.fee_growth_checkpoint_a, final(self).view().fee_growth_checkpoint_b == update.fee_growth_checkpoint_b,
        final(self).view().fee_owed_a == update.fee_owed_a, final(self).view().fee_owed_b == update.fee_owed_b,
        final(self).view().reward_infos[0] == update.reward_infos[0] && final(self).view().reward_infos[1] == update.reward_infos[1] && final(self).view().reward_infos[2] == update.reward_infos[2],
        final(self).view().whirlpool == old(self).view().whirlpool, final(self).view().position_mint == old(self).view().position_mint,
        final(self).view().tick_lower_index == old(self).view().tick_lower_index, final(self).view().tick_upper_index == old(self).view().tick_upper_index,
//@ end
//@ fn pinocchio/state/whirlpool/position.rs is_position_empty in=/^impl MemoryMappedPosition \{/ -> r
    ensures !keep_owed ==> r == self.view().empty(), keep_owed ==> r == (self.view().liquidity == 0),
//@ rewrite_for
//@ loop 0
        invariant i_it <= 3, rewards_not_owed == (forall|k: int| 0 <= k < i_it ==> self.view().reward_infos[k].amount_owed == 0),
        decreases 3 - i_it,
//@ end
}

impl MemoryMappedPosition {
//@ fn pinocchio/state/whirlpool/position.rs reset_reward_growth_checkpoints in=/^impl MemoryMappedPosition \{/ tags=C12,C18,C11
    ensures forall|k: int| 0 <= k < 3 ==> (#[trigger] final(self).view().reward_infos[k]).growth_inside_checkpoint == 0 && final(self).view().reward_infos[k].amount_owed == old(self).view().reward_infos[k].amount_owed,
        final(self).view() == (Position { reward_infos: final(self).view().reward_infos, ..old(self).view() }),
//@ rewrite_iter_mut_ref
//@ loop 0
        invariant reward_info_it <= 3,
            self.view() == (Position { reward_infos: self.view().reward_infos, ..old(self).view() }),
            forall|k: int| 0 <= k < 3 ==> (#[trigger] self.view().reward_infos[k]).amount_owed == old(self).view().reward_infos[k].amount_owed,
            forall|k: int| 0 <= k < reward_info_it ==> (#[trigger] self.view().reward_infos[k]).growth_inside_checkpoint == 0,
        decreases 3 - reward_info_it,
//@ end

/// same rule as the Anchor Position::reset_position_range when keep_owed == false (C12/C18); with keep_owed only zero liquidity is required (reposition instruction)
//@ fn pinocchio/state/whirlpool/position.rs reset_position_range in=/^impl MemoryMappedPosition \{/ -> r canary
    requires whirlpool.tick_spacing_v() > 0,
    ensures ({
        let o = old(self).view(); let n = final(self).view();
        let is_empty = if keep_owed { o.liquidity == 0 } else { o.empty() };
        &&& (r is Ok <==> (is_empty && !(new_tick_lower_index == o.tick_lower_index && new_tick_upper_index == o.tick_upper_index)
                      && range_valid(new_tick_lower_index as int, new_tick_upper_index as int, whirlpool.tick_spacing_v() as int)))
        &&& (r is Err ==> n == o)
        &&& (r is Ok ==> n.tick_lower_index == new_tick_lower_index && n.tick_upper_index == new_tick_upper_index
            && n.fee_growth_checkpoint_a == 0 && n.fee_growth_checkpoint_b == 0
            && (forall|k: int| 0 <= k < 3 ==> (#[trigger] n.reward_infos[k]).growth_inside_checkpoint == 0 && n.reward_infos[k].amount_owed == o.reward_infos[k].amount_owed)
            && n.liquidity == o.liquidity && n.fee_owed_a == o.fee_owed_a && n.fee_owed_b == o.fee_owed_b
            && n.whirlpool == o.whirlpool && n.position_mint == o.position_mint)
    }),
//@ end
}

//@ fn pinocchio/state/whirlpool/position.rs validate_tick_range_for_whirlpool -> r canary
    requires whirlpool.tick_spacing_v() > 0,
    ensures
        r is Ok <==> range_valid(tick_lower_index as int, tick_upper_index as int, whirlpool.tick_spacing_v() as int),
//@ end

impl MemoryMappedWhirlpoolRewardInfo {
    pub closed spec fn view(&self) -> WhirlpoolRewardInfo {
        WhirlpoolRewardInfo { mint: self.mint, vault: self.vault, extension: self.extension, emissions_per_second_x64: le_u128(self.emissions_per_second_x64), growth_global_x64: le_u128(self.growth_global_x64) }
    }
//@ fn pinocchio/state/whirlpool/whirlpool.rs emissions_per_second_x64 in=/^impl MemoryMappedWhirlpoolRewardInfo \{/ -> r tags=C12,C11
    ensures r == self.view().emissions_per_second_x64,
//@ end
//@ fn pinocchio/state/whirlpool/whirlpool.rs growth_global_x64 in=/^impl MemoryMappedWhirlpoolRewardInfo \{/ -> r tags=C12,C11
    ensures r == self.view().growth_global_x64,
//@ end
//@ fn pinocchio/state/whirlpool/whirlpool.rs initialized in=/^impl MemoryMappedWhirlpoolRewardInfo \{/ -> r
    ensures r == self.view().is_init(),
//@ end
}

impl MemoryMappedWhirlpool {
    /// the fields of the Anchor Whirlpool account that the liquidity path reads or writes
    pub closed spec fn tick_spacing_v(&self) -> u16 { le_u16(self.tick_spacing) }
    pub closed spec fn liquidity_v(&self) -> u128 { le_u128(self.liquidity) }
    pub closed spec fn sqrt_price_v(&self) -> u128 { le_u128(self.sqrt_price) }
    pub closed spec fn tick_current_index_v(&self) -> i32 { le_i32(self.tick_current_index) }
    pub closed spec fn fee_growth_global_a_v(&self) -> u128 { le_u128(self.fee_growth_global_a) }
    pub closed spec fn fee_growth_global_b_v(&self) -> u128 { le_u128(self.fee_growth_global_b) }
    pub closed spec fn reward_ts_v(&self) -> u64 { le_u64(self.reward_last_updated_timestamp) }
    pub closed spec fn reward_infos_raw(&self) -> [MemoryMappedWhirlpoolRewardInfo; 3] { self.reward_infos }
    pub open spec fn reward_info_v(&self, k: int) -> WhirlpoolRewardInfo { self.reward_infos_raw()[k].view() }
    /// the abstract Anchor account as far as the liquidity path is concerned
    pub open spec fn view(&self) -> Whirlpool {
        Whirlpool { tick_spacing: self.tick_spacing_v(), liquidity: self.liquidity_v(), sqrt_price: self.sqrt_price_v(), tick_current_index: self.tick_current_index_v(),
            fee_growth_global_a: self.fee_growth_global_a_v(), fee_growth_global_b: self.fee_growth_global_b_v(), reward_last_updated_timestamp: self.reward_ts_v(),
            reward_infos: [self.reward_info_v(0), self.reward_info_v(1), self.reward_info_v(2)], ..self.rest() }
    }
    pub uninterp spec fn rest(&self) -> Whirlpool;
    pub closed spec fn token_mint_a_v(&self) -> Pubkey { self.token_mint_a }
    pub closed spec fn token_mint_b_v(&self) -> Pubkey { self.token_mint_b }
    pub closed spec fn token_vault_a_v(&self) -> Pubkey { self.token_vault_a }
    pub closed spec fn token_vault_b_v(&self) -> Pubkey { self.token_vault_b }
//@ fn pinocchio/state/whirlpool/whirlpool.rs token_mint_a in=/^impl MemoryMappedWhirlpool \{/ -> r tags=C15,C12
    ensures *r == self.token_mint_a_v(),
//@ end
//@ fn pinocchio/state/whirlpool/whirlpool.rs token_mint_b in=/^impl MemoryMappedWhirlpool \{/ -> r tags=C15,C12
    ensures *r == self.token_mint_b_v(),
//@ end
//@ fn pinocchio/state/whirlpool/whirlpool.rs token_vault_a in=/^impl MemoryMappedWhirlpool \{/ -> r tags=C15,C12
    ensures *r == self.token_vault_a_v(),
//@ end
//@ fn pinocchio/state/whirlpool/whirlpool.rs token_vault_b in=/^impl MemoryMappedWhirlpool \{/ -> r tags=C15,C12
    ensures *r == self.token_vault_b_v(),
//@ end
//@ fn pinocchio/state/whirlpool/whirlpool.rs tick_spacing in=/^impl MemoryMappedWhirlpool \{/ -> r
    ensures r == self.tick_spacing_v(),
//@ end
//@ fn pinocchio/state/whirlpool/whirlpool.rs liquidity in=/^impl MemoryMappedWhirlpool \{/ -> r tags=C12,C05
    ensures r == self.liquidity_v(),
//@ end
//@ fn pinocchio/state/whirlpool/whirlpool.rs sqrt_price in=/^impl MemoryMappedWhirlpool \{/ -> r
    ensures r == self.sqrt_price_v(),
//@ end
//@ fn pinocchio/state/whirlpool/whirlpool.rs tick_current_index in=/^impl MemoryMappedWhirlpool \{/ -> r
    ensures r == self.tick_current_index_v(),
//@ end
//@ fn pinocchio/state/whirlpool/whirlpool.rs fee_growth_global_a in=/^impl MemoryMappedWhirlpool \{/ -> r tags=C12,C07
    ensures r == self.fee_growth_global_a_v(),
//@ end
//@ fn pinocchio/state/whirlpool/whirlpool.rs fee_growth_global_b in=/^impl MemoryMappedWhirlpool \{/ -> r tags=C12,C07
    ensures r == self.fee_growth_global_b_v(),
//@ end
//@ fn pinocchio/state/whirlpool/whirlpool.rs reward_last_updated_timestamp in=/^impl MemoryMappedWhirlpool \{/ -> r tags=C12,C11
    ensures r == self.reward_ts_v(),
//@ end
//@ fn pinocchio/state/whirlpool/whirlpool.rs reward_infos in=/^impl MemoryMappedWhirlpool \{/ -> r tags=C12,C11
    ensures *r == self.reward_infos_raw(),
//@ end
//@ fn pinocchio/state/whirlpool/whirlpool.rs set_liquidity in=/^impl MemoryMappedWhirlpool \{/ tags=C12,C05
    ensures final(self).liquidity_v() == liquidity, final(self).liquidity == to_le_u128(liquidity),
        *final(self) == (MemoryMappedWhirlpool { liquidity: final(self).liquidity, ..*old(self) }),
//@ end
//@ fn pinocchio/state/whirlpool/whirlpool.rs set_reward_last_updated_timestamp in=/^impl MemoryMappedWhirlpool \{/ tags=C12,C11
    ensures final(self).reward_ts_v() == last_updated_timestamp,
        *final(self) == (MemoryMappedWhirlpool { reward_last_updated_timestamp: final(self).reward_last_updated_timestamp, ..*old(self) }),
//@ end
//@ fn pinocchio/state/whirlpool/whirlpool.rs set_reward_growth_global in=/^impl MemoryMappedWhirlpool \{/ tags=C12,C11
    ensures forall|k: int| 0 <= k < 3 ==> (#[trigger] final(self).reward_infos[k]).view() == (WhirlpoolRewardInfo { growth_global_x64: reward_growth_global[k], ..old(self).reward_infos[k].view() }),
        *final(self) == (MemoryMappedWhirlpool { reward_infos: final(self).reward_infos, ..*old(self) }),
//@ end
/// same effect as the Anchor Whirlpool::update_rewards_and_liquidity: liquidity, the three growth accumulators and the timestamp change, nothing else
//@ fn pinocchio/state/whirlpool/whirlpool.rs update_liquidity_and_reward_growth_global in=/^impl MemoryMappedWhirlpool \{/ tags=C12,C05,C11
    ensures final(self).liquidity_v() == liquidity, final(self).reward_ts_v() == reward_last_updated_timestamp,
        forall|k: int| 0 <= k < 3 ==> #[trigger] final(self).reward_info_v(k) == (WhirlpoolRewardInfo { growth_global_x64: reward_growth_global[k], ..old(self).reward_info_v(k) }),
        final(self).tick_spacing_v() == old(self).tick_spacing_v(), final(self).sqrt_price_v() == old(self).sqrt_price_v(), final(self).tick_current_index_v() == old(self).tick_current_index_v(),
        final(self).fee_growth_global_a_v() == old(self).fee_growth_global_a_v(), final(self).fee_growth_global_b_v() == old(self).fee_growth_global_b_v(),
        final(self).token_vault_a_v() == old(self).token_vault_a_v(), final(self).token_vault_b_v() == old(self).token_vault_b_v(),
        final(self).token_mint_a_v() == old(self).token_mint_a_v(), final(self).token_mint_b_v() == old(self).token_mint_b_v(),
//@ end
}
}
