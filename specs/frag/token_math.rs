//@ needs specs bitlemmas errors u256_math bit_math
pub mod token_math {
use vstd::prelude::*;
use crate::errors::ErrorCode;
use crate::specs::*;
use crate::u256_math::*;
use crate::bit_math::*;
broadcast use {crate::bitlemmas::bits64, vstd::arithmetic::mul::group_mul_basics};
//@ tags C02 C08 C01 C06 C19
//@ const math/token_math.rs MAX_FEE_RATE FEE_RATE_MUL_VALUE MAX_PROTOCOL_FEE_RATE PROTOCOL_FEE_RATE_MUL_VALUE
//@ const math/tick_math.rs MAX_SQRT_PRICE_X64 MIN_SQRT_PRICE_X64
//@ enum math/token_math.rs AmountDeltaU64

pub open spec fn amount_delta_ok(r: Result<AmountDeltaU64, ErrorCode>, x: int) -> bool {
    match r {
        Ok(AmountDeltaU64::Valid(v)) => v as int == x,
        Ok(AmountDeltaU64::ExceedsMax(_)) => x > U64MAX(),
        Err(_) => false,
    }
}

impl AmountDeltaU64 {
//@ fn math/token_math.rs lte in=/^impl AmountDeltaU64/ -> r
    ensures r == (match *self { AmountDeltaU64::Valid(v) => v <= other, AmountDeltaU64::ExceedsMax(_) => false }),
//@ end
//@ fn math/token_math.rs exceeds_max in=/^impl AmountDeltaU64/ -> r
    ensures r == (self is ExceedsMax),
//@ end
//@ fn math/token_math.rs value in=/^impl AmountDeltaU64/ -> r
    requires self is Valid,
    ensures self == AmountDeltaU64::Valid(r),
//@ end
}

//@ fn math/token_math.rs increasing_price_order -> r
    ensures r.0 <= r.1, r.0 as int == min_i(sqrt_price_0 as int, sqrt_price_1 as int), r.1 as int == max_i(sqrt_price_0 as int, sqrt_price_1 as int),
//@ end

//@ fn math/token_math.rs get_amount_delta_a -> r canary
    requires sqrt_price_0 > 0, sqrt_price_1 > 0,
    ensures
        r matches Ok(v) ==> v as int == delta_a(sqrt_price_0 as int, sqrt_price_1 as int, liquidity as int, round_up),
        r is Err <==> (liquidity as int * abs_diff(sqrt_price_0 as int, sqrt_price_1 as int) >= Q3()
                       || delta_a(sqrt_price_0 as int, sqrt_price_1 as int, liquidity as int, round_up) > U64MAX()),
//@ end

//@ fn math/token_math.rs try_get_amount_delta_a -> r
    requires sqrt_price_0 > 0, sqrt_price_1 > 0,
    ensures
        liquidity as int * abs_diff(sqrt_price_0 as int, sqrt_price_1 as int) >= Q3() ==> r == Err::<AmountDeltaU64, ErrorCode>(ErrorCode::MultiplicationOverflow),
        liquidity as int * abs_diff(sqrt_price_0 as int, sqrt_price_1 as int) < Q3() ==> amount_delta_ok(r, delta_a(sqrt_price_0 as int, sqrt_price_1 as int, liquidity as int, round_up)),
//@ inject before /let \(quotient, remainder\) = numerator\.div/
    proof {
        let lo = sqrt_price_lower as int; let hi = sqrt_price_upper as int;
        assert(hi * lo > 0) by(nonlinear_arith) requires lo > 0, hi > 0;
        assert(hi * lo == sqrt_price_0 as int * sqrt_price_1 as int) by(nonlinear_arith)
            requires (lo == sqrt_price_0 as int && hi == sqrt_price_1 as int) || (lo == sqrt_price_1 as int && hi == sqrt_price_0 as int);
        lemma_view_bounds(numerator);
        lemma_div_round_fits(numerator.view(), denominator.view());
    }
//@ end

//@ fn math/token_math.rs get_amount_delta_b -> r canary
    ensures
        r matches Ok(v) ==> v as int == delta_b(sqrt_price_0 as int, sqrt_price_1 as int, liquidity as int, round_up),
        r is Err <==> (liquidity as int * abs_diff(sqrt_price_0 as int, sqrt_price_1 as int) > U128MAX()
                       || delta_b(sqrt_price_0 as int, sqrt_price_1 as int, liquidity as int, round_up) > U64MAX()),
//@ end

//@ fn math/token_math.rs try_get_amount_delta_b -> r
    ensures
        r is Ok,
        liquidity as int * abs_diff(sqrt_price_0 as int, sqrt_price_1 as int) <= U128MAX() ==> amount_delta_ok(r, delta_b(sqrt_price_0 as int, sqrt_price_1 as int, liquidity as int, round_up)),
        liquidity as int * abs_diff(sqrt_price_0 as int, sqrt_price_1 as int) > U128MAX() ==> (r matches Ok(AmountDeltaU64::ExceedsMax(_)))
            && delta_b(sqrt_price_0 as int, sqrt_price_1 as int, liquidity as int, round_up) > U64MAX(),
//@ inject at /^\{/
    proof { lemma_delta_b_big(liquidity as int, abs_diff(sqrt_price_0 as int, sqrt_price_1 as int), round_up); }
//@ end

pub proof fn lemma_delta_b_big(l: int, d: int, up: bool)
    requires l >= 0, d >= 0,
    ensures l * d > U128MAX() ==> div_round(l * d, Q(), up) > U64MAX(),
{
    if l * d > U128MAX() {
        let n = l * d;
        vstd::arithmetic::div_mod::lemma_fundamental_div_mod(n, Q());
    }
}


//@ fn math/token_math.rs get_next_sqrt_price_from_a_round_up -> r canary
    requires sqrt_price > 0,
    ensures
        r matches Ok(v) ==> v as int == next_from_a(sqrt_price as int, liquidity as int, amount as int, amount_specified_is_input)
            && (amount != 0 ==> price_ok(v as int) && (liquidity as int) * (sqrt_price as int) < Q3()
                && (amount_specified_is_input || liquidity as int * Q() > amount as int * sqrt_price as int)),
//@ inject before /let denominator = if amount_specified_is_input/
    proof {
        let p = sqrt_price as int; let x = amount as int; let l = liquidity as int;
        assert(product.view() == p * x);
        assert(p * x == x * p) by(nonlinear_arith);
        assert(p * x >= 1) by(nonlinear_arith) requires p >= 1, x >= 1;
        assert(p * x <= U128MAX() * U64MAX()) by(nonlinear_arith) requires 0 <= p <= U128MAX(), 0 <= x <= U64MAX();
        assert(liquidity_shift_left.view() == l * Q());
        lemma_view_bounds(liquidity_shift_left); lemma_view_bounds(product);
    }
//@ end

//@ fn math/token_math.rs get_next_sqrt_price_from_b_round_down -> r canary
    ensures
        r matches Ok(v) ==> liquidity != 0 && v as int == next_from_b(sqrt_price as int, liquidity as int, amount as int, amount_specified_is_input),
        liquidity == 0 ==> r is Err,
//@ end

//@ fn math/token_math.rs get_next_sqrt_price -> r
    requires sqrt_price > 0,
    ensures
        r matches Ok(v) ==> v as int == next_price(sqrt_price as int, liquidity as int, amount as int, amount_specified_is_input, a_to_b),
        r matches Ok(v) ==> (amount_specified_is_input == a_to_b && amount != 0 ==> price_ok(v as int)
            && (amount_specified_is_input || liquidity as int * Q() > amount as int * sqrt_price as int)),
        r matches Ok(v) ==> (amount_specified_is_input != a_to_b ==> liquidity != 0),
//@ end

/// liquidity affordable with x of token A between two prices: floor( floor(pu*pl*x / 2^64) / (pu - pl) )
pub open spec fn est_liq_a(p0: int, p1: int, x: int) -> int { ((max_i(p0, p1) * min_i(p0, p1) * x) / Q()) / abs_diff(p0, p1) }
/// liquidity affordable with x of token B: floor( x * 2^64 / (pu - pl) )
pub open spec fn est_liq_b(p0: int, p1: int, x: int) -> int { (x * Q()) / abs_diff(p0, p1) }

//@ fn math/token_math.rs est_liquidity_for_token_a -> r pub
    requires price_ok(sqrt_price_0 as int), price_ok(sqrt_price_1 as int), sqrt_price_0 != sqrt_price_1,
    ensures
        est_liq_a(sqrt_price_0 as int, sqrt_price_1 as int, token_amount_a as int) <= U128MAX() ==> r == Ok::<u128, ErrorCode>(est_liq_a(sqrt_price_0 as int, sqrt_price_1 as int, token_amount_a as int) as u128),
        est_liq_a(sqrt_price_0 as int, sqrt_price_1 as int, token_amount_a as int) > U128MAX() ==> r is Err,
//@ inject after /let sqrt_price_diff = sqrt_price_upper - sqrt_price_lower;/
    proof {
        let pu = sqrt_price_upper as int; let pl = sqrt_price_lower as int; let x = token_amount_a as int;
        assert(0 <= pu * pl <= MAX_PRICE() * MAX_PRICE()) by(nonlinear_arith) requires 0 <= pu <= MAX_PRICE(), 0 <= pl <= MAX_PRICE();
        assert(0 <= (pu * pl) * x <= (MAX_PRICE() * MAX_PRICE()) * U64MAX()) by(nonlinear_arith) requires 0 <= pu * pl <= MAX_PRICE() * MAX_PRICE(), 0 <= x <= U64MAX();
        assert((MAX_PRICE() * MAX_PRICE()) * U64MAX() < Q4()) by(compute);
        assert(pu * pl * x == (pu * pl) * x);
    }
//@ end

//@ fn math/token_math.rs est_liquidity_for_token_b -> r pub
    requires price_ok(sqrt_price_0 as int), price_ok(sqrt_price_1 as int), sqrt_price_0 != sqrt_price_1,
    ensures
        est_liq_b(sqrt_price_0 as int, sqrt_price_1 as int, token_amount_b as int) <= U128MAX() ==> r == Ok::<u128, ErrorCode>(est_liq_b(sqrt_price_0 as int, sqrt_price_1 as int, token_amount_b as int) as u128),
        est_liq_b(sqrt_price_0 as int, sqrt_price_1 as int, token_amount_b as int) > U128MAX() ==> r is Err,
//@ end
}
