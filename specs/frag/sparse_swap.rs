//@ needs specs errors stdspecs anchor_shim state_core int_division_math
// C10: which tick arrays a swap starts from (util/sparse_swap.rs get_start_tick_indexes) and what a valid array start index is.
pub mod sparse_swap {
use vstd::prelude::*;
use crate::specs::*;
use crate::anchor_shim::*;
use crate::state_core::{Whirlpool, Tick, TICK_ARRAY_SIZE, MIN_TICK_INDEX, MAX_TICK_INDEX};
use crate::int_division_math::floor_division;
//@ tags C10
/// an array may start at any multiple of 88 * spacing whose array still reaches into the tick range: inside the bounds, or the one left-edge array below MIN_TICK_INDEX
pub open spec fn valid_start(t: int, spacing: int) -> bool { let n = 88 * spacing; t % n == 0 && -443636 - n < t <= 443636 }
/// Rust's truncating remainder on i32, related to the Euclidean one (n > 0)
pub proof fn lemma_rem(t: int, n: int)
    requires n > 0,
    ensures (vstd::arithmetic::div_mod::rust_rem(t, n) == 0) <==> (t % n == 0), t < 0 ==> vstd::arithmetic::div_mod::rust_rem(t, n) == -((-t) % n), t >= 0 ==> vstd::arithmetic::div_mod::rust_rem(t, n) == t % n,
        t < 0 && t % n != 0 ==> (-t) % n == n - t % n,
{
    vstd::arithmetic::div_mod::lemma_fundamental_div_mod(t, n); vstd::arithmetic::div_mod::lemma_mod_bound(t, n);
    if t < 0 {
        vstd::arithmetic::div_mod::lemma_fundamental_div_mod(-t, n); vstd::arithmetic::div_mod::lemma_mod_bound(-t, n);
        let q = (-t) / n; let m = (-t) % n;
        if m == 0 {
            assert(t == n * (-q) + 0) by(nonlinear_arith) requires -t == n * q + m, m == 0;
            vstd::arithmetic::div_mod::lemma_fundamental_div_mod_converse(t, n, -q, 0);
        } else {
            assert(t == n * (-q - 1) + (n - m)) by(nonlinear_arith) requires -t == n * q + m;
            vstd::arithmetic::div_mod::lemma_fundamental_div_mod_converse(t, n, -q - 1, n - m);
        }
    }
}
impl Tick {
//@ fn state/tick.rs check_is_valid_start_tick in=/^impl Tick \{/ -> r
    requires tick_spacing > 0,
    ensures r == valid_start(tick_index as int, tick_spacing as int),
//@ inject at /^\s*\{/
        proof {
            let n = 88 * tick_spacing as int; assert(n <= 88 * 65535);
            lemma_rem(tick_index as int, n); lemma_rem(-443636int, n);
            // 443636 = 4 * 110909 is not divisible by 8, hence by no 88 * spacing: the left-edge array start is strictly below MIN_TICK_INDEX
            assert(443636int % n != 0) by {
                if 443636int % n == 0 {
                    vstd::arithmetic::div_mod::lemma_fundamental_div_mod(443636, n);
                    let q = 443636int / n;
                    assert(443636 == 8 * (11 * tick_spacing as int * q)) by(nonlinear_arith) requires 443636 == n * q, n == 88 * tick_spacing as int;
                }
            }
            vstd::arithmetic::div_mod::lemma_fundamental_div_mod(443636, n); vstd::arithmetic::div_mod::lemma_mod_bound(443636, n);
            vstd::arithmetic::div_mod::lemma_fundamental_div_mod(tick_index as int, n); vstd::arithmetic::div_mod::lemma_mod_bound(tick_index as int, n);
            // the candidate computed by the code, MIN - (MIN rem n + n), is the multiple of n in (MIN - n, MIN)
            let c = -443636 - (-(443636int % n) + n);
            assert(c == -(n * (443636int / n)) - n);
            assert(c == n * (-(443636int / n) - 1)) by(nonlinear_arith) requires c == -(n * (443636int / n)) - n;
            vstd::arithmetic::div_mod::lemma_fundamental_div_mod_converse(c, n, -(443636int / n) - 1, 0);
            if (tick_index as int) < -443636 && (tick_index as int) % n == 0 && -443636 - n < tick_index as int {
                // two multiples of n in an interval shorter than n coincide
                let a = tick_index as int / n; let b = -(443636int / n) - 1;
                assert(tick_index as int == n * a);
                assert(a == b) by(nonlinear_arith) requires -443636 - n < n * a < -443636, -443636 - n < n * b < -443636, n > 0;
            }
        }
//@ end
}
//@ fn state/tick.rs check_is_out_of_bounds in=/^impl Tick \{/ -> r stub
    ensures r == !(-443636 <= tick_index <= 443636),
//@ end

//@ assume get_start_tick_indexes: the straight-line part (base array start and the three array offsets) is verified as a segment; the closing `offset.iter().filter_map(..).collect()` - keep, in order, base + o * 88 * spacing for the offsets o whose start index is a valid start tick - is an iterator pipeline outside Verus and stays unverified
//@ seg util/sparse_swap.rs get_start_tick_indexes from=/let tick_current_index = whirlpool\.tick_current_index;/ to=/let start_tick_indexes = offset/ ret=(start_tick_index_base,offset)
fn start_base_and_offsets(whirlpool: &Account<Whirlpool>, a_to_b: bool) -> (r: (i32, [i32; 3]))
    requires whirlpool.data.tick_spacing > 0, -443637 <= whirlpool.data.tick_current_index <= 443636,
    ensures ({ let t = whirlpool.data.tick_current_index as int; let ts = whirlpool.data.tick_spacing as int; let n = 88 * ts; let base = (t / n) * n;
        // the array that contains the current tick
        &&& r.0 as int == base && base <= t < base + n
        // a -> b walks down from it; b -> a walks up from it, or from the next one when the (exclusive) upward search starts in its last slot
        &&& (a_to_b ==> r.1[0] == 0 && r.1[1] == -1 && r.1[2] == -2)
        &&& (!a_to_b ==> { let s: int = if t + ts >= base + n { 1 } else { 0 }; r.1[0] == s && r.1[1] == s + 1 && r.1[2] == s + 2 }) }),
//@ proof
    proof { let t = whirlpool.data.tick_current_index as int; let n = 88 * whirlpool.data.tick_spacing as int; assert(n <= 88 * 65535);
            vstd::arithmetic::div_mod::lemma_fundamental_div_mod(t, n); vstd::arithmetic::div_mod::lemma_mod_bound(t, n);
            assert(n * (t / n) == (t / n) * n) by(nonlinear_arith);
            assert(-443637 - n < (t / n) * n <= 443636); }
//@ end

// ------------------------------------------------------------------ try_build, first loop: which supplied accounts are loaded
//@ assume try_build shims: AccountInfo is reduced to its key; LoadedTickArrayMut (a RefMut<dyn TickArrayType>) is an opaque token; maybe_load_tick_array (system-owned empty account -> None, otherwise load_tick_array_mut: owner, discriminator and whirlpool-field checks) is an external stub whose result is an uninterpreted function loaded_of(account, pool key); only the FIRST loop of try_build (loading) is verified, as a segment; the selection loop (iter().position / remove / VecDeque / any) is outside Verus
pub struct AccountInfo<'a> { pub key: &'a Pubkey }
pub struct LoadedTickArrayMut<'a> { pub src: &'a Pubkey }
pub uninterp spec fn loaded_of<'a>(a: AccountInfo<'a>, pool: Pubkey) -> Result<Option<LoadedTickArrayMut<'a>>>;
#[verifier::external_body]
fn maybe_load_tick_array<'a>(account_info: &'a AccountInfo<'_>, whirlpool: &Account<Whirlpool>) -> (r: Result<Option<LoadedTickArrayMut<'a>>>)
    ensures r == loaded_of(*account_info, whirlpool.k)
{ unimplemented!() }
/// the loaded (initialized) arrays among the first n supplied accounts, in order
pub open spec fn loaded_spec<'a>(accs: Seq<AccountInfo<'a>>, pool: Pubkey, n: int) -> Seq<LoadedTickArrayMut<'a>> decreases n {
    if n <= 0 { Seq::empty() } else {
        let prev = loaded_spec(accs, pool, n - 1);
        match loaded_of(accs[n - 1], pool) { Ok(Some(t)) => prev.push(t), _ => prev } }
}
pub struct SparseSwapTickSequenceBuilder<'info> { pub tick_array_accounts: Vec<AccountInfo<'info>> }
impl<'info> SparseSwapTickSequenceBuilder<'info> {
/// C10: EVERY supplied account is examined: an account that fails the loader's checks (another pool's array, wrong owner, wrong discriminator) makes the build
/// fail wherever it stands in the list, and every initialized array supplied is available to the selection that follows (none is silently replaced by a zeroed proxy)
//@ seg util/sparse_swap.rs try_build in=/^impl<'info> SparseSwapTickSequenceBuilder<'info> \{/ from=/let mut loaded_tick_arrays: Vec<LoadedTickArrayMut> = / to=/let start_tick_indexes = get_start_tick_indexes/ ret=Ok(loaded_tick_arrays)
fn try_build_load<'a>(&'a self, whirlpool: &Account<Whirlpool>) -> (r: Result<Vec<LoadedTickArrayMut<'a>>>)
    ensures
        r matches Ok(v) ==> v@ == loaded_spec(self.tick_array_accounts@, whirlpool.k, self.tick_array_accounts@.len() as int),
        (exists|i: int| 0 <= i < self.tick_array_accounts@.len() && #[trigger] loaded_of(self.tick_array_accounts@[i], whirlpool.k) is Err) ==> r is Err,
//@ rewrite /for account_info in &self\.tick_array_accounts \{/ => /let mut ai_it: usize = 0; while ai_it < self.tick_array_accounts.len() { let account_info = &self.tick_array_accounts[ai_it]; ai_it = ai_it + 1;/
//@ loop 0
        invariant ai_it <= self.tick_array_accounts.len(),
            loaded_tick_arrays@ == loaded_spec(self.tick_array_accounts@, whirlpool.k, ai_it as int),
            forall|i: int| 0 <= i < ai_it ==> !(#[trigger] loaded_of(self.tick_array_accounts@[i], whirlpool.k) is Err),
        decreases self.tick_array_accounts.len() - ai_it,
//@ end
}
}
