//@ needs specs errors stdspecs anchor_shim state_core int_division_math
// C10: which tick arrays a swap starts from (util/sparse_swap.rs get_start_tick_indexes) and what a valid array start index is.
pub mod sparse_swap {
use vstd::prelude::*;
use crate::specs::*;
use crate::anchor_shim::*;
use crate::state_core::{Whirlpool, Tick, TICK_ARRAY_SIZE, MIN_TICK_INDEX, MAX_TICK_INDEX};
use crate::int_division_math::floor_division;
//@ tags C10
/// an array may start at any multiple of 88 * spacing whose array still reaches into the tick range: inside the bounds, or the one left-edge array below MIN_TICK_INDEX
pub open spec fn valid_start(t: int, spacing: int) -> bool { let n = 88 * spacing; t % n == 0 && -443636 - n < t <= 443636 }
/// Rust's truncating remainder on i32, related to the Euclidean one (n > 0)
pub proof fn lemma_rem(t: int, n: int)
    requires n > 0,
    ensures (vstd::arithmetic::div_mod::rust_rem(t, n) == 0) <==> (t % n == 0), t < 0 ==> vstd::arithmetic::div_mod::rust_rem(t, n) == -((-t) % n), t >= 0 ==> vstd::arithmetic::div_mod::rust_rem(t, n) == t % n,
        t < 0 && t % n != 0 ==> (-t) % n == n - t % n,
{
    vstd::arithmetic::div_mod::lemma_fundamental_div_mod(t, n); vstd::arithmetic::div_mod::lemma_mod_bound(t, n);
    if t < 0 {
        vstd::arithmetic::div_mod::lemma_fundamental_div_mod(-t, n); vstd::arithmetic::div_mod::lemma_mod_bound(-t, n);
        let q = (-t) / n; let m = (-t) % n;
        if m == 0 {
            assert(t == n * (-q) + 0) by(nonlinear_arith) requires -t == n * q + m, m == 0;
            vstd::arithmetic::div_mod::lemma_fundamental_div_mod_converse(t, n, -q, 0);
        } else {
            assert(t == n * (-q - 1) + (n - m)) by(nonlinear_arith) requires -t == n * q + m;
            vstd::arithmetic::div_mod::lemma_fundamental_div_mod_converse(t, n, -q - 1, n - m);
        }
    }
}
impl Tick {
//@ fn state/tick.rs check_is_valid_start_tick in=/^impl Tick \{/ -> r
    requires tick_spacing > 0,
    ensures r == valid_start(tick_index as int, tick_spacing as int),
//@ inject at /^\s*\{/
        proof {
            let n = 88 * tick_spacing as int; assert(n <= 88 * 65535);
            lemma_rem(tick_index as int, n); lemma_rem(-443636int, n);
            // 443636 = 4 * 110909 is not divisible by 8, hence by no 88 * spacing: the left-edge array start is strictly below MIN_TICK_INDEX
            assert(443636int % n != 0) by {
                if 443636int % n == 0 {
                    vstd::arithmetic::div_mod::lemma_fundamental_div_mod(443636, n);
                    let q = 443636int / n;
                    assert(443636 == 8 * (11 * tick_spacing as int * q)) by(nonlinear_arith) requires 443636 == n * q, n == 88 * tick_spacing as int;
                }
            }
            vstd::arithmetic::div_mod::lemma_fundamental_div_mod(443636, n); vstd::arithmetic::div_mod::lemma_mod_bound(443636, n);
            vstd::arithmetic::div_mod::lemma_fundamental_div_mod(tick_index as int, n); vstd::arithmetic::div_mod::lemma_mod_bound(tick_index as int, n);
            // the candidate computed by the code, MIN - (MIN rem n + n), is the multiple of n in (MIN - n, MIN)
            let c = -443636 - (-(443636int % n) + n);
            assert(c == -(n * (443636int / n)) - n);
            assert(c == n * (-(443636int / n) - 1)) by(nonlinear_arith) requires c == -(n * (443636int / n)) - n;
            vstd::arithmetic::div_mod::lemma_fundamental_div_mod_converse(c, n, -(443636int / n) - 1, 0);
            if (tick_index as int) < -443636 && (tick_index as int) % n == 0 && -443636 - n < tick_index as int {
                // two multiples of n in an interval shorter than n coincide
                let a = tick_index as int / n; let b = -(443636int / n) - 1;
                assert(tick_index as int == n * a);
                assert(a == b) by(nonlinear_arith) requires -443636 - n < n * a < -443636, -443636 - n < n * b < -443636, n > 0;
            }
        }
//@ end
}
//@ fn state/tick.rs check_is_out_of_bounds in=/^impl Tick \{/ -> r stub
    ensures r == !(-443636 <= tick_index <= 443636),
//@ end

//@ assume get_start_tick_indexes: the straight-line part (base array start and the three array offsets) is verified as a segment; the closing `offset.iter().filter_map(..).collect()` - keep, in order, base + o * 88 * spacing for the offsets o whose start index is a valid start tick - is an iterator pipeline outside Verus and stays unverified
//@ seg util/sparse_swap.rs get_start_tick_indexes from=/let tick_current_index = whirlpool\.tick_current_index;/ to=/let start_tick_indexes = offset/ ret=(start_tick_index_base,offset)
fn start_base_and_offsets(whirlpool: &Account<Whirlpool>, a_to_b: bool) -> (r: (i32, [i32; 3]))
    requires whirlpool.data.tick_spacing > 0, -443637 <= whirlpool.data.tick_current_index <= 443636,
    ensures ({ let t = whirlpool.data.tick_current_index as int; let ts = whirlpool.data.tick_spacing as int; let n = 88 * ts; let base = (t / n) * n;
        // the array that contains the current tick
        &&& r.0 as int == base && base <= t < base + n
        // a -> b walks down from it; b -> a walks up from it, or from the next one when the (exclusive) upward search starts in its last slot
        &&& (a_to_b ==> r.1[0] == 0 && r.1[1] == -1 && r.1[2] == -2)
        &&& (!a_to_b ==> { let s: int = if t + ts >= base + n { 1 } else { 0 }; r.1[0] == s && r.1[1] == s + 1 && r.1[2] == s + 2 }) }),
//@ proof
    proof { let t = whirlpool.data.tick_current_index as int; let n = 88 * whirlpool.data.tick_spacing as int; assert(n <= 88 * 65535);
            vstd::arithmetic::div_mod::lemma_fundamental_div_mod(t, n); vstd::arithmetic::div_mod::lemma_mod_bound(t, n);
            assert(n * (t / n) == (t / n) * n) by(nonlinear_arith);
            assert(-443637 - n < (t / n) * n <= 443636); }
//@ end

// ------------------------------------------------------------------ try_build, first loop: which supplied accounts are loaded
//@ assume try_build shims: AccountInfo is reduced to its key; LoadedTickArrayMut (a RefMut<dyn TickArrayType>) is an opaque token; maybe_load_tick_array (system-owned empty account -> None, otherwise load_tick_array_mut: owner, discriminator and whirlpool-field checks) is an external stub whose result is an uninterpreted function loaded_of(account, pool key); only the FIRST loop of try_build (loading) is verified, as a segment; the selection loop (iter().position / remove / VecDeque / any) is outside Verus
pub struct AccountInfo<'a> { pub key: &'a Pubkey }
pub struct LoadedTickArrayMut<'a> { pub src: &'a Pubkey }
pub uninterp spec fn loaded_of<'a>(a: AccountInfo<'a>, pool: Pubkey) -> Result<Option<LoadedTickArrayMut<'a>>>;
#[verifier::external_body]
fn maybe_load_tick_array<'a>(account_info: &'a AccountInfo<'_>, whirlpool: &Account<Whirlpool>) -> (r: Result<Option<LoadedTickArrayMut<'a>>>)
    ensures r == loaded_of(*account_info, whirlpool.k)
{ unimplemented!() }
/// the loaded (initialized) arrays among the first n supplied accounts, in order
pub open spec fn loaded_spec<'a>(accs: Seq<AccountInfo<'a>>, pool: Pubkey, n: int) -> Seq<LoadedTickArrayMut<'a>> decreases n {
    if n <= 0 { Seq::empty() } else {
        let prev = loaded_spec(accs, pool, n - 1);
        match loaded_of(accs[n - 1], pool) { Ok(Some(t)) => prev.push(t), _ => prev } }
}
pub struct SparseSwapTickSequenceBuilder<'info> { pub tick_array_accounts: Vec<AccountInfo<'info>> }
impl<'info> SparseSwapTickSequenceBuilder<'info> {
/// C10: EVERY supplied account is examined: an account that fails the loader's checks (another pool's array, wrong owner, wrong discriminator) makes the build
/// fail wherever it stands in the list, and every initialized array supplied is available to the selection that follows (none is silently replaced by a zeroed proxy)
//@ seg util/sparse_swap.rs try_build in=/^impl<'info> SparseSwapTickSequenceBuilder<'info> \{/ from=/let mut loaded_tick_arrays: Vec<LoadedTickArrayMut> = / to=/let start_tick_indexes = get_start_tick_indexes/ ret=Ok(loaded_tick_arrays)
fn try_build_load<'a>(&'a self, whirlpool: &Account<Whirlpool>) -> (r: Result<Vec<LoadedTickArrayMut<'a>>>)
    ensures
        r matches Ok(v) ==> v@ == loaded_spec(self.tick_array_accounts@, whirlpool.k, self.tick_array_accounts@.len() as int),
        (exists|i: int| 0 <= i < self.tick_array_accounts@.len() && #[trigger] loaded_of(self.tick_array_accounts@[i], whirlpool.k) is Err) ==> r is Err,
//@ rewrite /for account_info in &self\.tick_array_accounts \{/ => /let mut ai_it: usize = 0; while ai_it < self.tick_array_accounts.len() { let account_info = &self.tick_array_accounts[ai_it]; ai_it = ai_it + 1;/
//@ loop 0
        invariant ai_it <= self.tick_array_accounts.len(),
            loaded_tick_arrays@ == loaded_spec(self.tick_array_accounts@, whirlpool.k, ai_it as int),
            forall|i: int| 0 <= i < ai_it ==> !(#[trigger] loaded_of(self.tick_array_accounts@[i], whirlpool.k) is Err),
        decreases self.tick_array_accounts.len() - ai_it,
//@ end
}

// ------------------------------------------------------------------ try_build, second loop: which arrays are selected, in which order
//@ assume try_build selection shims: std VecDeque is a Vec-backed shim (with_capacity / push_back / is_empty / pop_front over a Seq view); `iter().position(|t| t.start_tick_index() == s)` and `iter().any(|a| a.key() == k)` are the named helpers position_by_start / has_key with the std semantics (first match / some match); a loaded array exposes its start index (start_of); derive_tick_array_pda is an uninterpreted function pda_of(pool, start); ProxiedTickArray's two constructors are the enum's two variants
pub uninterp spec fn start_of<'a>(t: LoadedTickArrayMut<'a>) -> i32;
impl<'a> LoadedTickArrayMut<'a> {
    #[verifier::external_body]
    pub fn start_tick_index(&self) -> (r: i32) ensures r == start_of(*self) { unimplemented!() }
}
pub uninterp spec fn pda_of(pool: Pubkey, start: i32) -> Pubkey;
#[verifier::external_body]
fn derive_tick_array_pda(whirlpool: &Account<Whirlpool>, start_tick_index: i32) -> (r: Pubkey) ensures r == pda_of(whirlpool.k, start_tick_index) { unimplemented!() }
pub enum ProxiedTickArray<'a> { Initialized(LoadedTickArrayMut<'a>), Uninitialized(i32) }
impl<'a> ProxiedTickArray<'a> {
    pub fn new_initialized(refmut: LoadedTickArrayMut<'a>) -> (r: Self) ensures r == ProxiedTickArray::Initialized(refmut) { ProxiedTickArray::Initialized(refmut) }
    pub fn new_uninitialized(start_tick_index: i32) -> (r: Self) ensures r == ProxiedTickArray::<'a>::Uninitialized(start_tick_index) { ProxiedTickArray::Uninitialized(start_tick_index) }
}
pub struct VecDeque<T> { pub v: Vec<T> }
impl<T> VecDeque<T> {
    pub open spec fn view(&self) -> Seq<T> { self.v@ }
    #[verifier::external_body]
    pub fn with_capacity(n: usize) -> (r: Self) ensures r@ == Seq::<T>::empty() { unimplemented!() }
    #[verifier::external_body]
    pub fn push_back(&mut self, x: T) ensures final(self)@ == old(self)@.push(x) { unimplemented!() }
    #[verifier::external_body]
    pub fn is_empty(&self) -> (r: bool) ensures r == (self@.len() == 0) { unimplemented!() }
    #[verifier::external_body]
    pub fn pop_front(&mut self) -> (r: Option<T>)
        ensures old(self)@.len() == 0 ==> r is None && final(self)@ == old(self)@,
                old(self)@.len() > 0 ==> r == Some(old(self)@[0]) && final(self)@ == old(self)@.subrange(1, old(self)@.len() as int) { unimplemented!() }
}
pub struct SwapTickSequence<'a> { pub a0: ProxiedTickArray<'a>, pub a1: Option<ProxiedTickArray<'a>>, pub a2: Option<ProxiedTickArray<'a>> }
impl<'a> SwapTickSequence<'a> {
    pub fn new_with_proxy(a0: ProxiedTickArray<'a>, a1: Option<ProxiedTickArray<'a>>, a2: Option<ProxiedTickArray<'a>>) -> (r: Self) ensures r.a0 == a0, r.a1 == a1, r.a2 == a2 { SwapTickSequence { a0, a1, a2 } }
}
#[verifier::external_body]
fn get_start_tick_indexes(whirlpool: &Account<Whirlpool>, a_to_b: bool) -> (r: Vec<i32>)
    ensures forall|i: int, j: int| 0 <= i < j < r@.len() ==> r@[i] != r@[j] { unimplemented!() }
#[verifier::external_body]
fn position_by_start<'a>(v: &Vec<LoadedTickArrayMut<'a>>, s: i32) -> (r: Option<usize>)
    ensures match r { Some(i) => i < v@.len() && start_of(v@[i as int]) == s && (forall|j: int| 0 <= j < i ==> start_of(#[trigger] v@[j]) != s),
                      None => forall|j: int| 0 <= j < v@.len() ==> start_of(#[trigger] v@[j]) != s }
{ unimplemented!() }
pub open spec fn keys_have<'a>(accs: Seq<AccountInfo<'a>>, k: Pubkey) -> bool { exists|i: int| 0 <= i < accs.len() && *(#[trigger] accs[i]).key == k }
#[verifier::external_body]
fn has_key<'a>(v: &Vec<AccountInfo<'a>>, k: Pubkey) -> (r: bool) ensures r == keys_have(v@, k) { unimplemented!() }

/// the j-th selected array is the array for the j-th start index: the loaded (initialized) one whenever one was supplied, a zeroed proxy only when none was
/// supplied but the account at that array's PDA was
pub open spec fn slot_ok<'a>(orig: Seq<LoadedTickArrayMut<'a>>, accs: Seq<AccountInfo<'a>>, pool: Pubkey, s: i32, p: ProxiedTickArray<'a>) -> bool {
    match p {
        ProxiedTickArray::Initialized(t) => orig.contains(t) && start_of(t) == s,
        ProxiedTickArray::Uninitialized(z) => z == s && keys_have(accs, pda_of(pool, s)) && (forall|x: LoadedTickArrayMut<'a>| orig.contains(x) ==> start_of(x) != s),
    }
}
/// C10: the selection is a PREFIX of the start-index list without gaps, and it stops only where nothing was supplied for the next start index
pub open spec fn selected_ok<'a>(orig: Seq<LoadedTickArrayMut<'a>>, starts: Seq<i32>, accs: Seq<AccountInfo<'a>>, pool: Pubkey, req: Seq<ProxiedTickArray<'a>>) -> bool {
    &&& req.len() <= starts.len()
    &&& (forall|j: int| 0 <= j < req.len() ==> slot_ok(orig, accs, pool, starts[j], #[trigger] req[j]))
    &&& (req.len() < starts.len() ==> !keys_have(accs, pda_of(pool, starts[req.len() as int])) && (forall|x: LoadedTickArrayMut<'a>| orig.contains(x) ==> start_of(x) != starts[req.len() as int]))
}
pub proof fn lemma_remove_contains<T>(s: Seq<T>, i: int, x: T)
    requires 0 <= i < s.len(),
    ensures s.remove(i).contains(x) ==> s.contains(x), s.contains(x) && x != s[i] ==> s.remove(i).contains(x),
{
    let r = s.remove(i);
    if r.contains(x) { let j = choose|j: int| 0 <= j < r.len() && r[j] == x; if j < i { assert(s[j] == x); } else { assert(s[j + 1] == x); } }
    if s.contains(x) && x != s[i] { let j = choose|j: int| 0 <= j < s.len() && s[j] == x; if j < i { assert(r[j] == x); } else { assert(r[j - 1] == x); } }
}
impl<'info> SparseSwapTickSequenceBuilder<'info> {
//@ seg util/sparse_swap.rs try_build in=/^impl<'info> SparseSwapTickSequenceBuilder<'info> \{/ from=/let mut required_tick_arrays: VecDeque<ProxiedTickArray> = / to=/^        if required_tick_arrays\.is_empty\(\) \{/ var=loaded_tick_arrays ret=required_tick_arrays
fn try_build_select<'a>(&'a self, whirlpool: &Account<Whirlpool>, loaded_tick_arrays_in: Vec<LoadedTickArrayMut<'a>>, start_tick_indexes: Vec<i32>) -> (r: VecDeque<ProxiedTickArray<'a>>)
    requires forall|i: int, j: int| 0 <= i < j < start_tick_indexes@.len() ==> start_tick_indexes@[i] != start_tick_indexes@[j], // base + o * 88 * spacing for distinct offsets o
    ensures selected_ok(loaded_tick_arrays_in@, start_tick_indexes@, self.tick_array_accounts@, whirlpool.k, r@),
//@ rewrite /for start_tick_index in start_tick_indexes\.iter\(\) \{/ => /let mut sti_it: usize = 0; while sti_it < start_tick_indexes.len() { let start_tick_index = &start_tick_indexes[sti_it]; sti_it = sti_it + 1;/
//@ rewrite /loaded_tick_arrays\s*\.iter\(\)\s*\.position\(\|tick_array\| tick_array\.start_tick_index\(\) == \*start_tick_index\)/ => /position_by_start(&loaded_tick_arrays, *start_tick_index)/
//@ rewrite /self\s*\.tick_array_accounts\s*\.iter\(\)\s*\.any\(\|account_info\| account_info\.key\(\) == tick_array_pda\)/ => /has_key(&self.tick_array_accounts, tick_array_pda)/
//@ loop 0
        invariant_except_break
            required_tick_arrays@.len() == sti_it,
        invariant
            sti_it <= start_tick_indexes@.len(), required_tick_arrays@.len() <= sti_it,
            forall|i: int, j: int| 0 <= i < j < start_tick_indexes@.len() ==> start_tick_indexes@[i] != start_tick_indexes@[j],
            forall|j: int| 0 <= j < required_tick_arrays@.len() ==> slot_ok(loaded_tick_arrays_in@, self.tick_array_accounts@, whirlpool.k, start_tick_indexes@[j], #[trigger] required_tick_arrays@[j]),
            // what is still in the working list: everything supplied whose start index has not been consumed yet
            forall|x: LoadedTickArrayMut<'a>| loaded_tick_arrays@.contains(x) ==> loaded_tick_arrays_in@.contains(x),
            forall|x: LoadedTickArrayMut<'a>| loaded_tick_arrays_in@.contains(x) && (forall|j: int| 0 <= j < required_tick_arrays@.len() ==> start_of(x) != start_tick_indexes@[j]) ==> loaded_tick_arrays@.contains(x),
        ensures selected_ok(loaded_tick_arrays_in@, start_tick_indexes@, self.tick_array_accounts@, whirlpool.k, required_tick_arrays@),
        decreases start_tick_indexes@.len() - sti_it,
//@ inject before /let tick_array = loaded_tick_arrays\.remove\(pos\);/
                let ghost before = loaded_tick_arrays@; let ghost reqb = required_tick_arrays@;
                proof { assert(before.contains(before[pos as int])); }
//@ inject before /^\s*continue;/ 1
                proof {
                    assert forall|x: LoadedTickArrayMut<'a>| loaded_tick_arrays@.contains(x) implies loaded_tick_arrays_in@.contains(x) by { lemma_remove_contains(before, pos as int, x); }
                    assert forall|x: LoadedTickArrayMut<'a>| loaded_tick_arrays_in@.contains(x) && (forall|j: int| 0 <= j < required_tick_arrays@.len() ==> start_of(x) != start_tick_indexes@[j])
                        implies loaded_tick_arrays@.contains(x) by {
                        assert(required_tick_arrays@.len() == reqb.len() + 1);
                        assert(start_of(x) != start_tick_indexes@[reqb.len() as int]);
                        assert(forall|j: int| 0 <= j < reqb.len() ==> start_of(x) != start_tick_indexes@[j]);
                        assert(before.contains(x));
                        lemma_remove_contains(before, pos as int, x);
                    }
                }
//@ end
//@ seg util/sparse_swap.rs try_build in=/^impl<'info> SparseSwapTickSequenceBuilder<'info> \{/ from=/let start_tick_indexes = get_start_tick_indexes\(whirlpool, a_to_b\);/ to=/let mut required_tick_arrays: VecDeque<ProxiedTickArray> = / ret=start_tick_indexes
fn try_build_starts(whirlpool: &Account<Whirlpool>, a_to_b: bool) -> (r: Vec<i32>)
    ensures forall|i: int, j: int| 0 <= i < j < r@.len() ==> r@[i] != r@[j],
//@ end
/// C10: no array selected is an error; otherwise the sequence is the first three selected arrays, in selection order
//@ seg util/sparse_swap.rs try_build in=/^impl<'info> SparseSwapTickSequenceBuilder<'info> \{/ from=/^        if required_tick_arrays\.is_empty\(\) \{/ to=END var=required_tick_arrays
fn try_build_finish<'a>(required_tick_arrays_in: VecDeque<ProxiedTickArray<'a>>) -> (r: Result<SwapTickSequence<'a>>)
    ensures r is Ok <==> required_tick_arrays_in@.len() > 0,
        r matches Ok(q) ==> { let req = required_tick_arrays_in@;
            q.a0 == req[0] && q.a1 == (if req.len() > 1 { Some(req[1]) } else { None::<ProxiedTickArray<'a>> }) && q.a2 == (if req.len() > 2 { Some(req[2]) } else { None::<ProxiedTickArray<'a>> }) },
//@ rewrite /crate::errors::ErrorCode::InvalidTickArraySequence\.into\(\)/ => /Error { code: crate::errors::ErrorCode::InvalidTickArraySequence }/
//@ end
/// composition artifact (not repository text): the four segments in the order in which they tile try_build, as one function. What try_build returns on success is
/// the first three arrays of a gap-free selection over EVERYTHING that was supplied and passed the loader.
pub open spec fn built_from<'a>(accs: Seq<AccountInfo<'a>>, pool: Pubkey, starts: Seq<i32>, req: Seq<ProxiedTickArray<'a>>, q: SwapTickSequence<'a>) -> bool {
    req.len() > 0 && selected_ok(loaded_spec(accs, pool, accs.len() as int), starts, accs, pool, req)
    && q.a0 == req[0] && q.a1 == (if req.len() > 1 { Some(req[1]) } else { None::<ProxiedTickArray<'a>> }) && q.a2 == (if req.len() > 2 { Some(req[2]) } else { None::<ProxiedTickArray<'a>> })
}
fn try_build_composed<'a>(&'a self, whirlpool: &Account<Whirlpool>, a_to_b: bool) -> (r: Result<SwapTickSequence<'a>>)
    ensures r matches Ok(q) ==> exists|starts: Seq<i32>, req: Seq<ProxiedTickArray<'a>>| #[trigger] Self::built_from(self.tick_array_accounts@, whirlpool.k, starts, req, q),
        (exists|i: int| 0 <= i < self.tick_array_accounts@.len() && #[trigger] loaded_of(self.tick_array_accounts@[i], whirlpool.k) is Err) ==> r is Err,
{
    let loaded = match self.try_build_load(whirlpool) { Ok(v) => v, Err(e) => { return Err(e); } };
    let starts = Self::try_build_starts(whirlpool, a_to_b);
    let ghost st = starts@;
    let req = self.try_build_select(whirlpool, loaded, starts);
    let ghost rq = req@;
    let r = Self::try_build_finish(req);
    proof { if r is Ok { assert(Self::built_from(self.tick_array_accounts@, whirlpool.k, st, rq, r->Ok_0)); } }
    r
}
//@ segcheck util/sparse_swap.rs try_build in=/^impl<'info> SparseSwapTickSequenceBuilder<'info> \{/
}
}
