//@ needs specs errors stdspecs lebytes anchor_shim authority
// C19, token-mint admission: the extension allow-list with its badge-gated entries (util/v2/token.rs is_supported_token_mint), the badge test and the
// verifying wrapper. The mint account, its TLV area and the token badge account are shims; the TLV type scan (get_token_extension_types) is an external stub
// whose result is an uninterpreted list of extension types.
pub mod mint_admission {
use vstd::prelude::*;
use crate::errors::ErrorCode;
use crate::specs::*;
use crate::anchor_shim::*;
use crate::authority::InterfaceAccount;
//@ tags C19
//@ enum util/v2/token.rs pub TokenExtensionType
//@ assume mint-admission shims: the Token-2022 mint is (owning program, key, freeze authority present?, list of extension types found by the TLV scan, stored default account state if any); to_account_info / try_borrow_data / StateWithExtensions::unpack / get_tlv_data hand these out unchanged; get_token_extension_types (the TLV scan over raw bytes) is an external stub; native_mint::check_id is an uninterpreted predicate; the token badge account is (owner program, decoded config key and mint key); TokenBadge::try_deserialize yields the stored pair
pub uninterp spec fn token_program_id() -> Pubkey;
pub uninterp spec fn whirlpool_program_id() -> Pubkey;
pub uninterp spec fn is_native_2022(k: Pubkey) -> bool;
pub struct Token {}
impl Token { #[verifier::external_body] pub fn id() -> (r: Pubkey) ensures r == token_program_id() { unimplemented!() } }
pub enum COpt { None, Some(Pubkey) }
impl COpt {
    pub fn is_some(&self) -> (r: bool) ensures r == (*self is Some) { match self { COpt::Some(_) => true, COpt::None => false } }
    pub fn is_none(&self) -> (r: bool) ensures r == (*self is None) { match self { COpt::Some(_) => false, COpt::None => true } }
}
pub struct Mint { pub owner_program: Pubkey, pub k: Pubkey, pub decimals: u8, pub freeze_authority: COpt, pub extensions: Vec<TokenExtensionType>, pub default_state: Option<u8> }
pub struct MintAccountInfo<'a> { pub owner: &'a Pubkey, pub m: &'a Mint }
pub struct MintData<'a> { pub m: &'a Mint }
pub struct MintUnpacked<'a> { pub m: &'a Mint }
pub struct Tlv<'a> { pub m: &'a Mint }
pub struct DefaultAccountState { pub state: u8 }
impl<'a> InterfaceAccount<'a, Mint> {
    pub fn to_account_info(&self) -> (r: MintAccountInfo<'_>) ensures *r.owner == self.data.owner_program, *r.m == self.data { MintAccountInfo { owner: &self.data.owner_program, m: &self.data } }
    pub fn key(&self) -> (r: Pubkey) ensures r == self.data.k { self.data.k }
}
impl<'a> MintAccountInfo<'a> {
    #[verifier::external_body]
    pub fn try_borrow_data(&self) -> (r: Result<MintData<'a>>) ensures r matches Ok(d) ==> *d.m == *self.m { unimplemented!() }
}
pub mod spl_token_2022 {
    pub mod state { pub struct Mint {} }
    pub mod native_mint {
        use vstd::prelude::*;
        verus! {
        #[verifier::external_body]
        pub fn check_id(k: &crate::anchor_shim::Pubkey) -> (r: bool) ensures r == super::super::is_native_2022(*k) { unimplemented!() }
        }
    }
}
/// further spl-token-2022 accessors over the unpacked mint (not used by the pinned code; present so that code reading more of the mint still compiles here)
pub uninterp spec fn hook_program(m: Mint) -> Option<Pubkey>;
pub mod extension { pub mod transfer_hook {
    use vstd::prelude::*;
    verus! {
    #[verifier::external_body]
    pub fn get_program_id<'a>(u: &super::super::MintUnpacked<'a>) -> (r: Option<crate::anchor_shim::Pubkey>) ensures r == super::super::hook_program(*u.m) { unimplemented!() }
    }
} }
pub struct StateWithExtensions<T> { pub t: core::marker::PhantomData<T> }
impl<T> StateWithExtensions<T> {
    #[verifier::external_body]
    pub fn unpack<'a>(d: &MintData<'a>) -> (r: Result<MintUnpacked<'a>>) ensures r matches Ok(u) ==> *u.m == *d.m { unimplemented!() }
}
impl<'a> MintUnpacked<'a> {
    pub fn get_tlv_data(&self) -> (r: Tlv<'a>) ensures *r.m == *self.m { Tlv { m: self.m } }
    #[verifier::external_body]
    pub fn get_default_account_state(&self) -> (r: Result<&'a DefaultAccountState>)
        ensures match self.m.default_state { Some(s) => r matches Ok(d) && d.state == s, None => r is Err }
    { unimplemented!() }
}
#[verifier::external_body]
fn get_token_extension_types<'a>(tlv_data: Tlv<'a>) -> (r: Result<Vec<TokenExtensionType>>) ensures r matches Ok(v) ==> v@ == tlv_data.m.extensions@ { unimplemented!() }
pub const ACCOUNT_STATE_INITIALIZED: u8 = 1;

/// what a single extension demands: always fine / fine only with a token badge (default account state additionally needs a way to thaw) / never
pub open spec fn ext_ok(e: TokenExtensionType, badge: bool, default_state: Option<u8>, has_freeze: bool) -> bool {
    match e {
        TokenExtensionType::TransferFeeConfig | TokenExtensionType::InterestBearingConfig | TokenExtensionType::TokenMetadata | TokenExtensionType::MetadataPointer
        | TokenExtensionType::ScaledUiAmount | TokenExtensionType::ConfidentialTransferMint | TokenExtensionType::ConfidentialTransferFeeConfig => true,
        TokenExtensionType::PermanentDelegate | TokenExtensionType::TransferHook | TokenExtensionType::MintCloseAuthority | TokenExtensionType::Pausable => badge,
        TokenExtensionType::DefaultAccountState => badge && (default_state == Some(1u8) || has_freeze),
        _ => false,
    }
}
/// C19: a plain SPL mint is admitted; a Token-2022 mint is admitted iff it is not the native mint, a freeze authority comes with a badge, and every extension passes ext_ok
pub open spec fn mint_supported(m: Mint, badge: bool) -> bool {
    m.owner_program == token_program_id() || (!is_native_2022(m.k) && (m.freeze_authority is Some ==> badge)
        && forall|i: int| 0 <= i < m.extensions@.len() ==> ext_ok(#[trigger] m.extensions@[i], badge, m.default_state, m.freeze_authority is Some))
}
//@ fn util/v2/token.rs is_supported_token_mint -> r canary
    ensures
        r matches Ok(b) ==> b == mint_supported(token_mint.data, is_token_badge_initialized),
        // the only failure is a default-account-state extension that cannot be read
        r is Err ==> token_mint.data.owner_program != token_program_id(),
//@ rewrite /for extension in extensions \{/ => /let mut ext_it: usize = 0; while ext_it < extensions.len() { let extension = extensions[ext_it]; ext_it = ext_it + 1;/
//@ rewrite /token_mint_unpacked\s*\.get_extension::<extension::default_account_state::DefaultAccountState>\(\s*\)\?/ => /token_mint_unpacked.get_default_account_state()?/
//@ rewrite /let initialized: u8 = spl_token_2022::state::AccountState::Initialized\.into\(\);/ => /let initialized: u8 = ACCOUNT_STATE_INITIALIZED;/
//@ loop 0
        invariant ext_it <= extensions.len(), extensions@ == token_mint.data.extensions@, *token_mint_unpacked.m == token_mint.data,
            token_mint.data.owner_program != token_program_id(), !is_native_2022(token_mint.data.k), token_mint.data.freeze_authority is Some ==> is_token_badge_initialized,
            forall|i: int| 0 <= i < ext_it ==> ext_ok(#[trigger] token_mint.data.extensions@[i], is_token_badge_initialized, token_mint.data.default_state, token_mint.data.freeze_authority is Some),
        decreases extensions.len() - ext_it,
//@ end

/// the badge counts only if the badge account is owned by this program and names this config and this mint
pub struct TokenBadge { pub whirlpools_config: Pubkey, pub token_mint: Pubkey, pub attribute_require_non_transferable_position: bool }
pub struct BadgeAccount<'a> { pub owner: &'a Pubkey, pub stored: Option<TokenBadge> }
pub type UncheckedAccount<'a> = BadgeAccount<'a>;
/// the address of the (unchecked) badge account: not part of the shim's fields, an uninterpreted attribute
pub uninterp spec fn badge_account_key<'a>(a: BadgeAccount<'a>) -> Pubkey;
impl<'a> crate::anchor_shim::SKey for BadgeAccount<'a> { open spec fn skey(&self) -> Pubkey { badge_account_key(*self) } }
#[verifier::external_body]
pub fn whirlpool_id() -> (r: Pubkey) ensures r == whirlpool_program_id() { unimplemented!() }
#[verifier::external_body]
pub fn try_deserialize_badge(a: &BadgeAccount<'_>) -> (r: Result<TokenBadge>) ensures match a.stored { Some(b) => r matches Ok(x) && x == b, None => r is Err } { unimplemented!() }
pub open spec fn badge_ok(a: BadgeAccount<'_>, config: Pubkey, mint: Pubkey) -> bool {
    *a.owner == whirlpool_program_id() && (a.stored matches Some(b) && b.whirlpools_config == config && b.token_mint == mint)
}
//@ fn util/v2/token.rs is_token_badge_initialized -> r
    ensures r matches Ok(b) ==> b == badge_ok(*token_badge, whirlpools_config_key, token_mint_key),
        *token_badge.owner != whirlpool_program_id() ==> r matches Ok(false),
//@ rewrite /crate::id\(\)/ => /whirlpool_id()/
//@ rewrite /TokenBadge::try_deserialize\(&mut token_badge\.data\.borrow\(\)\.as_ref\(\)\)\?/ => /try_deserialize_badge(token_badge)?/
//@ end
/// C19: a pool or reward can be created over a mint only if mint_supported holds with the badge issued for THIS config and THIS mint
//@ fn util/v2/token.rs verify_supported_token_mint -> r canary
    ensures r is Ok ==> mint_supported(token_mint.data, badge_ok(*token_badge, whirlpools_config_key, token_mint.data.k)),
//@ end

/// the badge's non-transferable-position attribute counts only for a badge that is valid for this config and mint
//@ fn util/v2/token.rs is_non_transferable_position_required -> r canary
    ensures r matches Ok(b) ==> b == (badge_ok(*token_badge, whirlpools_config_key, token_mint.data.k) && token_badge.stored->Some_0.attribute_require_non_transferable_position),
//@ rewrite /TokenBadge::try_deserialize\(&mut token_badge\.data\.borrow\(\)\.as_ref\(\)\)\?/ => /try_deserialize_badge(token_badge)?/
//@ end

// ------------------------------------------------------------------ the raw TLV scan (C19): which extension types a mint's TLV area holds
//@ assume TLV-scan shims: read_u16_le_from_slice (u16::from_le_bytes of a two-byte slice) and TokenExtensionType::try_from(u16) (TryFromPrimitive derive: the variant with that discriminant, error for an unknown number) are external stubs with exactly these contracts; ProgramError is reduced to one value
//@ discriminants util/v2/token.rs TokenExtensionType ext_of_num u16
/// the wire numbering of Token-2022's ExtensionType (program/src/extension/mod.rs, v8/v9), written down independently of the repository's clone of that enum
pub open spec fn spl_number(t: TokenExtensionType) -> u16 {
    match t {
        TokenExtensionType::Uninitialized => 0, TokenExtensionType::TransferFeeConfig => 1, TokenExtensionType::TransferFeeAmount => 2, TokenExtensionType::MintCloseAuthority => 3,
        TokenExtensionType::ConfidentialTransferMint => 4, TokenExtensionType::ConfidentialTransferAccount => 5, TokenExtensionType::DefaultAccountState => 6, TokenExtensionType::ImmutableOwner => 7,
        TokenExtensionType::MemoTransfer => 8, TokenExtensionType::NonTransferable => 9, TokenExtensionType::InterestBearingConfig => 10, TokenExtensionType::CpiGuard => 11,
        TokenExtensionType::PermanentDelegate => 12, TokenExtensionType::NonTransferableAccount => 13, TokenExtensionType::TransferHook => 14, TokenExtensionType::TransferHookAccount => 15,
        TokenExtensionType::ConfidentialTransferFeeConfig => 16, TokenExtensionType::ConfidentialTransferFeeAmount => 17, TokenExtensionType::MetadataPointer => 18, TokenExtensionType::TokenMetadata => 19,
        TokenExtensionType::GroupPointer => 20, TokenExtensionType::TokenGroup => 21, TokenExtensionType::GroupMemberPointer => 22, TokenExtensionType::TokenGroupMember => 23,
        TokenExtensionType::ConfidentialMintBurn => 24, TokenExtensionType::ScaledUiAmount => 25, TokenExtensionType::Pausable => 26, TokenExtensionType::PausableAccount => 27,
    }
}
/// C19: the clone decodes every type number to the extension Token-2022 means by it, and knows no other number
pub proof fn lemma_extension_numbers()
    ensures forall|n: u16| (match #[trigger] ext_of_num(n) { Some(t) => spl_number(t) == n, None => n > 27 }),
{
}
pub open spec fn le16(d: Seq<u8>, i: int) -> u16 { (d[i] as int + 256 * d[i + 1] as int) as u16 }
pub struct ProgramErrorShim {}
#[verifier::external_body]
fn read_u16_at(d: &[u8], a: usize, b: usize) -> (r: Result<u16>) requires a <= b <= d@.len(), ensures b - a >= 2 ==> r == Ok::<u16, Error>(le16(d@, a as int)), b - a < 2 ==> r is Err { unimplemented!() }
#[verifier::external_body]
fn ext_try_from(n: u16) -> (r: Result<TokenExtensionType>) ensures match ext_of_num(n) { Some(t) => r == Ok::<TokenExtensionType, Error>(t), None => r is Err } { unimplemented!() }
pub open spec fn is_uninit(t: TokenExtensionType) -> bool { t is Uninitialized }
#[verifier::external_body]
fn ext_is_uninitialized(t: TokenExtensionType) -> (r: bool) ensures r == is_uninit(t) { unimplemented!() }
/// the scan as a recursive function of (bytes, cursor): type (2 bytes LE), length (2 bytes LE), value; ends at the end of the data, at fewer than two remaining
/// bytes, or at an Uninitialized (0) type; an unknown type number, a missing length or a value running past the end is an error
pub open spec fn tlv_scan(d: Seq<u8>, c: int) -> Result<Seq<TokenExtensionType>> decreases d.len() - c {
    if c < 0 || c >= d.len() { Ok(Seq::empty()) }
    else if d.len() < c + 2 { Ok(Seq::empty()) }
    else { match ext_of_num(le16(d, c)) {
        None => Err(Error { code: ErrorCode::InvalidEnum }),
        Some(t) => if is_uninit(t) { Ok(Seq::empty()) }
            else if d.len() < c + 4 { Err(Error { code: ErrorCode::InvalidEnum }) }
            else { let end = c + 4 + le16(d, c + 2) as int;
                if end > d.len() { Err(Error { code: ErrorCode::InvalidEnum }) }
                else { match tlv_scan(d, end) { Ok(rest) => Ok(seq![t] + rest), Err(e) => Err(e) } } } } }
}
/// C19: the list handed to the allow-list check is exactly the scan of the mint's TLV bytes (errors are errors, whatever their code)
//@ fn util/v2/token.rs get_token_extension_types -> r as=get_token_extension_types_bytes nodec canary
    requires tlv_data@.len() <= 0x7FFF_0000, // account data is at most 10 MiB
    ensures
        tlv_scan(tlv_data@, 0) is Err <==> r is Err,
        r matches Ok(v) ==> tlv_scan(tlv_data@, 0) == Ok::<Seq<TokenExtensionType>, Error>(v@),
//@ rewrite /const TLV_TYPE_LENGTH: usize = 2;/ => /let TLV_TYPE_LENGTH: usize = 2;/
//@ rewrite /const TLV_LENGTH_LENGTH: usize = 2;/ => /let TLV_LENGTH_LENGTH: usize = 2;/
//@ rewrite /read_u16_le_from_slice\(&tlv_data\[tlv_type_start\.\.tlv_length_start\]\)\?/ => /read_u16_at(tlv_data, tlv_type_start, tlv_length_start)?/
//@ rewrite /read_u16_le_from_slice\(&tlv_data\[tlv_length_start\.\.tlv_value_start\]\)\?/ => /read_u16_at(tlv_data, tlv_length_start, tlv_value_start)?/
//@ rewrite /TokenExtensionType::try_from\(extension_type_num\)\s*\.map_err\(\|_\| ProgramError::InvalidAccountData\)\?/ => /ext_try_from(extension_type_num)?/
//@ rewrite /extension_type == TokenExtensionType::Uninitialized/ => /ext_is_uninitialized(extension_type)/
//@ rewrite /return Err\(ProgramError::InvalidAccountData\.into\(\)\);/ => /return Err(Error { code: ErrorCode::InvalidEnum });/ 2
//@ loop 0
        invariant cursor <= tlv_data@.len(), tlv_data@.len() <= 0x7FFF_0000, TLV_TYPE_LENGTH == 2, TLV_LENGTH_LENGTH == 2,
            // what has been collected so far, followed by the scan from the cursor, is the whole scan
            match tlv_scan(tlv_data@, cursor as int) { Ok(rest) => tlv_scan(tlv_data@, 0) == Ok::<Seq<TokenExtensionType>, Error>(extension_types@ + rest), Err(e) => tlv_scan(tlv_data@, 0) is Err },
//@ inject at /^\{/
    proof { assert(Seq::<TokenExtensionType>::empty() + tlv_scan(tlv_data@, 0)->Ok_0 =~= tlv_scan(tlv_data@, 0)->Ok_0); }
//@ inject after /let mut cursor = 0;/
    let ghost full = tlv_scan(tlv_data@, 0);
//@ inject before /extension_types\.push\(extension_type\);/
            let ghost before = extension_types@;
//@ inject before /^            cursor = value_end_index;/
            proof { let d = tlv_data@; let c = tlv_type_start as int; let rest = tlv_scan(d, value_end_index as int);
                assert(ext_of_num(le16(d, c)) == Some(extension_type));
                assert(value_end_index as int == c + 4 + le16(d, c + 2) as int);
                assert(tlv_scan(d, c) == (match rest { Ok(x) => Ok::<Seq<TokenExtensionType>, Error>(seq![extension_type] + x), Err(e) => Err::<Seq<TokenExtensionType>, Error>(e) }));
                assert(extension_types@ =~= before + seq![extension_type]);
                if rest is Ok { assert((before + seq![extension_type]) + rest->Ok_0 =~= before + (seq![extension_type] + rest->Ok_0)); } }
//@ end
}
