// Little-endian (de)serialisation of machine integers: uninterpreted spec functions + round-trip axioms (assumed; cross-checked bit-precisely by the Kani harness le_roundtrip on the real core library).
pub mod lebytes {
use vstd::prelude::*;
//@ assume from_le_bytes / to_le_bytes of u16,u32,u64,u128,i32,i128 are mutually inverse bijections (uninterpreted views le_*/to_le_*)
pub uninterp spec fn le_u128(b: [u8; 16]) -> u128;
pub uninterp spec fn to_le_u128(x: u128) -> [u8; 16];
pub uninterp spec fn le_i128(b: [u8; 16]) -> i128;
pub uninterp spec fn to_le_i128(x: i128) -> [u8; 16];
pub uninterp spec fn le_u64(b: [u8; 8]) -> u64;
pub uninterp spec fn to_le_u64(x: u64) -> [u8; 8];
pub uninterp spec fn le_i32(b: [u8; 4]) -> i32;
pub uninterp spec fn to_le_i32(x: i32) -> [u8; 4];
pub uninterp spec fn le_u16(b: [u8; 2]) -> u16;
pub uninterp spec fn to_le_u16(x: u16) -> [u8; 2];
// Verus cannot attach a specification to core's from_le_bytes/to_le_bytes (their array length is an inline const expression),
// so extracted bodies call these shims instead (fragment-wide logged substitution `T::from_le_bytes(` -> `T_from_le_bytes(`, `.to_le_bytes()` -> `.to_le_bytes_v()`).
#[verifier::external_body] pub fn u128_from_le_bytes(b: [u8; 16]) -> (r: u128) ensures r == le_u128(b) { u128::from_le_bytes(b) }
#[verifier::external_body] pub fn i128_from_le_bytes(b: [u8; 16]) -> (r: i128) ensures r == le_i128(b) { i128::from_le_bytes(b) }
#[verifier::external_body] pub fn u64_from_le_bytes(b: [u8; 8]) -> (r: u64) ensures r == le_u64(b) { u64::from_le_bytes(b) }
#[verifier::external_body] pub fn i32_from_le_bytes(b: [u8; 4]) -> (r: i32) ensures r == le_i32(b) { i32::from_le_bytes(b) }
#[verifier::external_body] pub fn u16_from_le_bytes(b: [u8; 2]) -> (r: u16) ensures r == le_u16(b) { u16::from_le_bytes(b) }
pub trait ToLeV { type B; spec fn to_le_spec(self) -> Self::B; fn to_le_bytes_v(self) -> (r: Self::B) ensures r == self.to_le_spec(); }
impl ToLeV for u128 { type B = [u8; 16]; open spec fn to_le_spec(self) -> [u8; 16] { to_le_u128(self) } #[verifier::external_body] fn to_le_bytes_v(self) -> (r: [u8; 16]) { self.to_le_bytes() } }
impl ToLeV for i128 { type B = [u8; 16]; open spec fn to_le_spec(self) -> [u8; 16] { to_le_i128(self) } #[verifier::external_body] fn to_le_bytes_v(self) -> (r: [u8; 16]) { self.to_le_bytes() } }
impl ToLeV for u64 { type B = [u8; 8]; open spec fn to_le_spec(self) -> [u8; 8] { to_le_u64(self) } #[verifier::external_body] fn to_le_bytes_v(self) -> (r: [u8; 8]) { self.to_le_bytes() } }
impl ToLeV for i32 { type B = [u8; 4]; open spec fn to_le_spec(self) -> [u8; 4] { to_le_i32(self) } #[verifier::external_body] fn to_le_bytes_v(self) -> (r: [u8; 4]) { self.to_le_bytes() } }
impl ToLeV for u16 { type B = [u8; 2]; open spec fn to_le_spec(self) -> [u8; 2] { to_le_u16(self) } #[verifier::external_body] fn to_le_bytes_v(self) -> (r: [u8; 2]) { self.to_le_bytes() } }
#[verifier::external_body] pub broadcast proof fn ax_u128(x: u128) ensures #[trigger] le_u128(to_le_u128(x)) == x {}
#[verifier::external_body] pub broadcast proof fn ax_i128(x: i128) ensures #[trigger] le_i128(to_le_i128(x)) == x {}
#[verifier::external_body] pub broadcast proof fn ax_u64(x: u64) ensures #[trigger] le_u64(to_le_u64(x)) == x {}
#[verifier::external_body] pub broadcast proof fn ax_i32(x: i32) ensures #[trigger] le_i32(to_le_i32(x)) == x {}
#[verifier::external_body] pub broadcast proof fn ax_u16(x: u16) ensures #[trigger] le_u16(to_le_u16(x)) == x {}
pub broadcast group le_roundtrip { ax_u128, ax_i128, ax_u64, ax_i32, ax_u16 }
}
