// Canary: this lemma is FALSE and the verifier must reject it on every run. If it is accepted the
// tool chain is broken (or a contradiction leaked into the prelude) and the run ends undecided.
//@ needs specs bitlemmas
pub mod canary {
use vstd::prelude::*;
use crate::specs::*;
broadcast use {crate::bitlemmas::bits64, vstd::arithmetic::mul::group_mul_basics};
pub proof fn canary_false_lemma(n: int, d: int)
    requires n >= 0, d > 0,
    ensures div_round(n, d, true) == div_round(n, d, false),
{
}
}
