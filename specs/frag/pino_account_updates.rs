//@ needs specs errors stdspecs anchor_shim state_core managers token_math tick_math_abs liquidity_manager authority
// C13 (account side): the Pinocchio functions that grow / shrink a dynamic tick array account by 112 bytes per (de)initialized tick and move one tick rent
// between the position and the array (pinocchio/ported/manager_tick_array_manager.rs), verified as they stand against a STATE-PASSING model of the account heap.
// The real code reaches account lengths and lamports through raw pointers behind `&AccountInfo` (interior mutability); Verus has no such aliasing, so the
// extractor appends one tracked parameter `h: &mut Heap` to every function of the file (G1, logged) and rewrites (logged) the five pinocchio calls that touch
// the heap to take it:  .data_len() -> .data_len_h(h)   .resize(n) -> .resize_h(n, h)   .try_borrow_mut_lamports() -> .try_borrow_mut_lamports_h(h)
//                       `*x_lamports = x_lamports.checked_op(amount).ok_or(E)?;` -> read through LamRef::get, write through LamRef::set
// Two AccountInfo values with the same key are the same account (the runtime hands duplicate accounts the same raw pointer), so "lower and upper array are
// the same account" is simply lower.k == upper.k and both updates land on one heap cell.
pub mod pino_account_updates {
use vstd::prelude::*;
use crate::errors::ErrorCode as WhirlpoolErrorCode;
use crate::specs::*;
use crate::anchor_shim::Pubkey;
use crate::authority_pino::{Result, UnifiedError, AccountInfo};
use crate::tick_array_manager::{TickArrayRentTransfer, TickArraySizeUpdate, TickArrayUpdate};
broadcast use crate::authority_pino::ax_qmark_pino;
//@ tags C13

/// the part of the account heap these functions touch: data length and lamports per account key
pub struct Heap { pub len: Map<Pubkey, usize>, pub lam: Map<Pubkey, u64> }

//@ assume pinocchio AccountInfo::{data_len, resize, try_borrow_mut_lamports} and RefMut<u64> reads / writes are shims over the Heap model: resize succeeds only by setting exactly the requested length (it may fail - borrowed data, growth beyond the 10 KiB per-instruction limit), a lamports borrow hands out a handle to that account's cell; borrow-flag bookkeeping (a second live borrow of the same account fails) is not modelled, the two accounts of a rent transfer are required to be distinct instead
pub struct LamRef { pub k: Pubkey }
impl LamRef {
    #[verifier::external_body]
    pub fn get(&self, Tracked(h): Tracked<&Heap>) -> (r: u64) ensures r == h.lam[self.k] { unimplemented!() }
    #[verifier::external_body]
    pub fn set(&self, v: u64, Tracked(h): Tracked<&mut Heap>) ensures final(h).lam == old(h).lam.insert(self.k, v), final(h).len == old(h).len { unimplemented!() }
}
impl AccountInfo {
    #[verifier::external_body]
    pub fn data_len_h(&self, Tracked(h): Tracked<&Heap>) -> (r: usize) ensures r == h.len[self.k] { unimplemented!() }
    #[verifier::external_body]
    pub fn resize_h(&self, new_len: usize, Tracked(h): Tracked<&mut Heap>) -> (r: Result<()>)
        ensures r is Ok ==> final(h).len == old(h).len.insert(self.k, new_len) && final(h).lam == old(h).lam,
                r is Err ==> *final(h) == *old(h) { unimplemented!() }
    #[verifier::external_body]
    pub fn try_borrow_mut_lamports_h(&self, Tracked(h): Tracked<&Heap>) -> (r: Result<LamRef>) ensures r matches Ok(l) ==> l.k == self.k { unimplemented!() }
}
//@ assume get_tick_rent_amount (Rent sysvar read; 779_520 lamports on Solana) is an external stub returning some amount
pub const DYNAMIC_TICK_INITIALIZED_LEN: usize = 113;
pub const DYNAMIC_TICK_UNINITIALIZED_LEN: usize = 1;
pub uninterp spec fn tick_rent() -> u64;
#[verifier::external_body]
pub fn get_tick_rent_amount() -> (r: Result<u64>) ensures r matches Ok(v) ==> v == tick_rent() { unimplemented!() }

//@ assume constants DynamicTick::INITIALIZED_LEN (113) and UNINITIALIZED_LEN (1) of crate::state are restated as DYNAMIC_TICK_* (the Anchor-side definitions are extracted in fragment tick_arrays); TICK_INITIALIZATION_SIZE itself is the real item
//@ subst /crate::state::DynamicTick::(INITIALIZED_LEN|UNINITIALIZED_LEN)/ => /DYNAMIC_TICK_\1/
//@ const pinocchio/ported/manager_tick_array_manager.rs subst TICK_INITIALIZATION_SIZE
//@ subst /\.data_len\(\)/ => /.data_len_h(Tracked(&*h))/
//@ subst /\.resize\(required_size\)/ => /.resize_h(required_size, Tracked(h))/
//@ subst /\.try_borrow_mut_lamports\(\)/ => /.try_borrow_mut_lamports_h(Tracked(&*h))/
//@ subst /\*(\w+_lamports) = (\w+_lamports)\s*\.checked_(sub|add)\(amount\)\s*\.ok_or\(WhirlpoolErrorCode::RentCalculationError\)\?;/ => /let v_\1 = \2.get(Tracked(&*h)).checked_\3(amount).ok_or(WhirlpoolErrorCode::RentCalculationError)?; \1.set(v_\1, Tracked(h));/
//@ subst /let mut (\w+_lamports) = / => /let \1 = /
//@ subst /\b(pino_(?:tick_array_size_update_execute|tick_array_rent_transfer_execute|transfer_rent_to_tick_array|transfer_rent_to_position|increase_tick_array_size|decrease_tick_array_size))\(([^()]*?),?\s*\)/ => /\1(\2, Tracked(h))/

/// the length change a size update asks for
pub open spec fn size_delta(u: TickArraySizeUpdate) -> int { match u { TickArraySizeUpdate::Increase => 112, TickArraySizeUpdate::Decrease => -112, TickArraySizeUpdate::None => 0 } }
/// lamports a rent transfer moves INTO the tick array (negative: back to the position): one tick rent
pub open spec fn rent_dir(t: TickArrayRentTransfer) -> int { match t { TickArrayRentTransfer::TransferToTickArray => tick_rent() as int, TickArrayRentTransfer::TransferToPosition => -(tick_rent() as int), TickArrayRentTransfer::None => 0 } }

//@ fn pinocchio/ported/manager_tick_array_manager.rs pino_increase_tick_array_size -> r canary
//@ ghostparam Tracked(h): Tracked<&mut Heap>
    requires old(h).len.dom().contains(tick_array_info.k), old(h).len[tick_array_info.k] <= 0x7FFF_0000,
    ensures r is Ok ==> final(h).len == old(h).len.insert(tick_array_info.k, (old(h).len[tick_array_info.k] + 112) as usize) && final(h).lam == old(h).lam,
//@ end

//@ fn pinocchio/ported/manager_tick_array_manager.rs pino_decrease_tick_array_size -> r canary
//@ ghostparam Tracked(h): Tracked<&mut Heap>
    requires old(h).len.dom().contains(tick_array_info.k), old(h).len[tick_array_info.k] >= 112, // a Decrease is only requested for an array holding the tick that is being de-initialized
    ensures r is Ok ==> final(h).len == old(h).len.insert(tick_array_info.k, (old(h).len[tick_array_info.k] - 112) as usize) && final(h).lam == old(h).lam,
//@ end

//@ fn pinocchio/ported/manager_tick_array_manager.rs pino_tick_array_size_update_execute -> r canary
//@ ghostparam Tracked(h): Tracked<&mut Heap>
    requires old(h).len.dom().contains(tick_array_info.k), old(h).len[tick_array_info.k] <= 0x7FFF_0000,
        *size_update is Decrease ==> old(h).len[tick_array_info.k] >= 112,
    ensures r is Ok ==> final(h).len == old(h).len.insert(tick_array_info.k, (old(h).len[tick_array_info.k] + size_delta(*size_update)) as usize) && final(h).lam == old(h).lam,
//@ end

/// `amount` lamports moved from account `from` to account `to`, nothing else touched
pub open spec fn lam_moved(h0: Heap, h1: Heap, from: Pubkey, to: Pubkey, amount: int) -> bool {
    h1.len == h0.len && h0.lam[from] >= amount && h0.lam[to] + amount <= u64::MAX
    && h1.lam[from] as int == h0.lam[from] - amount && h1.lam[to] as int == h0.lam[to] + amount
    && (forall|k: Pubkey| k != from && k != to ==> h1.lam[k] == h0.lam[k])
}

//@ fn pinocchio/ported/manager_tick_array_manager.rs pino_transfer_rent_to_tick_array -> r canary
//@ ghostparam Tracked(h): Tracked<&mut Heap>
    requires tick_array_info.k != position_info.k,
    ensures r is Ok ==> lam_moved(*old(h), *final(h), position_info.k, tick_array_info.k, amount as int),
//@ end

//@ fn pinocchio/ported/manager_tick_array_manager.rs pino_transfer_rent_to_position -> r canary
//@ ghostparam Tracked(h): Tracked<&mut Heap>
    requires tick_array_info.k != position_info.k,
    ensures r is Ok ==> lam_moved(*old(h), *final(h), tick_array_info.k, position_info.k, amount as int),
//@ end

//@ fn pinocchio/ported/manager_tick_array_manager.rs pino_tick_array_rent_transfer_execute -> r canary
//@ ghostparam Tracked(h): Tracked<&mut Heap>
    requires tick_array_info.k != position_info.k,
    ensures r is Ok ==> match *rent_transfer {
        TickArrayRentTransfer::TransferToTickArray => lam_moved(*old(h), *final(h), position_info.k, tick_array_info.k, tick_rent_amount as int),
        TickArrayRentTransfer::TransferToPosition => lam_moved(*old(h), *final(h), tick_array_info.k, position_info.k, tick_rent_amount as int),
        TickArrayRentTransfer::None => *final(h) == *old(h) },
//@ end

/// C13: what the account update leaves behind. Every tick array account's length moved by exactly 112 bytes per requested size update that targets it -
/// when lower and upper are the same account both updates land on it - the position's length is untouched, and the lamports of the three accounts moved by
/// one tick rent per requested transfer in the requested direction (so their sum is conserved).
pub open spec fn accounts_updated(h0: Heap, h1: Heap, p: Pubkey, l: Pubkey, u: Pubkey, lu: TickArrayUpdate, uu: TickArrayUpdate) -> bool {
    &&& h1.len[l] as int == h0.len[l] + size_delta(lu.size_update) + (if u == l { size_delta(uu.size_update) } else { 0 })
    &&& h1.len[u] as int == h0.len[u] + size_delta(uu.size_update) + (if u == l { size_delta(lu.size_update) } else { 0 })
    &&& h1.len[p] == h0.len[p]
    &&& (forall|k: Pubkey| k != l && k != u ==> h1.len[k] == h0.len[k])
    &&& h1.lam[p] as int == h0.lam[p] - (rent_dir(lu.transfer_rent) + rent_dir(uu.transfer_rent))
    &&& h1.lam[l] as int == h0.lam[l] + (rent_dir(lu.transfer_rent) + (if u == l { rent_dir(uu.transfer_rent) } else { 0 }))
    &&& h1.lam[u] as int == h0.lam[u] + (rent_dir(uu.transfer_rent) + (if u == l { rent_dir(lu.transfer_rent) } else { 0 }))
    &&& (forall|k: Pubkey| k != l && k != u && k != p ==> h1.lam[k] == h0.lam[k])
}

//@ fn pinocchio/ported/manager_tick_array_manager.rs pino_update_tick_array_accounts -> r canary
//@ ghostparam Tracked(h): Tracked<&mut Heap>
    requires
        position_info.k != lower_tick_array_info.k, position_info.k != upper_tick_array_info.k,
        old(h).len.dom().contains(lower_tick_array_info.k), old(h).len.dom().contains(upper_tick_array_info.k),
        old(h).len[lower_tick_array_info.k] <= 0x7FFE_0000, old(h).len[upper_tick_array_info.k] <= 0x7FFE_0000,
        // a Decrease is only requested for an array that holds the tick being de-initialized (112 bytes each)
        old(h).len[lower_tick_array_info.k] >= (if lower_tick_array_update.size_update is Decrease { 112int } else { 0 })
            + (if upper_tick_array_info.k == lower_tick_array_info.k && upper_tick_array_update.size_update is Decrease { 112int } else { 0 }),
        upper_tick_array_update.size_update is Decrease ==> old(h).len[upper_tick_array_info.k] >= 112,
    ensures
        r is Ok ==> accounts_updated(*old(h), *final(h), position_info.k, lower_tick_array_info.k, upper_tick_array_info.k, *lower_tick_array_update, *upper_tick_array_update), //# C13
//@ end
}
