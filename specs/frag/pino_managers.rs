//@ needs specs errors stdspecs lebytes anchor_shim state_core managers liquidity_manager pino_state token_math tick_math_abs bit_math liquidity_math
// C12(i): every ported function proves the SAME spec predicate as its Anchor twin (fragments managers / liquidity_manager),
// evaluated on the abstract view of the memory-mapped account.
pub mod pino_managers {
use vstd::prelude::*;
use crate::errors::ErrorCode as WhirlpoolErrorCode;
use crate::errors::ErrorCode;
use crate::specs::*;
use crate::authority_pino::{Result, UnifiedError};
use crate::state_core::{Tick, Position, PositionRewardInfo, PositionUpdate, Whirlpool, WhirlpoolRewardInfo, is_tick_update_default, is_position_update_default};
use crate::pino_state::*;
use crate::managers::*;
use crate::tick_array_manager::{TickArrayRentTransfer, TickArraySizeUpdate, TickArrayUpdate, modify_tick_array_spec};
use crate::liquidity_manager::{token_deltas_spec, modify_liquidity_core, reward_inside_k};
use crate::liquidity_math::add_liquidity_delta;
use crate::bit_math::{checked_mul_div, checked_mul_shift_right};
use crate::token_math::{get_amount_delta_a, get_amount_delta_b};
use crate::tick_math::*;
//@ tags C12 C05 C07 C08 C11
broadcast use crate::authority_pino::ax_qmark_pino;

pub open spec fn perr<T>(c: ErrorCode) -> Result<T> { Err(UnifiedError::Whirlpool(c)) }
/// lifts "Anchor outcome" specs to the Pinocchio result type: same error code, same predicate on the value
pub open spec fn same_outcome<T>(r: Result<T>, err: Option<ErrorCode>, ok: spec_fn(T) -> bool) -> bool {
    match r { Ok(v) => err is None && ok(v), Err(e) => err matches Some(c) && e == UnifiedError::Whirlpool(c) }
}

//@ fn pinocchio/ported/manager_liquidity_manager.rs pino_next_tick_modify_liquidity_update -> r tags=C12,C05,C07,C11,C01 canary
    ensures same_outcome(r, tick_modify_err(tick.view(), liquidity_delta as int, is_upper_tick),
        |u: TickUpdate| tick_modify_ok(tick.view(), tick_index as int, tick_current_index as int, fee_growth_global_a, fee_growth_global_b, |k: int| reward_growth_global[k], liquidity_delta as int, is_upper_tick, u.view())),
//@ end

//@ fn pinocchio/ported/manager_liquidity_manager.rs pino_next_fee_growths_inside -> r tags=C12,C07,C01
    ensures
        r.0 == growth_inside(tick_current_index as int, tick_lower.view().initialized, tick_lower.view().fee_growth_outside_a, tick_lower_index as int,
                             tick_upper.view().initialized, tick_upper.view().fee_growth_outside_a, tick_upper_index as int, fee_growth_global_a),
        r.1 == growth_inside(tick_current_index as int, tick_lower.view().initialized, tick_lower.view().fee_growth_outside_b, tick_lower_index as int,
                             tick_upper.view().initialized, tick_upper.view().fee_growth_outside_b, tick_upper_index as int, fee_growth_global_b),
//@ end

//@ fn pinocchio/ported/manager_liquidity_manager.rs pino_next_reward_growths_inside -> r tags=C12,C11,C01
    ensures forall|k: int| 0 <= k < 3 ==> #[trigger] r[k] == (if reward_infos[k].view().is_init() {
            growth_inside(tick_current_index as int, tick_lower.view().initialized, tick_lower.view().reward_growths_outside[k], tick_lower_index as int,
                          tick_upper.view().initialized, tick_upper.view().reward_growths_outside[k], tick_upper_index as int, next_reward_growth_global[k]) } else { 0u128 }),
//@ rewrite_for
//@ loop 0
        invariant i_it <= 3,
            forall|k: int| 0 <= k < i_it ==> #[trigger] reward_growths_inside[k] == (if reward_infos[k].view().is_init() {
                growth_inside(tick_current_index as int, tick_lower.view().initialized, tick_lower.view().reward_growths_outside[k], tick_lower_index as int,
                          tick_upper.view().initialized, tick_upper.view().reward_growths_outside[k], tick_upper_index as int, next_reward_growth_global[k]) } else { 0u128 }),
            forall|k: int| i_it <= k < 3 ==> reward_growths_inside[k] == 0,
        decreases 3 - i_it,
//@ end

//@ fn pinocchio/ported/manager_liquidity_manager.rs pino_next_position_modify_liquidity_update -> r tags=C12,C05,C07,C11,C01 canary
    ensures same_outcome(r, position_modify_err(position.view(), liquidity_delta as int),
        |u: PositionUpdate| position_modify_ok(position.view(), liquidity_delta as int, fee_growth_inside_a, fee_growth_inside_b, *reward_growths_inside, u)),
//@ rewrite_enum_mut
//@ loop 0
        invariant i_it <= 3, update.reward_infos.len() == 3,
            forall|k: int| 0 <= k < 3 ==> (#[trigger] position_reward_infos[k]).view() == position.view().reward_infos[k],
            update.fee_growth_checkpoint_a == fee_growth_inside_a && update.fee_growth_checkpoint_b == fee_growth_inside_b,
            update.fee_owed_a == wadd64(position.view().fee_owed_a, credit(position.view().liquidity, wsub(fee_growth_inside_a, position.view().fee_growth_checkpoint_a))),
            update.fee_owed_b == wadd64(position.view().fee_owed_b, credit(position.view().liquidity, wsub(fee_growth_inside_b, position.view().fee_growth_checkpoint_b))),
            forall|k: int| 0 <= k < i_it ==> (#[trigger] update.reward_infos[k]).growth_inside_checkpoint == reward_growths_inside[k]
              && update.reward_infos[k].amount_owed == wadd64(position.view().reward_infos[k].amount_owed, credit(position.view().liquidity, wsub(reward_growths_inside[k], position.view().reward_infos[k].growth_inside_checkpoint))),
        decreases 3 - i_it,
//@ end

//@ fn pinocchio/ported/manager_liquidity_manager.rs pino_calculate_modify_tick_array -> r tags=C12,C13
    ensures r matches Ok(u) && modify_tick_array_spec(position.view().liquidity, position_update.liquidity, is_variable_size_tick_array, tick.view().initialized, tick_update.initialized, u),
//@ end

//@ fn pinocchio/ported/manager_liquidity_manager.rs pino_next_whirlpool_liquidity -> r tags=C12,C05,C01 canary
    ensures same_outcome(r,
        { let l = whirlpool.view().liquidity as int + liquidity_delta as int;
          if !(tick_lower_index <= whirlpool.view().tick_current_index < tick_upper_index) { None }
          else if l > U128MAX() { Some(ErrorCode::LiquidityOverflow) } else if l < 0 { Some(ErrorCode::LiquidityUnderflow) } else { None } },
        |v: u128| v as int == (if tick_lower_index <= whirlpool.view().tick_current_index < tick_upper_index { whirlpool.view().liquidity as int + liquidity_delta as int } else { whirlpool.view().liquidity as int })),
//@ end

/// same growth as the Anchor next_whirlpool_reward_infos under the reachable-state precondition "an uninitialized reward has zero emissions"
/// (the port skips on emissions == 0 instead of testing the mint)
//@ assume reachable-state: an uninitialized reward slot has emissions_per_second_x64 == 0 (set_reward_emissions requires an initialized reward)
//@ fn pinocchio/ported/manager_liquidity_manager.rs pino_next_whirlpool_reward_growth_global -> r tags=C12,C11,C01 canary
    requires forall|k: int| 0 <= k < 3 ==> (!(#[trigger] whirlpool.view().reward_infos[k]).is_init() ==> whirlpool.view().reward_infos[k].emissions_per_second_x64 == 0),
    ensures same_outcome(r,
        if (next_timestamp as int) < whirlpool.view().reward_last_updated_timestamp as int { Some(ErrorCode::InvalidTimestamp) } else { None },
        |g: [u128; 3]| forall|k: int| 0 <= k < 3 ==> #[trigger] g[k] == next_growth(whirlpool.view(), next_timestamp as int, k)),
//@ rewrite_for
//@ loop 0
        invariant i_it <= 3, time_delta as int == next_timestamp as int - curr_timestamp as int, whirlpool.view().liquidity > 0,
            curr_timestamp == whirlpool.view().reward_last_updated_timestamp, next_timestamp > curr_timestamp,
            forall|k: int| 0 <= k < 3 ==> (#[trigger] reward_infos[k]).view() == whirlpool.view().reward_infos[k],
            forall|k: int| 0 <= k < 3 ==> (!(#[trigger] whirlpool.view().reward_infos[k]).is_init() ==> whirlpool.view().reward_infos[k].emissions_per_second_x64 == 0),
            forall|k: int| 0 <= k < i_it ==> #[trigger] next_reward_infos[k] == next_growth(whirlpool.view(), next_timestamp as int, k),
            forall|k: int| i_it <= k < 3 ==> next_reward_infos[k] == whirlpool.view().reward_infos[k].growth_global_x64,
        decreases 3 - i_it,
//@ inject before /^\s*continue;/
            proof {
                let dt = next_timestamp as int - curr_timestamp as int;
                assert(dt * 0 == 0) by(nonlinear_arith);
                vstd::arithmetic::div_mod::lemma_div_of0(whirlpool.view().liquidity as int);
                assert(reward_delta(dt, 0u128, whirlpool.view().liquidity) == 0);
            }
//@ end

//@ fn pinocchio/ported/manager_liquidity_manager.rs pino_calculate_liquidity_token_deltas -> r tags=C12,C08,C01 canary
    requires tick_ok(position.view().tick_lower_index as int), tick_ok(position.view().tick_upper_index as int), sqrt_price > 0,
    ensures
        liquidity_delta == 0 ==> r == perr::<(u64, u64)>(ErrorCode::LiquidityZero),
        r matches Ok(ab) ==> liquidity_delta != 0 && token_deltas_spec(current_tick_index as int, sqrt_price as int, position.view().tick_lower_index as int, position.view().tick_upper_index as int, liquidity_delta as int, ab.0 as int, ab.1 as int),
//@ end

//@ struct pinocchio/ported/manager_liquidity_manager.rs PinoModifyLiquidityUpdate

/// C12: the Pinocchio liquidity-change computation satisfies the same predicate (modify_liquidity_core) as the Anchor one, on the abstract views
//@ fn pinocchio/ported/manager_liquidity_manager.rs _pino_calculate_modify_liquidity -> r canary
    requires forall|k: int| 0 <= k < 3 ==> (!(#[trigger] whirlpool.view().reward_infos[k]).is_init() ==> whirlpool.view().reward_infos[k].emissions_per_second_x64 == 0),
    ensures
        liquidity_delta == 0 && position.view().liquidity == 0 ==> r == perr::<PinoModifyLiquidityUpdate>(ErrorCode::LiquidityZero),
        r matches Ok(u) ==> modify_liquidity_core(whirlpool.view(), position.view(), tick_lower.view(), tick_upper.view(), tick_lower_index as int, tick_upper_index as int,
            tick_array_lower_variable_size, tick_array_upper_variable_size, liquidity_delta as int, timestamp as int,
            u.whirlpool_liquidity, u.tick_lower_update.view(), u.tick_upper_update.view(), |k: int| u.next_reward_growth_global[k], u.position_update, u.tick_array_lower_update, u.tick_array_upper_update),
//@ inject before /let position_update = pino_next_position_modify_liquidity_update/
    proof {
        let w = whirlpool.view(); let ts = timestamp as int;
        let rg = [reward_inside_k(w, tick_lower.view(), tick_upper.view(), tick_lower_index as int, tick_upper_index as int, ts, 0),
                  reward_inside_k(w, tick_lower.view(), tick_upper.view(), tick_lower_index as int, tick_upper_index as int, ts, 1),
                  reward_inside_k(w, tick_lower.view(), tick_upper.view(), tick_lower_index as int, tick_upper_index as int, ts, 2)];
        assert(forall|k: int| 0 <= k < 3 ==> (#[trigger] whirlpool.reward_infos_raw()[k]).view() == w.reward_infos[k]);
        assert(rg[0] == reward_growths_inside[0] && rg[1] == reward_growths_inside[1] && rg[2] == reward_growths_inside[2]);
        assert(rg =~= reward_growths_inside);
    }
//@ end

// ------------------------------------------------------------------ the wrappers between the handlers and the computation (C05, C12, C13)
//@ tags C05 C12 C13
//@ assume abstract Pinocchio tick array: `dyn TickArray` is specified by the view tick_at(index, spacing) (Some(tick) iff the index is a usable tick of this array) with the get_tick / update_tick frame contract that fragment pino_tick_arrays proves for the fixed array and (byte level, P2 + layout lemma) for the dynamic array
pub open spec fn tick_is(t: Tick, u: crate::state_core::TickUpdate) -> bool {
    t.initialized == u.initialized && t.liquidity_net == u.liquidity_net && t.liquidity_gross == u.liquidity_gross && t.fee_growth_outside_a == u.fee_growth_outside_a
    && t.fee_growth_outside_b == u.fee_growth_outside_b && (forall|k: int| 0 <= k < 3 ==> t.reward_growths_outside[k] == u.reward_growths_outside[k])
}
pub trait TickArray {
    spec fn tick_at(&self, tick_index: int, spacing: int) -> Option<Tick>;
    spec fn variable(&self) -> bool;
    fn is_variable_size(&self) -> (r: bool) ensures r == self.variable();
    fn get_tick(&self, tick_index: i32, tick_spacing: u16) -> (r: Result<&MemoryMappedTick>)
        ensures match self.tick_at(tick_index as int, tick_spacing as int) { Some(t) => r matches Ok(x) && x.view() == t, None => r is Err };
    fn update_tick(&mut self, tick_index: i32, tick_spacing: u16, update: &TickUpdate) -> (r: Result<()>)
        ensures final(self).variable() == old(self).variable(),
            match old(self).tick_at(tick_index as int, tick_spacing as int) {
                Some(t0) => r is Ok && (final(self).tick_at(tick_index as int, tick_spacing as int) matches Some(t1) && tick_is(t1, update.view()))
                    && forall|j: int| j != tick_index ==> #[trigger] final(self).tick_at(j, tick_spacing as int) == old(self).tick_at(j, tick_spacing as int),
                None => r is Err && forall|j: int| #[trigger] final(self).tick_at(j, tick_spacing as int) == old(self).tick_at(j, tick_spacing as int) };
}
/// C05/C12: the update computed for a liquidity change is modify_liquidity_core evaluated on the pool, the position and the position's OWN two bound ticks,
/// the lower one read from the lower array and the upper one from the upper array; a bound that is not a tick of its array is an error
//@ fn pinocchio/ported/manager_liquidity_manager.rs pino_calculate_modify_liquidity -> r tags=C05,C12,C07,C11,C01 canary
    requires forall|k: int| 0 <= k < 3 ==> (!(#[trigger] whirlpool.view().reward_infos[k]).is_init() ==> whirlpool.view().reward_infos[k].emissions_per_second_x64 == 0),
    ensures
        tick_array_lower.tick_at(position.view().tick_lower_index as int, whirlpool.view().tick_spacing as int) is None ==> r is Err,
        tick_array_upper.tick_at(position.view().tick_upper_index as int, whirlpool.view().tick_spacing as int) is None ==> r is Err,
        r matches Ok(u) ==> (tick_array_lower.tick_at(position.view().tick_lower_index as int, whirlpool.view().tick_spacing as int) matches Some(tl)
            && tick_array_upper.tick_at(position.view().tick_upper_index as int, whirlpool.view().tick_spacing as int) matches Some(tu)
            && modify_liquidity_core(whirlpool.view(), position.view(), tl, tu, position.view().tick_lower_index as int, position.view().tick_upper_index as int,
                tick_array_lower.variable(), tick_array_upper.variable(), liquidity_delta as int, timestamp as int,
                u.whirlpool_liquidity, u.tick_lower_update.view(), u.tick_upper_update.view(), |k: int| u.next_reward_growth_global[k], u.position_update, u.tick_array_lower_update, u.tick_array_upper_update)),
//@ end
pub open spec fn refresh_core(w: Whirlpool, p: Position, tl: Tick, tu: Tick, lv: bool, uv: bool, ts: int, wl: u128, tlu: crate::state_core::TickUpdate, tuu: crate::state_core::TickUpdate, g: [u128; 3], pu: PositionUpdate, au: TickArrayUpdate, bu: TickArrayUpdate) -> bool {
    modify_liquidity_core(w, p, tl, tu, p.tick_lower_index as int, p.tick_upper_index as int, lv, uv, 0, ts, wl, tlu, tuu, |k: int| g[k], pu, au, bu)
}
pub open spec fn refresh_ok(w: Whirlpool, p: Position, tl: Tick, tu: Tick, lv: bool, uv: bool, ts: int, g: [u128; 3], pu: PositionUpdate) -> bool {
    exists|wl: u128, tlu: crate::state_core::TickUpdate, tuu: crate::state_core::TickUpdate, au: TickArrayUpdate, bu: TickArrayUpdate| #[trigger] refresh_core(w, p, tl, tu, lv, uv, ts, wl, tlu, tuu, g, pu, au, bu)
}
/// the fee/reward refresh is the same computation with a zero liquidity change
//@ fn pinocchio/ported/manager_liquidity_manager.rs pino_calculate_fee_and_reward_growths -> r tags=C07,C11,C12,C01 canary
    requires forall|k: int| 0 <= k < 3 ==> (!(#[trigger] whirlpool.view().reward_infos[k]).is_init() ==> whirlpool.view().reward_infos[k].emissions_per_second_x64 == 0),
    ensures
        r is Ok ==> tick_array_lower.tick_at(position.view().tick_lower_index as int, whirlpool.view().tick_spacing as int) is Some
            && tick_array_upper.tick_at(position.view().tick_upper_index as int, whirlpool.view().tick_spacing as int) is Some,
        r matches Ok(p) ==> refresh_ok(whirlpool.view(), position.view(),
                    tick_array_lower.tick_at(position.view().tick_lower_index as int, whirlpool.view().tick_spacing as int)->Some_0,
                    tick_array_upper.tick_at(position.view().tick_upper_index as int, whirlpool.view().tick_spacing as int)->Some_0,
                    tick_array_lower.variable(), tick_array_upper.variable(), timestamp as int, p.1, p.0),
//@ inject before /^    Ok\(\(update\.position_update/
    proof { assert(refresh_core(whirlpool.view(), position.view(), tick_lower.view(), tick_upper.view(), tick_array_lower.variable(), tick_array_upper.variable(), timestamp as int,
        update.whirlpool_liquidity, update.tick_lower_update.view(), update.tick_upper_update.view(), update.next_reward_growth_global, update.position_update, update.tick_array_lower_update, update.tick_array_upper_update));
      assert(refresh_ok(whirlpool.view(), position.view(), tick_lower.view(), tick_upper.view(), tick_array_lower.variable(), tick_array_upper.variable(), timestamp as int, update.next_reward_growth_global, update.position_update));
    }
//@ end
/// C05/C12/C13: writing an update back: the position takes the position update, the lower bound tick (in the lower array) the lower tick update, the upper bound tick
/// (in the upper array, or in the same array when both bounds share one) the upper tick update, the pool its liquidity / reward growths / timestamp; nothing else changes
//@ fn pinocchio/ported/manager_liquidity_manager.rs pino_sync_modify_liquidity_values -> r tags=C05,C12,C13,C07,C11,C01 canary
    requires old(position).view().tick_lower_index != old(position).view().tick_upper_index,
    ensures ({
        let p0 = old(position).view(); let sp = old(whirlpool).view().tick_spacing as int; let u = modify_liquidity_update;
        r is Ok ==> {
            &&& final(position).view().liquidity == u.position_update.liquidity && final(position).view().tick_lower_index == p0.tick_lower_index && final(position).view().tick_upper_index == p0.tick_upper_index
            &&& final(position).view().fee_owed_a == u.position_update.fee_owed_a && final(position).view().fee_owed_b == u.position_update.fee_owed_b
            &&& final(position).view().whirlpool == p0.whirlpool
            &&& final(whirlpool).liquidity_v() == u.whirlpool_liquidity && final(whirlpool).reward_ts_v() == reward_last_updated_timestamp
            &&& final(whirlpool).sqrt_price_v() == old(whirlpool).sqrt_price_v() && final(whirlpool).tick_current_index_v() == old(whirlpool).tick_current_index_v()
            &&& final(whirlpool).tick_spacing_v() == old(whirlpool).tick_spacing_v()
            &&& (forall|k: int| 0 <= k < 3 ==> #[trigger] final(whirlpool).reward_info_v(k) == (WhirlpoolRewardInfo { growth_global_x64: u.next_reward_growth_global[k], ..old(whirlpool).reward_info_v(k) }))
            &&& final(whirlpool).token_vault_a_v() == old(whirlpool).token_vault_a_v() && final(whirlpool).token_vault_b_v() == old(whirlpool).token_vault_b_v()
            &&& final(whirlpool).token_mint_a_v() == old(whirlpool).token_mint_a_v() && final(whirlpool).token_mint_b_v() == old(whirlpool).token_mint_b_v()
            &&& final(position).view().position_mint == p0.position_mint
            &&& (final(tick_array_lower).tick_at(p0.tick_lower_index as int, sp) matches Some(t) && tick_is(t, u.tick_lower_update.view()))
            &&& (match tick_array_upper { Some(up) => final(up).tick_at(p0.tick_upper_index as int, sp) matches Some(t) && tick_is(t, u.tick_upper_update.view()),
                    None => final(tick_array_lower).tick_at(p0.tick_upper_index as int, sp) matches Some(t) && tick_is(t, u.tick_upper_update.view()) })
            &&& (forall|j: int| j != p0.tick_lower_index && (tick_array_upper is Some || j != p0.tick_upper_index) ==> #[trigger] final(tick_array_lower).tick_at(j, sp) == old(tick_array_lower).tick_at(j, sp))
        } }),
//@ end
}
