//@ needs specs errors stdspecs lebytes anchor_shim state_core managers liquidity_manager pino_state token_math tick_math_abs bit_math liquidity_math
// C12(i): every ported function proves the SAME spec predicate as its Anchor twin (fragments managers / liquidity_manager),
// evaluated on the abstract view of the memory-mapped account.
pub mod pino_managers {
use vstd::prelude::*;
use crate::errors::ErrorCode as WhirlpoolErrorCode;
use crate::errors::ErrorCode;
use crate::specs::*;
use crate::authority_pino::{Result, UnifiedError};
use crate::state_core::{Tick, Position, PositionRewardInfo, PositionUpdate, Whirlpool, WhirlpoolRewardInfo, is_tick_update_default, is_position_update_default};
use crate::pino_state::*;
use crate::managers::*;
use crate::tick_array_manager::{TickArrayRentTransfer, TickArraySizeUpdate, TickArrayUpdate, modify_tick_array_spec};
use crate::liquidity_manager::{token_deltas_spec, modify_liquidity_core, reward_inside_k};
use crate::liquidity_math::add_liquidity_delta;
use crate::bit_math::{checked_mul_div, checked_mul_shift_right};
use crate::token_math::{get_amount_delta_a, get_amount_delta_b};
use crate::tick_math::*;
//@ tags C12 C05 C07 C08 C11
broadcast use crate::authority_pino::ax_qmark_pino;

pub open spec fn perr<T>(c: ErrorCode) -> Result<T> { Err(UnifiedError::Whirlpool(c)) }
/// lifts "Anchor outcome" specs to the Pinocchio result type: same error code, same predicate on the value
pub open spec fn same_outcome<T>(r: Result<T>, err: Option<ErrorCode>, ok: spec_fn(T) -> bool) -> bool {
    match r { Ok(v) => err is None && ok(v), Err(e) => err matches Some(c) && e == UnifiedError::Whirlpool(c) }
}

//@ fn pinocchio/ported/manager_liquidity_manager.rs pino_next_tick_modify_liquidity_update -> r tags=C12,C05,C07,C11
    ensures same_outcome(r, tick_modify_err(tick.view(), liquidity_delta as int, is_upper_tick),
        |u: TickUpdate| tick_modify_ok(tick.view(), tick_index as int, tick_current_index as int, fee_growth_global_a, fee_growth_global_b, |k: int| reward_growth_global[k], liquidity_delta as int, is_upper_tick, u.view())),
//@ end

//@ fn pinocchio/ported/manager_liquidity_manager.rs pino_next_fee_growths_inside -> r tags=C12,C07
    ensures
        r.0 == growth_inside(tick_current_index as int, tick_lower.view().initialized, tick_lower.view().fee_growth_outside_a, tick_lower_index as int,
                             tick_upper.view().initialized, tick_upper.view().fee_growth_outside_a, tick_upper_index as int, fee_growth_global_a),
        r.1 == growth_inside(tick_current_index as int, tick_lower.view().initialized, tick_lower.view().fee_growth_outside_b, tick_lower_index as int,
                             tick_upper.view().initialized, tick_upper.view().fee_growth_outside_b, tick_upper_index as int, fee_growth_global_b),
//@ end

//@ fn pinocchio/ported/manager_liquidity_manager.rs pino_next_reward_growths_inside -> r tags=C12,C11
    ensures forall|k: int| 0 <= k < 3 ==> #[trigger] r[k] == (if reward_infos[k].view().is_init() {
            growth_inside(tick_current_index as int, tick_lower.view().initialized, tick_lower.view().reward_growths_outside[k], tick_lower_index as int,
                          tick_upper.view().initialized, tick_upper.view().reward_growths_outside[k], tick_upper_index as int, next_reward_growth_global[k]) } else { 0u128 }),
//@ rewrite_for
//@ loop 0
        invariant i_it <= 3,
            forall|k: int| 0 <= k < i_it ==> #[trigger] reward_growths_inside[k] == (if reward_infos[k].view().is_init() {
                growth_inside(tick_current_index as int, tick_lower.view().initialized, tick_lower.view().reward_growths_outside[k], tick_lower_index as int,
                          tick_upper.view().initialized, tick_upper.view().reward_growths_outside[k], tick_upper_index as int, next_reward_growth_global[k]) } else { 0u128 }),
            forall|k: int| i_it <= k < 3 ==> reward_growths_inside[k] == 0,
        decreases 3 - i_it,
//@ end

//@ fn pinocchio/ported/manager_liquidity_manager.rs pino_next_position_modify_liquidity_update -> r tags=C12,C05,C07,C11
    ensures same_outcome(r, position_modify_err(position.view(), liquidity_delta as int),
        |u: PositionUpdate| position_modify_ok(position.view(), liquidity_delta as int, fee_growth_inside_a, fee_growth_inside_b, *reward_growths_inside, u)),
//@ rewrite_enum_mut
//@ loop 0
        invariant i_it <= 3, update.reward_infos.len() == 3,
            forall|k: int| 0 <= k < 3 ==> (#[trigger] position_reward_infos[k]).view() == position.view().reward_infos[k],
            update.fee_growth_checkpoint_a == fee_growth_inside_a && update.fee_growth_checkpoint_b == fee_growth_inside_b,
            update.fee_owed_a == wadd64(position.view().fee_owed_a, credit(position.view().liquidity, wsub(fee_growth_inside_a, position.view().fee_growth_checkpoint_a))),
            update.fee_owed_b == wadd64(position.view().fee_owed_b, credit(position.view().liquidity, wsub(fee_growth_inside_b, position.view().fee_growth_checkpoint_b))),
            forall|k: int| 0 <= k < i_it ==> (#[trigger] update.reward_infos[k]).growth_inside_checkpoint == reward_growths_inside[k]
              && update.reward_infos[k].amount_owed == wadd64(position.view().reward_infos[k].amount_owed, credit(position.view().liquidity, wsub(reward_growths_inside[k], position.view().reward_infos[k].growth_inside_checkpoint))),
        decreases 3 - i_it,
//@ end

//@ fn pinocchio/ported/manager_liquidity_manager.rs pino_calculate_modify_tick_array -> r tags=C12,C13
    ensures r matches Ok(u) && modify_tick_array_spec(position.view().liquidity, position_update.liquidity, is_variable_size_tick_array, tick.view().initialized, tick_update.initialized, u),
//@ end

//@ fn pinocchio/ported/manager_liquidity_manager.rs pino_next_whirlpool_liquidity -> r tags=C12,C05
    ensures same_outcome(r,
        { let l = whirlpool.view().liquidity as int + liquidity_delta as int;
          if !(tick_lower_index <= whirlpool.view().tick_current_index < tick_upper_index) { None }
          else if l > U128MAX() { Some(ErrorCode::LiquidityOverflow) } else if l < 0 { Some(ErrorCode::LiquidityUnderflow) } else { None } },
        |v: u128| v as int == (if tick_lower_index <= whirlpool.view().tick_current_index < tick_upper_index { whirlpool.view().liquidity as int + liquidity_delta as int } else { whirlpool.view().liquidity as int })),
//@ end

/// same growth as the Anchor next_whirlpool_reward_infos under the reachable-state precondition "an uninitialized reward has zero emissions"
/// (the port skips on emissions == 0 instead of testing the mint)
//@ assume reachable-state: an uninitialized reward slot has emissions_per_second_x64 == 0 (set_reward_emissions requires an initialized reward)
//@ fn pinocchio/ported/manager_liquidity_manager.rs pino_next_whirlpool_reward_growth_global -> r tags=C12,C11
    requires forall|k: int| 0 <= k < 3 ==> (!(#[trigger] whirlpool.view().reward_infos[k]).is_init() ==> whirlpool.view().reward_infos[k].emissions_per_second_x64 == 0),
    ensures same_outcome(r,
        if (next_timestamp as int) < whirlpool.view().reward_last_updated_timestamp as int { Some(ErrorCode::InvalidTimestamp) } else { None },
        |g: [u128; 3]| forall|k: int| 0 <= k < 3 ==> #[trigger] g[k] == next_growth(whirlpool.view(), next_timestamp as int, k)),
//@ rewrite_for
//@ loop 0
        invariant i_it <= 3, time_delta as int == next_timestamp as int - curr_timestamp as int, whirlpool.view().liquidity > 0,
            curr_timestamp == whirlpool.view().reward_last_updated_timestamp, next_timestamp > curr_timestamp,
            forall|k: int| 0 <= k < 3 ==> (#[trigger] reward_infos[k]).view() == whirlpool.view().reward_infos[k],
            forall|k: int| 0 <= k < 3 ==> (!(#[trigger] whirlpool.view().reward_infos[k]).is_init() ==> whirlpool.view().reward_infos[k].emissions_per_second_x64 == 0),
            forall|k: int| 0 <= k < i_it ==> #[trigger] next_reward_infos[k] == next_growth(whirlpool.view(), next_timestamp as int, k),
            forall|k: int| i_it <= k < 3 ==> next_reward_infos[k] == whirlpool.view().reward_infos[k].growth_global_x64,
        decreases 3 - i_it,
//@ inject before /^\s*continue;/
            proof {
                let dt = next_timestamp as int - curr_timestamp as int;
                assert(dt * 0 == 0) by(nonlinear_arith);
                vstd::arithmetic::div_mod::lemma_div_of0(whirlpool.view().liquidity as int);
                assert(reward_delta(dt, 0u128, whirlpool.view().liquidity) == 0);
            }
//@ end

//@ fn pinocchio/ported/manager_liquidity_manager.rs pino_calculate_liquidity_token_deltas -> r tags=C12,C08
    requires tick_ok(position.view().tick_lower_index as int), tick_ok(position.view().tick_upper_index as int), sqrt_price > 0,
    ensures
        liquidity_delta == 0 ==> r == perr::<(u64, u64)>(ErrorCode::LiquidityZero),
        r matches Ok(ab) ==> liquidity_delta != 0 && token_deltas_spec(current_tick_index as int, sqrt_price as int, position.view().tick_lower_index as int, position.view().tick_upper_index as int, liquidity_delta as int, ab.0 as int, ab.1 as int),
//@ end

//@ struct pinocchio/ported/manager_liquidity_manager.rs PinoModifyLiquidityUpdate

/// C12: the Pinocchio liquidity-change computation satisfies the same predicate (modify_liquidity_core) as the Anchor one, on the abstract views
//@ fn pinocchio/ported/manager_liquidity_manager.rs _pino_calculate_modify_liquidity -> r
    requires forall|k: int| 0 <= k < 3 ==> (!(#[trigger] whirlpool.view().reward_infos[k]).is_init() ==> whirlpool.view().reward_infos[k].emissions_per_second_x64 == 0),
    ensures
        liquidity_delta == 0 && position.view().liquidity == 0 ==> r == perr::<PinoModifyLiquidityUpdate>(ErrorCode::LiquidityZero),
        r matches Ok(u) ==> modify_liquidity_core(whirlpool.view(), position.view(), tick_lower.view(), tick_upper.view(), tick_lower_index as int, tick_upper_index as int,
            tick_array_lower_variable_size, tick_array_upper_variable_size, liquidity_delta as int, timestamp as int,
            u.whirlpool_liquidity, u.tick_lower_update.view(), u.tick_upper_update.view(), |k: int| u.next_reward_growth_global[k], u.position_update, u.tick_array_lower_update, u.tick_array_upper_update),
//@ inject before /let position_update = pino_next_position_modify_liquidity_update/
    proof {
        let w = whirlpool.view(); let ts = timestamp as int;
        let rg = [reward_inside_k(w, tick_lower.view(), tick_upper.view(), tick_lower_index as int, tick_upper_index as int, ts, 0),
                  reward_inside_k(w, tick_lower.view(), tick_upper.view(), tick_lower_index as int, tick_upper_index as int, ts, 1),
                  reward_inside_k(w, tick_lower.view(), tick_upper.view(), tick_lower_index as int, tick_upper_index as int, ts, 2)];
        assert(forall|k: int| 0 <= k < 3 ==> (#[trigger] whirlpool.reward_infos_raw()[k]).view() == w.reward_infos[k]);
        assert(rg[0] == reward_growths_inside[0] && rg[1] == reward_growths_inside[1] && rg[2] == reward_growths_inside[2]);
        assert(rg =~= reward_growths_inside);
    }
//@ end
}
