// Assumed specifications for std items that vstd does not specify (trusted base, listed in evidence).
#[verifier::allow(undeclared_external_trait)]
pub mod stdspecs {
use vstd::prelude::*;
use vstd::std_specs::cmp::{OrdSpec, PartialOrdSpec};
pub assume_specification [u128::leading_zeros] (a: u128) -> (r: u32)
    ensures r <= 128, a == 0 ==> r == 128, a != 0 ==> (r < 128 && (a as int) < vstd::arithmetic::power2::pow2((128 - r) as nat) && (a as int) >= vstd::arithmetic::power2::pow2((127 - r) as nat));
pub assume_specification [i32::abs] (a: i32) -> (r: i32) requires a != i32::MIN ensures r == (if a < 0 { -a } else { a as int });
pub assume_specification [i128::unsigned_abs] (a: i128) -> (r: u128) ensures r == (if a < 0 { -a } else { a as int });
pub assume_specification [i32::unsigned_abs] (a: i32) -> (r: u32) ensures r == (if a < 0 { -a } else { a as int });
pub assume_specification [i32::signum] (a: i32) -> (r: i32) ensures r == (if a < 0 { -1int } else if a == 0 { 0int } else { 1int });
pub assume_specification<T, E> [Result::<T,E>::unwrap_or] (r: Result<T,E>, d: T) -> (o: T) ensures o == (match r { Ok(v) => v, Err(_) => d });
pub assume_specification<T, E, U, D: FnOnce(E) -> U + std::marker::Destruct, F: FnOnce(T) -> U + std::marker::Destruct> [Result::<T,E>::map_or_else] (r: Result<T,E>, d: D, f: F) -> (o: U)
  requires match r { Ok(t) => f.requires((t,)), Err(e) => d.requires((e,)) },
  ensures match r { Ok(t) => f.ensures((t,), o), Err(e) => d.ensures((e,), o) };
pub assume_specification [u64::overflowing_sub] (a: u64, b: u64) -> (r:(u64, bool))
  ensures r.1 == (a < b), r.0 as int == (if a >= b { a - b } else { a - b + 0x1_0000_0000_0000_0000 });
pub assume_specification<T: std::cmp::Ord + std::marker::Destruct> [std::cmp::min] (a: T, b: T) -> (r: T)
    ensures T::obeys_cmp_spec() ==> r == (if a.cmp_spec(&b) == core::cmp::Ordering::Greater { b } else { a });
}
