//@ needs specs bitlemmas errors
pub mod u256_math {
use vstd::prelude::*;
use crate::errors::ErrorCode;
use crate::specs::*;
//@ const math/u256_math.rs NUM_WORDS U64_MAX U64_RESOLUTION
//@ struct math/u256_math.rs U256Muldiv
}
