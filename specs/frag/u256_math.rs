//@ needs specs bitlemmas errors
pub mod u256_math {
use vstd::prelude::*;
use crate::errors::ErrorCode;
use crate::specs::*;
use std::cmp::Ordering;
broadcast use {crate::bitlemmas::bits64, vstd::arithmetic::mul::group_mul_basics};
//@ tags C02 C08 C09 C01 C14
//@ const math/u256_math.rs NUM_WORDS U64_MAX U64_RESOLUTION
//@ struct math/u256_math.rs U256Muldiv

pub open spec fn Q2() -> int { 0x1_0000_0000_0000_0000_0000_0000_0000_0000int }
pub open spec fn Q3() -> int { 0x1_0000_0000_0000_0000_0000_0000_0000_0000_0000_0000_0000_0000int }
pub open spec fn Q4() -> int { 0x1_0000_0000_0000_0000_0000_0000_0000_0000_0000_0000_0000_0000_0000_0000_0000_0000int }
pub proof fn lemma_q_powers()
    ensures Q2() == Q() * Q(), Q3() == Q() * Q() * Q(), Q3() == Q2() * Q(), Q4() == Q3() * Q(), Q4() == Q2() * Q2(),
{
    assert(Q2() == Q() * Q()) by(compute);
    assert(Q3() == Q() * Q() * Q()) by(compute);
    assert(Q3() == Q2() * Q()) by(compute);
    assert(Q4() == Q3() * Q()) by(compute);
    assert(Q4() == Q2() * Q2()) by(compute);
}

impl U256Muldiv {
    /// the 256-bit number denoted by the four little-endian words
    pub open spec fn view(&self) -> int {
        self.items[0] as int + self.items[1] as int * Q() + self.items[2] as int * Q2() + self.items[3] as int * Q3()
    }
}

pub proof fn lemma_view_bounds(x: U256Muldiv)
    ensures 0 <= x.view() < Q4(),
        x.items[3] == 0 ==> x.view() < Q3(),
        x.items[3] == 0 && x.items[2] == 0 ==> x.view() < Q2(),
        x.items[3] != 0 ==> x.view() >= Q3(),
        x.items[2] != 0 ==> x.view() >= Q2(),
        x.view() == 0 <==> (x.items[0] == 0 && x.items[1] == 0 && x.items[2] == 0 && x.items[3] == 0),
{
}

/// Q^n
pub open spec fn qpow(n: nat) -> int decreases n { if n == 0 { 1 } else { Q() * qpow((n - 1) as nat) } }
pub proof fn lemma_qpow_unfold(n: nat) requires n >= 1 ensures qpow(n) == Q() * qpow((n - 1) as nat) { }
pub proof fn lemma_qpow_vals() ensures qpow(0) == 1, qpow(1) == Q(), qpow(2) == Q2(), qpow(3) == Q3(), qpow(4) == Q4()
{
    assert(qpow(0) == 1) by(compute); assert(qpow(1) == 0x1_0000_0000_0000_0000int) by(compute);
    assert(qpow(2) == 0x1_0000_0000_0000_0000_0000_0000_0000_0000int) by(compute);
    assert(qpow(3) == 0x1_0000_0000_0000_0000_0000_0000_0000_0000_0000_0000_0000_0000int) by(compute);
    assert(qpow(4) == 0x1_0000_0000_0000_0000_0000_0000_0000_0000_0000_0000_0000_0000_0000_0000_0000_0000int) by(compute);
}
pub proof fn lemma_qpow_add(a: nat, b: nat) ensures qpow(a + b) == qpow(a) * qpow(b) decreases a
{
    if a == 0 { assert(1 * qpow(b) == qpow(b)) by(nonlinear_arith); } else { lemma_qpow_add((a - 1) as nat, b); assert(qpow(a + b) == Q() * qpow((a - 1 + b) as nat));
        assert(Q() * (qpow((a - 1) as nat) * qpow(b)) == (Q() * qpow((a - 1) as nat)) * qpow(b)) by(nonlinear_arith); }
}
pub proof fn lemma_qpow_high(n: nat) requires n >= 4 ensures qpow(n) == Q4() * qpow((n - 4) as nat), qpow((n - 4) as nat) >= 1
{
    lemma_qpow_add(4, (n - 4) as nat); lemma_qpow_vals(); lemma_qpow_pos((n - 4) as nat);
}
pub proof fn lemma_qpow_pos(n: nat) ensures qpow(n) >= 1 decreases n
{
    if n > 0 { lemma_qpow_pos((n - 1) as nat); assert(Q() * qpow((n - 1) as nat) >= 1) by(nonlinear_arith) requires qpow((n - 1) as nat) >= 1, Q() >= 1; }
}
impl U256Muldiv {
    /// number of significant words (what num_words returns)
    pub open spec fn num_words_spec(&self) -> usize {
        if self.items[3] != 0 { 4 } else if self.items[2] != 0 { 3 } else if self.items[1] != 0 { 2 } else if self.items[0] != 0 { 1 } else { 0 }
    }
}
pub proof fn lemma_pv_full(x: U256Muldiv, m: int) requires m == x.num_words_spec(), ensures partial_view(x, m) == x.view(), partial_view(x, 4) == x.view()
{
    assert(0 * Q() == 0 && 0 * Q2() == 0 && 0 * Q3() == 0) by(nonlinear_arith);
}
pub proof fn lemma_pv_step(x: U256Muldiv, i: int) requires 0 <= i < 4 ensures partial_view(x, i + 1) == partial_view(x, i) + x.items[i] as int * qpow(i as nat)
{
    lemma_qpow_vals(); assert(x.items[0] as int * 1 == x.items[0] as int) by(nonlinear_arith);
}
/// one column of the schoolbook multiplication: word p of the accumulator absorbs x*y + carry
pub proof fn lemma_mul_step(res: U256Muldiv, old_res: U256Muldiv, p: int, x: int, y: int, z: int, k: int, t: int)
    requires 0 <= p < 4, t == x * y + z + k, 0 <= t, z == old_res.items[p] as int, res.items@ == old_res.items@.update(p, (t % Q()) as u64),
    ensures res.view() + (t / Q()) * qpow((p + 1) as nat) == old_res.view() + (x * y + k) * qpow(p as nat),
{
    let q = Q(); lemma_qpow_vals(); lemma_qpow_unfold((p + 1) as nat);
    vstd::arithmetic::div_mod::lemma_fundamental_div_mod(t, q); vstd::arithmetic::div_mod::lemma_mod_bound(t, q);
    let w = t % q; let h = t / q; let e = qpow(p as nat);
    assert(res.items[p] as int == w);
    assert(forall|c: int| 0 <= c < 4 && c != p ==> res.items@[c] == old_res.items@[c]);
    assert(res.view() == old_res.view() - z * e + w * e) by {
        assert(z * 1 == z && w * 1 == w) by(nonlinear_arith);
        if p == 0 { } else if p == 1 { } else if p == 2 { } else { }
    }
    assert(h * (q * e) == (q * h) * e) by(nonlinear_arith);
    assert((x * y + k) * e == t * e - z * e) by(nonlinear_arith) requires t == x * y + z + k;
    assert(t * e == (q * h) * e + w * e) by(nonlinear_arith) requires t == q * h + w;
}
pub proof fn lemma_set_zero_word(res: U256Muldiv, old_res: U256Muldiv, p: int, k: int)
    requires 0 <= p < 4, 0 <= k < Q(), old_res.items[p] == 0, res.items@ == old_res.items@.update(p, k as u64),
    ensures res.view() == old_res.view() + k * qpow(p as nat),
{
    lemma_qpow_vals();
    assert(forall|c: int| 0 <= c < 4 && c != p ==> res.items@[c] == old_res.items@[c]);
    assert(res.items[p] as int == k);
    assert(0 * Q() == 0 && 0 * Q2() == 0 && 0 * Q3() == 0 && k * 1 == k) by(nonlinear_arith);
}
pub open spec fn pw2(k: nat) -> int decreases k { if k == 0 { 1 } else { 2 * pw2((k - 1) as nat) } }
pub proof fn lemma_pw2_pos(k: nat) ensures pw2(k) > 0 decreases k { if k > 0 { lemma_pw2_pos((k - 1) as nat); } }
pub proof fn lemma_pw2_add(a: nat, b: nat) ensures pw2(a + b) == pw2(a) * pw2(b) decreases a
{
    if a == 0 { } else { lemma_pw2_add((a - 1) as nat, b); assert(pw2(a + b) == 2 * pw2((a - 1 + b) as nat));
        assert(2 * (pw2((a - 1) as nat) * pw2(b)) == (2 * pw2((a - 1) as nat)) * pw2(b)) by(nonlinear_arith); }
}
pub proof fn lemma_pw2_vals() ensures pw2(0) == 1, pw2(64) == Q(), pw2(96) == 0x1_0000_0000_0000_0000_0000_0000int, pw2(128) == Q2(), pw2(192) == Q3(), pw2(256) == Q4()
{
    assert(pw2(0) == 1) by(compute);
    assert(pw2(64) == 0x1_0000_0000_0000_0000int) by(compute);
    assert(pw2(96) == 0x1_0000_0000_0000_0000_0000_0000int) by(compute);
    assert(pw2(128) == 0x1_0000_0000_0000_0000_0000_0000_0000_0000int) by(compute);
    assert(pw2(192) == 0x1_0000_0000_0000_0000_0000_0000_0000_0000_0000_0000_0000_0000int) by(compute);
    assert(pw2(256) == 0x1_0000_0000_0000_0000_0000_0000_0000_0000_0000_0000_0000_0000_0000_0000_0000_0000int) by(compute);
}
pub proof fn lemma_pw2_pow2(k: nat) ensures pw2(k) == vstd::arithmetic::power2::pow2(k) decreases k
{
    if k == 0 { vstd::arithmetic::power2::lemma2_to64(); } else { lemma_pw2_pow2((k - 1) as nat); vstd::arithmetic::power2::lemma_pow2_unfold(k); }
}
/// one word of a cross-word right shift by 0 < s < 64, arithmetically: low part of a, plus the s low bits of b on top
pub proof fn lemma_shift_word(a: u64, b: u64, s: u32)
    requires 0 < s < 64,
    ensures ((a >> s) | (b << ((64 - s) as u32))) as int == a as int / pw2(s as nat) + (b as int % pw2(s as nat)) * pw2((64 - s) as nat),
{
    let sn = s as nat; let tn = (64 - s) as nat;
    lemma_pw2_pow2(sn); lemma_pw2_pow2(tn); lemma_pw2_pos(sn); lemma_pw2_pos(tn); lemma_pw2_add(sn, tn); lemma_pw2_vals();
    let m = pw2(sn); let t = pw2(tn);
    assert(m * t == Q());
    assert((a >> s) | (b << ((64 - s) as u32)) == (a >> s) + (b << ((64 - s) as u32))) by(bit_vector) requires 0 < s < 64;
    assert((a >> s) + (b << ((64 - s) as u32)) <= 0xFFFF_FFFF_FFFF_FFFFu64) by(bit_vector) requires 0 < s < 64;
    vstd::bits::lemma_u64_shr_is_div(a, s as u64);
    assert(a >> s == a >> (s as u64));
    // the left shift drops all but the s low bits of b
    let mask = ((1u64 << s) - 1) as u64;
    let bl = b & mask;
    assert(b << ((64 - s) as u32) == (b & (((1u64 << s) - 1) as u64)) << ((64 - s) as u32)) by(bit_vector) requires 0 < s < 64;
    lemma_pw2_pos((tn - 1) as nat);
    assert(t >= 2);
    assert(m * 2 <= Q()) by(nonlinear_arith) requires m * t == Q(), t >= 2, m > 0;
    vstd::bits::lemma_u64_shl_is_mul(1u64, s as u64);
    assert(1u64 << s == 1u64 << (s as u64));
    assert((1u64 << s) as int == m);
    vstd::bits::lemma_u64_low_bits_mask_is_mod(b, sn);
    assert(vstd::bits::low_bits_mask(sn) == m - 1) by { vstd::bits::lemma_low_bits_mask_values(); reveal(vstd::bits::low_bits_mask); }
    assert(bl as int == b as int % m);
    vstd::arithmetic::div_mod::lemma_mod_bound(b as int, m);
    assert(bl as int * t <= (m - 1) * t) by(nonlinear_arith) requires 0 <= bl as int <= m - 1, t > 0;
    assert((m - 1) * t == Q() - t) by(nonlinear_arith) requires m * t == Q();
    vstd::bits::lemma_u64_shl_is_mul(bl, (64 - s) as u64);
    assert(bl << ((64 - s) as u32) == bl << ((64 - s) as u64));
}
/// the four words of `r` are the cross-word shift of `w` by 0 < s < 64  ==>  r = floor(w / 2^s)
pub proof fn lemma_shift_words(w: U256Muldiv, r: U256Muldiv, s: u32)
    requires 0 < s < 64,
        forall|k: int| 0 <= k < 3 ==> r.items[k] == ((w.items[k] >> s) | (w.items[k + 1] << ((64 - s) as u32))),
        r.items[3] == w.items[3] >> s,
    ensures r.view() == w.view() / pw2(s as nat),
{
    let m = pw2(s as nat); let t = pw2((64 - s) as nat);
    lemma_pw2_pos(s as nat); lemma_pw2_pos((64 - s) as nat); lemma_pw2_add(s as nat, (64 - s) as nat); lemma_pw2_vals(); lemma_q_powers();
    assert(m * t == Q());
    let a = w.items[0] as int; let b = w.items[1] as int; let c = w.items[2] as int; let d = w.items[3] as int;
    lemma_shift_word(w.items[0], w.items[1], s); lemma_shift_word(w.items[1], w.items[2], s); lemma_shift_word(w.items[2], w.items[3], s);
    let d3 = w.items[3];
    vstd::bits::lemma_u64_shr_is_div(d3, s as u64); lemma_pw2_pow2(s as nat);
    assert(d3 >> s == d3 >> (s as u64));
    assert(r.items[0] == ((w.items[0] >> s) | (w.items[1] << ((64 - s) as u32))));
    assert(r.items[1] == ((w.items[1] >> s) | (w.items[2] << ((64 - s) as u32))));
    assert(r.items[2] == ((w.items[2] >> s) | (w.items[3] << ((64 - s) as u32))));
    let a1 = a / m; let a0 = a % m; let b1 = b / m; let b0 = b % m; let c1 = c / m; let c0 = c % m; let d1 = d / m; let d0 = d % m;
    vstd::arithmetic::div_mod::lemma_fundamental_div_mod(a, m); vstd::arithmetic::div_mod::lemma_fundamental_div_mod(b, m);
    vstd::arithmetic::div_mod::lemma_fundamental_div_mod(c, m); vstd::arithmetic::div_mod::lemma_fundamental_div_mod(d, m);
    vstd::arithmetic::div_mod::lemma_mod_bound(a, m);
    let nv = (a1 + b0 * t) + (b1 + c0 * t) * Q() + (c1 + d0 * t) * Q2() + d1 * Q3();
    assert(r.view() == nv);
    // w = a0 + m * nv, using Q = m*t
    assert(b0 * Q() == m * (b0 * t)) by(nonlinear_arith) requires Q() == m * t;
    assert((m * b1) * Q() == m * (b1 * Q())) by(nonlinear_arith);
    assert(c0 * Q2() == m * ((c0 * t) * Q())) by(nonlinear_arith) requires Q() == m * t, Q2() == Q() * Q();
    assert((m * c1) * Q2() == m * (c1 * Q2())) by(nonlinear_arith);
    assert(d0 * Q3() == m * ((d0 * t) * Q2())) by(nonlinear_arith) requires Q() == m * t, Q3() == Q2() * Q();
    assert((m * d1) * Q3() == m * (d1 * Q3())) by(nonlinear_arith);
    assert((b0 + m * b1) * Q() == b0 * Q() + (m * b1) * Q()) by(nonlinear_arith);
    assert((c0 + m * c1) * Q2() == c0 * Q2() + (m * c1) * Q2()) by(nonlinear_arith);
    assert((d0 + m * d1) * Q3() == d0 * Q3() + (m * d1) * Q3()) by(nonlinear_arith);
    assert((b1 + c0 * t) * Q() == b1 * Q() + (c0 * t) * Q()) by(nonlinear_arith);
    assert((c1 + d0 * t) * Q2() == c1 * Q2() + (d0 * t) * Q2()) by(nonlinear_arith);
    assert(m * nv == m * (a1 + b0 * t) + m * ((b1 + c0 * t) * Q()) + m * ((c1 + d0 * t) * Q2()) + m * (d1 * Q3())) by(nonlinear_arith)
        requires nv == (a1 + b0 * t) + (b1 + c0 * t) * Q() + (c1 + d0 * t) * Q2() + d1 * Q3();
    assert(m * (a1 + b0 * t) == m * a1 + m * (b0 * t)) by(nonlinear_arith);
    assert(m * ((b1 + c0 * t) * Q()) == m * (b1 * Q()) + m * ((c0 * t) * Q())) by(nonlinear_arith) requires (b1 + c0 * t) * Q() == b1 * Q() + (c0 * t) * Q();
    assert(m * ((c1 + d0 * t) * Q2()) == m * (c1 * Q2()) + m * ((d0 * t) * Q2())) by(nonlinear_arith) requires (c1 + d0 * t) * Q2() == c1 * Q2() + (d0 * t) * Q2();
    assert(w.view() == a0 + m * nv);
    assert(m * nv == nv * m) by(nonlinear_arith);
    vstd::arithmetic::div_mod::lemma_fundamental_div_mod_converse(w.view(), m, nv, a0);
}
impl U256Muldiv {
//@ fn math/u256_math.rs new in=/^impl U256Muldiv \{/ -> r
    ensures
        r.items[0] as int == l as int % Q(), r.items[1] as int == l as int / Q(),
        r.items[2] as int == h as int % Q(), r.items[3] as int == h as int / Q(),
        r.view() == h as int * Q2() + l as int,
//@ inject at /^\{/
    proof {
        let q = Q();
        assert(l as int == (l as int / q) * q + l as int % q) by { vstd::arithmetic::div_mod::lemma_fundamental_div_mod(l as int, q); }
        assert(h as int == (h as int / q) * q + h as int % q) by { vstd::arithmetic::div_mod::lemma_fundamental_div_mod(h as int, q); }
        let hl = h as int % q; let hh = h as int / q;
        lemma_q_powers();
        assert(hl * Q2() + hh * Q3() == (hh * q + hl) * Q2()) by(nonlinear_arith) requires Q3() == Q2() * q;
    }
//@ end

//@ fn math/u256_math.rs copy in=/^impl U256Muldiv \{/ -> r
    ensures r.items == self.items,
//@ end

//@ fn math/u256_math.rs update_word in=/^impl U256Muldiv \{/
    requires index < 4,
    ensures final(self).items@ == old(self).items@.update(index as int, value),
//@ end

//@ fn math/u256_math.rs num_words in=/^impl U256Muldiv \{/ -> r
    ensures r <= 4, forall|k: int| r <= k < 4 ==> self.items[k] == 0, r > 0 ==> self.items[r - 1] != 0, r == self.num_words_spec(),
//@ rewrite_rev
//@ loop 0
        invariant i_rev <= 4, forall|k: int| i_rev <= k < 4 ==> self.items[k] == 0,
        decreases i_rev,
//@ end

//@ fn math/u256_math.rs get_word in=/^impl U256Muldiv \{/ -> r
    requires index < 4,
    ensures r == self.items[index as int],
//@ end

//@ fn math/u256_math.rs get_word_u128 in=/^impl U256Muldiv \{/ -> r
    requires index < 4,
    ensures r == self.items[index as int] as u128,
//@ end

//@ fn math/u256_math.rs shift_word_left in=/^impl U256Muldiv \{/ -> r
    ensures r.items[0] == 0, r.items[1] == self.items[0], r.items[2] == self.items[1], r.items[3] == self.items[2],
        self.items[3] == 0 ==> r.view() == self.view() * Q(),
//@ rewrite_rev
//@ loop 0
        invariant i_rev <= 3, result.items[0] == 0, forall|k: int| i_rev <= k < 3 ==> result.items[k + 1] == self.items[k],
        decreases i_rev,
//@ inject before /^\s*result\s*$/
    proof {
        let q = Q();
        assert(result.items[3] == self.items[2] && result.items[2] == self.items[1] && result.items[1] == self.items[0]);
    }
//@ end

//@ fn math/u256_math.rs checked_shift_word_left in=/^impl U256Muldiv \{/ -> r
    ensures
        self.view() >= Q3() <==> r is None,
        self.items[3] != 0 ==> r is None,
        self.items[3] == 0 ==> r is Some && r.unwrap().view() == self.view() * Q()
            && r.unwrap().items[0] == 0 && r.unwrap().items[1] == self.items[0] && r.unwrap().items[2] == self.items[1] && r.unwrap().items[3] == self.items[2],
//@ inject at /^\{/
    proof { lemma_view_bounds(*self); }
//@ end

//@ fn math/u256_math.rs shift_word_right in=/^impl U256Muldiv \{/ -> r
    ensures r.items[3] == 0, r.items[0] == self.items[1], r.items[1] == self.items[2], r.items[2] == self.items[3],
        r.view() == self.view() / Q(),
//@ loop 0
        invariant result.items[3] == 0, forall|k: int| 0 <= k < i ==> result.items[k] == self.items[k + 1],
//@ inject before /^\s*result\s*$/
    proof {
        let q = Q();
        let a = self.items[0] as int; let b = self.items[1] as int; let c = self.items[2] as int; let d = self.items[3] as int;
        assert(result.items[0] == self.items[1] && result.items[1] == self.items[2] && result.items[2] == self.items[3]);
        assert(self.view() == (b + c * q + d * Q2()) * q + a);
        vstd::arithmetic::div_mod::lemma_fundamental_div_mod_converse(self.view(), q, b + c * q + d * Q2(), a);
    }
//@ end

//@ fn math/u256_math.rs lte in=/^impl U256Muldiv \{/ -> r
    ensures r == (self.view() <= other.view()),
//@ rewrite_rev
//@ loop 0
        invariant i_rev <= 4, forall|k: int| i_rev <= k < 4 ==> self.items[k] == other.items[k],
        decreases i_rev,
//@ inject before /match self\.items\[i\]\.cmp/
            proof {
                if self.items[i as int] < other.items[i as int] { lemma_cmp_words(*self, other, i as int); }
                if self.items[i as int] > other.items[i as int] { lemma_cmp_words(other, *self, i as int); }
            }
//@ end

//@ fn math/u256_math.rs try_into_u128 in=/^impl U256Muldiv \{/ -> r
    ensures
        self.view() > U128MAX() ==> r == Err::<u128, ErrorCode>(ErrorCode::NumberDownCastError),
        self.view() <= U128MAX() ==> r == Ok::<u128, ErrorCode>(self.view() as u128),
//@ inject at /^\{/
    proof { lemma_view_bounds(*self); }
//@ end

//@ fn math/u256_math.rs is_zero in=/^impl U256Muldiv \{/ -> r
    ensures r == (self.view() == 0),
//@ loop 0
        invariant forall|k: int| 0 <= k < i ==> self.items[k] == 0,
//@ inject at /^\{/
    proof { lemma_view_bounds(self); }
//@ end

//@ fn math/u256_math.rs add in=/^impl U256Muldiv \{/ -> r
    ensures self.view() + other.view() < Q4() ==> r.view() == self.view() + other.view(),
//@ loop 0
        invariant
            carry == 0 || carry == 1,
            forall|k: int| i <= k < 4 ==> result.items[k] == 0,
            partial_view(result, i as int) + carry as int * pow_q(i as int) == partial_view(*self, i as int) + partial_view(other, i as int),
//@ inject before /carry = t\.hi_u128\(\);/
            proof { lemma_add_step(*self, other, result, old_result, i as int, old_carry as int, carry_next(t) as int, t as int); }
//@ inject before /let x = self\.get_word_u128\(i\);/
            let ghost old_result = result; let ghost old_carry = carry;
//@ end

//@ fn math/u256_math.rs sub in=/^impl U256Muldiv \{/ -> r
    ensures self.view() >= other.view() ==> r.view() == self.view() - other.view(),
//@ loop 0
        invariant
            carry == 0 || carry == 1,
            forall|k: int| i <= k < 4 ==> result.items[k] == 0,
            partial_view(result, i as int) - carry as int * pow_q(i as int) == partial_view(*self, i as int) - partial_view(other, i as int),
//@ inject before /let x = self\.get_word\(i\);/
            let ghost old_result = result; let ghost old_carry = carry;
//@ inject before /carry = if overflowing0 \|\| overflowing1/
            proof { lemma_sub_step(*self, other, result, old_result, i as int, old_carry as int, (if overflowing0 || overflowing1 { 1int } else { 0int }), t1 as int); }
//@ inject before /^\s*result\s*$/
    proof { lemma_view_bounds(result); lemma_view_bounds(*self); lemma_view_bounds(other); }
//@ end

//@ fn math/u256_math.rs mul in=/^impl U256Muldiv \{/ -> r
    ensures self.view() * other.view() < Q4() ==> r.view() == self.view() * other.view(),
        // in general: the product truncated to 256 bits
        exists|d: int| r.view() == self.view() * other.view() + #[trigger] (d * Q4()),
//@ rewrite_for 2
//@ inject before /let mut j_it: usize = 0;/
    let ghost mut gd: int = 0;
    proof { lemma_qpow_vals(); lemma_view_bounds(*self); lemma_view_bounds(other); lemma_pv_full(*self, m as int); lemma_pv_full(other, n as int);
            assert(result.view() == 0); assert(self.view() * 0 == 0) by(nonlinear_arith); assert(0 * Q4() == 0) by(nonlinear_arith); }
//@ loop 0
        invariant j_it <= n, n <= 4, m <= 4, m == self.num_words_spec(), n == other.num_words_spec(),
            result.view() == self.view() * partial_view(other, j_it as int) + gd * Q4(),
            forall|p: int| (if j_it == 0 { 0 } else { j_it + m }) <= p < 4 ==> result.items[p] == 0,
        decreases n - j_it,
//@ inject after /let mut k = 0;/
        let ghost r0 = result; let ghost mut d: int = 0;
        proof { lemma_qpow_vals(); assert(0 * Q4() == 0) by(nonlinear_arith); assert(partial_view(*self, 0) == 0);
                assert(0 * other.items[j as int] as int * qpow(j as nat) == 0) by(nonlinear_arith); assert(0 * qpow((0 + j) as nat) == 0) by(nonlinear_arith); }
//@ loop 1
            invariant i_it <= m, m <= 4, j < 4, j < n, n <= 4, k < 0x1_0000_0000_0000_0000, m == self.num_words_spec(),
                result.view() + k as int * qpow((i_it + j) as nat) == r0.view() + partial_view(*self, i_it as int) * other.items[j as int] as int * qpow(j as nat) + d * Q4(),
                forall|p: int| j + m <= p < 4 ==> result.items[p] == 0,
            decreases m - i_it,
//@ inject after /^\s*let y = /
                let ghost res_before = result; let ghost k_before = k;
                proof { lemma_qpow_vals(); lemma_qpow_unfold((i + j + 1) as nat);
                    assert(x * y <= 0xFFFF_FFFF_FFFF_FFFF * 0xFFFF_FFFF_FFFF_FFFF) by(nonlinear_arith) requires 0 <= x <= 0xFFFF_FFFF_FFFF_FFFF, 0 <= y <= 0xFFFF_FFFF_FFFF_FFFF;
                    lemma_pv_step(*self, i as int);
                    if i + j >= 4 {
                        // dropped term and stale carry are multiples of 2^256
                        lemma_qpow_high((i + j) as nat); lemma_qpow_high((i + j + 1) as nat);
                        let e = qpow((i + j - 4) as nat); let e1 = qpow((i + j + 1 - 4) as nat);
                        let xy = x as int * y as int;
                        lemma_qpow_add(i as nat, j as nat);
                        assert((partial_view(*self, i as int) + x as int * qpow(i as nat)) * y as int * qpow(j as nat)
                            == partial_view(*self, i as int) * y as int * qpow(j as nat) + xy * (qpow(i as nat) * qpow(j as nat))) by(nonlinear_arith) requires xy == x as int * y as int;
                        assert(xy * (Q4() * e) == (xy * e) * Q4()) by(nonlinear_arith);
                        assert(k as int * (Q4() * e) == (k as int * e) * Q4()) by(nonlinear_arith);
                        assert(k as int * (Q4() * e1) == (k as int * e1) * Q4()) by(nonlinear_arith);
                        let d2 = d - xy * e + k as int * e1 - k as int * e;
                        assert(d2 * Q4() == d * Q4() - (xy * e) * Q4() + (k as int * e1) * Q4() - (k as int * e) * Q4()) by(nonlinear_arith) requires d2 == d - xy * e + k as int * e1 - k as int * e;
                        d = d2;
                        assert(result.view() + k as int * qpow((i + 1 + j) as nat) == r0.view() + partial_view(*self, i as int + 1) * other.items[j as int] as int * qpow(j as nat) + d * Q4());
                    }
                }
//@ inject after /^\s*k = t/
                    proof {
                        lemma_mul_step(result, res_before, (i + j) as int, x as int, y as int, z as int, k_before as int, t as int);
                        let xy = x as int * y as int;
                        lemma_qpow_add(i as nat, j as nat);
                        assert((partial_view(*self, i as int) + x as int * qpow(i as nat)) * y as int * qpow(j as nat)
                            == partial_view(*self, i as int) * y as int * qpow(j as nat) + xy * (qpow(i as nat) * qpow(j as nat))) by(nonlinear_arith) requires xy == x as int * y as int;
                        assert((xy + k_before as int) * qpow((i + j) as nat) == xy * qpow((i + j) as nat) + k_before as int * qpow((i + j) as nat)) by(nonlinear_arith);
                        assert(k as int == t as int / Q());
                        assert(result.view() + k as int * qpow((i + 1 + j) as nat) == r0.view() + partial_view(*self, i as int + 1) * other.items[j as int] as int * qpow(j as nat) + d * Q4());
                    }
//@ inject before /if j \+ m < NUM_WORDS \{/
        proof {
            lemma_qpow_vals(); lemma_pv_full(*self, m as int); lemma_pv_step(other, j as int);
            let yj = other.items[j as int] as int;
            assert(self.view() * (partial_view(other, j as int) + yj * qpow(j as nat)) == self.view() * partial_view(other, j as int) + self.view() * yj * qpow(j as nat)) by(nonlinear_arith);
            if j + m >= 4 {
                lemma_qpow_high((m + j) as nat);
                let e = qpow((m + j - 4) as nat);
                assert(k as int * (Q4() * e) == (k as int * e) * Q4()) by(nonlinear_arith);
                assert((gd + d - k as int * e) * Q4() == gd * Q4() + d * Q4() - (k as int * e) * Q4()) by(nonlinear_arith);
                gd = gd + d - k as int * e;
            } else {
                assert((gd + d) * Q4() == gd * Q4() + d * Q4()) by(nonlinear_arith);
                gd = gd + d;
            }
        }
        let ghost res_mid = result;
//@ inject after /^\s*result\.update_word\(j \+ m,/
            proof { lemma_set_zero_word(result, res_mid, (j + m) as int, k as int); }
//@ inject before /^\s*result\s*$/
    proof {
        lemma_pv_full(other, n as int); lemma_view_bounds(result); lemma_view_bounds(*self); lemma_view_bounds(other);
        let p = self.view() * other.view();
        assert(p >= 0) by(nonlinear_arith) requires self.view() >= 0, other.view() >= 0, p == self.view() * other.view();
        if p < Q4() {
            if gd >= 1 { assert(gd * Q4() >= Q4()) by(nonlinear_arith) requires gd >= 1, Q4() > 0; }
            if gd <= -1 { assert(gd * Q4() <= -Q4()) by(nonlinear_arith) requires gd <= -1, Q4() > 0; }
            assert(gd == 0); assert(0 * Q4() == 0) by(nonlinear_arith);
        }
    }
//@ end

//@ fn math/u256_math.rs shift_right in=/^impl U256Muldiv \{/ -> r
    ensures shift_amount < 256 ==> r.view() == self.view() / pw2(shift_amount as nat),
        shift_amount >= 256 ==> r.view() == 0,
        shift_amount == 64 ==> r.view() == self.view() / Q(),
        shift_amount == 96 ==> r.view() == self.view() / 0x1_0000_0000_0000_0000_0000_0000int,
//@ rewrite_for
//@ inject at /^\{/
    let ghost s0 = shift_amount as nat;
    proof { lemma_pw2_vals(); }
//@ loop 0
        invariant shift_amount <= s0, s0 < 256, (s0 - shift_amount) % 64 == 0, result.view() == self.view() / pw2((s0 - shift_amount) as nat),
        decreases shift_amount,
//@ inject after /while shift_amount >= U64_RESOLUTION \{/
            proof {
                let done = (s0 - shift_amount) as nat;
                lemma_pw2_pos(done); lemma_pw2_add(done, 64); lemma_pw2_vals();
                lemma_view_bounds(*self);
                vstd::arithmetic::div_mod::lemma_div_denominator(self.view(), pw2(done), Q());
            }
//@ inject before /if shift_amount == 0 \{/
    let ghost w = result; let ghost done = (s0 - shift_amount) as nat;
    proof { assert(pw2(0) == 1) by(compute); }
//@ loop 1
        invariant 0 < shift_amount < 64, i_it <= 3, result.items[3] == w.items[3],
            forall|k: int| 0 <= k < i_it ==> result.items[k] == ((w.items[k] >> shift_amount) | (w.items[k + 1] << ((64 - shift_amount) as u32))),
            forall|k: int| i_it <= k < 4 ==> result.items[k] == w.items[k],
        decreases 3 - i_it,
//@ inject before /^\s*result\s*$/
    proof {
        lemma_shift_words(w, result, shift_amount);
        lemma_pw2_pos(done); lemma_pw2_pos(shift_amount as nat); lemma_pw2_add(done, shift_amount as nat);
        lemma_view_bounds(*self);
        vstd::arithmetic::div_mod::lemma_div_denominator(self.view(), pw2(done), pw2(shift_amount as nat));
    }
//@ end

//@ assume U256Muldiv::div: verified as segments of the real bodies: the early cases (div_cases_012), the single-word-divisor long division (div_case_3), and ALL of div_loop = one step of Knuth's algorithm D: D3 estimate + correction loop (div_loop_estimate), D4 multiply-subtract in wrapping arithmetic (div_loop_mulsub), D5/D6 add-back (div_loop_addback); the number-theoretic lemmas (lemma_d3_first/lower/upper, lemma_knuth_step) and the composition artifact div_loop_composed prove that the three segment contracts compose to knuth_post (digit = floor(window / V), window := window mod V); segcheck proves that the segments tile div_loop's body. Still ASSUMED: that div_loop itself meets the composed contract (sequential composition of its tiled segments), div's normalisation (shift_left, carry space), its outer loop and the remainder's denormalisation; and that callers' operands avoid the add-back at the carry position, where the real code panics (observation in DESIGN.md)
//@ fn math/u256_math.rs div in=/^impl U256Muldiv \{/ -> r stub
    requires divisor.view() != 0,
    ensures r.0.view() == self.view() / divisor.view(),
        return_remainder ==> r.1.view() == self.view() % divisor.view(),
        !return_remainder ==> r.1.view() == 0,
//@ end
//@ seg math/u256_math.rs div in=/^impl U256Muldiv \{/ from=/let mut dividend = self\.copy\(\);/ to=/if num_divisor_words == 1 \{/ ret=(quotient,dividend)
    fn div_cases_012(&self, divisor: U256Muldiv, return_remainder: bool) -> (r: (Self, Self))
        requires divisor.view() != 0,
        ensures (self.num_words_spec() < 3 || self.num_words_spec() < divisor.num_words_spec()) ==> (
            r.0.view() == self.view() / divisor.view()
            && (return_remainder ==> r.1.view() == self.view() % divisor.view())
            && (!return_remainder ==> r.1.view() == 0)),
//@ proof
        proof {
            lemma_view_bounds(*self); lemma_view_bounds(divisor); lemma_q_powers();
            let a = self.view(); let d = divisor.view();
            if a < d { vstd::arithmetic::div_mod::lemma_basic_div(a, d); vstd::arithmetic::div_mod::lemma_small_mod(a as nat, d as nat); }
            // fewer significant words means a smaller number
            if self.num_words_spec() < divisor.num_words_spec() { lemma_words_lt(*self, divisor); }
            if self.num_words_spec() < 3 { assert(a < Q2()); }
        }
//@ end
//@ seg math/u256_math.rs div in=/^impl U256Muldiv \{/ from=/if num_divisor_words == 1 \{/ to=/let s = divisor\.get_word\(num_divisor_words - 1\)\.leading_zeros\(\);/ ret=(quotient,dividend) var=quotient
    /// Case 3 of div: long division by a single-word divisor, most significant word first
    fn div_case_3(dividend: U256Muldiv, divisor: U256Muldiv, quotient_in: U256Muldiv, num_dividend_words: usize, num_divisor_words: usize, return_remainder: bool) -> (r: (Self, Self))
        requires num_dividend_words == dividend.num_words_spec(), num_divisor_words == divisor.num_words_spec(), quotient_in.view() == 0,
        ensures num_divisor_words == 1 ==> (
            r.0.view() == dividend.view() / divisor.view()
            && (return_remainder ==> r.1.view() == dividend.view() % divisor.view())
            && (!return_remainder ==> r.1.view() == 0)),
//@ rewrite_rev
//@ loop 0
                invariant j_rev <= num_dividend_words, num_dividend_words == dividend.num_words_spec(), num_divisor_words == 1, num_divisor_words == divisor.num_words_spec(),
                    k < divisor.items[0] as u128, divisor.items[0] != 0,
                    forall|i: int| 0 <= i < j_rev ==> quotient.items[i] == 0,
                    hp(dividend, j_rev as int) == hp(quotient, j_rev as int) * divisor.items[0] as int + k as int,
                decreases j_rev,
//@ inject before /let mut k = 0;/
            proof { lemma_view_bounds(quotient); lemma_view_bounds(dividend); lemma_view_bounds(divisor); lemma_hp_top(dividend, num_dividend_words as int); lemma_hp_zero(quotient, num_dividend_words as int);
                    assert(0 * divisor.items[0] as int == 0) by(nonlinear_arith); }
//@ inject after /let d1 = hi_lo\(/
                let ghost q_before = quotient; let ghost k_before = k;
//@ inject before /k = d1 - d2 \* q;/
                proof { vstd::arithmetic::div_mod::lemma_fundamental_div_mod(d1 as int, d2 as int); vstd::arithmetic::div_mod::lemma_mod_bound(d1 as int, d2 as int);
                        assert(d2 as int * (d1 as int / d2 as int) <= d1 as int); }
//@ inject after /quotient\.update_word\(j, q\.lo\(\)\);/
                proof { lemma_div_step(dividend, q_before, quotient, j as int, k_before as int, divisor.items[0] as int, q as int, k as int); }
//@ inject before /if return_remainder \{/
            proof {
                lemma_hp_full(dividend); lemma_hp_full(quotient); lemma_view_bounds(divisor);
                let d = divisor.items[0] as int;
                assert(divisor.view() == d) by { assert(0 * Q() == 0 && 0 * Q2() == 0 && 0 * Q3() == 0) by(nonlinear_arith); }
                assert(dividend.view() == d * quotient.view() + k as int) by(nonlinear_arith) requires dividend.view() == quotient.view() * d + k as int;
                vstd::arithmetic::div_mod::lemma_fundamental_div_mod_converse(dividend.view(), d, quotient.view(), k as int);
            }
//@ end
}
/// the number formed by words j.. of x (word j least significant)
pub open spec fn hp(x: U256Muldiv, j: int) -> int decreases 4 - j { if j >= 4 || j < 0 { 0 } else { x.items[j] as int + Q() * hp(x, j + 1) } }
pub proof fn lemma_hp_full(x: U256Muldiv) ensures hp(x, 0) == x.view()
{
    lemma_q_powers();
    let a = x.items[0] as int; let b = x.items[1] as int; let c = x.items[2] as int; let d = x.items[3] as int; let q = Q();
    assert(hp(x, 3) == d) by { assert(hp(x, 4) == 0); assert(q * 0 == 0) by(nonlinear_arith); }
    assert(hp(x, 2) == c + q * d); assert(hp(x, 1) == b + q * (c + q * d)); assert(hp(x, 0) == a + q * (b + q * (c + q * d)));
    assert(a + q * (b + q * (c + q * d)) == a + b * q + c * (q * q) + d * (q * q * q)) by(nonlinear_arith);
    assert(Q3() == q * q * q);
}
pub proof fn lemma_hp_zero(x: U256Muldiv, j: int) requires x.view() == 0, 0 <= j ensures hp(x, j) == 0 decreases 4 - j
{
    lemma_view_bounds(x);
    if j < 4 { lemma_hp_zero(x, j + 1); assert(Q() * 0 == 0) by(nonlinear_arith); }
}
pub proof fn lemma_hp_top(x: U256Muldiv, n: int) requires n == x.num_words_spec() ensures hp(x, n) == 0 decreases 4 - n
{
    if n < 4 {
        // words n.. are zero
        assert(x.items[n] == 0);
        lemma_hp_top_zero(x, n);
    }
}
pub proof fn lemma_hp_top_zero(x: U256Muldiv, j: int) requires 0 <= j, forall|i: int| j <= i < 4 ==> x.items[i] == 0 ensures hp(x, j) == 0 decreases 4 - j
{
    if j < 4 { lemma_hp_top_zero(x, j + 1); assert(Q() * 0 == 0) by(nonlinear_arith); }
}
/// one digit of the long division by the single word d
pub proof fn lemma_div_step(u: U256Muldiv, q0: U256Muldiv, q1: U256Muldiv, j: int, k0: int, d: int, qq: int, k1: int)
    requires 0 <= j < 4, d > 0, 0 <= k0 < d, d < Q(),
        hp(u, j + 1) == hp(q0, j + 1) * d + k0,
        qq == (k0 * Q() + u.items[j] as int) / d, k1 == (k0 * Q() + u.items[j] as int) - d * qq,
        q1.items@ == q0.items@.update(j, (qq % Q()) as u64), forall|i: int| 0 <= i <= j ==> q0.items[i] == 0,
    ensures 0 <= k1 < d, 0 <= qq < Q(), hp(u, j) == hp(q1, j) * d + k1, forall|i: int| 0 <= i < j ==> q1.items[i] == 0,
{
    let q = Q(); let uj = u.items[j] as int; let d1 = k0 * q + uj;
    assert(0 <= d1 < d * q) by(nonlinear_arith) requires 0 <= k0 <= d - 1, 0 <= uj < q, d1 == k0 * q + uj, q > 0;
    vstd::arithmetic::div_mod::lemma_fundamental_div_mod(d1, d); vstd::arithmetic::div_mod::lemma_mod_bound(d1, d);
    vstd::arithmetic::div_mod::lemma_div_pos_is_pos(d1, d);
    assert(qq < q) by(nonlinear_arith) requires d1 < d * q, d1 == d * qq + d1 % d, d1 % d >= 0, d > 0;
    vstd::arithmetic::div_mod::lemma_small_mod(qq as nat, q as nat);
    assert(q1.items[j] as int == qq);
    lemma_hp_same(q0, q1, j + 1);
    assert(hp(q1, j) == qq + q * hp(q1, j + 1));
    assert(hp(u, j) == uj + q * hp(u, j + 1));
    let h = hp(q0, j + 1);
    assert(uj + q * (h * d + k0) == (qq + q * h) * d + k1) by(nonlinear_arith) requires k0 * q + uj == d * qq + k1;
}
pub proof fn lemma_hp_same(a: U256Muldiv, b: U256Muldiv, j: int) requires 0 <= j, forall|i: int| j <= i < 4 ==> a.items[i] == b.items[i] ensures hp(a, j) == hp(b, j) decreases 4 - j
{ if j < 4 { lemma_hp_same(a, b, j + 1); } }
/// a number with fewer significant words is smaller
pub proof fn lemma_words_lt(a: U256Muldiv, b: U256Muldiv)
    requires a.num_words_spec() < b.num_words_spec(),
    ensures a.view() < b.view(),
{
    lemma_view_bounds(a); lemma_view_bounds(b); lemma_q_powers();
    let n = b.num_words_spec();
    if n == 1 { } else if n == 2 { assert(b.view() >= Q()) by { assert(b.items[1] as int * Q() >= Q()) by(nonlinear_arith) requires b.items[1] as int >= 1; } }
    else if n == 3 { } else { }
}

impl vstd::std_specs::convert::FromSpecImpl<u128> for U256Muldiv {
    open spec fn obeys_from_spec() -> bool { false }
    open spec fn from_spec(v: u128) -> Self { arbitrary() }
}
impl From<u128> for U256Muldiv {
//@ fn math/u256_math.rs from in=/^impl From<u128> for U256Muldiv/ -> r
    ensures r.view() == value as int,
//@ end
}
impl vstd::std_specs::convert::FromSpecImpl<u64> for U256Muldiv {
    open spec fn obeys_from_spec() -> bool { false }
    open spec fn from_spec(v: u64) -> Self { arbitrary() }
}
impl From<u64> for U256Muldiv {
//@ fn math/u256_math.rs from in=/^impl From<u64> for U256Muldiv/ -> r
    ensures r.view() == value as int,
//@ end
}

pub trait LoHi {
    fn lo(self) -> u64;
    fn hi(self) -> u64;
    fn lo_u128(self) -> u128;
    fn hi_u128(self) -> u128;
}
impl LoHi for u128 {
//@ fn math/u256_math.rs lo in=/^impl LoHi for u128/ -> r
    ensures r as int == self as int % Q(),
//@ end
//@ fn math/u256_math.rs lo_u128 in=/^impl LoHi for u128/ -> r
    ensures r as int == self as int % Q(),
//@ end
//@ fn math/u256_math.rs hi in=/^impl LoHi for u128/ -> r
    ensures r as int == self as int / Q(),
//@ end
//@ fn math/u256_math.rs hi_u128 in=/^impl LoHi for u128/ -> r
    ensures r as int == self as int / Q(),
//@ end
}

//@ fn math/u256_math.rs hi_lo -> r
    ensures r as int == hi as int * Q() + lo as int,
//@ end

// ------------------------------------------------------------------ Knuth algorithm D, step D3 (quotient-digit estimate and correction) of div_loop
/// the three leading words of the (n+1)-word dividend window at position `index`, and the two leading divisor words
pub open spec fn win_hi(index: int, n: int, dividend: U256Muldiv, carry: u64) -> int { if index + n == 4 { carry as int } else { dividend.items[index + n] as int } }
/// "the estimate qhat with remainder rhat passes Knuth's test": qhat fits a word and qhat * v2 <= rhat * B + u2 (always true once rhat >= B)
pub open spec fn d3_passes(qhat: int, rhat: int, v2: int, u2: int) -> bool { qhat < Q() && (rhat >= Q() || qhat * v2 <= rhat * Q() + u2) }
/// D3 of Knuth's algorithm D on the real code: the pair (qhat, rhat) that leaves the correction loop satisfies qhat * v1 + rhat == u0 * B + u1, passes the
/// two-word test, and was not corrected too far: either it is the first estimate floor((u0*B+u1) / v1), or the pair before the last correction failed the test
//@ seg math/u256_math.rs div_loop from=/let use_carry = \(index \+ num_divisor_words\) == NUM_WORDS;/ to=/let mut k = 0;/ ret=(qhat,rhat)
fn div_loop_estimate(index: usize, num_divisor_words: usize, dividend: U256Muldiv, dividend_carry_space: &mut u64, divisor: U256Muldiv) -> (r: (u128, u128))
    requires 2 <= num_divisor_words <= 4, index + num_divisor_words <= 4,
        divisor.items[num_divisor_words - 1] as int >= 0x8000_0000_0000_0000,
        win_hi(index as int, num_divisor_words as int, dividend, *old(dividend_carry_space)) <= divisor.items[num_divisor_words - 1] as int,
    ensures ({
        let n = num_divisor_words as int; let v1 = divisor.items[n - 1] as int; let v2 = divisor.items[n - 2] as int;
        let d0 = win_hi(index as int, n, dividend, *old(dividend_carry_space)) * Q() + dividend.items[index + n - 1] as int; let u2 = dividend.items[index + n - 2] as int;
        let qhat = r.0 as int; let rhat = r.1 as int;
        &&& *final(dividend_carry_space) == *old(dividend_carry_space)
        &&& qhat * v1 + rhat == d0
        &&& d3_passes(qhat, rhat, v2, u2)
        &&& (qhat == d0 / v1 || (0 <= rhat - v1 < Q() && !d3_passes(qhat + 1, rhat - v1, v2, u2))) }),
//@ loop 0
        invariant_except_break
            rhat < 0x1_0000_0000_0000_0000,
            cmp1 as int == rhat as int * Q() + d0_2 as int, cmp2 as int == qhat as int * d1_2 as int,
        invariant
            d1 as int == divisor.items[num_divisor_words - 1] as int, d1 as int >= 0x8000_0000_0000_0000, d1_2 as int == divisor.items[num_divisor_words - 2] as int,
            d0_2 == dividend.items[index + num_divisor_words - 2],
            qhat as int * d1 as int + rhat as int == d0 as int, qhat <= 0x1_0000_0000_0000_0001, d0 as int <= d1 as int * Q() + (Q() - 1),
            qhat as int == d0 as int / d1 as int || (0 <= (rhat as int - d1 as int) && (rhat as int - d1 as int) < Q() && !d3_passes(qhat as int + 1, rhat as int - d1 as int, d1_2 as int, d0_2 as int)),
        ensures
            qhat as int * d1 as int + rhat as int == d0 as int,
            d3_passes(qhat as int, rhat as int, d1_2 as int, d0_2 as int),
            qhat as int == d0 as int / d1 as int || (0 <= (rhat as int - d1 as int) && (rhat as int - d1 as int) < Q() && !d3_passes(qhat as int + 1, rhat as int - d1 as int, d1_2 as int, d0_2 as int)),
        decreases qhat,
//@ inject before /let mut qhat = d0 \/ d1;/
    proof { let q = Q(); let hi = div_hi as int; let u1 = dividend.items[index + num_divisor_words - 1] as int;
        vstd::arithmetic::div_mod::lemma_fundamental_div_mod(d0 as int, d1 as int); vstd::arithmetic::div_mod::lemma_mod_bound(d0 as int, d1 as int);
        vstd::arithmetic::div_mod::lemma_div_pos_is_pos(d0 as int, d1 as int);
        // hi <= v1 and v1 >= B/2: the first estimate is at most B + 1
        assert(d0 as int / d1 as int <= q + 1) by(nonlinear_arith)
            requires d0 as int == hi * q + u1, hi <= d1 as int, 0 <= u1 < q, 2 * d1 as int >= q, d0 as int == d1 as int * (d0 as int / d1 as int) + d0 as int % d1 as int, d0 as int % d1 as int >= 0, d1 as int > 0, q > 0;
        assert(d1 as int * (d0 as int / d1 as int) <= d0 as int);
        assert(d0 as int <= d1 as int * q + (q - 1)) by(nonlinear_arith) requires d0 as int == hi * q + u1, hi <= d1 as int, u1 < q, q > 0;
        assert((q + 1) * (q - 1) < q * q) by(nonlinear_arith);
        assert(d0 as int / d1 as int * (d1_2_spec(divisor, num_divisor_words as int)) < 0x1_0000_0000_0000_0000_0000_0000_0000_0000int) by(nonlinear_arith)
            requires 0 <= d0 as int / d1 as int <= q + 1, 0 <= d1_2_spec(divisor, num_divisor_words as int) <= q - 1, (q + 1) * (q - 1) < q * q, q * q == 0x1_0000_0000_0000_0000_0000_0000_0000_0000int;
    }
//@ inject after /while qhat\.hi\(\) != 0 \|\| cmp2 > cmp1 \{/
        proof { let q = Q();
            // the loop condition says that (qhat, rhat) fails the test, and qhat > 0
            assert(qhat as int / q != 0 <==> qhat as int >= q) by { vstd::arithmetic::div_mod::lemma_fundamental_div_mod(qhat as int, q); vstd::arithmetic::div_mod::lemma_mod_bound(qhat as int, q);
                if qhat as int >= q { vstd::arithmetic::div_mod::lemma_div_is_ordered(q, qhat as int, q); vstd::arithmetic::div_mod::lemma_div_by_self(q); } else { vstd::arithmetic::div_mod::lemma_basic_div(qhat as int, q); } }
            assert(!d3_passes(qhat as int, rhat as int, d1_2 as int, d0_2 as int));
            assert(qhat >= 1) by { if qhat == 0 { assert(0 * d1_2 as int == 0) by(nonlinear_arith); } }
            assert((qhat as int - 1) * d1 as int + (rhat as int + d1 as int) == d0 as int) by(nonlinear_arith) requires qhat as int * d1 as int + rhat as int == d0 as int;
            assert((qhat as int - 1) * d1_2 as int == qhat as int * d1_2 as int - d1_2 as int) by(nonlinear_arith);
            assert(qhat as int * d1_2 as int >= d1_2 as int) by(nonlinear_arith) requires qhat as int >= 1, d1_2 as int >= 0;
        }
//@ inject before /^\s*break;/
            proof { let q = Q();
                assert(rhat as int / q != 0 ==> rhat as int >= q) by { if (rhat as int) < q { vstd::arithmetic::div_mod::lemma_basic_div(rhat as int, q); } }
                assert((qhat as int) < q) by(nonlinear_arith) requires qhat as int * d1 as int + rhat as int == d0 as int, d0 as int <= d1 as int * q + (q - 1), rhat as int >= q, d1 as int >= 1, qhat as int >= 0;
            }
//@ inject after /^\s*qhat -= 1;/
        let ghost c_old = cmp1;
        proof { let q = Q(); let r0 = rhat as int;
            // the low word of cmp1 is u2
            vstd::arithmetic::div_mod::lemma_mod_multiples_vanish(r0, d0_2 as int, q); vstd::arithmetic::div_mod::lemma_small_mod(d0_2 as nat, q as nat);
            assert(q * r0 + d0_2 as int == r0 * q + d0_2 as int) by(nonlinear_arith);
            assert(c_old as int % q == d0_2 as int);
        }
//@ inject before /^\s*cmp2 -= d1_2;/
        proof { let q = Q();
            assert(rhat as int / q == 0 ==> (rhat as int) < q) by { vstd::arithmetic::div_mod::lemma_fundamental_div_mod(rhat as int, q); vstd::arithmetic::div_mod::lemma_mod_bound(rhat as int, q); }
            vstd::arithmetic::div_mod::lemma_small_mod(rhat as nat, q as nat);
        }
//@ end
pub open spec fn d1_2_spec(divisor: U256Muldiv, n: int) -> int { divisor.items[n - 2] as int }

/// One complete step of Knuth's algorithm D from the contracts of its three verified segments (D3 estimate, D4 multiply-subtract, D5/D6 add-back):
/// the digit is floor(W0 / V) and the window becomes W0 mod V.  W0 is the (n+1)-word window, V the normalised divisor, both split into their leading words
/// and a tail of m = B^(n-2) further units: W0 = (d0 * B + u2) * M + ut, V = (v1 * B + v2) * M + vt.
pub proof fn lemma_knuth_step(qhat: int, rhat: int, d0: int, v1: int, v2: int, u2: int, m: int, ut: int, vt: int, w1: int, borrow: bool, q: int, w2: int)
    requires m >= 1, 0 <= ut < m, 0 <= vt < m, 0 <= v2 < Q(), 0 <= u2 < Q(), v1 >= 1, d0 >= 0,
        // the window is below V * B (its n leading words are below V)
        (d0 * Q() + u2) * m + ut < ((v1 * Q() + v2) * m + vt) * Q(),
        // D3
        0 <= qhat, qhat * v1 + rhat == d0, 0 <= rhat, d3_passes(qhat, rhat, v2, u2), (qhat == d0 / v1 || (rhat - v1 < Q() && rhat - v1 >= 0 && !d3_passes(qhat + 1, rhat - v1, v2, u2))),
        // D4: (window - qhat * V) modulo B^(n+1) = B * B * B * M, with the borrow flag
        w1 == (d0 * Q() + u2) * m + ut - qhat * ((v1 * Q() + v2) * m + vt) + (if borrow { Q() * Q() * Q() * m } else { 0 }), 0 <= w1 < Q() * Q() * Q() * m,
        // D5/D6
        !borrow ==> q == qhat && w2 == w1,
        borrow ==> q == qhat - 1 && 0 <= w2 < Q() * Q() * Q() * m && (w2 == w1 + ((v1 * Q() + v2) * m + vt) || w2 == w1 + ((v1 * Q() + v2) * m + vt) - Q() * Q() * Q() * m),
    ensures q * ((v1 * Q() + v2) * m + vt) + w2 == (d0 * Q() + u2) * m + ut, 0 <= w2 < (v1 * Q() + v2) * m + vt, q >= 0,
{
    let b = Q(); let v = (v1 * b + v2) * m + vt; let w0 = (d0 * b + u2) * m + ut; let top = b * b * b * m;
    assert(v >= 1) by(nonlinear_arith) requires v1 >= 1, b >= 1, v2 >= 0, m >= 1, vt >= 0, v == (v1 * b + v2) * m + vt;
    assert(w0 >= 0) by(nonlinear_arith) requires d0 >= 0, b >= 1, u2 >= 0, m >= 1, ut >= 0, w0 == (d0 * b + u2) * m + ut;
    assert(qhat * v >= 0) by(nonlinear_arith) requires qhat >= 0, v >= 1;
    lemma_d3_upper(qhat, rhat, d0, v1, v2, u2, m, ut, vt);       // (qhat - 1) * V <= W0
    // the true digit is not above qhat: (qhat + 1) * V > W0
    assert((qhat + 1) * v > w0) by {
        if qhat == d0 / v1 {
            // Theorem A: any digit q' with q' * V <= W0 is at most d0 / v1
            if (qhat + 1) * v <= w0 { lemma_d3_first(d0, v1, v2, u2, m, ut, vt, qhat + 1); }
        } else {
            assert((qhat + 1) * v1 + (rhat - v1) == d0) by(nonlinear_arith) requires qhat * v1 + rhat == d0;
            lemma_d3_lower(qhat + 1, rhat - v1, d0, v1, v2, u2, m, ut, vt);
        }
    }
    if !borrow {
        // W1 = W0 - qhat * V >= 0 and (qhat + 1) * V > W0
        assert((qhat + 1) * v == qhat * v + v) by(nonlinear_arith);
    } else {
        // W0 - qhat * V + top < top  ==>  W0 < qhat * V ; with (qhat - 1) * V <= W0 the add-back must have carried out
        assert((qhat - 1) * v == qhat * v - v) by(nonlinear_arith);
        assert(qhat >= 1) by { if qhat == 0 { assert(0 * v == 0) by(nonlinear_arith); } }
    }
}

// ------------------------------------------------------------------ Knuth algorithm D, step D4 (multiply and subtract) of div_loop
/// the number formed by `len` words of x starting at word `start` (that word least significant)
pub open spec fn wsum(x: U256Muldiv, start: int, len: int) -> int decreases len {
    if len <= 0 { 0 } else { wsum(x, start, len - 1) + x.items[start + len - 1] as int * qpow((len - 1) as nat) }
}
pub proof fn lemma_wsum_same(a: U256Muldiv, b: U256Muldiv, start: int, len: int)
    requires 0 <= start, start + len <= 4, forall|m: int| start <= m < start + len ==> a.items[m] == b.items[m],
    ensures wsum(a, start, len) == wsum(b, start, len) decreases len
{ if len > 0 { lemma_wsum_same(a, b, start, len - 1); } }
pub proof fn lemma_wsum_bound(a: U256Muldiv, start: int, len: int)
    requires 0 <= start, 0 <= len, start + len <= 4,
    ensures 0 <= wsum(a, start, len) < qpow(len as nat) decreases len
{
    if len > 0 { lemma_wsum_bound(a, start, len - 1); lemma_qpow_unfold(len as nat); let e = qpow((len - 1) as nat); let w = a.items[start + len - 1] as int;
        lemma_qpow_pos((len - 1) as nat);
        assert(w * e <= (Q() - 1) * e) by(nonlinear_arith) requires 0 <= w <= Q() - 1, e >= 1;
        assert(w * e >= 0) by(nonlinear_arith) requires w >= 0, e >= 1;
        assert((Q() - 1) * e + e == Q() * e) by(nonlinear_arith); }
    else { assert(qpow(0) == 1) by(compute); }
}
/// the (n+1)-word dividend window at `index`: n words of the dividend and the head word (the carry space when the window reaches past word 3)
pub open spec fn window(dividend: U256Muldiv, carry: u64, index: int, n: int) -> int { wsum(dividend, index, n) + win_hi(index, n, dividend, carry) * qpow(n as nat) }
/// one column of multiply-and-subtract in wrapping u128 arithmetic: new word w and borrow-carry k1 with w - k1*B == u - k0 - p
pub proof fn lemma_mulsub_word(u: u128, k0: u128, p: u128, t: u128, w: u64, k1: u128)
    requires u < 0x1_0000_0000_0000_0000, k0 < 0x1_0000_0000_0000_0000, p as int + k0 as int <= (Q() - 1) * Q(),
        t as int == ({ let x = u as int - k0 as int - (p as int % Q()); if x < 0 { x + Q2() } else { x } }),
        w as int == t as int % Q(),
        k1 as int == ({ let a = p as int / Q(); let b = (t as int / Q()) % Q(); if a - b < 0 { a - b + Q() } else { a - b } }),
    ensures w as int - k1 as int * Q() == u as int - k0 as int - p as int, k1 < 0x1_0000_0000_0000_0000,
{
    let q = Q(); lemma_q_powers();
    let plo = p as int % q; let phi = p as int / q;
    vstd::arithmetic::div_mod::lemma_fundamental_div_mod(p as int, q); vstd::arithmetic::div_mod::lemma_mod_bound(p as int, q);
    let x = u as int - k0 as int - plo;
    assert(-2 * q < x < q);
    if phi >= q - 1 {
        assert(q * phi >= q * (q - 1)) by(nonlinear_arith) requires phi >= q - 1, q > 0;
        assert(q * (q - 1) == (q - 1) * q) by(nonlinear_arith);
        assert(phi == q - 1) by(nonlinear_arith) requires q * phi <= (q - 1) * q, phi >= q - 1, q > 0;
    }
    if x >= 0 {
        vstd::arithmetic::div_mod::lemma_small_mod(x as nat, q as nat); vstd::arithmetic::div_mod::lemma_basic_div(x, q);
    } else if x >= -q {
        // t = Q2 + x = (q - 1) * q + (q + x)
        assert(Q2() + x == q * (q - 1) + (q + x)) by(nonlinear_arith) requires Q2() == q * q;
        vstd::arithmetic::div_mod::lemma_fundamental_div_mod_converse(Q2() + x, q, q - 1, q + x);
        vstd::arithmetic::div_mod::lemma_small_mod((q - 1) as nat, q as nat);
    } else {
        assert(Q2() + x == q * (q - 2) + (2 * q + x)) by(nonlinear_arith) requires Q2() == q * q;
        vstd::arithmetic::div_mod::lemma_fundamental_div_mod_converse(Q2() + x, q, q - 2, 2 * q + x);
        vstd::arithmetic::div_mod::lemma_small_mod((q - 2) as nat, q as nat);
    }
}
/// D4 on the real code: the window becomes (window - qhat * V) modulo B^(n+1); the final borrow k exceeds the old head word exactly when the subtraction went negative
//@ seg math/u256_math.rs div_loop from=/let mut k = 0;/ to=/if k > d_head \{/ ret=(dividend,k,d_head) var=dividend
fn div_loop_mulsub(index: usize, num_divisor_words: usize, dividend_in: U256Muldiv, dividend_carry_space: &mut u64, divisor: U256Muldiv, qhat: u128, use_carry: bool) -> (r: (U256Muldiv, u128, u128))
    requires 2 <= num_divisor_words <= 4, index + num_divisor_words <= 4, use_carry == (index + num_divisor_words == 4), qhat < 0x1_0000_0000_0000_0000,
    ensures ({
        let n = num_divisor_words as int; let ix = index as int; let c0 = *old(dividend_carry_space); let c1 = *final(dividend_carry_space);
        &&& r.2 as int == win_hi(ix, n, dividend_in, c0) && r.1 < 0x1_0000_0000_0000_0000
        &&& window(r.0, c1, ix, n) == window(dividend_in, c0, ix, n) - qhat as int * wsum(divisor, 0, n) + (if r.1 > r.2 { qpow((n + 1) as nat) } else { 0 })
        &&& (forall|m: int| 0 <= m < 4 && (m < ix || m > ix + n) ==> r.0.items[m] == dividend_in.items[m])
        &&& (!use_carry ==> c1 == c0) }),
//@ rewrite_for
//@ loop 0
        invariant i_it <= num_divisor_words, 2 <= num_divisor_words <= 4, index + num_divisor_words <= 4, qhat < 0x1_0000_0000_0000_0000, k < 0x1_0000_0000_0000_0000,
            wsum(dividend, index as int, i_it as int) - k as int * qpow(i_it as nat) == wsum(dividend_in, index as int, i_it as int) - qhat as int * wsum(divisor, 0, i_it as int),
            forall|m: int| 0 <= m < 4 && (m < index || m >= index + i_it) ==> dividend.items[m] == dividend_in.items[m],
        decreases num_divisor_words - i_it,
//@ inject after /^    let mut t;/
    proof { assert(qpow(0) == 1) by(compute); assert(0 * 1 == 0 && qhat as int * 0 == 0) by(nonlinear_arith); }
//@ inject after /let p = qhat \* \(divisor\.get_word_u128\(i\)\);/
        let ghost d_before = dividend; let ghost k_before = k;
        proof { let q = Q();
            assert(qhat as int * divisor.items[i as int] as int <= (q - 1) * (q - 1)) by(nonlinear_arith) requires 0 <= qhat as int <= q - 1, 0 <= divisor.items[i as int] as int <= q - 1;
            assert((q - 1) * (q - 1) + (q - 1) == (q - 1) * q) by(nonlinear_arith); lemma_q_powers(); }
//@ inject after /k = \(\(p >> U64_RESOLUTION\) as u64\)\.wrapping_sub\(\(t >> U64_RESOLUTION\) as u64\) as u128;/
        proof { let q = Q(); let e = qpow(i as nat); let ix = index as int; let ii = i as int;
            assert(p >> 64 == p / 0x1_0000_0000_0000_0000u128) by(bit_vector);
            assert(t >> 64 == t / 0x1_0000_0000_0000_0000u128) by(bit_vector);
            assert(((t >> 64) as u64) as u128 == (t >> 64) % 0x1_0000_0000_0000_0000u128) by(bit_vector);
            assert(((p >> 64) as u64) as u128 == p >> 64) by(bit_vector) requires p <= 0xFFFF_FFFF_FFFF_FFFE_0000_0000_0000_0001u128;
            assert((q - 1) * (q - 1) == 0xFFFF_FFFF_FFFF_FFFE_0000_0000_0000_0001int) by(compute);
            let w = dividend.items[ix + ii]; let u = d_before.items[ix + ii];
            lemma_mulsub_word(u as u128, k_before, p, t, w, k);
            // the column, weighted with B^i
            lemma_wsum_same(dividend, d_before, ix, ii);
            lemma_qpow_unfold((ii + 1) as nat);
            assert(d_before.items[ix + ii] == dividend_in.items[ix + ii]);
            assert(wsum(dividend, ix, ii + 1) == wsum(d_before, ix, ii) + w as int * e);
            assert(wsum(dividend_in, ix, ii + 1) == wsum(dividend_in, ix, ii) + u as int * e);
            assert(wsum(divisor, 0, ii + 1) == wsum(divisor, 0, ii) + divisor.items[ii] as int * e);
            assert(w as int * e - k as int * (q * e) == (u as int - k_before as int - p as int) * e) by(nonlinear_arith) requires w as int - k as int * q == u as int - k_before as int - p as int;
            assert(qhat as int * (wsum(divisor, 0, ii) + divisor.items[ii] as int * e) == qhat as int * wsum(divisor, 0, ii) + p as int * e) by(nonlinear_arith) requires p as int == qhat as int * divisor.items[ii] as int;
            assert((u as int - k_before as int - p as int) * e == u as int * e - k_before as int * e - p as int * e) by(nonlinear_arith);
        }
//@ inject before /^    let d_head = if use_carry \{/
    let ghost d_mid = dividend;
//@ inject before /^    \(dividend,k,d_head\)$/
    proof { let q = Q(); let n = num_divisor_words as int; let ix = index as int; let e = qpow(n as nat); lemma_q_powers();
        lemma_qpow_unfold((n + 1) as nat);
        let x = d_head as int - k as int;
        assert(-q < x < q);
        if x >= 0 { vstd::arithmetic::div_mod::lemma_small_mod(x as nat, q as nat); }
        else { assert(Q2() + x == q * (q - 1) + (q + x)) by(nonlinear_arith) requires Q2() == q * q;
               vstd::arithmetic::div_mod::lemma_fundamental_div_mod_converse(Q2() + x, q, q - 1, q + x); }
        let head1 = t as int % q;
        assert(head1 == (if x >= 0 { x } else { x + q }));
        lemma_wsum_same(dividend, d_mid, ix, n);
        assert(win_hi(ix, n, dividend, *dividend_carry_space) == head1);
        assert(head1 * e == x * e + (if x >= 0 { 0 } else { q * e })) by(nonlinear_arith) requires head1 == (if x >= 0 { x } else { x + q });
        assert(x * e == d_head as int * e - k as int * e) by(nonlinear_arith) requires x == d_head as int - k as int;
    }
//@ end
// ------------------------------------------------------------------ Knuth algorithm D, steps D5/D6 (test remainder, add back) of div_loop
/// D5/D6 on the real code: without a borrow nothing changes; after a borrow the digit is decreased by one and the divisor is added back to the window, the carry
/// out of the window's head word being dropped: window' == (window + V) mod B^(n+1).
/// OBSERVATION (real code, replayed natively: U256Muldiv::div(2^255, 2^191 + 1) panics): when the window's head is the carry space (index + n == 4) the add-back path
/// evaluates `dividend.get_word_u128(index + num_divisor_words)` = items[4] and panics (index out of bounds) before it looks at `use_carry`; such a computation does
/// not succeed (C02 constrains successful computations only), so the contract carries the precondition "no add-back at the carry position".
//@ seg math/u256_math.rs div_loop from=/if k > d_head \{/ to=/quotient\.update_word\(index, qhat\.lo\(\)\);/ ret=(dividend,qhat) var=dividend
fn div_loop_addback(index: usize, num_divisor_words: usize, dividend_in: U256Muldiv, dividend_carry_space: &mut u64, divisor: U256Muldiv, qhat_in: u128, k_in: u128, d_head: u128, use_carry: bool) -> (r: (U256Muldiv, u128))
    requires 2 <= num_divisor_words <= 4, index + num_divisor_words <= 4, use_carry == (index + num_divisor_words == 4), k_in < 0x1_0000_0000_0000_0000,
        k_in > d_head ==> (!use_carry && qhat_in >= 1),
    ensures ({
        let n = num_divisor_words as int; let ix = index as int; let c0 = *old(dividend_carry_space); let c1 = *final(dividend_carry_space);
        let w0 = window(dividend_in, c0, ix, n); let v = wsum(divisor, 0, n); let w1 = window(r.0, c1, ix, n);
        &&& (k_in <= d_head ==> r.0 == dividend_in && c1 == c0 && r.1 == qhat_in)
        &&& (k_in > d_head ==> r.1 == qhat_in - 1 && c1 == c0 && (w1 == w0 + v || w1 == w0 + v - qpow((n + 1) as nat))
                && (forall|m: int| 0 <= m < 4 && (m < ix || m > ix + n) ==> r.0.items[m] == dividend_in.items[m])) }),
//@ rewrite_for
//@ rewrite /    if k > d_head \{\n        qhat -= 1;/ => /    let mut qhat = qhat_in; let mut k = k_in; let mut t: u128;\n    if k > d_head {\n        qhat -= 1;/
//@ loop 0
            invariant i_it <= num_divisor_words, 2 <= num_divisor_words <= 4, index + num_divisor_words < 4, k <= 1,
                wsum(dividend, index as int, i_it as int) + k as int * qpow(i_it as nat) == wsum(dividend_in, index as int, i_it as int) + wsum(divisor, 0, i_it as int),
                forall|m: int| 0 <= m < 4 && (m < index || m >= index + i_it) ==> dividend.items[m] == dividend_in.items[m],
            decreases num_divisor_words - i_it,
//@ inject after /^        k = 0;/
        proof { assert(qpow(0) == 1) by(compute); }
//@ inject before /^            t = dividend$/
            let ghost d_before = dividend; let ghost k_before = k;
//@ inject after /^            k = t >> U64_RESOLUTION;/
            proof { let q = Q(); let e = qpow(i as nat); let ix = index as int; let ii = i as int; lemma_q_powers();
                let u = d_before.items[ix + ii] as int; let vv = divisor.items[ii] as int; let w = dividend.items[ix + ii] as int;
                assert(t >> 64 == t / 0x1_0000_0000_0000_0000u128) by(bit_vector);
                assert(t as int == u + vv + k_before as int);
                vstd::arithmetic::div_mod::lemma_fundamental_div_mod(t as int, q); vstd::arithmetic::div_mod::lemma_mod_bound(t as int, q);
                assert(k as int <= 1) by(nonlinear_arith) requires t as int == q * (k as int) + w, w >= 0, t as int <= 2 * q - 1, q > 0, k as int >= 0;
                lemma_wsum_same(dividend, d_before, ix, ii); lemma_qpow_unfold((ii + 1) as nat);
                assert(d_before.items[ix + ii] == dividend_in.items[ix + ii]);
                assert(w * e + k as int * (q * e) == (u + vv + k_before as int) * e) by(nonlinear_arith) requires u + vv + k_before as int == q * (k as int) + w;
                assert((u + vv + k_before as int) * e == u * e + vv * e + k_before as int * e) by(nonlinear_arith);
            }
//@ inject before /^        let new_carry = dividend/
        let ghost d_mid = dividend;
//@ inject before /^    \}\n    \(dividend,qhat\)$/
    proof { { let q = Q(); let n = num_divisor_words as int; let ix = index as int; let e = qpow(n as nat); lemma_q_powers(); lemma_qpow_unfold((n + 1) as nat);
        let h0 = d_mid.items[ix + n] as int; let h1 = dividend.items[ix + n] as int;
        vstd::arithmetic::div_mod::lemma_fundamental_div_mod(h0 + k as int, q); vstd::arithmetic::div_mod::lemma_mod_bound(h0 + k as int, q);
        assert(h1 == (h0 + k as int) % q);
        assert((h0 + k as int) < 2 * q);
        let c = (h0 + k as int) / q;
        assert(c == 0 || c == 1) by(nonlinear_arith) requires h0 + k as int == q * c + h1, 0 <= h1 < q, 0 <= h0 + k as int, (h0 + k as int) < 2 * q, q > 0;
        lemma_wsum_same(dividend, d_mid, ix, n);
        assert(d_mid.items[ix + n] == dividend_in.items[ix + n]);
        assert(h1 * e == (h0 + k as int) * e - c * (q * e)) by(nonlinear_arith) requires h0 + k as int == q * c + h1;
        assert((h0 + k as int) * e == h0 * e + k as int * e) by(nonlinear_arith);
    } }
//@ end
// ------------------------------------------------------------------ div_loop as a whole: sequential composition of the three verified segments
/// the postcondition of step D3 as a predicate over the leading words
pub open spec fn d3_post(qhat: int, rhat: int, d0: int, v1: int, v2: int, u2: int) -> bool {
    qhat * v1 + rhat == d0 && d3_passes(qhat, rhat, v2, u2) && (qhat == d0 / v1 || (0 <= rhat - v1 && rhat - v1 < Q() && !d3_passes(qhat + 1, rhat - v1, v2, u2)))
}
/// precondition of one Knuth step at position `index`: normalised n-word divisor (2 <= n <= 4), the window's n leading words are below the divisor;
/// and - because the real code panics there (see div_loop_addback) - no add-back when the window's head is the carry space
pub open spec fn knuth_pre(index: int, n: int, dividend: U256Muldiv, carry: u64, divisor: U256Muldiv) -> bool {
    let v = wsum(divisor, 0, n); let w0 = window(dividend, carry, index, n);
    let d0 = win_hi(index, n, dividend, carry) * Q() + dividend.items[index + n - 1] as int;
    &&& 2 <= n <= 4 && 0 <= index && index + n <= 4
    &&& divisor.items[n - 1] as int >= 0x8000_0000_0000_0000
    &&& w0 < v * Q()
    &&& (index + n == 4 ==> forall|qh: int, rh: int| #[trigger] d3_post(qh, rh, d0, divisor.items[n - 1] as int, divisor.items[n - 2] as int, dividend.items[index + n - 2] as int) && qh >= 0 && rh >= 0 ==> qh * v <= w0)
}
/// one Knuth step: quotient word `index` becomes floor(window / V), the window becomes window mod V (its head word therefore 0), nothing else changes
pub open spec fn knuth_post(index: int, n: int, dividend: U256Muldiv, carry0: u64, divisor: U256Muldiv, quotient: U256Muldiv, r: (U256Muldiv, U256Muldiv), carry1: u64) -> bool {
    let v = wsum(divisor, 0, n); let w0 = window(dividend, carry0, index, n);
    &&& r.0.items@ == quotient.items@.update(index, (w0 / v) as u64) && 0 <= w0 / v < Q()
    &&& window(r.1, carry1, index, n) == w0 % v
    &&& (forall|m: int| 0 <= m < 4 && (m < index || m > index + n) ==> r.1.items[m] == dividend.items[m])
    &&& (index + n < 4 ==> carry1 == carry0)
}
/// composition artifact (not repository code): calls the three segments in the order in which they tile div_loop's body (checked by segcheck) and the final
/// `quotient.update_word(index, qhat.lo())`; its verification is the proof that the segment contracts compose to knuth_post
pub fn div_loop_composed(index: usize, num_divisor_words: usize, dividend: U256Muldiv, dividend_carry_space: &mut u64, divisor: U256Muldiv, quotient: U256Muldiv) -> (r: (U256Muldiv, U256Muldiv))
    requires knuth_pre(index as int, num_divisor_words as int, dividend, *old(dividend_carry_space), divisor),
    ensures knuth_post(index as int, num_divisor_words as int, dividend, *old(dividend_carry_space), divisor, quotient, r, *final(dividend_carry_space)),
{
    let ghost n = num_divisor_words as int; let ghost ix = index as int; let ghost c0 = *dividend_carry_space;
    let ghost v = wsum(divisor, 0, n); let ghost w0 = window(dividend, c0, ix, n);
    let ghost v1 = divisor.items[n - 1] as int; let ghost v2 = divisor.items[n - 2] as int; let ghost u2 = dividend.items[ix + n - 2] as int;
    let ghost d0 = win_hi(ix, n, dividend, c0) * Q() + dividend.items[ix + n - 1] as int;
    let ghost m = qpow((n - 2) as nat);
    let ghost ut = wsum(dividend, ix, n - 2); let ghost vt = wsum(divisor, 0, n - 2);
    proof {
        lemma_q_powers(); lemma_qpow_pos((n - 2) as nat); lemma_wsum_bound(dividend, ix, n - 2); lemma_wsum_bound(divisor, 0, n - 2);
        lemma_qpow_unfold((n - 1) as nat); lemma_qpow_unfold(n as nat); lemma_qpow_unfold((n + 1) as nat);
        // split window and divisor into leading words and tail
        assert(wsum(dividend, ix, n) == wsum(dividend, ix, n - 1) + dividend.items[ix + n - 1] as int * qpow((n - 1) as nat));
        assert(wsum(dividend, ix, n - 1) == ut + u2 * m);
        assert(wsum(divisor, 0, n) == wsum(divisor, 0, n - 1) + v1 * qpow((n - 1) as nat));
        assert(wsum(divisor, 0, n - 1) == vt + v2 * m);
        assert(v == (v1 * Q() + v2) * m + vt) by(nonlinear_arith) requires v == vt + v2 * m + v1 * (Q() * m);
        assert(w0 == (d0 * Q() + u2) * m + ut) by(nonlinear_arith)
            requires w0 == ut + u2 * m + dividend.items[ix + n - 1] as int * (Q() * m) + win_hi(ix, n, dividend, c0) * (Q() * (Q() * m)), d0 == win_hi(ix, n, dividend, c0) * Q() + dividend.items[ix + n - 1] as int;
        // the head word is at most v1 (else the window would not be below V * B)
        let hi = win_hi(ix, n, dividend, c0);
        assert(hi <= v1) by {
            if hi >= v1 + 1 {
                assert(w0 >= (v1 + 1) * (Q() * (Q() * m))) by(nonlinear_arith) requires w0 == (d0 * Q() + u2) * m + ut, d0 >= hi * Q(), hi >= v1 + 1, u2 >= 0, ut >= 0, m >= 1, Q() >= 1;
                assert(v * Q() < (v1 + 1) * (Q() * (Q() * m))) by(nonlinear_arith) requires v == (v1 * Q() + v2) * m + vt, v2 < Q(), vt < m, m >= 1, Q() >= 1;
            }
        }
    }
    let use_carry = index + num_divisor_words == 4;
    let (qhat, rhat) = div_loop_estimate(index, num_divisor_words, dividend, dividend_carry_space, divisor);
    proof { assert(d3_post(qhat as int, rhat as int, d0, v1, v2, u2)); }
    let (d1, k, d_head) = div_loop_mulsub(index, num_divisor_words, dividend, dividend_carry_space, divisor, qhat, use_carry);
    let ghost c1 = *dividend_carry_space; let ghost w1 = window(d1, c1, ix, n); let ghost borrow = k > d_head;
    proof {
        lemma_wsum_bound(d1, ix, n); lemma_qpow_pos(n as nat);
        assert(0 <= w1 < qpow((n + 1) as nat)) by(nonlinear_arith)
            requires w1 == wsum(d1, ix, n) + win_hi(ix, n, d1, c1) * qpow(n as nat), 0 <= wsum(d1, ix, n) < qpow(n as nat), 0 <= win_hi(ix, n, d1, c1) <= Q() - 1, qpow((n + 1) as nat) == Q() * qpow(n as nat);
        lemma_qpow_unfold((n - 1) as nat); lemma_qpow_unfold(n as nat); lemma_qpow_unfold((n + 1) as nat);
        assert(qpow((n - 1) as nat) == Q() * m);
        assert(qpow(n as nat) == Q() * (Q() * m));
        assert(qpow((n + 1) as nat) == Q() * Q() * Q() * m) by(nonlinear_arith) requires qpow((n + 1) as nat) == Q() * qpow(n as nat), qpow(n as nat) == Q() * (Q() * m);
        lemma_wsum_bound(dividend, ix, n);
        assert(w0 >= 0) by(nonlinear_arith) requires w0 == wsum(dividend, ix, n) + win_hi(ix, n, dividend, c0) * qpow(n as nat), wsum(dividend, ix, n) >= 0, win_hi(ix, n, dividend, c0) >= 0, qpow(n as nat) >= 1;
        if borrow { assert(qhat as int * v > w0); assert(qhat >= 1) by { if qhat == 0 { assert(0 * v == 0) by(nonlinear_arith); } } }
    }
    let (d2, q) = div_loop_addback(index, num_divisor_words, d1, dividend_carry_space, divisor, qhat, k, d_head, use_carry);
    let ghost c2 = *dividend_carry_space; let ghost w2 = window(d2, c2, ix, n);
    proof {
        lemma_wsum_bound(d2, ix, n);
        assert(0 <= w2 < qpow((n + 1) as nat)) by(nonlinear_arith)
            requires w2 == wsum(d2, ix, n) + win_hi(ix, n, d2, c2) * qpow(n as nat), 0 <= wsum(d2, ix, n) < qpow(n as nat), 0 <= win_hi(ix, n, d2, c2) <= Q() - 1, qpow((n + 1) as nat) == Q() * qpow(n as nat), qpow(n as nat) >= 1;
        lemma_knuth_step(qhat as int, rhat as int, d0, v1, v2, u2, m, ut, vt, w1, borrow, q as int, w2);
        vstd::arithmetic::div_mod::lemma_fundamental_div_mod_converse(w0, v, q as int, w2);
        assert(q as int * v <= w0);
        assert((q as int) < Q()) by(nonlinear_arith) requires q as int * v <= w0, w0 < v * Q(), v >= 1, q as int >= 0;
        vstd::arithmetic::div_mod::lemma_small_mod(q as nat, Q() as nat);
    }
    let mut quotient = quotient;
    quotient.update_word(index, q.lo());
    (quotient, d2)
}
/// the real div_loop: ASSUMED to satisfy the contract that its three verified segments compose to (div_loop_composed proves the composition; segcheck the tiling)
//@ fn math/u256_math.rs div_loop -> r stub
    requires knuth_pre(index as int, num_divisor_words as int, dividend, *old(dividend_carry_space), divisor),
    ensures knuth_post(index as int, num_divisor_words as int, dividend, *old(dividend_carry_space), divisor, quotient, r, *final(dividend_carry_space)),
//@ end
//@ segcheck math/u256_math.rs div_loop

/// Knuth 4.3.1: what the D3 postcondition means for the true quotient digit. U is the (n+1)-word window, V the normalised n-word divisor (n >= 2), written with
/// their two resp. three leading words and a tail below them (m = n - 2 further words): U = (d0 * B + u2) * M + ut, V = (v1 * B + v2) * M + vt, 0 <= ut, vt < M.
/// If (qhat, rhat) with qhat * v1 + rhat == d0 passes the test then (qhat - 1) * V <= U, i.e. the true digit is at least qhat - 1
pub proof fn lemma_d3_upper(qhat: int, rhat: int, d0: int, v1: int, v2: int, u2: int, m: int, ut: int, vt: int)
    requires m >= 1, 0 <= ut < m, 0 <= vt < m, 0 <= v2 < Q(), 0 <= u2 < Q(), v1 >= 1, rhat >= 0, 0 <= qhat, qhat * v1 + rhat == d0, d3_passes(qhat, rhat, v2, u2),
    ensures (qhat - 1) * ((v1 * Q() + v2) * m + vt) <= (d0 * Q() + u2) * m + ut,
{
    let b = Q();
    if qhat >= 1 {
        // qhat * v2 <= rhat * B + u2 holds in both cases of the test
        assert(qhat * v2 <= rhat * b + u2) by(nonlinear_arith) requires qhat < b, 0 <= v2 < b, rhat >= b || qhat * v2 <= rhat * b + u2, u2 >= 0, qhat >= 0;
        assert((qhat - 1) * (v1 * b + v2 + 1) <= d0 * b + u2) by(nonlinear_arith)
            requires qhat * v1 + rhat == d0, qhat * v2 <= rhat * b + u2, 1 <= qhat < b, v1 >= 1, v2 >= 0, b >= 1;
        assert((qhat - 1) * ((v1 * b + v2) * m + vt) <= (qhat - 1) * (v1 * b + v2 + 1) * m) by(nonlinear_arith) requires qhat >= 1, 0 <= vt < m, m >= 1;
        assert((qhat - 1) * (v1 * b + v2 + 1) * m <= (d0 * b + u2) * m) by(nonlinear_arith) requires (qhat - 1) * (v1 * b + v2 + 1) <= d0 * b + u2, m >= 1;
    } else {
        assert((qhat - 1) * ((v1 * b + v2) * m + vt) <= 0) by(nonlinear_arith) requires qhat == 0, v1 >= 1, v2 >= 0, b >= 1, m >= 1, vt >= 0;
        assert((d0 * b + u2) * m + ut >= 0) by(nonlinear_arith) requires d0 >= 0, b >= 1, u2 >= 0, m >= 1, ut >= 0, d0 == qhat * v1 + rhat, qhat == 0, rhat >= 0;
    }
}
/// if a pair FAILS the test then qhat * V > U, i.e. the true digit is below qhat: a correction is never one too many (needs the window bound U < V * B only through qhat >= B)
pub proof fn lemma_d3_lower(qhat: int, rhat: int, d0: int, v1: int, v2: int, u2: int, m: int, ut: int, vt: int)
    requires m >= 1, 0 <= ut < m, 0 <= vt < m, 0 <= v2 < Q(), 0 <= u2 < Q(), v1 >= 1, 0 <= rhat < Q(), qhat >= 0, qhat * v1 + rhat == d0, !d3_passes(qhat, rhat, v2, u2),
        // the window is below V * B
        (d0 * Q() + u2) * m + ut < ((v1 * Q() + v2) * m + vt) * Q(),
    ensures qhat * ((v1 * Q() + v2) * m + vt) > (d0 * Q() + u2) * m + ut,
{
    let b = Q(); let v = (v1 * b + v2) * m + vt; let u = (d0 * b + u2) * m + ut;
    if qhat >= b {
        assert(qhat * v >= v * b) by(nonlinear_arith) requires qhat >= b, v >= 0;
    } else {
        assert(qhat * v2 > rhat * b + u2);
        assert(qhat * (v1 * b + v2) >= d0 * b + u2 + 1) by(nonlinear_arith) requires qhat * v1 + rhat == d0, qhat * v2 >= rhat * b + u2 + 1;
        assert(qhat * v >= qhat * (v1 * b + v2) * m) by(nonlinear_arith) requires qhat >= 0, vt >= 0, v == (v1 * b + v2) * m + vt;
        assert(qhat * (v1 * b + v2) * m >= (d0 * b + u2 + 1) * m) by(nonlinear_arith) requires qhat * (v1 * b + v2) >= d0 * b + u2 + 1, m >= 1;
        assert((d0 * b + u2 + 1) * m > u) by(nonlinear_arith) requires u == (d0 * b + u2) * m + ut, ut < m;
    }
}
/// Knuth Theorem A for the uncorrected estimate: floor(d0 / v1) is not below the true digit
pub proof fn lemma_d3_first(d0: int, v1: int, v2: int, u2: int, m: int, ut: int, vt: int, q: int)
    requires m >= 1, 0 <= ut < m, 0 <= vt, 0 <= v2, 0 <= u2 < Q(), v1 >= 1, d0 >= 0, q >= 0, q * ((v1 * Q() + v2) * m + vt) <= (d0 * Q() + u2) * m + ut,
    ensures q <= d0 / v1,
{
    let b = Q();
    // q * v1 * B * m <= U < (d0 * B + B) * m  ==>  q * v1 < d0 + 1
    assert(q * (v1 * b) * m <= q * ((v1 * b + v2) * m + vt)) by(nonlinear_arith) requires q >= 0, v2 >= 0, vt >= 0, m >= 1, b >= 1, v1 >= 1;
    assert((d0 * b + u2) * m + ut < (d0 + 1) * b * m) by(nonlinear_arith) requires u2 < b, ut < m, m >= 1, u2 >= 0;
    assert(q * v1 < d0 + 1) by(nonlinear_arith) requires q * (v1 * b) * m < (d0 + 1) * b * m, b >= 1, m >= 1;
    vstd::arithmetic::div_mod::lemma_fundamental_div_mod(d0, v1); vstd::arithmetic::div_mod::lemma_mod_bound(d0, v1);
    assert(q <= d0 / v1) by(nonlinear_arith) requires q * v1 <= d0, d0 == v1 * (d0 / v1) + d0 % v1, d0 % v1 < v1, v1 >= 1;
}

//@ fn math/u256_math.rs mul_u256 -> r
    ensures r.view() == v as int * n as int,
//@ inject before /U256Muldiv::new\(c1, c0\)/
    proof { let q = Q();
      let vl = v as int % q; let vh = v as int / q; let nl = n as int % q; let nh = n as int / q;
      let p0 = vl*nl; let pa = vl*nh; let pb = vh*nl; let p3 = vh*nh;
      assert(v as int == vh*q + vl); assert(n as int == nh*q + nl);
      lemma_mul_split(v as int, n as int, vh, vl, nh, nl, q);
      let mid = p0/q + pa%q + pb%q;
      assert(c0 as int == (mid%q)*q + p0%q); assert(c1 as int == p3 + mid/q + pa/q + pb/q);
      assert(p0 >= 0 && pa >= 0 && pb >= 0) by(nonlinear_arith) requires vl >= 0, vh >= 0, nl >= 0, nh >= 0, p0 == vl*nl, pa == vl*nh, pb == vh*nl;
      lemma_mul_carry(p0, pa, pb, p3, c0 as int, c1 as int, q);
      assert(Q2() == q * q) by(compute);
      assert(c1 as int * Q2() == c1 as int * q * q) by(nonlinear_arith) requires Q2() == q * q; }
//@ end

pub open spec fn pow_q(i: int) -> int { if i <= 0 { 1 } else if i == 1 { Q() } else if i == 2 { Q2() } else if i == 3 { Q3() } else { Q4() } }
pub open spec fn partial_view(x: U256Muldiv, i: int) -> int {
    (if i > 0 { x.items[0] as int } else { 0 }) + (if i > 1 { x.items[1] as int * Q() } else { 0 })
    + (if i > 2 { x.items[2] as int * Q2() } else { 0 }) + (if i > 3 { x.items[3] as int * Q3() } else { 0 })
}
pub open spec fn carry_next(t: u128) -> u128 { (t as int / Q()) as u128 }

pub proof fn lemma_add_step(a: U256Muldiv, b: U256Muldiv, res: U256Muldiv, old_res: U256Muldiv, i: int, c0: int, c1: int, t: int)
    requires 0 <= i < 4, c0 == 0 || c0 == 1,
        t == a.items[i] as int + b.items[i] as int + c0,
        c1 == t / Q(),
        res.items@ == old_res.items@.update(i, (t % Q()) as u64),
        partial_view(old_res, i) + c0 * pow_q(i) == partial_view(a, i) + partial_view(b, i),
    ensures
        c1 == 0 || c1 == 1,
        partial_view(res, i + 1) + c1 * pow_q(i + 1) == partial_view(a, i + 1) + partial_view(b, i + 1),
{
    let q = Q();
    vstd::arithmetic::div_mod::lemma_fundamental_div_mod(t, q);
    assert(t < 2 * q);
    assert(c1 == 0 || c1 == 1) by { if t < q { vstd::arithmetic::div_mod::lemma_basic_div(t, q); } else { vstd::arithmetic::div_mod::lemma_fundamental_div_mod_converse(t, q, 1, t - q); } }
    let w = t % q;
    assert(0 <= w < q);
    assert(res.items@[i] == (w as u64));
    assert(res.items[i] as int == w);
    assert(forall|k: int| 0 <= k < 4 && k != i ==> res.items@[k] == old_res.items@[k]);
    assert(partial_view(res, i) == partial_view(old_res, i));
    assert(t == q * c1 + w);
    if i == 0 { }
    else if i == 1 { assert(Q2() == q * q) by(compute); assert(c1 * Q2() == (c1 * q) * q) by(nonlinear_arith) requires Q2() == q * q; }
    else if i == 2 { assert(Q3() == Q2() * q) by(compute);  assert(c1 * Q3() == (c1 * q) * Q2()) by(nonlinear_arith) requires Q3() == Q2() * q; }
    else { assert(Q4() == Q3() * q) by(compute);  assert(c1 * Q4() == (c1 * q) * Q3()) by(nonlinear_arith) requires Q4() == Q3() * q; }
}

pub proof fn lemma_sub_step(a: U256Muldiv, b: U256Muldiv, res: U256Muldiv, old_res: U256Muldiv, i: int, c0: int, c1: int, w: int)
    requires 0 <= i < 4, c0 == 0 || c0 == 1, c1 == 0 || c1 == 1, 0 <= w < Q(),
        w == a.items[i] as int - b.items[i] as int - c0 + c1 * Q(),
        res.items@ == old_res.items@.update(i, w as u64),
        partial_view(old_res, i) - c0 * pow_q(i) == partial_view(a, i) - partial_view(b, i),
    ensures
        partial_view(res, i + 1) - c1 * pow_q(i + 1) == partial_view(a, i + 1) - partial_view(b, i + 1),
{
    let q = Q();
    assert(res.items@[i] == (w as u64));
    assert(res.items[i] as int == w);
    assert(forall|k: int| 0 <= k < 4 && k != i ==> res.items@[k] == old_res.items@[k]);
    assert(partial_view(res, i) == partial_view(old_res, i));
    if i == 0 { }
    else if i == 1 { assert(Q2() == q * q) by(compute); assert(c1 * Q2() == (c1 * q) * q) by(nonlinear_arith) requires Q2() == q * q; }
    else if i == 2 { assert(Q3() == Q2() * q) by(compute);  assert(c1 * Q3() == (c1 * q) * Q2()) by(nonlinear_arith) requires Q3() == Q2() * q; }
    else { assert(Q4() == Q3() * q) by(compute);  assert(c1 * Q4() == (c1 * q) * Q3()) by(nonlinear_arith) requires Q4() == Q3() * q; }
}

pub proof fn lemma_mul_split(v: int, n: int, vh: int, vl: int, nh: int, nl: int, q: int)
    requires v == vh * q + vl, n == nh * q + nl,
    ensures v * n == (vh * nh) * q * q + (vl * nh + vh * nl) * q + vl * nl,
{
    let A = vh * q; let B = nh * q;
    assert(v * n == A * n + vl * n) by(nonlinear_arith) requires v == A + vl;
    assert(A * n == A * B + A * nl) by(nonlinear_arith) requires n == B + nl;
    assert(vl * n == vl * B + vl * nl) by(nonlinear_arith) requires n == B + nl;
    assert(A * B == (vh * nh) * q * q) by(nonlinear_arith) requires A == vh * q, B == nh * q;
    assert(A * nl == (vh * nl) * q) by(nonlinear_arith) requires A == vh * q;
    assert(vl * B == (vl * nh) * q) by(nonlinear_arith) requires B == nh * q;
    assert((vl * nh) * q + (vh * nl) * q == (vl * nh + vh * nl) * q) by(nonlinear_arith);
}

/// carry propagation of the schoolbook 128x128 multiply, over an abstract base q
pub proof fn lemma_mul_carry(p0: int, pa: int, pb: int, p3: int, c0: int, c1: int, q: int)
    requires q > 0, p0 >= 0, pa >= 0, pb >= 0,
        c0 == ((p0 / q + pa % q + pb % q) % q) * q + p0 % q,
        c1 == p3 + (p0 / q + pa % q + pb % q) / q + pa / q + pb / q,
    ensures c1 * q * q + c0 == p3 * q * q + (pa + pb) * q + p0,
{
    let mid = p0 / q + pa % q + pb % q;
    vstd::arithmetic::div_mod::lemma_fundamental_div_mod(p0, q);
    vstd::arithmetic::div_mod::lemma_fundamental_div_mod(pa, q);
    vstd::arithmetic::div_mod::lemma_fundamental_div_mod(pb, q);
    vstd::arithmetic::div_mod::lemma_fundamental_div_mod(mid, q);
    let m1 = mid / q; let m0 = mid % q; let a1 = pa / q; let a0 = pa % q; let b1 = pb / q; let b0 = pb % q; let z1 = p0 / q; let z0 = p0 % q;
    assert(c1 * q * q == p3 * q * q + (m1 + a1 + b1) * q * q) by(nonlinear_arith) requires c1 == p3 + m1 + a1 + b1;
    assert((m1 + a1 + b1) * q * q == (m1 * q) * q + (a1 * q) * q + (b1 * q) * q) by(nonlinear_arith);
    assert((pa + pb) * q == (q * a1) * q + a0 * q + (q * b1) * q + b0 * q) by(nonlinear_arith) requires pa == q * a1 + a0, pb == q * b1 + b0;
    assert(m0 * q == mid * q - (q * m1) * q) by(nonlinear_arith) requires mid == q * m1 + m0;
    assert(mid * q == z1 * q + a0 * q + b0 * q) by(nonlinear_arith) requires mid == z1 + a0 + b0;
    assert((m1 * q) * q == (q * m1) * q && (a1 * q) * q == (q * a1) * q && (b1 * q) * q == (q * b1) * q) by(nonlinear_arith);
    assert(z1 * q == q * z1) by(nonlinear_arith);
}

/// if the words above i agree and word i of a is smaller, then a < b
pub proof fn lemma_cmp_words(a: U256Muldiv, b: U256Muldiv, i: int)
    requires 0 <= i < 4, forall|k: int| i < k < 4 ==> a.items[k] == b.items[k], a.items[i] < b.items[i],
    ensures a.view() < b.view(),
{
    if i == 0 { assert(a.items[1] == b.items[1] && a.items[2] == b.items[2] && a.items[3] == b.items[3]); }
    else if i == 1 { assert(a.items[2] == b.items[2] && a.items[3] == b.items[3]); }
    else if i == 2 { assert(a.items[3] == b.items[3]); }
}
}
