//@ needs specs errors stdspecs bitlemmas u256_math bit_math token_math curve_lemmas
// C20: Rust core SDK (rust-sdk/core) math against the PROGRAM's spec functions. ethnum::U256 is an axiomatised shim (the crate is
// not available offline): values are naturals < 2^256; checked_mul is exact-or-None; checked_shl(n) is None only for n >= 256 and
// otherwise WRAPS (ethnum mirrors the primitive integer API); + - / % >> & are exact under the stated no-overflow requirements.
pub mod ethnum {
use vstd::prelude::*;
//@ assume ethnum::U256 shim (trusted axioms of C20): see the module comment of fragment sdk_token
pub open spec fn P256() -> int { 0x1_0000_0000_0000_0000_0000_0000_0000_0000_0000_0000_0000_0000_0000_0000_0000_0000int }
#[derive(Clone, Copy)]
pub struct U256 { pub hi: u128, pub lo: u128 }
impl U256 {
    pub open spec fn v(self) -> int { self.hi as int * 0x1_0000_0000_0000_0000_0000_0000_0000_0000int + self.lo as int }
    #[verifier::external_body] pub fn checked_mul(self, rhs: U256) -> (r: Option<U256>)
        ensures self.v() * rhs.v() < P256() ==> (r matches Some(x) && x.v() == self.v() * rhs.v()), self.v() * rhs.v() >= P256() ==> r is None { unimplemented!() }
    #[verifier::external_body] pub fn checked_shl(self, n: u32) -> (r: Option<U256>)
        ensures n >= 256 ==> r is None, n == 64 ==> (r matches Some(x) && x.v() == (self.v() * 0x1_0000_0000_0000_0000int) % P256()) { unimplemented!() }
    #[verifier::external_body] pub fn ne_zero(self) -> (r: bool) ensures r == (self.v() != 0) { unimplemented!() }
    #[verifier::external_body] pub fn gt_zero(self) -> (r: bool) ensures r == (self.v() > 0) { unimplemented!() }
    #[verifier::external_body] pub fn in_range(self, lo: u128, hi: u128) -> (r: bool) ensures r == (lo as int <= self.v() <= hi as int) { unimplemented!() }
    #[verifier::external_body] pub fn try_into_u64_or<E>(self, e: E) -> (r: Result<u64, E>) ensures self.v() <= 0xFFFF_FFFF_FFFF_FFFFint ==> r == Ok::<u64, E>(self.v() as u64), self.v() > 0xFFFF_FFFF_FFFF_FFFFint ==> r == Err::<u64, E>(e) { unimplemented!() }
    #[verifier::external_body] pub fn as_u128(self) -> (r: u128) ensures r as int == self.v() % 0x1_0000_0000_0000_0000_0000_0000_0000_0000int { unimplemented!() }
}
pub proof fn lemma_v_bounds(x: U256) ensures 0 <= x.v() < P256() {
    assert(x.hi as int * 0x1_0000_0000_0000_0000_0000_0000_0000_0000int <= 0xFFFF_FFFF_FFFF_FFFF_FFFF_FFFF_FFFF_FFFFint * 0x1_0000_0000_0000_0000_0000_0000_0000_0000int) by(nonlinear_arith) requires x.hi as int <= 0xFFFF_FFFF_FFFF_FFFF_FFFF_FFFF_FFFF_FFFFint;
    assert(P256() == 0x1_0000_0000_0000_0000_0000_0000_0000_0000int * 0x1_0000_0000_0000_0000_0000_0000_0000_0000int) by(compute);
}
impl vstd::std_specs::convert::FromSpecImpl<u128> for U256 { open spec fn obeys_from_spec() -> bool { true } open spec fn from_spec(v: u128) -> Self { U256 { hi: 0, lo: v } } }
impl From<u128> for U256 { #[verifier::external_body] fn from(x: u128) -> (r: U256) ensures r == (U256 { hi: 0, lo: x }) { unimplemented!() } }
impl vstd::std_specs::convert::FromSpecImpl<u64> for U256 { open spec fn obeys_from_spec() -> bool { true } open spec fn from_spec(v: u64) -> Self { U256 { hi: 0, lo: v as u128 } } }
impl From<u64> for U256 { #[verifier::external_body] fn from(x: u64) -> (r: U256) ensures r == (U256 { hi: 0, lo: x as u128 }) { unimplemented!() } }
impl vstd::std_specs::ops::AddSpecImpl<U256> for U256 { open spec fn obeys_add_spec() -> bool { false } open spec fn add_req(self, rhs: U256) -> bool { self.v() + rhs.v() < P256() } open spec fn add_spec(self, rhs: U256) -> U256 { arbitrary() } }
impl std::ops::Add<U256> for U256 { type Output = U256; #[verifier::external_body] fn add(self, rhs: U256) -> (r: U256) ensures r.v() == self.v() + rhs.v() { unimplemented!() } }
impl vstd::std_specs::ops::AddSpecImpl<u128> for U256 { open spec fn obeys_add_spec() -> bool { false } open spec fn add_req(self, rhs: u128) -> bool { (self.v() + rhs as int) < P256() } open spec fn add_spec(self, rhs: u128) -> U256 { arbitrary() } }
impl std::ops::Add<u128> for U256 { type Output = U256; #[verifier::external_body] fn add(self, rhs: u128) -> (r: U256) ensures r.v() == self.v() + rhs as int { unimplemented!() } }
impl vstd::std_specs::ops::SubSpecImpl<U256> for U256 { open spec fn obeys_sub_spec() -> bool { false } open spec fn sub_req(self, rhs: U256) -> bool { self.v() >= rhs.v() } open spec fn sub_spec(self, rhs: U256) -> U256 { arbitrary() } }
impl std::ops::Sub<U256> for U256 { type Output = U256; #[verifier::external_body] fn sub(self, rhs: U256) -> (r: U256) ensures r.v() == self.v() - rhs.v() { unimplemented!() } }
impl vstd::std_specs::ops::DivSpecImpl<U256> for U256 { open spec fn obeys_div_spec() -> bool { false } open spec fn div_req(self, rhs: U256) -> bool { rhs.v() != 0 } open spec fn div_spec(self, rhs: U256) -> U256 { arbitrary() } }
impl std::ops::Div<U256> for U256 { type Output = U256; #[verifier::external_body] fn div(self, rhs: U256) -> (r: U256) ensures r.v() == self.v() / rhs.v() { unimplemented!() } }
impl vstd::std_specs::ops::RemSpecImpl<U256> for U256 { open spec fn obeys_rem_spec() -> bool { false } open spec fn rem_req(self, rhs: U256) -> bool { rhs.v() != 0 } open spec fn rem_spec(self, rhs: U256) -> U256 { arbitrary() } }
impl std::ops::Rem<U256> for U256 { type Output = U256; #[verifier::external_body] fn rem(self, rhs: U256) -> (r: U256) ensures r.v() == self.v() % rhs.v() { unimplemented!() } }
impl vstd::std_specs::ops::ShrSpecImpl<i32> for U256 { open spec fn obeys_shr_spec() -> bool { false } open spec fn shr_req(self, rhs: i32) -> bool { rhs == 64 } open spec fn shr_spec(self, rhs: i32) -> U256 { arbitrary() } }
impl std::ops::Shr<i32> for U256 { type Output = U256; #[verifier::external_body] fn shr(self, rhs: i32) -> (r: U256) ensures r.v() == self.v() / 0x1_0000_0000_0000_0000int { unimplemented!() } }
impl vstd::std_specs::ops::BitAndSpecImpl<U256> for U256 { open spec fn obeys_bitand_spec() -> bool { false } open spec fn bitand_req(self, rhs: U256) -> bool { rhs.v() == 0xFFFF_FFFF_FFFF_FFFFint } open spec fn bitand_spec(self, rhs: U256) -> U256 { arbitrary() } }
impl std::ops::BitAnd<U256> for U256 { type Output = U256; #[verifier::external_body] fn bitand(self, rhs: U256) -> (r: U256) ensures r.v() == self.v() % 0x1_0000_0000_0000_0000int { unimplemented!() } }
}

pub mod sdk_token {
use vstd::prelude::*;
use crate::specs::*;
use crate::ethnum::*;
use crate::u256_math::{Q3};
//@ tags C20
//@ root rust-sdk/core/src
//@ assume SDK shims: U128 = u128 (non-wasm build), CoreError = &'static str, wasm_expose attributes dropped; comparisons of U256 with integer literals, RangeInclusive::contains on U256 and TryInto<u64> are substituted (logged) by the shim methods ne_zero / gt_zero / in_range / try_into_u64_or
pub type U128 = u128;
/// CoreError is `&'static str` in the SDK; Verus cannot reason about str contents, so the shim is an opaque code with one distinct constant per (distinct) message
#[derive(Clone, Copy, Eq)]
pub struct CoreError(pub u16);
impl vstd::std_specs::cmp::PartialEqSpecImpl for CoreError {
    open spec fn obeys_eq_spec() -> bool { true }
    open spec fn eq_spec(&self, other: &CoreError) -> bool { *self == *other }
}
impl PartialEq for CoreError { #[verifier::external_body] fn eq(&self, other: &CoreError) -> (r: bool) { self.0 == other.0 } }
pub const ARITHMETIC_OVERFLOW: CoreError = CoreError(1);
pub const AMOUNT_EXCEEDS_MAX_U64: CoreError = CoreError(2);
pub const SQRT_PRICE_OUT_OF_BOUNDS: CoreError = CoreError(3);
pub const INVALID_TRANSFER_FEE: CoreError = CoreError(4);
pub const INVALID_SLIPPAGE_TOLERANCE: CoreError = CoreError(5);
//@ const constants/token.rs BPS_DENOMINATOR
//@ const constants/swap.rs FEE_RATE_DENOMINATOR MIN_SQRT_PRICE MAX_SQRT_PRICE
//@ subst /\b(sqrt_price_1|sqrt_price_2)\.into\(\)/ => /\1/
//@ subst /\bremainder != 0\b/ => /remainder.ne_zero()/
//@ subst /product & <U256>::from\(u64::MAX\) > 0/ => /(product & <U256>::from(u64::MAX)).gt_zero()/
//@ subst /!\(MIN_SQRT_PRICE\.\.=MAX_SQRT_PRICE\)\.contains\(&result\)/ => /!result.in_range(MIN_SQRT_PRICE, MAX_SQRT_PRICE)/
//@ subst /result\.try_into\(\)\.map_err\(\|_\| AMOUNT_EXCEEDS_MAX_U64\)/ => /result.try_into_u64_or(AMOUNT_EXCEEDS_MAX_U64)/

//@ fn math/token.rs order_prices -> r
    ensures r.0 <= r.1, r.0 as int == min_i(a as int, b as int), r.1 as int == max_i(a as int, b as int),
//@ end

/// SDK token-B amount for a price move == the program's (C20): same value whenever the program succeeds, an error whenever the program fails
//@ fn math/token.rs try_get_amount_delta_b -> r
    ensures
        r matches Ok(v) ==> v as int == delta_b(sqrt_price_1 as int, sqrt_price_2 as int, liquidity as int, round_up),
        delta_b(sqrt_price_1 as int, sqrt_price_2 as int, liquidity as int, round_up) > U64MAX() ==> r is Err,
        // never fails where the program succeeds
        (liquidity as int * abs_diff(sqrt_price_1 as int, sqrt_price_2 as int) <= U128MAX() && delta_b(sqrt_price_1 as int, sqrt_price_2 as int, liquidity as int, round_up) <= U64MAX()) ==> r is Ok,
//@ inject before /let product: U256 = /
    proof {
        let l = liquidity as int; let d = sqrt_price_diff as int;
        assert(d == abs_diff(sqrt_price_1 as int, sqrt_price_2 as int));
        assert(0 <= l * d <= U128MAX() * U128MAX()) by(nonlinear_arith) requires 0 <= l <= U128MAX(), 0 <= d <= U128MAX();
        assert(U128MAX() * U128MAX() < P256()) by(compute);
        vstd::arithmetic::div_mod::lemma_fundamental_div_mod(l * d, Q());
        vstd::arithmetic::div_mod::lemma_div_pos_is_pos(l * d, Q());
        assert((l * d) / Q() <= l * d) by(nonlinear_arith) requires l * d == Q() * ((l * d) / Q()) + (l * d) % Q(), (l * d) % Q() >= 0, (l * d) / Q() >= 0;
    }
//@ end

//@ fn math/token.rs try_get_amount_delta_a -> r
    requires sqrt_price_1 > 0, sqrt_price_2 > 0,
    ensures
        // same value as the program whenever the program's computation does not overflow
        liquidity as int * abs_diff(sqrt_price_1 as int, sqrt_price_2 as int) < Q3() ==> (r matches Ok(v) ==> v as int == delta_a(sqrt_price_1 as int, sqrt_price_2 as int, liquidity as int, round_up)),
        (liquidity as int * abs_diff(sqrt_price_1 as int, sqrt_price_2 as int) < Q3() && delta_a(sqrt_price_1 as int, sqrt_price_2 as int, liquidity as int, round_up) <= U64MAX()) ==> r is Ok,
//@ inject before /let numerator: U256 = /
    proof {
        let l = liquidity as int; let d = sqrt_price_diff as int; let lo = sqrt_price_lower as int; let hi = sqrt_price_upper as int;
        assert(d == abs_diff(sqrt_price_1 as int, sqrt_price_2 as int));
        assert(0 <= l * d <= U128MAX() * U128MAX()) by(nonlinear_arith) requires 0 <= l <= U128MAX(), 0 <= d <= U128MAX();
        assert(0 < lo * hi <= U128MAX() * U128MAX()) by(nonlinear_arith) requires 0 < lo <= U128MAX(), 0 < hi <= U128MAX();
        assert(lo * hi == sqrt_price_1 as int * sqrt_price_2 as int) by(nonlinear_arith)
            requires (lo == sqrt_price_1 as int && hi == sqrt_price_2 as int) || (lo == sqrt_price_2 as int && hi == sqrt_price_1 as int);
        assert(U128MAX() * U128MAX() < P256()) by(compute);
        assert(Q3() * Q() == P256()) by(compute);
        if l * d < Q3() {
            assert(l * d * Q() < P256()) by(nonlinear_arith) requires 0 <= l * d < Q3(), Q3() * Q() == P256(), Q() > 0;
            vstd::arithmetic::div_mod::lemma_small_mod((l * d * Q()) as nat, P256() as nat);
        }
        let n = (l * d * Q()) % P256();
        vstd::arithmetic::div_mod::lemma_mod_bound(l * d * Q(), P256());
        vstd::arithmetic::div_mod::lemma_fundamental_div_mod(n, lo * hi);
        vstd::arithmetic::div_mod::lemma_div_pos_is_pos(n, lo * hi);
        assert(n / (lo * hi) <= n) by(nonlinear_arith) requires n == (lo * hi) * (n / (lo * hi)) + n % (lo * hi), n % (lo * hi) >= 0, n / (lo * hi) >= 0, lo * hi >= 1;
    }
//@ end
/// the same function once more, carrying ONLY the clause that is a known finding (see /verif/known_findings.json)
//@ fn math/token.rs try_get_amount_delta_a -> r as=try_get_amount_delta_a_overflow_clause
    requires sqrt_price_1 > 0, sqrt_price_2 > 0,
    ensures
        // C20: an error on every input the program rejects as overflowing (program: MultiplicationOverflow when L * |dp| >= 2^192)
        liquidity as int * abs_diff(sqrt_price_1 as int, sqrt_price_2 as int) >= Q3() ==> r is Err, //# C20
//@ inject before /let numerator: U256 = /
    proof {
        let l = liquidity as int; let d = sqrt_price_diff as int; let lo = sqrt_price_lower as int; let hi = sqrt_price_upper as int;
        assert(d == abs_diff(sqrt_price_1 as int, sqrt_price_2 as int));
        assert(0 <= l * d <= U128MAX() * U128MAX()) by(nonlinear_arith) requires 0 <= l <= U128MAX(), 0 <= d <= U128MAX();
        assert(0 < lo * hi <= U128MAX() * U128MAX()) by(nonlinear_arith) requires 0 < lo <= U128MAX(), 0 < hi <= U128MAX();
        assert(lo * hi == sqrt_price_1 as int * sqrt_price_2 as int) by(nonlinear_arith)
            requires (lo == sqrt_price_1 as int && hi == sqrt_price_2 as int) || (lo == sqrt_price_2 as int && hi == sqrt_price_1 as int);
        assert(U128MAX() * U128MAX() < P256()) by(compute);
        assert(Q3() * Q() == P256()) by(compute);
        if l * d < Q3() {
            assert(l * d * Q() < P256()) by(nonlinear_arith) requires 0 <= l * d < Q3(), Q3() * Q() == P256(), Q() > 0;
            vstd::arithmetic::div_mod::lemma_small_mod((l * d * Q()) as nat, P256() as nat);
        }
        let n = (l * d * Q()) % P256();
        vstd::arithmetic::div_mod::lemma_mod_bound(l * d * Q(), P256());
        vstd::arithmetic::div_mod::lemma_fundamental_div_mod(n, lo * hi);
        vstd::arithmetic::div_mod::lemma_div_pos_is_pos(n, lo * hi);
        assert(n / (lo * hi) <= n) by(nonlinear_arith) requires n == (lo * hi) * (n / (lo * hi)) + n % (lo * hi), n % (lo * hi) >= 0, n / (lo * hi) >= 0, lo * hi >= 1;
    }
//@ end

//@ subst /: u128 = (current_sqrt_price|current_liquidity)\.into\(\);/ => /: u128 = \1;/
//@ subst /\bcurrent_sqrt_price\.into\(\)/ => /<U256>::from(current_sqrt_price)/
//@ subst /\bamount\.into\(\)/ => /<U256>::from(amount)/
//@ subst /Ok\(result\.as_u128\(\)\.into\(\)\)/ => /Ok(result.as_u128())/
//@ subst /let current_liquidity = <U256>::from\(current_liquidity\);/ => /let current_liquidity_u = current_liquidity; let current_liquidity = <U256>::from(current_liquidity);/

/// SDK next sqrt-price from a token-A amount == the program's get_next_sqrt_price_from_a_round_up
//@ assume SDK try_get_next_sqrt_price_from_a is specified only where its exact-out denominator is positive (L*2^64 > amount*price); outside, the program returns DivideByZero while the SDK subtracts/divides unchecked (U256 underflow wrap or division-by-zero panic) - noted in DESIGN.md, not claimed
//@ fn math/token.rs try_get_next_sqrt_price_from_a -> r
    requires current_sqrt_price > 0, specified_input || current_liquidity as int * Q() > amount as int * current_sqrt_price as int,
    ensures
        amount == 0 ==> r == Ok::<U128, CoreError>(current_sqrt_price),
        // same value whenever the program's numerator does not overflow 2^256 (L * p < 2^192)
        (amount != 0 && (current_liquidity as int * current_sqrt_price as int) < Q3()) ==> (r matches Ok(v) ==> v as int == next_from_a(current_sqrt_price as int, current_liquidity as int, amount as int, specified_input) && price_ok(v as int)),
//@ inject before /let p = <U256>::from\(current_sqrt_price\)/
    proof {
        let l = current_liquidity as int; let pr = current_sqrt_price as int; let x = amount as int;
        assert(0 < pr * x <= U128MAX() * U64MAX()) by(nonlinear_arith) requires 0 < pr <= U128MAX(), 0 < x <= U64MAX();
        assert(0 <= l * pr <= U128MAX() * U128MAX()) by(nonlinear_arith) requires 0 <= l <= U128MAX(), 0 < pr <= U128MAX();
        assert(U128MAX() * U128MAX() < P256()) by(compute);
        assert(U128MAX() * U64MAX() + U128MAX() * Q() < P256()) by(compute);
        assert(Q3() * Q() == P256()) by(compute);
        assert(0 <= l * Q() <= U128MAX() * Q()) by(nonlinear_arith) requires 0 <= l <= U128MAX();
        assert((l * Q()) % P256() == l * Q()) by { vstd::arithmetic::div_mod::lemma_small_mod((l * Q()) as nat, P256() as nat); }
        if l * pr < Q3() {
            assert(l * pr * Q() < P256()) by(nonlinear_arith) requires 0 <= l * pr < Q3(), Q3() * Q() == P256(), Q() > 0;
            vstd::arithmetic::div_mod::lemma_small_mod((l * pr * Q()) as nat, P256() as nat);
        }
        assert(pr * x == x * pr) by(nonlinear_arith);
        vstd::arithmetic::div_mod::lemma_mod_bound(l * pr * Q(), P256());
        let n = (l * pr * Q()) % P256();
        let den = if specified_input { l * Q() + pr * x } else { l * Q() - pr * x };
        assert(den > 0);
        vstd::arithmetic::div_mod::lemma_fundamental_div_mod(n, den);
        vstd::arithmetic::div_mod::lemma_div_pos_is_pos(n, den);
        assert(n / den <= n) by(nonlinear_arith) requires n == den * (n / den) + n % den, n % den >= 0, n / den >= 0, den >= 1;
        if n % den != 0 {
            assert(den >= 2) by { if den == 1 { vstd::arithmetic::div_mod::lemma_mod_bound(n, 1); } };
            assert(n / den + 1 <= n) by(nonlinear_arith) requires n == den * (n / den) + n % den, n % den >= 1, n / den >= 0, den >= 2;
        }
    }
//@ end
/// the same function once more, carrying ONLY the clause that is a known finding
//@ fn math/token.rs try_get_next_sqrt_price_from_a -> r as=try_get_next_sqrt_price_from_a_overflow_clause
    requires current_sqrt_price > 0, specified_input || current_liquidity as int * Q() > amount as int * current_sqrt_price as int,
    ensures
        // C20: an error where the program rejects the computation as overflowing
        (amount != 0 && current_liquidity as int * current_sqrt_price as int >= Q3()) ==> r is Err, //# C20
//@ inject before /let p = <U256>::from\(current_sqrt_price\)/
    proof {
        let l = current_liquidity as int; let pr = current_sqrt_price as int; let x = amount as int;
        assert(0 < pr * x <= U128MAX() * U64MAX()) by(nonlinear_arith) requires 0 < pr <= U128MAX(), 0 < x <= U64MAX();
        assert(0 <= l * pr <= U128MAX() * U128MAX()) by(nonlinear_arith) requires 0 <= l <= U128MAX(), 0 < pr <= U128MAX();
        assert(U128MAX() * U128MAX() < P256()) by(compute);
        assert(U128MAX() * U64MAX() + U128MAX() * Q() < P256()) by(compute);
        assert(Q3() * Q() == P256()) by(compute);
        assert(0 <= l * Q() <= U128MAX() * Q()) by(nonlinear_arith) requires 0 <= l <= U128MAX();
        assert((l * Q()) % P256() == l * Q()) by { vstd::arithmetic::div_mod::lemma_small_mod((l * Q()) as nat, P256() as nat); }
        if l * pr < Q3() {
            assert(l * pr * Q() < P256()) by(nonlinear_arith) requires 0 <= l * pr < Q3(), Q3() * Q() == P256(), Q() > 0;
            vstd::arithmetic::div_mod::lemma_small_mod((l * pr * Q()) as nat, P256() as nat);
        }
        assert(pr * x == x * pr) by(nonlinear_arith);
        vstd::arithmetic::div_mod::lemma_mod_bound(l * pr * Q(), P256());
        let n = (l * pr * Q()) % P256();
        let den = if specified_input { l * Q() + pr * x } else { l * Q() - pr * x };
        assert(den > 0);
        vstd::arithmetic::div_mod::lemma_fundamental_div_mod(n, den);
        vstd::arithmetic::div_mod::lemma_div_pos_is_pos(n, den);
        assert(n / den <= n) by(nonlinear_arith) requires n == den * (n / den) + n % den, n % den >= 0, n / den >= 0, den >= 1;
        if n % den != 0 {
            assert(den >= 2) by { if den == 1 { vstd::arithmetic::div_mod::lemma_mod_bound(n, 1); } };
            assert(n / den + 1 <= n) by(nonlinear_arith) requires n == den * (n / den) + n % den, n % den >= 1, n / den >= 0, den >= 2;
        }
    }
//@ end

//@ subst /let current_sqrt_price = <U256>::from\(current_sqrt_price\);/ => /let current_sqrt_price_u = current_sqrt_price; let current_sqrt_price = <U256>::from(current_sqrt_price);/
/// SDK next sqrt-price from a token-B amount == the program's get_next_sqrt_price_from_b_round_down (plus the SDK's own bound check)
//@ fn math/token.rs try_get_next_sqrt_price_from_b -> r
    requires current_liquidity > 0, specified_input || current_sqrt_price as int >= div_round(amount as int * Q(), current_liquidity as int, true),
    ensures
        amount == 0 ==> r == Ok::<U128, CoreError>(current_sqrt_price),
        amount != 0 ==> (r matches Ok(v) ==> v as int == next_from_b(current_sqrt_price as int, current_liquidity as int, amount as int, specified_input) && price_ok(v as int)),
        (amount != 0 && price_ok(next_from_b(current_sqrt_price as int, current_liquidity as int, amount as int, specified_input))) ==> r is Ok,
//@ inject before /let amount_shifted = /
    proof {
        let l = current_liquidity_u as int; let x = amount as int;
        assert(0 < x * Q() <= U64MAX() * Q()) by(nonlinear_arith) requires 0 < x <= U64MAX();
        assert(U64MAX() * Q() + U128MAX() + 1 < P256()) by(compute);
        vstd::arithmetic::div_mod::lemma_small_mod((x * Q()) as nat, P256() as nat);
        vstd::arithmetic::div_mod::lemma_fundamental_div_mod(x * Q(), l);
        vstd::arithmetic::div_mod::lemma_div_pos_is_pos(x * Q(), l);
        assert((x * Q()) / l <= x * Q()) by(nonlinear_arith) requires x * Q() == l * ((x * Q()) / l) + (x * Q()) % l, (x * Q()) % l >= 0, (x * Q()) / l >= 0, l >= 1;
    }
//@ end

/// a * product / denominator with the given rounding, as u64
//@ fn math/token.rs try_mul_div -> r pub
    requires denominator > 0,
    ensures
        (amount == 0 || product == 0) ==> r == Ok::<u64, CoreError>(0u64),
        r matches Ok(v) ==> v as int == div_round(amount as int * product as int, denominator as int, round_up),
        (amount as int * product as int <= U128MAX() && div_round(amount as int * product as int, denominator as int, round_up) <= U64MAX()) ==> r is Ok,
//@ rewrite /result\.try_into_u64_or\(AMOUNT_EXCEEDS_MAX_U64\)/ => /u128_try_into_u64_or(result, AMOUNT_EXCEEDS_MAX_U64)/
//@ rewrite /let amount: u128 = <U256>::from\(amount\);/ => /let amount: u128 = amount as u128;/
//@ rewrite /remainder\.ne_zero\(\)/ => /remainder != 0/
//@ inject at /^\{/
    proof { vstd::arithmetic::div_mod::lemma_div_of0(denominator as int); vstd::arithmetic::div_mod::lemma_small_mod(0, denominator as nat);
            assert(amount as int * product as int == 0 <==> (amount == 0 || product == 0)) by(nonlinear_arith) requires amount >= 0, product >= 0; }
//@ inject before /let quotient = numerator \/ denominator;/
    proof { crate::bit_math::lemma_div_round_fits(numerator as int, denominator as int);
            assert(amount as int * product as int == 0 <==> (amount == 0 || product == 0)) by(nonlinear_arith) requires amount >= 0, product >= 0; }
//@ end
#[verifier::external_body]
pub fn u128_try_into_u64_or(x: u128, e: CoreError) -> (r: Result<u64, CoreError>)
    ensures x <= u64::MAX ==> r == Ok::<u64, CoreError>(x as u64), x > u64::MAX ==> r == Err::<u64, CoreError>(e),
{ unimplemented!() }

/// exact-in budget net of the swap fee == the program's amount_calc in compute_swap: floor(amount * (1e6 - rate) / 1e6)
//@ fn math/token.rs try_apply_swap_fee -> r
    requires fee_rate <= 1_000_000,
    ensures r == Ok::<u64, CoreError>(net_of_fee(amount as int, fee_rate as int) as u64),
//@ rewrite /<u128>::from\(FEE_RATE_DENOMINATOR\) - <u128>::from\(fee_rate\)/ => /(FEE_RATE_DENOMINATOR as u128) - (fee_rate as u128)/
//@ rewrite /FEE_RATE_DENOMINATOR\.into\(\)/ => /FEE_RATE_DENOMINATOR as u128/
//@ inject at /^\{/
    proof { crate::curve_lemmas::lemma_fee_fits(amount as int, if fee_rate <= 100_000 { fee_rate as int } else { 0 });
            let m = 1_000_000 - fee_rate as int;
            assert(0 <= amount as int * m <= amount as int * 1_000_000) by(nonlinear_arith) requires 0 <= amount as int, 0 <= m <= 1_000_000;
            vstd::arithmetic::div_mod::lemma_fundamental_div_mod(amount as int * m, 1_000_000);
            vstd::arithmetic::div_mod::lemma_div_pos_is_pos(amount as int * m, 1_000_000);
            assert((amount as int * m) / 1_000_000 <= amount as int) by(nonlinear_arith)
                requires amount as int * m == 1_000_000 * ((amount as int * m) / 1_000_000) + (amount as int * m) % 1_000_000, (amount as int * m) % 1_000_000 >= 0, amount as int * m <= amount as int * 1_000_000;
    }
//@ end

/// slippage-adjusted bounds of a quote are on the safe side of the estimate (C20)
//@ fn math/token.rs try_get_max_amount_with_slippage_tolerance -> r
    ensures slippage_tolerance_bps > 10_000 ==> r is Err,
        r matches Ok(v) ==> v >= amount && v as int == div_round(amount as int * (10_000 + slippage_tolerance_bps as int), 10_000, true),
//@ rewrite /<u128>::from\(BPS_DENOMINATOR\) \+ <u128>::from\(slippage_tolerance_bps\)/ => /(BPS_DENOMINATOR as u128) + (slippage_tolerance_bps as u128)/
//@ rewrite /BPS_DENOMINATOR\.into\(\)/ => /BPS_DENOMINATOR as u128/
//@ inject at /^\{/
    proof { let a = amount as int; let s = slippage_tolerance_bps as int;
            assert(a * (10_000 + s) >= a * 10_000) by(nonlinear_arith) requires a >= 0, s >= 0;
            crate::curve_lemmas::lemma_round_bounds(a * (10_000 + s), 10_000); }
//@ end
//@ fn math/token.rs try_get_min_amount_with_slippage_tolerance -> r
    ensures slippage_tolerance_bps > 10_000 ==> r is Err,
        r matches Ok(v) ==> v <= amount && v as int == div_round(amount as int * (10_000 - slippage_tolerance_bps as int), 10_000, false),
//@ rewrite /<u128>::from\(BPS_DENOMINATOR\) - <u128>::from\(slippage_tolerance_bps\)/ => /(BPS_DENOMINATOR as u128) - (slippage_tolerance_bps as u128)/
//@ rewrite /BPS_DENOMINATOR\.into\(\)/ => /BPS_DENOMINATOR as u128/
//@ inject at /^\{/
    proof { let a = amount as int; let s = slippage_tolerance_bps as int;
            if s <= 10_000 { assert(0 <= a * (10_000 - s) <= a * 10_000) by(nonlinear_arith) requires a >= 0, 0 <= s <= 10_000;
            crate::curve_lemmas::lemma_round_bounds(a * (10_000 - s), 10_000); } }
//@ end
}
