//@ needs specs errors stdspecs lebytes anchor_shim state_core int_division_math sparse_swap tick_arrays authority
// C10 / C15 at handler level: a (fixed) tick array is created only at a valid start index for the pool's spacing, records THAT pool's key, and lives at the
// address derived from ("tick_array", pool, start index in decimal) - which is what makes "the tick array of pool P starting at s" unique.
pub mod tick_array_init {
use vstd::prelude::*;
use crate::errors::ErrorCode;
use crate::specs::*;
use crate::anchor_shim::*;
use crate::authority::Signer;
use crate::state_core::{Whirlpool, Tick};
use crate::sparse_swap::valid_start;
use crate::tick_arrays::TickArray;
broadcast use crate::anchor_shim::ax_qmark_anchor;
//@ tags C10 C15
//@ assume tick-array-init shims: Context (accounts behind &mut), AccountLoader<FixedTickArray>::load_init hands out the zeroed account mutably, Program / System markers
pub type FixedTickArray = TickArray;
pub struct Context<'a, 'b, 'c, 'info, T> { pub accounts: &'b mut T, pub p: core::marker::PhantomData<(&'a (), &'c (), &'info ())> }
pub struct Program<'info, T> { pub k: Pubkey, pub p: core::marker::PhantomData<&'info T> }
impl<'info, T> SKey for Program<'info, T> { open spec fn skey(&self) -> Pubkey { self.k } }
pub struct System {}
pub struct AccountLoader<'info, T> { pub data: T, pub k: Pubkey, pub p: core::marker::PhantomData<&'info ()> }
impl<'info, T> AccountLoader<'info, T> {
    #[verifier::external_body]
    pub fn load_init(&mut self) -> (r: Result<&mut T>) ensures r matches Ok(x) ==> *x == old(self).data && *final(x) == final(self).data && final(self).k == old(self).k, r is Err ==> *final(self) == *old(self) { unimplemented!() }
}
impl<'info, T> SKey for AccountLoader<'info, T> { open spec fn skey(&self) -> Pubkey { self.k } }

impl TickArray {
/// an array starts only at a valid start index for the pool's spacing and then names the pool; its ticks are untouched
//@ fn state/fixed_tick_array.rs initialize in=/^impl TickArray \{/ -> r canary
    requires whirlpool.data.tick_spacing > 0,
    ensures
        r is Ok <==> valid_start(start_tick_index as int, whirlpool.data.tick_spacing as int),
        r is Ok ==> *final(self) == (TickArray { whirlpool: whirlpool.k, start_tick_index: start_tick_index, ..*old(self) }),
        r is Err ==> *final(self) == *old(self),
//@ end
}

//@ struct instructions/initialize_tick_array.rs InitializeTickArray
//@ constraints instructions/initialize_tick_array.rs InitializeTickArray
//@ fn instructions/initialize_tick_array.rs handler -> r as=initialize_tick_array_handler canary
    requires constraints_InitializeTickArray(old(ctx.accounts), start_tick_index), old(ctx.accounts).whirlpool.data.tick_spacing > 0,
    ensures
        r is Ok ==> valid_start(start_tick_index as int, old(ctx.accounts).whirlpool.data.tick_spacing as int), //# C10
        r is Ok ==> final(ctx.accounts).tick_array.data.whirlpool == old(ctx.accounts).whirlpool.k && final(ctx.accounts).tick_array.data.start_tick_index == start_tick_index
            && final(ctx.accounts).tick_array.data.ticks == old(ctx.accounts).tick_array.data.ticks, //# C15 C10
        r is Ok ==> old(ctx.accounts).tick_array.skey() == pda_of(seq![Seed::Lit(0x7469636b5f6172726179int), Seed::Key(old(ctx.accounts).whirlpool.k), Seed::Dec(start_tick_index as int)]), //# C15 C10
//@ rewrite /let mut tick_array = ctx\.accounts\.tick_array\.load_init\(\)\?;/ => /let tick_array = ctx.accounts.tick_array.load_init()?;/
//@ end

// ------------------------------------------------------------------ dynamic tick array: initialisation at byte level
//@ assume dynamic-array init shims: `self.0[o..o + 4].copy_from_slice(&x.to_le_bytes())` / `self.0[o..o + 32].copy_from_slice(&k.to_bytes())` are the helpers write_i32_le / write_key (copy of 4 / 32 bytes at an offset, every other byte untouched)
use crate::tick_arrays::{DynamicTickArrayLoader, DYN_MAX_LEN};
#[allow(unused_imports)]
use crate::tick_arrays::TickArrayType;
use crate::lebytes::*;
#[verifier::external_body]
pub fn write_i32_le(a: &mut [u8; DYN_MAX_LEN], off: usize, v: i32)
    requires off + 4 <= DYN_MAX_LEN,
    ensures i32_from_le_bytes_spec([final(a)[off as int], final(a)[off + 1], final(a)[off + 2], final(a)[off + 3]]) == v, forall|q: int| 0 <= q < DYN_MAX_LEN && (q < off || q >= off + 4) ==> final(a)[q] == old(a)[q],
{ unimplemented!() }
#[verifier::external_body]
pub fn write_key(a: &mut [u8; DYN_MAX_LEN], off: usize, k: Pubkey)
    requires off + 32 <= DYN_MAX_LEN,
    ensures forall|q: int| 0 <= q < 32 ==> final(a)[off + q] == k.0[q], forall|q: int| 0 <= q < DYN_MAX_LEN && (q < off || q >= off + 32) ==> final(a)[q] == old(a)[q],
{ unimplemented!() }
pub uninterp spec fn i32_from_le_bytes_spec(b: [u8; 4]) -> i32;
impl DynamicTickArrayLoader {
/// C10 / C13: a dynamic array, like a fixed one, starts only at a valid start index for the pool's spacing (the ARGUMENT is what is checked and stored) and records the pool's key
//@ fn state/dynamic_tick_array.rs initialize in=/^impl DynamicTickArrayLoader \{/ -> r canary
    requires whirlpool.data.tick_spacing > 0,
    ensures
        r is Ok <==> valid_start(start_tick_index as int, whirlpool.data.tick_spacing as int), //# C10 C13
        r is Ok ==> i32_from_le_bytes_spec([final(self).0[0], final(self).0[1], final(self).0[2], final(self).0[3]]) == start_tick_index
            && (forall|q: int| 0 <= q < 32 ==> final(self).0[4 + q] == whirlpool.k.0[q]), //# C10 C15
        r is Err ==> final(self).0 == old(self).0,
//@ rewrite /self\.0\[Self::START_TICK_INDEX_OFFSET\.\.Self::START_TICK_INDEX_OFFSET \+ 4\]\s*\.copy_from_slice\(&start_tick_index\.to_le_bytes\(\)\);/ => /write_i32_le(&mut self.0, Self::START_TICK_INDEX_OFFSET, start_tick_index);/
//@ rewrite /self\.0\[Self::WHIRLPOOL_OFFSET\.\.Self::WHIRLPOOL_OFFSET \+ 32\]\s*\.copy_from_slice\(&whirlpool\.key\(\)\.to_bytes\(\)\);/ => /write_key(&mut self.0, Self::WHIRLPOOL_OFFSET, whirlpool.key());/
//@ inject at /^\s*\{/
        proof { assert(Self::START_TICK_INDEX_OFFSET == 0 && Self::WHIRLPOOL_OFFSET == 4); }
//@ end
}
}
