//@ needs swap_manager
// The same real swap loop for pools WITH adaptive fee (adaptive_fee_info == Some): C03/C05/C06/C07 as for static-fee pools, plus the C14 link between
// the fee-rate manager's tick group and the price being traded (group_rel) that justifies "every part of a swap is charged the rate of that price's
// tick group".
pub mod swap_manager_adaptive {
use vstd::prelude::*;
use std::convert::TryInto;
use crate::errors::ErrorCode;
use crate::specs::*;
use crate::anchor_shim::*;
use crate::state_core::{Tick, TickUpdate, Whirlpool, WhirlpoolRewardInfo, NUM_REWARDS, TICK_ARRAY_SIZE};
use crate::liquidity_math::*;
use crate::managers::*;
use crate::swap_fees::*;
use crate::swap_math::*;
use crate::token_math::{AmountDeltaU64};
use crate::tick_math::*;
use crate::oracle::*;
use crate::fee_rate_manager::*;
use crate::swap_manager::*;
//@ tags C03 C06 C07 C05 C01 C14

/// the tick group g of the fee-rate manager is the group of the current price: price(g * gs) <= p <= price((g + 1) * gs) (boundary ticks clamped to the
/// tick range), and g stays inside the tick range
pub open spec fn group_rel(g: int, gs: int, p: int) -> bool {
    group_price(g, gs) <= p <= group_price(g + 1, gs) && -443637 - gs < g * gs <= 443636
}
/// p lies in tick group g or on one of its two boundary prices
pub open spec fn in_group(g: int, gs: int, p: int) -> bool { group_price(g, gs) <= p <= group_price(g + 1, gs) }
/// C14 for one swap on an adaptive-fee pool: what is stored for the next swap
pub open spec fn adaptive_post(w: Whirlpool, info: AdaptiveFeeInfo, a_to_b: bool, timestamp: u64, u: PostSwapUpdate) -> bool {
    let c = info.constants; let gs = c.tick_group_size as int;
    let g0 = w.tick_current_index as int / gs;
    u.next_adaptive_fee_info matches Some(i) && reference_after(info.variables, g0 as i32, timestamp, c) matches Some(rv) && ({
        &&& i.constants == c
        // the reference follows the filter / decay / reset rules, evaluated once at the start of the swap
        &&& i.variables.volatility_reference == rv.volatility_reference && i.variables.tick_group_index_reference == rv.tick_group_index_reference
        &&& i.variables.last_reference_update_timestamp == rv.last_reference_update_timestamp
        // the major-swap timestamp is set exactly when the price moved by the configured threshold
        &&& i.variables.last_major_swap_timestamp == (if major_swap_spec(w.sqrt_price as int, u.next_sqrt_price as int, c.major_swap_threshold_ticks as int) { timestamp } else { info.variables.last_major_swap_timestamp })
        // the stored accumulator is that of a tick group the final price lies in (or on the boundary of): min(reference + distance * 10_000, max)
        &&& exists|g: int| in_group(g, gs, u.next_sqrt_price as int) && i.variables.volatility_accumulator as int == #[trigger] accumulator_at(rv, g, c)
        &&& i.variables.volatility_accumulator <= c.max_volatility_accumulator
    })
}
/// everything in the manager except the tick group and the accumulator is fixed for the duration of one swap
pub open spec fn mgr_fixed(m: FeeRateManager, m0: FeeRateManager) -> bool {
    m is Adaptive && m0 is Adaptive && m->a_to_b == m0->a_to_b && m->Adaptive_static_fee_rate == m0->Adaptive_static_fee_rate && m->adaptive_fee_constants == m0->adaptive_fee_constants
    && m->core_tick_group_range_lower_bound == m0->core_tick_group_range_lower_bound && m->core_tick_group_range_upper_bound == m0->core_tick_group_range_upper_bound
    && m->adaptive_fee_variables == (AdaptiveFeeVariables { volatility_accumulator: m->adaptive_fee_variables.volatility_accumulator, ..m0->adaptive_fee_variables })
}
/// the core range bounds carry the prices of their boundary ticks, which are group boundaries
pub open spec fn core_ok(m: FeeRateManager) -> bool {
    let gs = m->adaptive_fee_constants.tick_group_size as int;
    (m->core_tick_group_range_lower_bound matches Some(b) ==> tick_ok(b.0 as int * gs) && b.1 as int == price_at(b.0 as int * gs))
    && (m->core_tick_group_range_upper_bound matches Some(b) ==> tick_ok(b.0 as int * gs + gs) && b.1 as int == price_at(b.0 as int * gs + gs))
}
/// swap-time validity of the adaptive constants w.r.t. the pool (what AdaptiveFeeConstants::validate_constants establishes) and of the stored variables
pub open spec fn adaptive_ok(info: AdaptiveFeeInfo, tick_spacing: u16) -> bool {
    inv14(info.constants, info.variables) && ref_ok(info.constants, info.variables) && info.constants.valid_for(tick_spacing as int)
    && info.constants.major_swap_threshold_ticks as int <= 443636
}

//@ fn manager/swap_manager.rs swap -> r nodec as=swap_adaptive canary
    requires
        *adaptive_fee_info matches Some(info) && adaptive_ok(info, whirlpool.tick_spacing),
        whirlpool.fee_rate <= 60_000, whirlpool.protocol_fee_rate <= 2_500, whirlpool.tick_spacing > 0,
        tick_price_consistent(whirlpool.tick_current_index as int, whirlpool.sqrt_price as int),
    ensures
        r matches Ok(u) ==> swap_post(*whirlpool, amount, sqrt_price_limit, amount_specified_is_input, a_to_b, *u),
        r matches Ok(u) ==> adaptive_post(*whirlpool, adaptive_fee_info->0, a_to_b, timestamp, *u), //# C14
//@ rewrite /\.map_or_else\(\|_\| \(None, false\), \|tick\| \(Some\(tick\), tick\.initialized\)\)/ => /.map_or_else_tick()/
//@ loop 0
        invariant
            tick_spacing == whirlpool.tick_spacing, fee_rate == whirlpool.fee_rate, protocol_fee_rate == whirlpool.protocol_fee_rate,
            whirlpool.fee_rate <= 60_000, whirlpool.protocol_fee_rate <= 2_500, whirlpool.tick_spacing > 0,
            fee_rate_manager.wf(), mgr_fixed(fee_rate_manager, g_m0), core_ok(g_m0), g_m0->a_to_b == a_to_b, g_m0->Adaptive_static_fee_rate == fee_rate,
            g_m0->adaptive_fee_constants.valid_for(tick_spacing as int), g_m0->adaptive_fee_constants.major_swap_threshold_ticks as int <= 443636,
            price_ok(adjusted_sqrt_price_limit as int), amount_remaining <= amount, amount != 0,
            adjusted_sqrt_price_limit as int == (if sqrt_price_limit == 0 { if a_to_b { MIN_PRICE() } else { MAX_PRICE() } } else { sqrt_price_limit as int }),
            a_to_b ==> adjusted_sqrt_price_limit <= curr_sqrt_price <= whirlpool.sqrt_price,
            !a_to_b ==> whirlpool.sqrt_price <= curr_sqrt_price <= adjusted_sqrt_price_limit,
            tick_price_consistent(curr_tick_index as int, curr_sqrt_price as int),
            curr_protocol_fee <= fee_sum,
            a_to_b ==> adjusted_sqrt_price_limit < whirlpool.sqrt_price, !a_to_b ==> adjusted_sqrt_price_limit > whirlpool.sqrt_price,
            g_lo <= curr_tick_index <= g_hi, //# C05
            forall|t: int| g_lo < t <= g_hi ==> !#[trigger] seq_init(*swap_tick_sequence, t), //# C05
            curr_liquidity == g_liq, //# C05
            // C14: the stored accumulator belongs to a group the current price lies in (once the first step has been made)
            g_upd || (amount_remaining == amount && curr_sqrt_price == whirlpool.sqrt_price), //# C14
            g_upd ==> in_group(g_acc, g_m0->adaptive_fee_constants.tick_group_size as int, curr_sqrt_price as int)
                && fee_rate_manager->adaptive_fee_variables.volatility_accumulator as int == accumulator_at(g_m0->adaptive_fee_variables, g_acc, g_m0->adaptive_fee_constants), //# C14
            // C14: while the swap goes on, the manager's tick group is the group of the current price
            (amount_remaining > 0 && adjusted_sqrt_price_limit != curr_sqrt_price) ==> group_rel(fee_rate_manager->tick_group_index as int, g_m0->adaptive_fee_constants.tick_group_size as int, curr_sqrt_price as int), //# C14
            (amount_remaining > 0 && adjusted_sqrt_price_limit != curr_sqrt_price) ==> (if a_to_b { (curr_tick_index as int) < (fee_rate_manager->tick_group_index as int + 1) * g_m0->adaptive_fee_constants.tick_group_size as int }
                else { curr_tick_index as int >= fee_rate_manager->tick_group_index as int * g_m0->adaptive_fee_constants.tick_group_size as int }), //# C14
//@ loop 1
            invariant_except_break
                group_rel(fee_rate_manager->tick_group_index as int, g_m0->adaptive_fee_constants.tick_group_size as int, curr_sqrt_price as int), //# C14
                (if a_to_b { (next_tick_index as int) < (fee_rate_manager->tick_group_index as int + 1) * g_m0->adaptive_fee_constants.tick_group_size as int }
                    else { next_tick_index as int > fee_rate_manager->tick_group_index as int * g_m0->adaptive_fee_constants.tick_group_size as int }), //# C14
            invariant
                tick_spacing == whirlpool.tick_spacing, fee_rate == whirlpool.fee_rate, protocol_fee_rate == whirlpool.protocol_fee_rate,
                whirlpool.fee_rate <= 60_000, whirlpool.protocol_fee_rate <= 2_500, whirlpool.tick_spacing > 0,
                fee_rate_manager.wf(), mgr_fixed(fee_rate_manager, g_m0), core_ok(g_m0), g_m0->a_to_b == a_to_b, g_m0->Adaptive_static_fee_rate == fee_rate,
                g_m0->adaptive_fee_constants.valid_for(tick_spacing as int), g_m0->adaptive_fee_constants.major_swap_threshold_ticks as int <= 443636,
                price_ok(adjusted_sqrt_price_limit as int), amount_remaining <= amount, amount != 0,
                adjusted_sqrt_price_limit as int == (if sqrt_price_limit == 0 { if a_to_b { MIN_PRICE() } else { MAX_PRICE() } } else { sqrt_price_limit as int }),
                a_to_b ==> adjusted_sqrt_price_limit <= curr_sqrt_price <= whirlpool.sqrt_price,
                !a_to_b ==> whirlpool.sqrt_price <= curr_sqrt_price <= adjusted_sqrt_price_limit,
                tick_price_consistent(curr_tick_index as int, curr_sqrt_price as int),
                curr_protocol_fee <= fee_sum,
                a_to_b ==> adjusted_sqrt_price_limit < whirlpool.sqrt_price, !a_to_b ==> adjusted_sqrt_price_limit > whirlpool.sqrt_price,
                next_array_index < 3,
                tick_ok(next_tick_index as int), next_tick_sqrt_price as int == price_at(next_tick_index as int), price_ok(sqrt_price_target as int),
                next_tick_index as int % tick_spacing as int == 0 || (a_to_b && next_tick_index == -443636) || (!a_to_b && next_tick_index == 443636),
                a_to_b ==> sqrt_price_target as int == max_i(adjusted_sqrt_price_limit as int, next_tick_sqrt_price as int) && sqrt_price_target <= curr_sqrt_price,
                !a_to_b ==> sqrt_price_target as int == min_i(adjusted_sqrt_price_limit as int, next_tick_sqrt_price as int) && sqrt_price_target >= curr_sqrt_price,
                g_lo <= curr_tick_index <= g_hi, //# C05
                forall|t: int| g_lo < t <= g_hi ==> !#[trigger] seq_init(*swap_tick_sequence, t), //# C05
                curr_liquidity == g_liq, //# C05
                a_to_b ==> g_lo <= next_tick_index, !a_to_b ==> next_tick_index <= g_hi + 1, //# C05
                g_upd || (amount_remaining == amount && curr_sqrt_price == whirlpool.sqrt_price), //# C14
                g_upd ==> in_group(g_acc, g_m0->adaptive_fee_constants.tick_group_size as int, curr_sqrt_price as int)
                    && fee_rate_manager->adaptive_fee_variables.volatility_accumulator as int == accumulator_at(g_m0->adaptive_fee_variables, g_acc, g_m0->adaptive_fee_constants), //# C14
            ensures
                (amount_remaining > 0 && adjusted_sqrt_price_limit != curr_sqrt_price) ==> group_rel(fee_rate_manager->tick_group_index as int, g_m0->adaptive_fee_constants.tick_group_size as int, curr_sqrt_price as int), //# C14
                (amount_remaining > 0 && adjusted_sqrt_price_limit != curr_sqrt_price) ==> (if a_to_b { (curr_tick_index as int) < (fee_rate_manager->tick_group_index as int + 1) * g_m0->adaptive_fee_constants.tick_group_size as int }
                    else { curr_tick_index as int >= fee_rate_manager->tick_group_index as int * g_m0->adaptive_fee_constants.tick_group_size as int }), //# C14
//@ inject before /while amount_remaining > 0 && adjusted_sqrt_price_limit != curr_sqrt_price \{/
    // C06 / C07: the LP share of this swap's fees accrues to the fee growth of the INPUT token (token A for a->b, token B for b->a), whatever the mode
    proof { assert(curr_fee_growth_global_input == (if a_to_b { whirlpool.fee_growth_global_a } else { whirlpool.fee_growth_global_b })); } //# C06 C07 C01
    let ghost mut g_lo: int = curr_tick_index as int; let ghost mut g_hi: int = curr_tick_index as int; let ghost mut g_liq: u128 = curr_liquidity;
    let ghost g_m0 = fee_rate_manager; let ghost mut g_upd: bool = false; let ghost mut g_acc: int = 0;
    proof { axiom_price_at(); lemma_new_group(*whirlpool, a_to_b, timestamp, adaptive_fee_info->0); }
//@ inject before /let \(next_tick_sqrt_price, sqrt_price_target\) =/
        proof { axiom_price_at(); }
        proof { if a_to_b { if (next_tick_index as int) < g_lo { g_lo = next_tick_index as int; } } else { if next_tick_index as int - 1 > g_hi { g_hi = next_tick_index as int - 1; } } }
//@ inject before /fee_rate_manager\.update_volatility_accumulator\(\)\?;/
            proof { axiom_price_at(); }
            let ghost g_step_liquidity = curr_liquidity; let ghost g_step_price = curr_sqrt_price; let ghost g_fee_split_done = false;
            let ghost g_step_group = fee_rate_manager->tick_group_index as int;
//@ inject after /fee_rate_manager\.update_volatility_accumulator\(\)\?;/
            // C14: this step is charged static + adaptive rate of the manager's tick group, which is the group of the price the step starts from
            proof { g_upd = true; g_acc = g_step_group; lemma_gp_mono(g_step_group, g_step_group + 1, g_m0->adaptive_fee_constants.tick_group_size as int); }
//@ inject before /let swap_computation = compute_swap\(/
            proof { lemma_bounded_side(fee_rate_manager, curr_sqrt_price as int, sqrt_price_target, curr_liquidity); }
            let ghost g_rem_before = amount_remaining;
//@ inject before /let \(next_protocol_fee, next_fee_growth_global_input\) = calculate_fees\(/
            proof { assert(curr_liquidity == g_step_liquidity && curr_sqrt_price == g_step_price); } //# C06 C01
            let ghost g_proto_before = curr_protocol_fee; let ghost g_growth_before = curr_fee_growth_global_input;
//@ inject before /^\s*curr_protocol_fee = next_protocol_fee;/
            // C06 / C01: the split that is booked is the one of THIS step's fee, with the pool's protocol rate, against the liquidity in range during the step and the running accumulators
            proof { assert(fees_booked(swap_computation.fee_amount, protocol_fee_rate, g_step_liquidity, g_proto_before, g_growth_before, next_protocol_fee, next_fee_growth_global_input)); } //# C06 C01
            // a step that stops short of its (bounded) target has used up the whole amount
            proof { assert(swap_computation.next_price != bounded_sqrt_price_target ==> amount_remaining == 0); }
//@ inject before /^\s*if !?adaptive_fee_update_skipped \{/
            let ghost g_mgr = fee_rate_manager;
            proof { lemma_group_bounds(g_step_group, g_m0->adaptive_fee_constants.tick_group_size as int, g_step_price as int); }
//@ inject before /if amount_remaining == 0 \|\| curr_sqrt_price == sqrt_price_target \{/
            proof {
                let gs = g_m0->adaptive_fee_constants.tick_group_size as int; let ts = tick_spacing as int;
                let g2 = fee_rate_manager->tick_group_index as int;
                lemma_acc_group(g_mgr, fee_rate_manager, g_step_group, g_step_price as int, curr_sqrt_price as int, bounded_sqrt_price_target as int, sqrt_price_target, g_step_liquidity, adaptive_fee_update_skipped, next_tick_sqrt_price as int, next_tick_index as int);
                if adaptive_fee_update_skipped {
                    let last = skip_last_group(curr_sqrt_price as int, next_tick_sqrt_price as int, next_tick_index as int, gs, a_to_b);
                    if (if a_to_b { last < g_step_group } else { last > g_step_group }) { g_acc = last; }
                }
                if amount_remaining > 0 {
                    assert(curr_sqrt_price == bounded_sqrt_price_target);
                    if !adaptive_fee_update_skipped {
                        if a_to_b { lemma_step_a2b(gs, ts, g_step_group, g_step_price as int, curr_sqrt_price as int, sqrt_price_target as int, next_tick_index as int, adjusted_sqrt_price_limit as int); }
                        else { lemma_step_b2a(gs, ts, g_step_group, g_step_price as int, curr_sqrt_price as int, sqrt_price_target as int, next_tick_index as int, adjusted_sqrt_price_limit as int); }
                    } else {
                        if a_to_b { lemma_skip_a2b(gs, ts, g_step_group, g_step_price as int, curr_sqrt_price as int, sqrt_price_target as int, next_tick_index as int, adjusted_sqrt_price_limit as int, g_m0->core_tick_group_range_upper_bound, g2); }
                        else { lemma_skip_b2a(gs, ts, g_step_group, g_step_price as int, curr_sqrt_price as int, sqrt_price_target as int, next_tick_index as int, adjusted_sqrt_price_limit as int, g_m0->core_tick_group_range_lower_bound, g2); }
                    }
                    lemma_group_arith(g2, gs);
                }
            }
//@ inject after /curr_fee_growth_global_input = next_fee_growth_global_input;/
            let ghost g_fee_split_done = true;
//@ inject before /let \(update, next_liquidity\) = calculate_update\(/
                    proof { assert(g_fee_split_done); } //# C07 C01
                    proof {
                        assert(fee_growth_global_a == (if a_to_b { curr_fee_growth_global_input } else { whirlpool.fee_growth_global_a })); //# C07 C01
                        assert(fee_growth_global_b == (if a_to_b { whirlpool.fee_growth_global_b } else { curr_fee_growth_global_input })); //# C07 C01
                    }
//@ inject after /curr_liquidity = next_liquidity;/
                    proof { g_liq = next_liquidity; if a_to_b { g_lo = next_tick_index as int - 1; g_hi = next_tick_index as int - 1; } else { g_lo = next_tick_index as int; g_hi = next_tick_index as int; } }
//@ inject before /let tick_offset = swap_tick_sequence\.get_tick_offset\(/
                proof { if !next_tick_initialized { if a_to_b { if next_tick_index as int - 1 < g_lo { g_lo = next_tick_index as int - 1; } } else { if next_tick_index as int > g_hi { g_hi = next_tick_index as int; } } } }
//@ rewrite /Ok\(Box::new\(PostSwapUpdate \{/ => /let result_update = (PostSwapUpdate {/
//@ rewrite /        next_adaptive_fee_info: fee_rate_manager\.get_next_adaptive_fee_info\(\),\n    \}\)\)/ => /        next_adaptive_fee_info: fee_rate_manager.get_next_adaptive_fee_info(),\n    });\n    Ok(Box::new(result_update))/
//@ inject before /^    Ok\(Box::new\(result_update\)\)/
    // result assembly: what is handed to Whirlpool::update_after_swap is the state the loop ended in - liquidity, tick, price, the INPUT token's fee growth,
    // the protocol share, the LP share (total fee minus protocol share) and the settled reward growths
    proof { assert(result_update.next_liquidity == curr_liquidity && result_update.next_tick_index == curr_tick_index && result_update.next_sqrt_price == curr_sqrt_price); } //# C05 C03 C01
    proof { assert(result_update.next_fee_growth_global == curr_fee_growth_global_input && result_update.next_protocol_fee == curr_protocol_fee
        && result_update.lp_fee as int == fee_sum as int - curr_protocol_fee as int); } //# C06 C07 C01
    proof { assert(result_update.next_reward_infos == next_reward_infos); } //# C11 C01
    // the specified side reports what was consumed of the specified amount, the other side what the steps computed
    proof { assert((if a_to_b == amount_specified_is_input { result_update.amount_a } else { result_update.amount_b }) as int == amount as int - amount_remaining as int
        && (if a_to_b == amount_specified_is_input { result_update.amount_b } else { result_update.amount_a }) == amount_calculated); } //# C03 C06 C01
//@ end

pub proof fn lemma_div_chain(n: int, ts: int, gs: int) requires ts > 0, gs > 0, n % ts == 0, ts % gs == 0 ensures n % gs == 0
{
    vstd::arithmetic::div_mod::lemma_fundamental_div_mod(n, ts); vstd::arithmetic::div_mod::lemma_fundamental_div_mod(ts, gs);
    let a = n / ts; let b = ts / gs;
    assert(n == gs * (b * a)) by(nonlinear_arith) requires n == ts * a, ts == gs * b;
    vstd::arithmetic::div_mod::lemma_fundamental_div_mod_converse(n, gs, b * a, 0);
}
pub proof fn lemma_multiple_in_window(n: int, g: int, gs: int) requires gs > 0, n % gs == 0, g * gs <= n < g * gs + gs ensures n == g * gs, n / gs == g
{
    vstd::arithmetic::div_mod::lemma_fundamental_div_mod(n, gs);
    let q = n / gs;
    assert(q == g) by(nonlinear_arith) requires n == gs * q, g * gs <= n < g * gs + gs, gs > 0;
    assert(g * gs == gs * g) by(nonlinear_arith);
}
pub proof fn lemma_gp_mono(x: int, y: int, gs: int) requires x <= y, gs >= 1 ensures group_price(x, gs) <= group_price(y, gs), MIN_PRICE() <= group_price(x, gs) <= MAX_PRICE()
{
    axiom_price_at();
    assert(x * gs <= y * gs) by(nonlinear_arith) requires x <= y, gs >= 1;
}
/// arithmetic of neighbouring groups
pub proof fn lemma_group_arith(g: int, gs: int) ensures (g + 1) * gs == g * gs + gs, (g - 1) * gs == g * gs - gs, (g + 2) * gs == g * gs + 2 * gs
{ assert((g + 1) * gs == g * gs + gs && (g - 1) * gs == g * gs - gs && (g + 2) * gs == g * gs + 2 * gs) by(nonlinear_arith); }
/// the group relation bounds the group index (preconditions of the manager's i32 arithmetic)
pub proof fn lemma_group_bounds(g: int, gs: int, p: int) requires group_rel(g, gs, p), 1 <= gs <= 65535 ensures -600_000 <= g * gs <= 600_000, -GROUP_BOUND() + 1 < g < GROUP_BOUND() - 1
{
    assert(-GROUP_BOUND() + 1 < g < GROUP_BOUND() - 1) by(nonlinear_arith) requires -443637 - gs < g * gs <= 443636, 1 <= gs <= 65535;
}

/// where the price stands after a step, relative to the group whose accumulator the manager holds afterwards
pub proof fn lemma_acc_group(m1: FeeRateManager, m2: FeeRateManager, g: int, p0: int, p1: int, bounded: int, target: u128, liq: u128, skipped: bool, ntp: int, n: int)
    requires m1 is Adaptive, core_ok(m1), g == m1->tick_group_index as int, group_rel(g, m1->adaptive_fee_constants.tick_group_size as int, p0), 1 <= m1->adaptive_fee_constants.tick_group_size <= 65535,
        price_ok(target as int), price_ok(p0), price_ok(p1), m1->a_to_b ==> target as int <= p0, !m1->a_to_b ==> target as int >= p0,
        (bounded, skipped) == (bounded_target_spec(m1, target, liq).0 as int, bounded_target_spec(m1, target, liq).1),
        m1->a_to_b ==> bounded <= p1 <= p0, !m1->a_to_b ==> p0 <= p1 <= bounded, tick_ok(n), ntp == price_at(n),
    ensures ({ let gs = m1->adaptive_fee_constants.tick_group_size as int; let a_to_b = m1->a_to_b;
        let last = skip_last_group(p1, ntp, n, gs, a_to_b);
        let moved = if a_to_b { last < g } else { last > g };
        (!skipped ==> in_group(g, gs, p1)) && (skipped && !moved ==> in_group(g, gs, p1)) && (skipped && moved ==> in_group(last, gs, p1)) }),
{
    axiom_price_at(); axiom_tick_of(p1);
    let gs = m1->adaptive_fee_constants.tick_group_size as int; let a_to_b = m1->a_to_b;
    lemma_group_arith(g, gs); lemma_gp_mono(g, g + 1, gs); lemma_bounded_side(m1, p0, target, liq);
    let T = if p1 == ntp { n } else { tick_of(p1) };
    vstd::arithmetic::div_mod::lemma_fundamental_div_mod(T, gs); vstd::arithmetic::div_mod::lemma_mod_bound(T, gs);
    let q = T / gs;
    assert(gs * q == q * gs) by(nonlinear_arith);
    lemma_group_arith(q, gs);
    let last = skip_last_group(p1, ntp, n, gs, a_to_b);
    // the group of the floor tick contains the price
    assert(price_at(T) <= p1);
    assert(p1 == price_at(T) || (T < 443636 ==> p1 < price_at(T + 1)));
    if skipped {
        if last == q { lemma_gp_mono(q, q + 1, gs);
            assert(group_price(q, gs) <= price_at(T)) by { if q * gs < -443636 { } else if q * gs < T { } }
            assert(p1 <= group_price(q + 1, gs)) by { if (q + 1) * gs > 443636 { } else if p1 == price_at(T) { if T < (q + 1) * gs { } } else { if T + 1 < (q + 1) * gs { } } }
            if a_to_b { if last >= g { lemma_gp_mono(g, last, gs); } } else { if last <= g { lemma_gp_mono(last + 1, g + 1, gs); } }
        } else {
            // on a group boundary moving up: the price is the upper boundary of group q - 1
            assert(last == q - 1 && T % gs == 0 && p1 == price_at(T) && T == q * gs);
            lemma_group_arith(q - 1, gs); lemma_gp_mono(q - 1, q, gs);
            if last <= g { lemma_gp_mono(last + 1, g + 1, gs); }
        }
    }
}
/// the bounded target lies between the requested target and the current price
pub proof fn lemma_bounded_side(m: FeeRateManager, p: int, target: u128, liq: u128)
    requires m is Adaptive, core_ok(m), group_rel(m->tick_group_index as int, m->adaptive_fee_constants.tick_group_size as int, p), 1 <= m->adaptive_fee_constants.tick_group_size <= 65535,
        price_ok(target as int), price_ok(p), m->a_to_b ==> target as int <= p, !m->a_to_b ==> target as int >= p,
    ensures ({ let r = bounded_target_spec(m, target, liq).0 as int; (m->a_to_b ==> target as int <= r <= p) && (!m->a_to_b ==> p <= r <= target as int) }),
{
    axiom_price_at();
    let g = m->tick_group_index as int; let gs = m->adaptive_fee_constants.tick_group_size as int;
    lemma_group_arith(g, gs); lemma_gp_mono(g, g + 1, gs);
    let lo = m->core_tick_group_range_lower_bound; let up = m->core_tick_group_range_upper_bound;
    if lo is Some && g < opt_idx(lo) { let i = opt_idx(lo); lemma_gp_mono(g + 1, i, gs); assert(group_price(i, gs) == price_at(i * gs)); }
    if up is Some && g > opt_idx(up) { let i = opt_idx(up); lemma_group_arith(i, gs); lemma_gp_mono(i + 1, g, gs); assert(group_price(i + 1, gs) == price_at(i * gs + gs)); }
}
/// one NON-skipped step a -> b that ends on its bounded target: the manager steps one group down; if the loop goes on, the group relation holds again
pub proof fn lemma_step_a2b(gs: int, ts: int, g: int, p0: int, p1: int, target: int, n: int, limit: int)
    requires 1 <= gs <= 65535, ts > 0, ts % gs == 0, group_rel(g, gs, p0), price_ok(limit), tick_ok(n), target == max_i(limit, price_at(n)), target <= p0,
        n < (g + 1) * gs, n % ts == 0 || n == -443636, p1 == max_i(target, group_price(g, gs)),
    ensures p1 != target ==> group_rel(g - 1, gs, p1) && n < g * gs,
        (p1 == target && p1 != limit) ==> n == g * gs && group_rel(g - 1, gs, p1),
{
    axiom_price_at(); lemma_group_arith(g, gs); lemma_gp_mono(g - 1, g, gs); lemma_gp_mono(g, g + 1, gs);
    let G = g * gs;
    if p1 != target {
        // p1 = price(clamp(G)) > target >= price(n) and >= MIN_PRICE, so G is not below the tick range
        assert(G > -443637);
        if n >= G { if G <= 443636 { assert(price_at(G) <= price_at(n)) by { if G < n { } } } }
    } else if p1 != limit {
        assert(target == price_at(n) && price_at(n) > limit);
        assert(n != -443636);
        lemma_div_chain(n, ts, gs);
        // price(clamp(G)) <= price(n)  ==>  clamp(G) <= n
        assert(G <= n) by { if n < G { if G <= 443636 { assert(price_at(n) < price_at(G)); } else { assert(n <= 443636 < G); assert(G <= 443636); } } }
        lemma_multiple_in_window(n, g, gs);
    }
}
/// one NON-skipped step b -> a
pub proof fn lemma_step_b2a(gs: int, ts: int, g: int, p0: int, p1: int, target: int, n: int, limit: int)
    requires 1 <= gs <= 65535, ts > 0, ts % gs == 0, group_rel(g, gs, p0), price_ok(limit), tick_ok(n), target == min_i(limit, price_at(n)), target >= p0,
        n > g * gs, n % ts == 0 || n == 443636, p1 == min_i(target, group_price(g + 1, gs)),
    ensures p1 != target ==> group_rel(g + 1, gs, p1) && n > (g + 1) * gs,
        (p1 == target && p1 != limit) ==> n == (g + 1) * gs && group_rel(g + 1, gs, p1),
{
    axiom_price_at(); lemma_group_arith(g, gs); lemma_gp_mono(g + 1, g + 2, gs); lemma_gp_mono(g, g + 1, gs);
    let H = (g + 1) * gs;
    assert(H > -443637);
    if p1 != target {
        assert(H <= 443636) by { if H > 443636 { assert(group_price(g + 1, gs) == MAX_PRICE()); } }
        if n <= H { assert(price_at(n) <= price_at(H)) by { if n < H { } } }
    } else if p1 != limit {
        assert(target == price_at(n) && price_at(n) < limit);
        assert(n != 443636);
        lemma_div_chain(n, ts, gs);
        assert(n <= H) by { if n > H { if H >= -443636 { assert(price_at(H) < price_at(n)); } } }
        lemma_group_arith(g + 1, gs);
        vstd::arithmetic::div_mod::lemma_fundamental_div_mod(n, gs);
        let q = n / gs;
        assert(q > g) by(nonlinear_arith) requires gs * q > g * gs, gs >= 1;
        assert(gs * q >= gs * (g + 1)) by(nonlinear_arith) requires q >= g + 1, gs >= 1;
        assert(gs * (g + 1) == g * gs + gs) by(nonlinear_arith);
        assert(n >= H);
    }
}
/// one SKIPPED step a -> b (no adaptive fee applies on the way: zero control factor, zero liquidity, or outside the core range): the manager re-derives its
/// group from the price the step ended on (skip_last_group) and steps one group down
pub proof fn lemma_skip_a2b(gs: int, ts: int, g: int, p0: int, p1: int, target: int, n: int, limit: int, ub: Option<(i32, u128)>, g2: int)
    requires 1 <= gs <= 65535, ts > 0, ts % gs == 0, group_rel(g, gs, p0), price_ok(limit), tick_ok(n), target == max_i(limit, price_at(n)), target <= p0,
        n < (g + 1) * gs, n % ts == 0 || n == -443636, price_ok(p1),
        p1 == target || (ub matches Some(b) && g > b.0 && tick_ok(b.0 as int * gs + gs) && b.1 as int == price_at(b.0 as int * gs + gs) && p1 == max_i(target, b.1 as int)),
        ({ let last = skip_last_group(p1, price_at(n), n, gs, true); g2 == (if last < g { last } else { g }) - 1 }),
    ensures p1 != target ==> group_rel(g2, gs, p1) && n < (g2 + 1) * gs,
        (p1 == target && p1 != limit) ==> n % gs == 0 && g2 == n / gs - 1 && group_rel(g2, gs, p1),
{
    axiom_price_at(); lemma_group_arith(g, gs);
    if p1 != target {
        let b = ub->0; let idx = b.0 as int; let U = idx * gs + gs;
        lemma_group_arith(idx, gs);
        assert(p1 == price_at(U) && p1 > target);
        lemma_tick_of_price(U);
        assert(p1 != price_at(n));
        assert(U % gs == 0) by { assert(U == gs * (idx + 1)) by(nonlinear_arith) requires U == idx * gs + gs; vstd::arithmetic::div_mod::lemma_fundamental_div_mod_converse(U, gs, idx + 1, 0); }
        assert(U / gs == idx + 1) by { assert(U == gs * (idx + 1)) by(nonlinear_arith) requires U == idx * gs + gs; vstd::arithmetic::div_mod::lemma_fundamental_div_mod_converse(U, gs, idx + 1, 0); }
        assert(skip_last_group(p1, price_at(n), n, gs, true) == idx + 1);
        assert(g2 == idx);
        lemma_gp_mono(idx, idx + 1, gs);
        assert(n < U) by { if n >= U { assert(price_at(U) <= price_at(n)) by { if U < n { } } } }
    } else if p1 != limit {
        assert(target == price_at(n) && price_at(n) > limit); assert(n != -443636);
        lemma_div_chain(n, ts, gs);
        vstd::arithmetic::div_mod::lemma_fundamental_div_mod(n, gs);
        let q = n / gs;
        assert(skip_last_group(p1, price_at(n), n, gs, true) == q);
        if q >= g { assert(n >= g * gs) by(nonlinear_arith) requires n == gs * q, q >= g, gs >= 1; lemma_multiple_in_window(n, g, gs); }
        assert(g2 == q - 1);
        lemma_group_arith(q, gs);
        assert(q * gs == n) by(nonlinear_arith) requires n == gs * q;
        lemma_gp_mono(q - 1, q, gs);
    }
}
/// one SKIPPED step b -> a
pub proof fn lemma_skip_b2a(gs: int, ts: int, g: int, p0: int, p1: int, target: int, n: int, limit: int, lb: Option<(i32, u128)>, g2: int)
    requires 1 <= gs <= 65535, ts > 0, ts % gs == 0, group_rel(g, gs, p0), price_ok(limit), tick_ok(n), target == min_i(limit, price_at(n)), target >= p0,
        n > g * gs, n % ts == 0 || n == 443636, price_ok(p1),
        p1 == target || (lb matches Some(b) && g < b.0 && tick_ok(b.0 as int * gs) && b.1 as int == price_at(b.0 as int * gs) && p1 == min_i(target, b.1 as int)),
        ({ let last = skip_last_group(p1, price_at(n), n, gs, false); g2 == (if last > g { last } else { g }) + 1 }),
    ensures p1 != target ==> group_rel(g2, gs, p1) && n > g2 * gs,
        (p1 == target && p1 != limit) ==> n % gs == 0 && g2 == n / gs && group_rel(g2, gs, p1),
{
    axiom_price_at(); lemma_group_arith(g, gs);
    if p1 != target {
        let b = lb->0; let idx = b.0 as int; let Lt = idx * gs;
        assert(p1 == price_at(Lt) && p1 < target);
        lemma_tick_of_price(Lt);
        assert(p1 != price_at(n));
        assert(Lt % gs == 0 && Lt / gs == idx) by { assert(Lt == gs * idx) by(nonlinear_arith) requires Lt == idx * gs; vstd::arithmetic::div_mod::lemma_fundamental_div_mod_converse(Lt, gs, idx, 0); }
        assert(skip_last_group(p1, price_at(n), n, gs, false) == idx - 1);
        assert(g2 == idx);
        lemma_gp_mono(idx, idx + 1, gs);
        assert(n > Lt) by { if n <= Lt { assert(price_at(n) <= price_at(Lt)) by { if n < Lt { } } } }
    } else if p1 != limit {
        assert(target == price_at(n) && price_at(n) < limit); assert(n != 443636);
        lemma_div_chain(n, ts, gs);
        vstd::arithmetic::div_mod::lemma_fundamental_div_mod(n, gs);
        let q = n / gs;
        assert(skip_last_group(p1, price_at(n), n, gs, false) == q - 1);
        assert(q * gs == n) by(nonlinear_arith) requires n == gs * q;
        if q - 1 <= g { assert(q >= g + 1) by(nonlinear_arith) requires n > g * gs, n == gs * q, gs >= 1; }
        assert(g2 == q);
        lemma_group_arith(q, gs);
        lemma_gp_mono(q, q + 1, gs);
    }
}

/// FeeRateManager::new puts the manager into the tick group of the pool's current tick, which is the group of the pool's price
pub proof fn lemma_new_group(w: Whirlpool, a_to_b: bool, timestamp: u64, info: AdaptiveFeeInfo)
    requires adaptive_ok(info, w.tick_spacing), w.fee_rate <= 60_000, tick_price_consistent(w.tick_current_index as int, w.sqrt_price as int),
    ensures new_spec(a_to_b, w.tick_current_index, timestamp, w.fee_rate, info) matches Some(m) ==> ({
        let gs = info.constants.tick_group_size as int; let g = m->tick_group_index as int;
        core_ok(m) && group_rel(g, gs, w.sqrt_price as int) && g * gs <= w.tick_current_index < (g + 1) * gs && m->a_to_b == a_to_b && m->Adaptive_static_fee_rate == w.fee_rate && m->adaptive_fee_constants == info.constants }),
{
    axiom_price_at();
    let gs = info.constants.tick_group_size as int; let t = w.tick_current_index as int;
    lemma_group_bound(t, gs);
    vstd::arithmetic::div_mod::lemma_fundamental_div_mod(t, gs); vstd::arithmetic::div_mod::lemma_mod_bound(t, gs);
    let g = t / gs;
    assert(gs * g == g * gs) by(nonlinear_arith);
    assert((g + 1) * gs == g * gs + gs) by(nonlinear_arith);
    if new_spec(a_to_b, w.tick_current_index, timestamp, w.fee_rate, info) is Some {
        let v = reference_after(info.variables, g as i32, timestamp, info.constants)->0;
        let a = info.variables.volatility_accumulator as int; let rf = info.constants.reduction_factor as int;
        assert(0 <= a * rf <= a * 10_000) by(nonlinear_arith) requires 0 <= a, 0 <= rf < 10_000;
        vstd::arithmetic::div_mod::lemma_fundamental_div_mod(a * rf, 10_000);
        assert((a * rf) / 10_000 <= a) by(nonlinear_arith) requires a * rf == 10_000 * ((a * rf) / 10_000) + (a * rf) % 10_000, (a * rf) % 10_000 >= 0, a * rf <= a * 10_000;
        assert(v.volatility_reference <= info.constants.max_volatility_accumulator);
        assert(ref_ok(info.constants, v));
        lemma_core_range(info.constants, v);
    }
}
}
