//@ needs swap_manager
// The same real swap loop for pools WITH adaptive fee (adaptive_fee_info == Some): C03/C05/C06/C07 as for static-fee pools, plus the C14 link between
// the fee-rate manager's tick group and the price being traded (group_rel) that justifies "every part of a swap is charged the rate of that price's
// tick group".
pub mod swap_manager_adaptive {
use vstd::prelude::*;
use std::convert::TryInto;
use crate::errors::ErrorCode;
use crate::specs::*;
use crate::anchor_shim::*;
use crate::state_core::{Tick, TickUpdate, Whirlpool, WhirlpoolRewardInfo, NUM_REWARDS, TICK_ARRAY_SIZE};
use crate::liquidity_math::*;
use crate::managers::*;
use crate::swap_fees::*;
use crate::swap_math::*;
use crate::token_math::{AmountDeltaU64};
use crate::tick_math::*;
use crate::oracle::*;
use crate::fee_rate_manager::*;
use crate::swap_manager::*;
//@ tags C03 C06 C07 C05 C01 C14

/// the tick group g of the fee-rate manager is the group of the current price: price(g * gs) <= p <= price((g + 1) * gs) (boundary ticks clamped to the
/// tick range), and g stays inside the tick range
pub open spec fn group_rel(g: int, gs: int, p: int) -> bool {
    group_price(g, gs) <= p <= group_price(g + 1, gs) && -443637 - gs < g * gs <= 443636
}
/// everything in the manager except the tick group and the accumulator is fixed for the duration of one swap
pub open spec fn mgr_fixed(m: FeeRateManager, m0: FeeRateManager) -> bool {
    m is Adaptive && m0 is Adaptive && m->a_to_b == m0->a_to_b && m->Adaptive_static_fee_rate == m0->Adaptive_static_fee_rate && m->adaptive_fee_constants == m0->adaptive_fee_constants
    && m->core_tick_group_range_lower_bound == m0->core_tick_group_range_lower_bound && m->core_tick_group_range_upper_bound == m0->core_tick_group_range_upper_bound
    && m->adaptive_fee_variables == (AdaptiveFeeVariables { volatility_accumulator: m->adaptive_fee_variables.volatility_accumulator, ..m0->adaptive_fee_variables })
}
/// the core range bounds carry the prices of their boundary ticks, which are group boundaries
pub open spec fn core_ok(m: FeeRateManager) -> bool {
    let gs = m->adaptive_fee_constants.tick_group_size as int;
    (m->core_tick_group_range_lower_bound matches Some(b) ==> tick_ok(b.0 as int * gs) && b.1 as int == price_at(b.0 as int * gs))
    && (m->core_tick_group_range_upper_bound matches Some(b) ==> tick_ok(b.0 as int * gs + gs) && b.1 as int == price_at(b.0 as int * gs + gs))
}
/// swap-time validity of the adaptive constants w.r.t. the pool (what AdaptiveFeeConstants::validate_constants establishes) and of the stored variables
pub open spec fn adaptive_ok(info: AdaptiveFeeInfo, tick_spacing: u16) -> bool {
    inv14(info.constants, info.variables) && ref_ok(info.constants, info.variables) && info.constants.valid_for(tick_spacing as int)
    && info.constants.major_swap_threshold_ticks as int <= 443636
}

//@ fn manager/swap_manager.rs swap -> r nodec as=swap_adaptive
    requires
        *adaptive_fee_info matches Some(info) && adaptive_ok(info, whirlpool.tick_spacing),
        whirlpool.fee_rate <= 60_000, whirlpool.protocol_fee_rate <= 2_500, whirlpool.tick_spacing > 0,
        tick_price_consistent(whirlpool.tick_current_index as int, whirlpool.sqrt_price as int),
    ensures
        r matches Ok(u) ==> swap_post(*whirlpool, amount, sqrt_price_limit, amount_specified_is_input, a_to_b, *u),
//@ rewrite /\.map_or_else\(\|_\| \(None, false\), \|tick\| \(Some\(tick\), tick\.initialized\)\)/ => /.map_or_else_tick()/
//@ loop 0
        invariant
            tick_spacing == whirlpool.tick_spacing, fee_rate == whirlpool.fee_rate, protocol_fee_rate == whirlpool.protocol_fee_rate,
            whirlpool.fee_rate <= 60_000, whirlpool.protocol_fee_rate <= 2_500, whirlpool.tick_spacing > 0,
            fee_rate_manager.wf(), mgr_fixed(fee_rate_manager, g_m0), core_ok(g_m0), g_m0->a_to_b == a_to_b, g_m0->Adaptive_static_fee_rate == fee_rate,
            g_m0->adaptive_fee_constants.valid_for(tick_spacing as int), g_m0->adaptive_fee_constants.major_swap_threshold_ticks as int <= 443636,
            price_ok(adjusted_sqrt_price_limit as int), amount_remaining <= amount, amount != 0,
            adjusted_sqrt_price_limit as int == (if sqrt_price_limit == 0 { if a_to_b { MIN_PRICE() } else { MAX_PRICE() } } else { sqrt_price_limit as int }),
            a_to_b ==> adjusted_sqrt_price_limit <= curr_sqrt_price <= whirlpool.sqrt_price,
            !a_to_b ==> whirlpool.sqrt_price <= curr_sqrt_price <= adjusted_sqrt_price_limit,
            tick_price_consistent(curr_tick_index as int, curr_sqrt_price as int),
            curr_protocol_fee <= fee_sum,
            a_to_b ==> adjusted_sqrt_price_limit < whirlpool.sqrt_price, !a_to_b ==> adjusted_sqrt_price_limit > whirlpool.sqrt_price,
            g_lo <= curr_tick_index <= g_hi, //# C05
            forall|t: int| g_lo < t <= g_hi ==> !#[trigger] seq_init(*swap_tick_sequence, t), //# C05
            curr_liquidity == g_liq, //# C05
            // C14: while the swap goes on, the manager's tick group is the group of the current price
            (amount_remaining > 0 && adjusted_sqrt_price_limit != curr_sqrt_price) ==> group_rel(fee_rate_manager->tick_group_index as int, g_m0->adaptive_fee_constants.tick_group_size as int, curr_sqrt_price as int), //# C14
            (amount_remaining > 0 && adjusted_sqrt_price_limit != curr_sqrt_price) ==> (if a_to_b { (curr_tick_index as int) < (fee_rate_manager->tick_group_index as int + 1) * g_m0->adaptive_fee_constants.tick_group_size as int }
                else { curr_tick_index as int >= fee_rate_manager->tick_group_index as int * g_m0->adaptive_fee_constants.tick_group_size as int }), //# C14
//@ loop 1
            invariant
                tick_spacing == whirlpool.tick_spacing, fee_rate == whirlpool.fee_rate, protocol_fee_rate == whirlpool.protocol_fee_rate,
                whirlpool.fee_rate <= 60_000, whirlpool.protocol_fee_rate <= 2_500, whirlpool.tick_spacing > 0,
                fee_rate_manager.wf(), mgr_fixed(fee_rate_manager, g_m0), core_ok(g_m0), g_m0->a_to_b == a_to_b, g_m0->Adaptive_static_fee_rate == fee_rate,
                g_m0->adaptive_fee_constants.valid_for(tick_spacing as int), g_m0->adaptive_fee_constants.major_swap_threshold_ticks as int <= 443636,
                price_ok(adjusted_sqrt_price_limit as int), amount_remaining <= amount, amount != 0,
                adjusted_sqrt_price_limit as int == (if sqrt_price_limit == 0 { if a_to_b { MIN_PRICE() } else { MAX_PRICE() } } else { sqrt_price_limit as int }),
                a_to_b ==> adjusted_sqrt_price_limit <= curr_sqrt_price <= whirlpool.sqrt_price,
                !a_to_b ==> whirlpool.sqrt_price <= curr_sqrt_price <= adjusted_sqrt_price_limit,
                tick_price_consistent(curr_tick_index as int, curr_sqrt_price as int),
                curr_protocol_fee <= fee_sum,
                a_to_b ==> adjusted_sqrt_price_limit < whirlpool.sqrt_price, !a_to_b ==> adjusted_sqrt_price_limit > whirlpool.sqrt_price,
                next_array_index < 3,
                tick_ok(next_tick_index as int), next_tick_sqrt_price as int == price_at(next_tick_index as int), price_ok(sqrt_price_target as int),
                next_tick_index as int % tick_spacing as int == 0 || next_tick_index == -443636 || next_tick_index == 443636,
                a_to_b ==> sqrt_price_target as int == max_i(adjusted_sqrt_price_limit as int, next_tick_sqrt_price as int) && sqrt_price_target <= curr_sqrt_price,
                !a_to_b ==> sqrt_price_target as int == min_i(adjusted_sqrt_price_limit as int, next_tick_sqrt_price as int) && sqrt_price_target >= curr_sqrt_price,
                g_lo <= curr_tick_index <= g_hi, //# C05
                forall|t: int| g_lo < t <= g_hi ==> !#[trigger] seq_init(*swap_tick_sequence, t), //# C05
                curr_liquidity == g_liq, //# C05
                a_to_b ==> g_lo <= next_tick_index, !a_to_b ==> next_tick_index <= g_hi + 1, //# C05
            invariant_except_break
                group_rel(fee_rate_manager->tick_group_index as int, g_m0->adaptive_fee_constants.tick_group_size as int, curr_sqrt_price as int), //# C14
                (if a_to_b { (next_tick_index as int) < (fee_rate_manager->tick_group_index as int + 1) * g_m0->adaptive_fee_constants.tick_group_size as int }
                    else { next_tick_index as int > fee_rate_manager->tick_group_index as int * g_m0->adaptive_fee_constants.tick_group_size as int }), //# C14
            ensures
                (amount_remaining > 0 && adjusted_sqrt_price_limit != curr_sqrt_price) ==> group_rel(fee_rate_manager->tick_group_index as int, g_m0->adaptive_fee_constants.tick_group_size as int, curr_sqrt_price as int), //# C14
                (amount_remaining > 0 && adjusted_sqrt_price_limit != curr_sqrt_price) ==> (if a_to_b { (curr_tick_index as int) < (fee_rate_manager->tick_group_index as int + 1) * g_m0->adaptive_fee_constants.tick_group_size as int }
                    else { curr_tick_index as int >= fee_rate_manager->tick_group_index as int * g_m0->adaptive_fee_constants.tick_group_size as int }), //# C14
//@ inject before /while amount_remaining > 0 && adjusted_sqrt_price_limit != curr_sqrt_price \{/
    let ghost mut g_lo: int = curr_tick_index as int; let ghost mut g_hi: int = curr_tick_index as int; let ghost mut g_liq: u128 = curr_liquidity;
    let ghost g_m0 = fee_rate_manager;
    proof { axiom_price_at(); lemma_new_group(*whirlpool, a_to_b, timestamp, adaptive_fee_info->0); }
//@ inject before /let \(next_tick_sqrt_price, sqrt_price_target\) =/
        proof { axiom_price_at(); }
        proof { if a_to_b { if (next_tick_index as int) < g_lo { g_lo = next_tick_index as int; } } else { if next_tick_index as int - 1 > g_hi { g_hi = next_tick_index as int - 1; } } }
//@ inject before /fee_rate_manager\.update_volatility_accumulator\(\)\?;/
            proof { axiom_price_at(); }
            let ghost g_step_liquidity = curr_liquidity; let ghost g_step_price = curr_sqrt_price; let ghost g_fee_split_done = false;
            let ghost g_step_group = fee_rate_manager->tick_group_index as int;
//@ inject before /let \(next_protocol_fee, next_fee_growth_global_input\) = calculate_fees\(/
            proof { assert(curr_liquidity == g_step_liquidity && curr_sqrt_price == g_step_price); } //# C06 C01
//@ inject after /curr_fee_growth_global_input = next_fee_growth_global_input;/
            let ghost g_fee_split_done = true;
//@ inject before /let \(update, next_liquidity\) = calculate_update\(/
                    proof { assert(g_fee_split_done); } //# C07 C01
                    proof {
                        assert(fee_growth_global_a == (if a_to_b { curr_fee_growth_global_input } else { whirlpool.fee_growth_global_a })); //# C07 C01
                        assert(fee_growth_global_b == (if a_to_b { whirlpool.fee_growth_global_b } else { curr_fee_growth_global_input })); //# C07 C01
                    }
//@ inject after /curr_liquidity = next_liquidity;/
                    proof { g_liq = next_liquidity; if a_to_b { g_lo = next_tick_index as int - 1; g_hi = next_tick_index as int - 1; } else { g_lo = next_tick_index as int; g_hi = next_tick_index as int; } }
//@ inject before /let tick_offset = swap_tick_sequence\.get_tick_offset\(/
                proof { if !next_tick_initialized { if a_to_b { if next_tick_index as int - 1 < g_lo { g_lo = next_tick_index as int - 1; } } else { if next_tick_index as int > g_hi { g_hi = next_tick_index as int; } } } }
//@ end

/// FeeRateManager::new puts the manager into the tick group of the pool's current tick, which is the group of the pool's price
pub proof fn lemma_new_group(w: Whirlpool, a_to_b: bool, timestamp: u64, info: AdaptiveFeeInfo)
    requires adaptive_ok(info, w.tick_spacing), w.fee_rate <= 60_000, tick_price_consistent(w.tick_current_index as int, w.sqrt_price as int),
    ensures new_spec(a_to_b, w.tick_current_index, timestamp, w.fee_rate, info) matches Some(m) ==> ({
        let gs = info.constants.tick_group_size as int; let g = m->tick_group_index as int;
        core_ok(m) && group_rel(g, gs, w.sqrt_price as int) && g * gs <= w.tick_current_index < (g + 1) * gs && m->a_to_b == a_to_b && m->Adaptive_static_fee_rate == w.fee_rate && m->adaptive_fee_constants == info.constants }),
{
    axiom_price_at();
    let gs = info.constants.tick_group_size as int; let t = w.tick_current_index as int;
    lemma_group_bound(t, gs);
    vstd::arithmetic::div_mod::lemma_fundamental_div_mod(t, gs); vstd::arithmetic::div_mod::lemma_mod_bound(t, gs);
    let g = t / gs;
    assert(gs * g == g * gs) by(nonlinear_arith);
    assert((g + 1) * gs == g * gs + gs) by(nonlinear_arith);
    if new_spec(a_to_b, w.tick_current_index, timestamp, w.fee_rate, info) is Some {
        let v = reference_after(info.variables, g as i32, timestamp, info.constants)->0;
        assert(v.volatility_reference <= info.constants.max_volatility_accumulator);
        assert(ref_ok(info.constants, v));
        lemma_core_range(info.constants, v);
    }
}
}
