//@ needs stdspecs
pub mod errors {
use vstd::prelude::*;
use std::num::TryFromIntError;
//@ enum errors.rs ErrorCode
impl vstd::std_specs::convert::FromSpecImpl<TryFromIntError> for ErrorCode {
    open spec fn obeys_from_spec() -> bool { true }
    open spec fn from_spec(v: TryFromIntError) -> Self { ErrorCode::NumberCastError }
}
impl From<TryFromIntError> for ErrorCode {
//@ fn errors.rs from in=/impl From<TryFromIntError> for ErrorCode/
//@ end
}
}
