//@ needs specs errors stdspecs anchor_shim state_core
pub mod position_rules {
use vstd::prelude::*;
use crate::errors::ErrorCode;
use crate::specs::*;
use crate::anchor_shim::*;
use crate::state_core::*;
//@ tags C18 C12
//@ const state/position_bundle.rs POSITION_BITMAP_USIZE POSITION_BUNDLE_SIZE
//@ struct state/position_bundle.rs PositionBundle
//@ struct state/lock_config.rs LockConfig
//@ enum state/lock_config.rs LockType LockTypeLabel

/// a tick range a position may have on a pool with the given spacing (C18)
pub open spec fn range_valid(lower: int, upper: int, spacing: int) -> bool {
    &&& lower < upper && tick_usable(lower, spacing) && tick_usable(upper, spacing)
    &&& (spacing >= 32768 ==> lower == -((443636int / spacing) * spacing) && upper == (443636int / spacing) * spacing)
}

//@ fn state/position.rs validate_tick_range_for_whirlpool -> r canary
    requires whirlpool.data.tick_spacing > 0,
    ensures
        r is Ok <==> range_valid(tick_lower_index as int, tick_upper_index as int, whirlpool.data.tick_spacing as int),
        !(tick_lower_index < tick_upper_index && tick_usable(tick_lower_index as int, whirlpool.data.tick_spacing as int) && tick_usable(tick_upper_index as int, whirlpool.data.tick_spacing as int))
            ==> r == err::<()>(ErrorCode::InvalidTickIndex),
        r is Err && (tick_lower_index < tick_upper_index && tick_usable(tick_lower_index as int, whirlpool.data.tick_spacing as int) && tick_usable(tick_upper_index as int, whirlpool.data.tick_spacing as int))
            ==> r == err::<()>(ErrorCode::FullRangeOnlyPool),
//@ end

impl Position {
//@ fn state/position.rs open_position in=/^impl Position \{/ -> r canary
    requires whirlpool.data.tick_spacing > 0,
    ensures
        r is Ok <==> range_valid(tick_lower_index as int, tick_upper_index as int, whirlpool.data.tick_spacing as int),
        r is Ok ==> final(self).whirlpool == whirlpool.k && final(self).position_mint == position_mint
            && final(self).tick_lower_index == tick_lower_index && final(self).tick_upper_index == tick_upper_index
            && final(self).liquidity == old(self).liquidity && final(self).fee_owed_a == old(self).fee_owed_a && final(self).fee_owed_b == old(self).fee_owed_b
            && final(self).reward_infos == old(self).reward_infos,
        r is Err ==> *final(self) == *old(self),
//@ end

//@ fn state/position.rs update_reward_owed in=/^impl Position \{/
    requires index < 3,
    ensures final(self).reward_infos[index as int].amount_owed == amount_owed,
        final(self).reward_infos[index as int].growth_inside_checkpoint == old(self).reward_infos[index as int].growth_inside_checkpoint,
        forall|k: int| 0 <= k < 3 && k != index ==> final(self).reward_infos[k] == old(self).reward_infos[k],
        final(self).liquidity == old(self).liquidity, final(self).fee_owed_a == old(self).fee_owed_a, final(self).fee_owed_b == old(self).fee_owed_b,
        final(self).tick_lower_index == old(self).tick_lower_index, final(self).tick_upper_index == old(self).tick_upper_index,
        final(self).fee_growth_checkpoint_a == old(self).fee_growth_checkpoint_a, final(self).fee_growth_checkpoint_b == old(self).fee_growth_checkpoint_b,
//@ end

/// re-ranging: only an empty position, only to a different valid range, with all growth checkpoints reset
//@ fn state/position.rs reset_position_range in=/^impl Position \{/ -> r canary
    requires whirlpool.data.tick_spacing > 0,
    ensures
        !old(self).empty() ==> r == err::<()>(ErrorCode::ClosePositionNotEmpty) && *final(self) == *old(self),
        old(self).empty() && new_tick_lower_index == old(self).tick_lower_index && new_tick_upper_index == old(self).tick_upper_index
            ==> r == err::<()>(ErrorCode::SameTickRangeNotAllowed) && *final(self) == *old(self),
        r is Ok <==> (old(self).empty() && !(new_tick_lower_index == old(self).tick_lower_index && new_tick_upper_index == old(self).tick_upper_index)
                      && range_valid(new_tick_lower_index as int, new_tick_upper_index as int, whirlpool.data.tick_spacing as int)),
        r is Err ==> *final(self) == *old(self),
        r is Ok ==> final(self).tick_lower_index == new_tick_lower_index && final(self).tick_upper_index == new_tick_upper_index
            && final(self).fee_growth_checkpoint_a == 0 && final(self).fee_growth_checkpoint_b == 0
            && (forall|k: int| 0 <= k < 3 ==> (#[trigger] final(self).reward_infos[k]).growth_inside_checkpoint == 0 && final(self).reward_infos[k].amount_owed == old(self).reward_infos[k].amount_owed)
            && final(self).liquidity == old(self).liquidity && final(self).fee_owed_a == old(self).fee_owed_a && final(self).fee_owed_b == old(self).fee_owed_b
            && final(self).whirlpool == old(self).whirlpool && final(self).position_mint == old(self).position_mint,
//@ rewrite_for
//@ loop 0
        invariant i_it <= 3,
            self.tick_lower_index == new_tick_lower_index && self.tick_upper_index == new_tick_upper_index,
            self.fee_growth_checkpoint_a == 0 && self.fee_growth_checkpoint_b == 0,
            self.liquidity == old(self).liquidity && self.fee_owed_a == old(self).fee_owed_a && self.fee_owed_b == old(self).fee_owed_b,
            self.whirlpool == old(self).whirlpool && self.position_mint == old(self).position_mint,
            forall|k: int| 0 <= k < 3 ==> (#[trigger] self.reward_infos[k]).amount_owed == old(self).reward_infos[k].amount_owed,
            forall|k: int| 0 <= k < i_it ==> (#[trigger] self.reward_infos[k]).growth_inside_checkpoint == 0,
        decreases 3 - i_it,
//@ end
}

// ------------------------------------------------------------------ position bundle
pub open spec fn bundle_open(bitmap: [u8; 32], idx: int) -> bool { (bitmap[idx / 8] >> ((idx % 8) as u8)) & 1u8 == 1u8 }
pub proof fn lemma_flip_bit(b: u8, o: u8, k: u8)
    requires o < 8, k < 8,
    ensures ((b ^ (1u8 << o)) >> k) & 1u8 == (if k == o { (1u8 - ((b >> k) & 1u8)) as u8 } else { (b >> k) & 1u8 }),
        ((b & (1u8 << o)) != 0u8) == ((b >> o) & 1u8 == 1u8),
        (b >> k) & 1u8 == 0u8 || (b >> k) & 1u8 == 1u8,
{
    assert((b >> k) & 1u8 == 0u8 || (b >> k) & 1u8 == 1u8) by(bit_vector);
    assert(((b ^ (1u8 << o)) >> k) & 1u8 == (if k == o { (1u8 - ((b >> k) & 1u8)) as u8 } else { (b >> k) & 1u8 })) by(bit_vector) requires o < 8, k < 8;
    assert(((b & (1u8 << o)) != 0u8) == ((b >> o) & 1u8 == 1u8)) by(bit_vector) requires o < 8;
}
pub proof fn lemma_zero_byte(b: u8)
    ensures b == 0u8 <==> (forall|k: u8| k < 8 ==> (#[trigger] (b >> k)) & 1u8 == 0u8),
{
    if b != 0u8 {
        assert(b != 0u8 ==> ((b >> 0u8) & 1u8 == 1u8 || (b >> 1u8) & 1u8 == 1u8 || (b >> 2u8) & 1u8 == 1u8 || (b >> 3u8) & 1u8 == 1u8
            || (b >> 4u8) & 1u8 == 1u8 || (b >> 5u8) & 1u8 == 1u8 || (b >> 6u8) & 1u8 == 1u8 || (b >> 7u8) & 1u8 == 1u8)) by(bit_vector);
    } else {
        assert forall|k: u8| k < 8 implies (#[trigger] (b >> k)) & 1u8 == 0u8 by {
            assert(b == 0u8 && k < 8 ==> (b >> k) & 1u8 == 0u8) by(bit_vector);
        }
    }
}

pub proof fn lemma_some_open(bm: [u8; 32], i: int)
    requires 0 <= i < 32, bm[i] != 0,
    ensures exists|j: int| 0 <= j < 256 && #[trigger] bundle_open(bm, j),
{
    let b = bm[i];
    assert(b != 0u8 ==> ((b >> 0u8) & 1u8 == 1u8 || (b >> 1u8) & 1u8 == 1u8 || (b >> 2u8) & 1u8 == 1u8 || (b >> 3u8) & 1u8 == 1u8
            || (b >> 4u8) & 1u8 == 1u8 || (b >> 5u8) & 1u8 == 1u8 || (b >> 6u8) & 1u8 == 1u8 || (b >> 7u8) & 1u8 == 1u8)) by(bit_vector);
    let k: int = if (b >> 0u8) & 1u8 == 1u8 { 0 } else if (b >> 1u8) & 1u8 == 1u8 { 1 } else if (b >> 2u8) & 1u8 == 1u8 { 2 } else if (b >> 3u8) & 1u8 == 1u8 { 3 }
        else if (b >> 4u8) & 1u8 == 1u8 { 4 } else if (b >> 5u8) & 1u8 == 1u8 { 5 } else if (b >> 6u8) & 1u8 == 1u8 { 6 } else { 7 };
    let j = 8 * i + k;
    vstd::arithmetic::div_mod::lemma_fundamental_div_mod_converse(j, 8, i, k);
    assert(bundle_open(bm, j));
}
pub proof fn lemma_none_open(bm: [u8; 32])
    requires forall|k: int| 0 <= k < 32 ==> bm[k] == 0,
    ensures forall|j: int| 0 <= j < 256 ==> !#[trigger] bundle_open(bm, j),
{
    assert forall|j: int| 0 <= j < 256 implies !#[trigger] bundle_open(bm, j) by {
        vstd::arithmetic::div_mod::lemma_fundamental_div_mod(j, 8);
        let k = (j % 8) as u8;
        assert(k < 8 ==> (0u8 >> k) & 1u8 == 0u8) by(bit_vector);
    }
}

impl PositionBundle {
//@ fn state/position_bundle.rs is_valid_bundle_index in=/^impl PositionBundle \{/ -> r
    ensures r == (bundle_index < 256),
//@ end
//@ fn state/position_bundle.rs update_bitmap in=/^impl PositionBundle \{/ -> r
    ensures
        bundle_index >= 256 ==> r == err::<()>(ErrorCode::InvalidBundleIndex) && *final(self) == *old(self),
        bundle_index < 256 && open && bundle_open(old(self).position_bitmap, bundle_index as int) ==> r == err::<()>(ErrorCode::BundledPositionAlreadyOpened) && *final(self) == *old(self),
        bundle_index < 256 && !open && !bundle_open(old(self).position_bitmap, bundle_index as int) ==> r == err::<()>(ErrorCode::BundledPositionAlreadyClosed) && *final(self) == *old(self),
        // otherwise exactly this member of the set flips
        r is Ok ==> bundle_index < 256 && final(self).position_bundle_mint == old(self).position_bundle_mint
            && (forall|j: int| 0 <= j < 256 ==> #[trigger] bundle_open(final(self).position_bitmap, j) == (if j == bundle_index { open } else { bundle_open(old(self).position_bitmap, j) })),
        bundle_index < 256 && (open != bundle_open(old(self).position_bitmap, bundle_index as int)) ==> r is Ok,
//@ inject before /^\s*Ok\(\(\)\)\s*$/
        proof {
            let bx = bundle_index as int;
            vstd::arithmetic::div_mod::lemma_fundamental_div_mod(bx, 8);
            assert forall|j: int| 0 <= j < 256 implies #[trigger] bundle_open(self.position_bitmap, j) == (if j == bx { open } else { bundle_open(old(self).position_bitmap, j) }) by {
                vstd::arithmetic::div_mod::lemma_fundamental_div_mod(j, 8);
                let k = (j % 8) as u8;
                assert(bitmap_offset < 8 && bitmap_index as int == bx / 8 && bitmap_offset as int == bx % 8);
                assert(mask == 1u8 << (bitmap_offset as u8)) by(bit_vector) requires mask == 1u8 << bitmap_offset, bitmap_offset < 8;
                assert(opened == bundle_open(old(self).position_bitmap, bx));
                if j / 8 == bx / 8 {
                    assert((j == bx) == (k == bitmap_offset as u8));
                    lemma_flip_bit(bitmap, bitmap_offset as u8, k);
                    lemma_flip_bit(bitmap, bitmap_offset as u8, bitmap_offset as u8);
                    assert(self.position_bitmap[j / 8] == bitmap ^ mask);
                    assert(old(self).position_bitmap[j / 8] == bitmap);
                    assert(bundle_open(self.position_bitmap, j) == (((bitmap ^ mask) >> k) & 1u8 == 1u8));
                    assert(bundle_open(old(self).position_bitmap, j) == ((bitmap >> k) & 1u8 == 1u8));
                    assert(open != opened);
                } else {
                    assert(self.position_bitmap[j / 8] == old(self).position_bitmap[j / 8]);
                }
            }
        }
//@ inject before /let bit = bitmap & mask;/
        proof { lemma_flip_bit(bitmap, bitmap_offset as u8, bitmap_offset as u8); assert(mask == 1u8 << (bitmap_offset as u8)); }
//@ end
//@ fn state/position_bundle.rs open_bundled_position in=/^impl PositionBundle \{/ -> r canary
    ensures
        r is Ok <==> (bundle_index < 256 && !bundle_open(old(self).position_bitmap, bundle_index as int)),
        r is Ok ==> (forall|j: int| 0 <= j < 256 ==> #[trigger] bundle_open(final(self).position_bitmap, j) == (j == bundle_index || bundle_open(old(self).position_bitmap, j))),
        r is Err ==> *final(self) == *old(self),
        final(self).position_bundle_mint == old(self).position_bundle_mint,
//@ end
//@ fn state/position_bundle.rs close_bundled_position in=/^impl PositionBundle \{/ -> r canary
    ensures
        r is Ok <==> (bundle_index < 256 && bundle_open(old(self).position_bitmap, bundle_index as int)),
        r is Ok ==> (forall|j: int| 0 <= j < 256 ==> #[trigger] bundle_open(final(self).position_bitmap, j) == (j != bundle_index && bundle_open(old(self).position_bitmap, j))),
        r is Err ==> *final(self) == *old(self),
//@ end
//@ fn state/position_bundle.rs is_deletable in=/^impl PositionBundle \{/ -> r
    ensures r == (forall|j: int| 0 <= j < 256 ==> !#[trigger] bundle_open(self.position_bitmap, j)),
//@ rewrite_iter
//@ loop 0
        invariant bitmap_it <= 32, forall|k: int| 0 <= k < bitmap_it ==> self.position_bitmap[k] == 0,
        decreases 32 - bitmap_it,
//@ inject before /return false;/
                proof { lemma_some_open(self.position_bitmap, bitmap_ix as int); }
//@ inject before /^\s*true\s*$/
        proof { lemma_none_open(self.position_bitmap); }
//@ end
}

impl LockConfig {
//@ fn state/lock_config.rs initialize in=/^impl LockConfig \{/ -> r canary
    ensures r is Ok, final(self).position == position, final(self).position_owner == position_owner, final(self).whirlpool == whirlpool,
        final(self).locked_timestamp == locked_timestamp, final(self).lock_type == LockTypeLabel::Permanent,
//@ end
}
}
