//@ needs specs errors stdspecs anchor_shim state_core tick_math_abs
// Small pure helpers that sit in instruction handlers / util: reward collection amounts (C11, C01) and the derivation of a one-sided position's
// missing bound from the current price (C18).
pub mod handlers_small {
use vstd::prelude::*;
use crate::errors::ErrorCode;
use crate::specs::*;
use crate::anchor_shim::*;
use crate::state_core::{PositionRewardInfo, FULL_RANGE_ONLY_TICK_SPACING_THRESHOLD};
use crate::tick_math::*;
pub mod state { pub use crate::state_core::{MAX_TICK_INDEX, MIN_TICK_INDEX}; }
//@ assume i32::rem_euclid(a, b) is the Euclidean remainder for b > 0 (std)
pub assume_specification [i32::rem_euclid] (a: i32, b: i32) -> (r: i32) requires b != 0, !(a == i32::MIN && b == -1) ensures b > 0 ==> r as int == (a as int) % (b as int);

//@ tags C11 C01
/// collecting a reward pays min(owed, vault balance) and keeps the rest owed: never more than the vault holds, nothing lost
//@ fn instructions/collect_reward.rs calculate_collect_reward -> r pub
    ensures r.0 as int == min_i(position_reward.amount_owed as int, vault_amount as int), r.0 as int + r.1 as int == position_reward.amount_owed as int, r.0 <= vault_amount,
//@ end
//@ fn instructions/v2/collect_reward.rs calculate_collect_reward -> r as=calculate_collect_reward_v2 pub
    ensures r.0 as int == min_i(position_reward.amount_owed as int, vault_amount as int), r.0 as int + r.1 as int == position_reward.amount_owed as int, r.0 <= vault_amount,
//@ end

//@ tags C18
/// smallest multiple of s that is >= a / largest multiple of s that is <= t
pub open spec fn snap_up(a: int, s: int) -> int { if a % s == 0 { a } else { a + (s - a % s) } }
pub open spec fn snap_down(t: int, s: int) -> int { t - t % s }
/// first tick whose price is not below p
pub open spec fn anchor_up(p: int) -> int { if price_at(tick_of(p)) == p { tick_of(p) } else { tick_of(p) + 1 } }
/// C18: a bound left as a sentinel (i32::MIN for the lower, i32::MAX for the upper bound) is derived from the current price: the nearest usable tick
/// that keeps the whole range on one side of the price (lower: first spacing multiple whose price is >= the current price; upper: last spacing
/// multiple whose price is <= the current price); two sentinels are rejected; full-range-only pools and explicit bounds pass through unchanged
pub open spec fn one_sided_spec(tick_lower_index: i32, tick_upper_index: i32, tick_spacing: u16, current_sqrt_price: u128, r: Result<(i32, i32)>) -> bool {
        let lo_s = tick_lower_index == i32::MIN; let up_s = tick_upper_index == i32::MAX; let s = tick_spacing as int; let p = current_sqrt_price as int;
        if (!lo_s && !up_s) || tick_spacing >= 32768 { r == Ok::<(i32, i32), Error>((tick_lower_index, tick_upper_index)) }
        else if lo_s && up_s { r == err::<(i32, i32)>(ErrorCode::InvalidTickIndex) }
        else if lo_s {
            let l = snap_up(anchor_up(p), s);
            if l > 443636 { r == err::<(i32, i32)>(ErrorCode::InvalidTickIndex) }
            else { r == Ok::<(i32, i32), Error>((l as i32, tick_upper_index)) && l % s == 0 && price_at(l) >= p && (tick_ok(l - s) ==> price_at(l - s) < p) }
        } else {
            let u = snap_down(tick_of(p), s);
            if u < -443636 { r == err::<(i32, i32)>(ErrorCode::InvalidTickIndex) }
            else { r == Ok::<(i32, i32), Error>((tick_lower_index, u as i32)) && u % s == 0 && price_at(u) <= p && (tick_ok(u + s) ==> price_at(u + s) > p) }
        }
}
//@ fn util/shared.rs resolve_one_sided_position_ticks -> r pub canary
    requires tick_spacing > 0, price_ok(current_sqrt_price as int),
    ensures one_sided_spec(tick_lower_index, tick_upper_index, tick_spacing, current_sqrt_price, r),
//@ rewrite /let snap_tick_down = \|t: i32\| -> i32 \{/ => /let snap_tick_down = |t: i32| -> (o: i32) requires -500_000 <= t <= 500_000, 0 < tick_spacing_i32 <= 65535, ensures o as int == snap_down(t as int, tick_spacing_i32 as int), {/
//@ rewrite /let snap_tick_up = \|t: i32\| -> i32 \{/ => /let snap_tick_up = |t: i32| -> (o: i32) requires -500_000 <= t <= 500_000, 0 < tick_spacing_i32 <= 65535, ensures o as int == snap_up(t as int, tick_spacing_i32 as int), {/
//@ inject at /^\s*\{/
    proof { axiom_price_at(); }
//@ inject before /if lower_is_sentinel \{/
    proof {
        let s = tick_spacing as int; let p = current_sqrt_price as int; let t = tick_of(p); let a = anchor_up(p);
        vstd::arithmetic::div_mod::lemma_fundamental_div_mod(a, s); vstd::arithmetic::div_mod::lemma_mod_bound(a, s);
        vstd::arithmetic::div_mod::lemma_fundamental_div_mod(t, s); vstd::arithmetic::div_mod::lemma_mod_bound(t, s);
        let l = snap_up(a, s); let u = snap_down(t, s);
        assert(u == s * (t / s)); vstd::arithmetic::div_mod::lemma_fundamental_div_mod_converse(u, s, t / s, 0);
        if a % s != 0 { assert(l == s * (a / s + 1)) by(nonlinear_arith) requires a == s * (a / s) + a % s, l == a + (s - a % s); vstd::arithmetic::div_mod::lemma_fundamental_div_mod_converse(l, s, a / s + 1, 0); }
        assert(a <= l < a + s); assert(t - s < u <= t);
    }
//@ end
}
