//@ needs specs errors anchor_shim stdspecs
pub mod state_core {
use vstd::prelude::*;
use crate::errors::ErrorCode;
use crate::specs::*;
use crate::anchor_shim::*;
//@ tags C05 C06 C07 C11 C12 C18 C19 C01
//@ const state/whirlpool.rs NUM_REWARDS
//@ const state/tick.rs MAX_TICK_INDEX MIN_TICK_INDEX
//@ const math/tick_math.rs FULL_RANGE_ONLY_TICK_SPACING_THRESHOLD
//@ const state/tick_array.rs TICK_ARRAY_SIZE
//@ const math/token_math.rs MAX_FEE_RATE MAX_PROTOCOL_FEE_RATE
//@ struct state/tick.rs Tick TickUpdate
//@ struct state/whirlpool.rs Whirlpool WhirlpoolRewardInfo
//@ struct state/position.rs Position PositionRewardInfo PositionUpdate

pub open spec fn wrap128(x: int) -> int { x % 0x1_0000_0000_0000_0000_0000_0000_0000_0000int }
pub open spec fn wrap64(x: int) -> int { x % 0x1_0000_0000_0000_0000int }

impl Tick {
    pub open spec fn as_update(&self) -> TickUpdate {
        TickUpdate { initialized: self.initialized, liquidity_net: self.liquidity_net, liquidity_gross: self.liquidity_gross,
            fee_growth_outside_a: self.fee_growth_outside_a, fee_growth_outside_b: self.fee_growth_outside_b, reward_growths_outside: self.reward_growths_outside }
    }
}
//@ assume derive(Default) on TickUpdate / PositionUpdate / PositionRewardInfo is replaced by an explicit all-zero impl (the derive is a macro of std; its expansion is not in the repository text)
pub open spec fn is_tick_update_default(u: TickUpdate) -> bool {
    !u.initialized && u.liquidity_net == 0 && u.liquidity_gross == 0 && u.fee_growth_outside_a == 0 && u.fee_growth_outside_b == 0
    && u.reward_growths_outside[0] == 0 && u.reward_growths_outside[1] == 0 && u.reward_growths_outside[2] == 0
}
impl Default for TickUpdate {
    fn default() -> (r: Self) ensures is_tick_update_default(r) {
        TickUpdate { initialized: false, liquidity_net: 0, liquidity_gross: 0, fee_growth_outside_a: 0, fee_growth_outside_b: 0, reward_growths_outside: [0u128, 0u128, 0u128] }
    }
}
pub open spec fn is_position_update_default(u: PositionUpdate) -> bool {
    u.liquidity == 0 && u.fee_growth_checkpoint_a == 0 && u.fee_owed_a == 0 && u.fee_growth_checkpoint_b == 0 && u.fee_owed_b == 0
    && (forall|k: int| 0 <= k < 3 ==> (#[trigger] u.reward_infos[k]).growth_inside_checkpoint == 0 && u.reward_infos[k].amount_owed == 0)
}
impl Default for PositionUpdate {
    fn default() -> (r: Self) ensures is_position_update_default(r) {
        let z = PositionRewardInfo { growth_inside_checkpoint: 0, amount_owed: 0 };
        PositionUpdate { liquidity: 0, fee_growth_checkpoint_a: 0, fee_owed_a: 0, fee_growth_checkpoint_b: 0, fee_owed_b: 0, reward_infos: [z, z, z] }
    }
}
pub proof fn lemma_mod_neg_zero(x: int, b: int)
    requires b > 0,
    ensures (x % b == 0) <==> ((-x) % b == 0),
{
    vstd::arithmetic::div_mod::lemma_fundamental_div_mod(x, b);
    vstd::arithmetic::div_mod::lemma_fundamental_div_mod(-x, b);
    if x % b == 0 {
        assert(-x == b * (-(x / b)) + 0) by(nonlinear_arith) requires x == b * (x / b);
        vstd::arithmetic::div_mod::lemma_fundamental_div_mod_converse(-x, b, -(x / b), 0);
    }
    if (-x) % b == 0 {
        assert(x == b * (-((-x) / b)) + 0) by(nonlinear_arith) requires -x == b * ((-x) / b);
        vstd::arithmetic::div_mod::lemma_fundamental_div_mod_converse(x, b, -((-x) / b), 0);
    }
}
pub open spec fn tick_usable(t: int, spacing: int) -> bool { -443636 <= t <= 443636 && spacing > 0 && t % spacing == 0 }

impl Tick {
//@ fn state/tick.rs update in=/^impl Tick \{/ tags=C05,C07,C11,C12,C13,C01
    ensures final(self).as_update() == *update,
//@ end
//@ fn state/tick.rs check_is_out_of_bounds in=/^impl Tick \{/ -> r tags=C18,C10,C12
    ensures r == !(-443636 <= tick_index <= 443636),
//@ end
//@ fn state/tick.rs check_is_usable_tick in=/^impl Tick \{/ -> r tags=C18,C10,C12
    requires tick_spacing > 0,
    ensures r == tick_usable(tick_index as int, tick_spacing as int),
//@ inject at /^\{/
    proof { lemma_mod_neg_zero(tick_index as int, tick_spacing as int);
        vstd::arithmetic::div_mod::lemma_fundamental_div_mod(tick_index as int, tick_spacing as int);
        vstd::arithmetic::div_mod::lemma_fundamental_div_mod(-(tick_index as int), tick_spacing as int); }
//@ end
//@ fn state/tick.rs full_range_indexes in=/^impl Tick \{/ -> r tags=C18,C12
    requires tick_spacing > 0,
    ensures r.0 as int == -((443636int / tick_spacing as int) * tick_spacing as int), r.1 as int == (443636int / tick_spacing as int) * tick_spacing as int,
        -443636 <= r.0 <= 0 <= r.1 <= 443636,
//@ inject at /^\{/
    proof {
        let ts = tick_spacing as int; let k = 443636int / ts;
        vstd::arithmetic::div_mod::lemma_fundamental_div_mod(443636, ts);
        vstd::arithmetic::div_mod::lemma_div_pos_is_pos(443636, ts);
        assert(0 <= k * ts <= 443636) by(nonlinear_arith) requires 443636 == ts * k + 443636int % ts, 443636int % ts >= 0, k >= 0, ts > 0;
        assert((-k) * ts == -(k * ts)) by(nonlinear_arith);
        assert(k <= 443636) by(nonlinear_arith) requires 0 <= k * ts <= 443636, ts >= 1, k >= 0;
    }
//@ end
}

impl vstd::std_specs::convert::FromSpecImpl<Tick> for TickUpdate {
    open spec fn obeys_from_spec() -> bool { true }
    open spec fn from_spec(v: Tick) -> Self { v.as_update() }
}
impl From<Tick> for TickUpdate {
//@ fn state/tick.rs from in=/^impl From<Tick> for TickUpdate/ -> r tags=C05,C07,C11,C12
    ensures r == tick.as_update(),
//@ end
}

impl WhirlpoolRewardInfo {
    pub open spec fn is_init(&self) -> bool { self.mint != pk_default() }
//@ fn state/whirlpool.rs initialized in=/^impl WhirlpoolRewardInfo \{/ -> r tags=C11,C12,C19
    ensures r == self.is_init(),
//@ end
//@ fn state/whirlpool.rs to_reward_growths in=/^impl WhirlpoolRewardInfo \{/ -> r tags=C11,C12
    ensures forall|k: int| 0 <= k < 3 ==> r[k] == reward_infos[k].growth_global_x64,
//@ loop 0
        invariant forall|k: int| 0 <= k < i ==> reward_growths[k] == reward_infos[k].growth_global_x64,
//@ end
}

/// the pool account after a swap result has been written: price, tick, liquidity, rewards and timestamp replaced, growth and protocol share on the fee (input) side only
pub open spec fn after_swap(w: Whirlpool, liquidity: u128, tick_index: i32, sqrt_price: u128, fee_growth_global: u128, reward_infos: [WhirlpoolRewardInfo; NUM_REWARDS], protocol_fee: u64, fee_in_a: bool, ts: u64) -> Whirlpool {
    Whirlpool { tick_current_index: tick_index, sqrt_price: sqrt_price, liquidity: liquidity, reward_infos: reward_infos, reward_last_updated_timestamp: ts,
        fee_growth_global_a: if fee_in_a { fee_growth_global } else { w.fee_growth_global_a },
        fee_growth_global_b: if fee_in_a { w.fee_growth_global_b } else { fee_growth_global },
        protocol_fee_owed_a: if fee_in_a { (w.protocol_fee_owed_a + protocol_fee) as u64 } else { w.protocol_fee_owed_a },
        protocol_fee_owed_b: if fee_in_a { w.protocol_fee_owed_b } else { (w.protocol_fee_owed_b + protocol_fee) as u64 }, ..w }
}
impl Whirlpool {
//@ fn state/whirlpool.rs update_after_swap in=/^impl Whirlpool \{/ tags=C06,C03,C01
    requires
        is_token_fee_in_a ==> old(self).protocol_fee_owed_a as int + protocol_fee as int <= U64MAX(),
        !is_token_fee_in_a ==> old(self).protocol_fee_owed_b as int + protocol_fee as int <= U64MAX(),
    ensures
        final(self).tick_current_index == tick_index, final(self).sqrt_price == sqrt_price, final(self).liquidity == liquidity,
        final(self).reward_infos == reward_infos, final(self).reward_last_updated_timestamp == reward_last_updated_timestamp,
        // the protocol's share is added to the fee side only; the other side is untouched (C06)
        is_token_fee_in_a ==> final(self).fee_growth_global_a == fee_growth_global && final(self).protocol_fee_owed_a as int == old(self).protocol_fee_owed_a as int + protocol_fee as int
            && final(self).fee_growth_global_b == old(self).fee_growth_global_b && final(self).protocol_fee_owed_b == old(self).protocol_fee_owed_b,
        !is_token_fee_in_a ==> final(self).fee_growth_global_b == fee_growth_global && final(self).protocol_fee_owed_b as int == old(self).protocol_fee_owed_b as int + protocol_fee as int
            && final(self).fee_growth_global_a == old(self).fee_growth_global_a && final(self).protocol_fee_owed_a == old(self).protocol_fee_owed_a,
        // frame
        final(self).whirlpools_config == old(self).whirlpools_config, final(self).tick_spacing == old(self).tick_spacing,
        final(self).fee_rate == old(self).fee_rate, final(self).protocol_fee_rate == old(self).protocol_fee_rate,
        final(self).token_mint_a == old(self).token_mint_a, final(self).token_mint_b == old(self).token_mint_b,
        final(self).token_vault_a == old(self).token_vault_a, final(self).token_vault_b == old(self).token_vault_b,
        // nothing else changes
        *final(self) == after_swap(*old(self), liquidity, tick_index, sqrt_price, fee_growth_global, reward_infos, protocol_fee, is_token_fee_in_a, reward_last_updated_timestamp),
//@ end
//@ fn state/whirlpool.rs reset_protocol_fees_owed in=/^impl Whirlpool \{/ tags=C06,C01
    ensures final(self).protocol_fee_owed_a == 0, final(self).protocol_fee_owed_b == 0,
        *final(self) == (Whirlpool { protocol_fee_owed_a: 0, protocol_fee_owed_b: 0, ..*old(self) }),
//@ end
//@ fn state/whirlpool.rs update_fee_rate in=/^impl Whirlpool \{/ -> r tags=C19 canary
    ensures
        fee_rate > 60_000 ==> r == err::<()>(ErrorCode::FeeRateMaxExceeded) && *final(self) == *old(self),
        fee_rate <= 60_000 ==> r is Ok && *final(self) == (Whirlpool { fee_rate: fee_rate, ..*old(self) }),
//@ end
//@ fn state/whirlpool.rs update_protocol_fee_rate in=/^impl Whirlpool \{/ -> r tags=C19 canary
    ensures
        protocol_fee_rate > 2_500 ==> r == err::<()>(ErrorCode::ProtocolFeeRateMaxExceeded) && *final(self) == *old(self),
        protocol_fee_rate <= 2_500 ==> r is Ok && *final(self) == (Whirlpool { protocol_fee_rate: protocol_fee_rate, ..*old(self) }),
//@ end
//@ fn state/whirlpool.rs update_rewards in=/^impl Whirlpool \{/ tags=C11,C01
    ensures *final(self) == (Whirlpool { reward_infos: reward_infos, reward_last_updated_timestamp: reward_last_updated_timestamp, ..*old(self) }),
//@ end
/// C11: changing one reward's emission rate first settles ALL rewards up to now (the freshly computed growths are stored and the shared clock moves), then the
/// new rate applies to the indexed reward only
//@ fn state/whirlpool.rs update_emissions in=/^impl Whirlpool \{/ -> r tags=C11 canary
    ensures
        index >= 3 ==> r == err::<()>(ErrorCode::InvalidRewardIndex) && *final(self) == *old(self),
        index < 3 ==> r is Ok && final(self).reward_last_updated_timestamp == timestamp
            && (forall|k: int| 0 <= k < 3 ==> #[trigger] final(self).reward_infos[k] == (if k == index { WhirlpoolRewardInfo { emissions_per_second_x64: emissions_per_second_x64, ..reward_infos[k] } } else { reward_infos[k] }))
            && *final(self) == (Whirlpool { reward_infos: final(self).reward_infos, reward_last_updated_timestamp: timestamp, ..*old(self) }),
//@ end
    /// C15 / C17: the token a swap direction takes in / pays out, and the pool's vault for it
    pub open spec fn input_token_mint_spec(&self, a_to_b: bool) -> Pubkey { if a_to_b { self.token_mint_a } else { self.token_mint_b } }
    pub open spec fn input_token_vault_spec(&self, a_to_b: bool) -> Pubkey { if a_to_b { self.token_vault_a } else { self.token_vault_b } }
    pub open spec fn output_token_mint_spec(&self, a_to_b: bool) -> Pubkey { if a_to_b { self.token_mint_b } else { self.token_mint_a } }
    pub open spec fn output_token_vault_spec(&self, a_to_b: bool) -> Pubkey { if a_to_b { self.token_vault_b } else { self.token_vault_a } }
    /// C04: the reward authority is the key stored in the first reward slot's extension bytes
    pub open spec fn reward_authority_spec(&self) -> Pubkey { Pubkey(self.reward_infos[0].extension) }
//@ fn state/whirlpool.rs input_token_mint in=/^impl Whirlpool \{/ -> r tags=C15,C17
    ensures r == self.input_token_mint_spec(a_to_b),
//@ end
//@ fn state/whirlpool.rs input_token_vault in=/^impl Whirlpool \{/ -> r tags=C15,C17
    ensures r == self.input_token_vault_spec(a_to_b),
//@ end
//@ fn state/whirlpool.rs output_token_mint in=/^impl Whirlpool \{/ -> r tags=C15,C17
    ensures r == self.output_token_mint_spec(a_to_b),
//@ end
//@ fn state/whirlpool.rs output_token_vault in=/^impl Whirlpool \{/ -> r tags=C15,C17
    ensures r == self.output_token_vault_spec(a_to_b),
//@ end
//@ fn state/whirlpool.rs reward_authority in=/^impl Whirlpool \{/ -> r tags=C04
    ensures r == self.reward_authority_spec(),
//@ rewrite /Pubkey::from\(self\.reward_infos\[0\]\.extension\)/ => /Pubkey(self.reward_infos[0].extension)/
//@ end
//@ fn state/whirlpool.rs update_rewards_and_liquidity in=/^impl Whirlpool \{/ tags=C11,C05,C12,C01
    ensures *final(self) == (Whirlpool { reward_infos: reward_infos, reward_last_updated_timestamp: reward_last_updated_timestamp, liquidity: liquidity, ..*old(self) }),
//@ end
}

impl Position {
    pub open spec fn empty(&self) -> bool {
        self.liquidity == 0 && self.fee_owed_a == 0 && self.fee_owed_b == 0
        && self.reward_infos[0].amount_owed == 0 && self.reward_infos[1].amount_owed == 0 && self.reward_infos[2].amount_owed == 0
    }
//@ fn state/position.rs is_position_empty in=/^impl Position \{/ -> r tags=C18,C12
    ensures r == position.empty(),
//@ loop 0
        invariant rewards_not_owed == (forall|k: int| 0 <= k < i ==> position.reward_infos[k].amount_owed == 0),
//@ end
//@ fn state/position.rs update in=/^impl Position \{/ tags=C05,C07,C11,C12,C01
    ensures
        final(self).liquidity == update.liquidity,
        final(self).fee_growth_checkpoint_a == update.fee_growth_checkpoint_a, final(self).fee_growth_checkpoint_b == update.fee_growth_checkpoint_b,
        final(self).fee_owed_a == update.fee_owed_a, final(self).fee_owed_b == update.fee_owed_b, final(self).reward_infos == update.reward_infos,
        final(self).whirlpool == old(self).whirlpool, final(self).position_mint == old(self).position_mint,
        final(self).tick_lower_index == old(self).tick_lower_index, final(self).tick_upper_index == old(self).tick_upper_index,
//@ end
//@ fn state/position.rs reset_fees_owed in=/^impl Position \{/ tags=C07,C01
    ensures *final(self) == (Position { fee_owed_a: 0, fee_owed_b: 0, ..*old(self) }),
//@ end
}
}
// path mirror: the repository refers to these items as crate::state::*
pub mod state {
pub use crate::state_core::*;
}
