//@ needs specs errors stdspecs lebytes anchor_shim state_core authority position_rules pino_state
// C13 / C12: the Pinocchio tick-array views. The trait's shared helpers (bounds, the manual-division slot computation) and the fixed array are
// verified as they stand. The dynamic (variable-length) array is verified at BYTE level: which bytes update_tick moves, clears and writes
// (contract P2 below), from which the slot-level statements of C13 follow by the layout lemmas at the end of this fragment.
// Three constructs of the dynamic array are outside Verus and are replaced by shims with assumed contracts (logged rewrites):
//   `let s = &mut self.ticks[o..]; s.rotate_right(n)` / `rotate_left(n)`  -> rotate_right_from / rotate_left_from  (std slice rotation)
//   the unsafe reinterpretation of 113 bytes as a MemoryMappedTick             -> tick_ref_at / write_tick_at  (the Kani harness tick_layout covers the view)
pub mod pino_tick_arrays {
use vstd::prelude::*;
use crate::errors::ErrorCode as WhirlpoolErrorCode;
use crate::specs::*;
use crate::lebytes::*;
use crate::anchor_shim::Pubkey;
use crate::authority_pino::{Result, UnifiedError};
use crate::state_core::Tick;
use crate::pino_state::*;
broadcast use {crate::authority_pino::ax_qmark_pino, crate::lebytes::le_roundtrip};
//@ tags C13 C12
//@ subst /\b(u128|i128|u64|i32|u16)::from_le_bytes\(/ => /\1_from_le_bytes(/
//@ subst /\.to_le_bytes\(\)/ => /.to_le_bytes_v()/
//@ subst /\.count_ones\(\)/ => /.count_ones_p()/
//@ subst /crate::state::DynamicTickData::LEN/ => /DYN_DATA_LEN/
//@ subst /crate::state::DynamicTick::INITIALIZED_LEN/ => /DYNAMIC_TICK_INITIALIZED_LEN/
//@ subst /super::tick::STATIC_ZEROED_MEMORY_MAPPED_TICK/ => /STATIC_ZEROED_MEMORY_MAPPED_TICK/
//@ subst /crate::errors::ErrorCode::TickNotFound/ => /WhirlpoolErrorCode::TickNotFound/
//@ assume constants DynamicTickData::LEN (112) and DynamicTick::INITIALIZED_LEN (113) of crate::state are restated as DYN_DATA_LEN / DYNAMIC_TICK_INITIALIZED_LEN; the Anchor-side definitions are extracted in fragment tick_arrays
pub const DYN_DATA_LEN: usize = 112;
pub const MIN_TICK_INDEX: i32 = -443636;
pub const MAX_TICK_INDEX: i32 = 443636;
//@ const pinocchio/state/whirlpool/tick_array/dynamic_tick_array.rs pub DYNAMIC_TICK_INITIALIZED_LEN DYNAMIC_TICK_UNINITIALIZED_LEN TICKS_MAX_USIZE
//@ struct pinocchio/state/whirlpool/tick_array/fixed_tick_array.rs MemoryMappedFixedTickArray
//@ struct pinocchio/state/whirlpool/tick_array/dynamic_tick_array.rs MemoryMappedDynamicTickArray

pub open spec fn tick_is(t: Tick, u: crate::state_core::TickUpdate) -> bool {
    t.initialized == u.initialized && t.liquidity_net == u.liquidity_net && t.liquidity_gross == u.liquidity_gross && t.fee_growth_outside_a == u.fee_growth_outside_a
    && t.fee_growth_outside_b == u.fee_growth_outside_b && (forall|k: int| 0 <= k < 3 ==> t.reward_growths_outside[k] == u.reward_growths_outside[k])
}
pub open spec fn tick_zero(t: Tick) -> bool { crate::state_core::is_tick_update_default(t.as_update()) }
//@ assume STATIC_ZEROED_MEMORY_MAPPED_TICK (a static all-zero tick) is an opaque constant whose view is the default tick
#[verifier::external_body]
pub fn zeroed_tick_ref() -> (r: &'static MemoryMappedTick) ensures tick_zero(r.view()) { unimplemented!() }

//@ fn pinocchio/state/whirlpool/tick_array/mod.rs check_is_out_of_bounds -> r stub
    ensures r == !(-443636 <= tick_index <= 443636),
//@ end

/// slot of `tick` in an array starting at `start`
pub open spec fn slot_exact(tick: int, start: int, spacing: int) -> Option<int> {
    if start <= tick < start + 88 * spacing && -443636 <= tick <= 443636 && (tick - start) % spacing == 0 { Some((tick - start) / spacing) } else { None }
}

/// the manual division walks multiplier = 64, 32, .., 1 with divisor = spacing * multiplier, and stops with multiplier 0
pub open spec fn div_state(m: int, d: int, s: int) -> bool {
    (m == 64 && d == 64 * s) || (m == 32 && d == 32 * s) || (m == 16 && d == 16 * s) || (m == 8 && d == 8 * s) || (m == 4 && d == 4 * s) || (m == 2 && d == 2 * s)
    || (m == 1 && d == s) || (m == 0 && d < s)
}
pub trait TickArray {
    spec fn vstart(&self) -> int;
    fn start_tick_index(&self) -> (r: i32) ensures r as int == self.vstart();
//@ fn pinocchio/state/whirlpool/tick_array/mod.rs in_search_range in=/^pub trait TickArray \{/ -> r
    requires -1_000_000 <= self.vstart() <= 1_000_000,
    ensures r == ({ let lo = self.vstart() - (if shifted { tick_spacing as int } else { 0 }); lo <= tick_index < lo + 88 * tick_spacing as int }),
//@ inject at /^\s*\{/
        proof { assert(88 * tick_spacing as int <= 88 * 65535); }
//@ end
//@ fn pinocchio/state/whirlpool/tick_array/mod.rs check_in_array_bounds in=/^pub trait TickArray \{/ -> r
    requires -1_000_000 <= self.vstart() <= 1_000_000,
    ensures r == (self.vstart() <= tick_index < self.vstart() + 88 * tick_spacing as int),
//@ end
/// the slot of a usable tick of this array: in bounds, inside the protocol tick range, on the spacing grid (manual 7-bit division)
//@ fn pinocchio/state/whirlpool/tick_array/mod.rs check_is_usable_tick_and_get_offset in=/^pub trait TickArray \{/ -> r nodec
    requires -1_000_000 <= self.vstart() <= 1_000_000, tick_spacing > 0,
    ensures match slot_exact(tick_index as int, self.vstart(), tick_spacing as int) { Some(o) => r == Some(o as usize) && 0 <= o < 88, None => r is None },
//@ loop 0
            invariant tick_spacing_u32 == tick_spacing as u32, tick_spacing > 0,
                div_state(multiplier as int, divisor as int, tick_spacing as int),
                remaining as int + offset as int * tick_spacing as int == tick_index as int - self.vstart(),
                multiplier > 0 ==> (remaining as int) < 2 * divisor as int, multiplier == 0 ==> (remaining as int) < tick_spacing as int,
                offset + 2 * multiplier <= 128,
//@ inject before /let mut divisor = /
        proof { let d = tick_index as int - self.vstart(); assert(0 <= d < 88 * tick_spacing as int); assert(0 * tick_spacing as int == 0) by(nonlinear_arith);
                assert(tick_spacing as int * 64 <= 65535 * 64); }
//@ inject after /while divisor >= tick_spacing_u32 \{/
            proof { let s = tick_spacing as int; let m = multiplier as int;
                assert((offset as int + m) * s == offset as int * s + m * s) by(nonlinear_arith);
                assert(divisor >> 1 == divisor / 2) by(bit_vector); assert(multiplier >> 1 == multiplier / 2) by(bit_vector);
                assert(m * s == s * m) by(nonlinear_arith);
            }
//@ inject before /if remaining == 0 \{/
        proof { let s = tick_spacing as int; let d = tick_index as int - self.vstart(); let q = offset as int; let rem = remaining as int;
                assert(d == s * q + rem) by(nonlinear_arith) requires rem + q * s == d;
                vstd::arithmetic::div_mod::lemma_fundamental_div_mod_converse(d, s, q, rem);
                assert(q < 88) by(nonlinear_arith) requires d < 88 * s, d == s * q + rem, rem >= 0, s > 0; }
//@ end
}

// ------------------------------------------------------------------ fixed array
impl MemoryMappedFixedTickArray {
    pub closed spec fn fstart(&self) -> int { le_i32(self.start_tick_index) as int }
    pub closed spec fn ftick(&self, slot: int) -> Tick { self.ticks[slot].view() }
}
impl TickArray for MemoryMappedFixedTickArray {
    closed spec fn vstart(&self) -> int { self.fstart() }
//@ fn pinocchio/state/whirlpool/tick_array/fixed_tick_array.rs start_tick_index in=/^impl TickArray for MemoryMappedFixedTickArray \{/ -> r
//@ end
}
impl MemoryMappedFixedTickArray {
//@ fn pinocchio/state/whirlpool/tick_array/fixed_tick_array.rs get_tick in=/^impl TickArray for MemoryMappedFixedTickArray \{/ -> r pub
    requires -1_000_000 <= self.vstart() <= 1_000_000, tick_spacing > 0,
    ensures match slot_exact(tick_index as int, self.vstart(), tick_spacing as int) {
        Some(o) => r matches Ok(t) && t.view() == self.ftick(o),
        None => r matches Err(e) && e == UnifiedError::Whirlpool(WhirlpoolErrorCode::TickNotFound) },
//@ end
//@ fn pinocchio/state/whirlpool/tick_array/fixed_tick_array.rs update_tick in=/^impl TickArray for MemoryMappedFixedTickArray \{/ -> r pub
    requires -1_000_000 <= old(self).vstart() <= 1_000_000, tick_spacing > 0,
    ensures final(self).vstart() == old(self).vstart(),
        match slot_exact(tick_index as int, old(self).vstart(), tick_spacing as int) {
            Some(o) => r is Ok && tick_is(final(self).ftick(o), update.view())
                && forall|j: int| 0 <= j < 88 && j != o ==> final(self).ftick(j) == old(self).ftick(j),
            None => r matches Err(e) && e == UnifiedError::Whirlpool(WhirlpoolErrorCode::TickNotFound) && forall|j: int| 0 <= j < 88 ==> final(self).ftick(j) == old(self).ftick(j) },
//@ end
}

// ------------------------------------------------------------------ dynamic array: bitmap, offsets
//@ assume u128::count_ones is the number of set bits among the 128 bits (count_ones_p with the recursive spec pc(x, 128)); checked bit-precisely for the masked use by the Kani harness popcount_below
pub trait CountOnesP { fn count_ones_p(self) -> (r: u32); }
impl CountOnesP for u128 {
    #[verifier::external_body]
    fn count_ones_p(self) -> (r: u32) ensures r as int == pc(self, 128) { self.count_ones() }
}
pub open spec fn bit(x: u128, i: nat) -> bool { (x >> (i as u128)) & 1u128 == 1u128 }
/// number of set bits among the low n bits
pub open spec fn pc(x: u128, n: nat) -> int decreases n { if n == 0 { 0 } else { pc(x, (n - 1) as nat) + (if bit(x, (n - 1) as nat) { 1int } else { 0int }) } }
/// byte offset of slot i inside the tick bytes: one byte per slot plus 112 more per initialized slot below it
pub open spec fn off(b: u128, i: nat) -> int { i as int + 112 * pc(b, i) }
pub proof fn lemma_pc_bounds(x: u128, n: nat) ensures 0 <= pc(x, n) <= n decreases n { if n > 0 { lemma_pc_bounds(x, (n - 1) as nat); } }
pub proof fn lemma_pc_mono(x: u128, a: nat, b: nat) requires a <= b ensures pc(x, a) <= pc(x, b), pc(x, b) - pc(x, a) <= b - a decreases b
{ if a < b { lemma_pc_mono(x, a, (b - 1) as nat); } }
/// masking with the low k bits keeps exactly the bits below k
pub proof fn lemma_pc_mask(x: u128, k: nat, n: nat) requires k < 128, n <= 128 ensures pc(x & (((1u128 << (k as u128)) - 1) as u128), n) == pc(x, if n <= k { n } else { k }) decreases n
{
    if n > 0 {
        lemma_pc_mask(x, k, (n - 1) as nat);
        let i = (n - 1) as u128; let kk = k as u128;
        assert(((x & (((1u128 << kk) - 1u128) as u128)) >> i) & 1u128 == (if i < kk { (x >> i) & 1u128 } else { 0u128 })) by(bit_vector) requires i < 128, kk < 128;
    }
}
/// setting / clearing bit k changes only bit k
pub proof fn lemma_bit_set(x: u128, k: nat, i: nat) requires k < 128, i < 128
    ensures bit(x | (1u128 << (k as u128)), i) == (i == k || bit(x, i)), bit(x & !(1u128 << (k as u128)), i) == (i != k && bit(x, i))
{
    let kk = k as u128; let ii = i as u128;
    assert(((x | (1u128 << kk)) >> ii) & 1u128 == (if ii == kk { 1u128 } else { (x >> ii) & 1u128 })) by(bit_vector) requires kk < 128, ii < 128;
    assert(((x & !(1u128 << kk)) >> ii) & 1u128 == (if ii == kk { 0u128 } else { (x >> ii) & 1u128 })) by(bit_vector) requires kk < 128, ii < 128;
}
pub proof fn lemma_pc_set(x: u128, y: u128, k: nat, n: nat)
    requires k < 128, n <= 128, forall|i: nat| i < 128 && i != k ==> bit(y, i) == bit(x, i),
    ensures pc(y, n) == pc(x, n) + (if k < n { (if bit(y, k) { 1int } else { 0int }) - (if bit(x, k) { 1int } else { 0int }) } else { 0int }) decreases n
{ if n > 0 { lemma_pc_set(x, y, k, (n - 1) as nat); } }

// ------------------------------------------------------------------ dynamic array: shims for std rotation and the unsafe tick view
/// the 113 bytes at offset o, read as a tick (uninterpreted: the byte layout of MemoryMappedTick is the subject of the Kani harness tick_layout)
pub uninterp spec fn tick_view_at(a: [u8; TICKS_MAX_USIZE], o: int) -> Tick;
//@ assume tick_view_at depends only on the 113 bytes it covers, and its `initialized` is "tag byte != 0" (MemoryMappedTick::initialized)
#[verifier::external_body]
pub proof fn axiom_tick_view(a: [u8; TICKS_MAX_USIZE], o: int, b: [u8; TICKS_MAX_USIZE], p: int)
    requires 0 <= o, o + 113 <= TICKS_MAX_USIZE, 0 <= p, p + 113 <= TICKS_MAX_USIZE, forall|q: int| o <= q < o + 113 ==> #[trigger] a[q] == b[q - o + p],
    ensures tick_view_at(a, o) == tick_view_at(b, p), tick_view_at(a, o).initialized == (a[o] != 0),
{}
//@ assume shim tick_ref_at: `&*(bytes[o..o+113].as_ptr() as *const MemoryMappedTick)`
#[verifier::external_body]
pub fn tick_ref_at(a: &[u8; TICKS_MAX_USIZE], o: usize) -> (r: &MemoryMappedTick)
    requires o + 113 <= TICKS_MAX_USIZE, ensures r.view() == tick_view_at(*a, o as int)
{ unimplemented!() }
//@ assume shim write_tick_at: `(&mut *(bytes[o..o+113].as_mut_ptr() as *mut MemoryMappedTick)).update(update)`; MemoryMappedTick::update itself is verified in fragment pino_state
#[verifier::external_body]
pub fn write_tick_at(a: &mut [u8; TICKS_MAX_USIZE], o: usize, update: &TickUpdate)
    requires o + 113 <= TICKS_MAX_USIZE,
    ensures forall|q: int| 0 <= q < TICKS_MAX_USIZE && (q < o || q >= o + 113) ==> final(a)[q] == old(a)[q],
        final(a)[o as int] == (if update.initialized { 1u8 } else { 0u8 }), tick_is(tick_view_at(*final(a), o as int), update.view()),
{ unimplemented!() }
//@ assume shims rotate_right_from / rotate_left_from: `let s = &mut bytes[o..]; s.rotate_right(n)` (resp. rotate_left) with the documented semantics of the standard library
#[verifier::external_body]
pub fn rotate_right_from(a: &mut [u8; TICKS_MAX_USIZE], o: usize, n: usize)
    requires o + n <= TICKS_MAX_USIZE,
    ensures forall|q: int| 0 <= q < o ==> final(a)[q] == old(a)[q],
        forall|q: int| o <= q < o + n ==> final(a)[q] == old(a)[TICKS_MAX_USIZE - n + (q - o)],
        forall|q: int| o + n <= q < TICKS_MAX_USIZE ==> final(a)[q] == old(a)[q - n],
{ unimplemented!() }
#[verifier::external_body]
pub fn rotate_left_from(a: &mut [u8; TICKS_MAX_USIZE], o: usize, n: usize)
    requires o + n <= TICKS_MAX_USIZE,
    ensures forall|q: int| 0 <= q < o ==> final(a)[q] == old(a)[q],
        forall|q: int| o <= q < TICKS_MAX_USIZE - n ==> final(a)[q] == old(a)[q + n],
        forall|q: int| TICKS_MAX_USIZE - n <= q < TICKS_MAX_USIZE ==> final(a)[q] == old(a)[o + (q - (TICKS_MAX_USIZE - n))],
{ unimplemented!() }

impl MemoryMappedDynamicTickArray {
    pub closed spec fn dstart(&self) -> int { le_i32(self.start_tick_index) as int }
    pub closed spec fn dbitmap(&self) -> u128 { le_u128(self.tick_bitmap) }
    pub closed spec fn dbytes(&self) -> [u8; TICKS_MAX_USIZE] { self.ticks }
    /// bounds part of well-formedness needed by the accessors: no bit above slot 87, and slot k's tag byte agrees with its bitmap bit
    pub open spec fn tag_ok(&self, k: nat) -> bool { self.dbitmap() >> 88u128 == 0 && ((self.dbytes()[off(self.dbitmap(), k)] != 0) == bit(self.dbitmap(), k)) }

//@ fn pinocchio/state/whirlpool/tick_array/dynamic_tick_array.rs tick_bitmap in=/^impl MemoryMappedDynamicTickArray \{/ -> r
    ensures r == self.dbitmap(),
//@ end
//@ fn pinocchio/state/whirlpool/tick_array/dynamic_tick_array.rs update_tick_bitmap in=/^impl MemoryMappedDynamicTickArray \{/
    requires tick_offset < 88,
    ensures final(self).dbitmap() == (if initialized { old(self).dbitmap() | (1u128 << (tick_offset as u128)) } else { old(self).dbitmap() & !(1u128 << (tick_offset as u128)) }),
        final(self).dbytes() == old(self).dbytes(), final(self).dstart() == old(self).dstart(),
//@ inject at /^\s*\{/
        proof { let k = tick_offset as u128; assert((1u128 << tick_offset) == (1u128 << k)); }
//@ end
/// byte position of slot k: 113 bytes per initialized slot below it, 1 per uninitialized one
//@ fn pinocchio/state/whirlpool/tick_array/dynamic_tick_array.rs byte_offset in=/^impl MemoryMappedDynamicTickArray \{/ -> r
    requires tick_offset < 88,
    ensures r == Ok::<usize, UnifiedError>(off(self.dbitmap(), tick_offset as nat) as usize), 0 <= off(self.dbitmap(), tick_offset as nat) <= 113 * 88,
//@ inject before /let mask = /
        proof { let k = tick_offset as u128;
                assert((1u128 << tick_offset) == (1u128 << k));
                assert(k < 88 ==> (1u128 << k) >= 1u128) by(bit_vector);
                lemma_pc_mask(tick_bitmap, tick_offset as nat, 128); lemma_pc_bounds(tick_bitmap, tick_offset as nat); }
//@ end
}
pub proof fn lemma_off_bounds(b: u128, k: nat)
    requires k < 88, b >> 88u128 == 0,
    ensures 0 <= off(b, k), off(b, k) + (if bit(b, k) { 113int } else { 1int }) <= off(b, 88), off(b, 88) <= 9944,
        !bit(b, k) ==> off(b, k) + 113 <= 9944,
{
    lemma_pc_bounds(b, k); lemma_pc_bounds(b, 88); lemma_pc_mono(b, k + 1, 88);
    assert(pc(b, k + 1) == pc(b, k) + (if bit(b, k) { 1int } else { 0int }));
}
impl TickArray for MemoryMappedDynamicTickArray {
    closed spec fn vstart(&self) -> int { self.dstart() }
//@ fn pinocchio/state/whirlpool/tick_array/dynamic_tick_array.rs start_tick_index in=/^impl TickArray for MemoryMappedDynamicTickArray \{/ -> r
//@ end
}
impl MemoryMappedDynamicTickArray {
//@ fn pinocchio/state/whirlpool/tick_array/dynamic_tick_array.rs get_tick in=/^impl TickArray for MemoryMappedDynamicTickArray \{/ -> r pub
    requires -1_000_000 <= self.vstart() <= 1_000_000, tick_spacing > 0,
        slot_exact(tick_index as int, self.vstart(), tick_spacing as int) matches Some(k) ==> self.tag_ok(k as nat),
    ensures match slot_exact(tick_index as int, self.vstart(), tick_spacing as int) {
        // an uninitialized slot reads as the all-zero tick, an initialized one as the 113 bytes at its offset
        Some(k) => r matches Ok(t) && (if bit(self.dbitmap(), k as nat) { t.view() == tick_view_at(self.dbytes(), off(self.dbitmap(), k as nat)) } else { tick_zero(t.view()) }),
        None => r matches Err(e) && e == UnifiedError::Whirlpool(WhirlpoolErrorCode::TickNotFound) },
//@ rewrite /Ok\(&STATIC_ZEROED_MEMORY_MAPPED_TICK\)/ => /Ok(zeroed_tick_ref())/
//@ rewrite /let tick_bytes = &self\.ticks\[byte_offset\.\.byte_offset \+ DYNAMIC_TICK_INITIALIZED_LEN\];\s*let tick_ptr = tick_bytes\.as_ptr\(\) as \*const MemoryMappedTick;\s*unsafe \{ Ok\(&\*tick_ptr\) \}/ => /Ok(tick_ref_at(&self.ticks, byte_offset))/
//@ inject before /let byte_offset = /
        proof { lemma_off_bounds(self.dbitmap(), tick_offset as nat); }
//@ end

/// P2 - the byte-level effect of update_tick on slot k at offset o = off(bitmap, k):
///   the bitmap bit k becomes update.initialized; bytes below o are untouched; the slot becomes [1, tick bytes] (113 bytes) or [0];
///   the bytes behind the slot keep their order and move by +112 (slot grew), -112 (slot shrank) or 0
//@ fn pinocchio/state/whirlpool/tick_array/dynamic_tick_array.rs update_tick in=/^impl TickArray for MemoryMappedDynamicTickArray \{/ -> r pub
    requires -1_000_000 <= old(self).vstart() <= 1_000_000, tick_spacing > 0,
        slot_exact(tick_index as int, old(self).vstart(), tick_spacing as int) matches Some(k) ==> old(self).tag_ok(k as nat),
    ensures final(self).vstart() == old(self).vstart(),
        match slot_exact(tick_index as int, old(self).vstart(), tick_spacing as int) {
            Some(k) => r is Ok && dyn_update_bytes(old(self).dbitmap(), old(self).dbytes(), k as nat, update.view(), final(self).dbitmap(), final(self).dbytes()),
            None => r matches Err(e) && e == UnifiedError::Whirlpool(WhirlpoolErrorCode::TickNotFound) && final(self).dbitmap() == old(self).dbitmap() && final(self).dbytes() == old(self).dbytes() },
//@ rewrite /let shift_data = &mut self\.ticks\[byte_offset\.\.\];\s*shift_data\.rotate_right\(([A-Za-z_:]+)\);/ => /rotate_right_from(&mut self.ticks, byte_offset, \1);/
//@ rewrite /let shift_data = &mut self\.ticks\[byte_offset\.\.\];\s*shift_data\.rotate_left\(([A-Za-z_:]+)\);/ => /rotate_left_from(&mut self.ticks, byte_offset, \1);/
//@ rewrite /let tick_bytes = &mut self\.ticks\s*\[byte_offset\.\.byte_offset \+ DYNAMIC_TICK_INITIALIZED_LEN\];\s*let tick_ptr = tick_bytes\.as_mut_ptr\(\) as \*mut MemoryMappedTick;\s*let tick = unsafe \{ &mut \*tick_ptr \};\s*tick\.update\(update\);/ => /write_tick_at(&mut self.ticks, byte_offset, update);/
//@ inject before /let byte_offset = /
        proof { lemma_off_bounds(self.dbitmap(), tick_offset as nat);
                let b = self.dbitmap(); let kk = tick_offset as u128;
                assert(kk < 128 && (b >> kk) & 1u128 == 1u128 ==> b | (1u128 << kk) == b) by(bit_vector);
                assert(kk < 128 && (b >> kk) & 1u128 != 1u128 ==> b & !(1u128 << kk) == b) by(bit_vector); }
//@ end
}
/// P2 as a predicate over (bitmap, bytes) before and after
pub open spec fn dyn_update_bytes(b0: u128, a0: [u8; TICKS_MAX_USIZE], k: nat, u: crate::state_core::TickUpdate, b1: u128, a1: [u8; TICKS_MAX_USIZE]) -> bool {
    let o = off(b0, k); let was = a0[o] != 0;
    let oldlen = if was { 113int } else { 1int }; let newlen = if u.initialized { 113int } else { 1int };
    &&& b1 == (if u.initialized { b0 | (1u128 << (k as u128)) } else { b0 & !(1u128 << (k as u128)) })
    &&& (forall|q: int| 0 <= q < o ==> a1[q] == a0[q])
    &&& (if u.initialized { a1[o] == 1 && tick_is(tick_view_at(a1, o), u) } else { a1[o] == 0 })
    &&& (forall|q: int| o + newlen <= q < (if was && !u.initialized { 9944 - 112 } else { 9944int }) ==> #[trigger] a1[q] == a0[q - newlen + oldlen])
}

// ------------------------------------------------------------------ from bytes to slots (C13: encoding stays well formed, other slots keep their contents)
/// the encoding is well formed: no bitmap bit above slot 87 and every slot's tag byte is non-zero exactly when its bitmap bit is set
pub open spec fn dyn_wf(b: u128, a: [u8; TICKS_MAX_USIZE]) -> bool {
    b >> 88u128 == 0 && forall|i: nat| i < 88 ==> ((#[trigger] a[off(b, i)]) != 0) == bit(b, i)
}
/// used length of the tick bytes: 88 + 112 * (number of initialized ticks)  (+ 60 header bytes + 88... = 148 + 112 n for the account)
pub open spec fn dyn_used(b: u128) -> int { off(b, 88) }
pub proof fn lemma_off_step(b: u128, i: nat) ensures off(b, i + 1) == off(b, i) + (if bit(b, i) { 113int } else { 1int }) { }
pub proof fn lemma_off_mono(b: u128, i: nat, j: nat) requires i <= j ensures off(b, i) <= off(b, j), i < j ==> off(b, i) + (if bit(b, i) { 113int } else { 1int }) <= off(b, j) decreases j
{
    lemma_pc_mono(b, i, j);
    if i < j { lemma_pc_mono(b, i + 1, j); lemma_off_step(b, i); }
}
/// one slot i != k under P2
pub proof fn lemma_dyn_update_slot(b0: u128, a0: [u8; TICKS_MAX_USIZE], k: nat, u: crate::state_core::TickUpdate, b1: u128, a1: [u8; TICKS_MAX_USIZE], i: nat)
    requires k < 88, i < 88, i != k, dyn_wf(b0, a0), dyn_update_bytes(b0, a0, k, u, b1, a1),
    ensures bit(b1, i) == bit(b0, i), (a1[off(b1, i)] != 0) == bit(b1, i), bit(b0, i) ==> tick_view_at(a1, off(b1, i)) == tick_view_at(a0, off(b0, i)),
        off(b1, i) == off(b0, i) + (if i > k { 112 * ((if u.initialized { 1int } else { 0int }) - (if bit(b0, k) { 1int } else { 0int })) } else { 0int }),
{
    let o = off(b0, k);
    assert((a0[off(b0, k)] != 0) == bit(b0, k));
    let was = bit(b0, k);
    let oldlen = if was { 113int } else { 1int }; let newlen = if u.initialized { 113int } else { 1int };
    let d = newlen - oldlen;
    assert forall|j: nat| j < 128 implies bit(b1, j) == (if j == k { u.initialized } else { bit(b0, j) }) by { lemma_bit_set(b0, k, j); }
    lemma_pc_set(b0, b1, k, i); lemma_pc_set(b0, b1, k, 88); lemma_pc_set(b0, b1, k, k);
    lemma_off_bounds(b0, k); lemma_off_bounds(b0, i);
    let len_i = if bit(b0, i) { 113int } else { 1int };
    assert((a0[off(b0, i)] != 0) == bit(b0, i));
    if i < k {
        lemma_off_mono(b0, i, k);
        assert(off(b1, i) == off(b0, i));
        assert(forall|q: int| off(b0, i) <= q < off(b0, i) + len_i ==> a1[q] == a0[q]);
        if bit(b0, i) { axiom_tick_view(a1, off(b1, i), a0, off(b0, i)); }
    } else {
        lemma_off_mono(b0, k, i); lemma_off_mono(b0, i, 88);
        assert(off(b1, i) == off(b0, i) + d);
        assert(off(b1, i) >= o + newlen);
        assert(off(b0, i) + len_i <= off(b0, 88));
        lemma_pc_bounds(b0, k); lemma_pc_mono(b0, k + 1, 88); lemma_off_step(b0, k);
        assert(pc(b0, k + 1) == pc(b0, k) + (if was { 1int } else { 0int }));
        assert(!was ==> off(b0, 88) <= 9944 - 112);
        assert(off(b1, i) + len_i <= (if was && !u.initialized { 9944 - 112 } else { 9944int }));
        assert(forall|q: int| off(b1, i) <= q < off(b1, i) + len_i ==> #[trigger] a1[q] == a0[q - d]);
        if bit(b0, i) { axiom_tick_view(a1, off(b1, i), a0, off(b0, i)); }
    }
}
/// C13 at slot level: P2 keeps the encoding well formed, puts the update into slot k, keeps every other slot's flag and tick, and changes the
/// used length by exactly 112 bytes per change of the number of initialized ticks
pub proof fn lemma_dyn_update_slots(b0: u128, a0: [u8; TICKS_MAX_USIZE], k: nat, u: crate::state_core::TickUpdate, b1: u128, a1: [u8; TICKS_MAX_USIZE])
    requires k < 88, dyn_wf(b0, a0), dyn_update_bytes(b0, a0, k, u, b1, a1),
    ensures
        dyn_wf(b1, a1),
        bit(b1, k) == u.initialized, u.initialized ==> tick_is(tick_view_at(a1, off(b1, k)), u),
        forall|i: nat| i < 88 && i != k ==> #[trigger] bit(b1, i) == bit(b0, i),
        forall|i: nat| i < 88 && i != k && bit(b0, i) ==> #[trigger] tick_view_at(a1, off(b1, i)) == tick_view_at(a0, off(b0, i)),
        dyn_used(b1) == dyn_used(b0) + 112 * ((if u.initialized { 1int } else { 0int }) - (if bit(b0, k) { 1int } else { 0int })),
{
    assert((a0[off(b0, k)] != 0) == bit(b0, k));
    lemma_bit_set(b0, k, k);
    let kk = k as u128;
    assert(kk < 88 && b0 >> 88u128 == 0u128 ==> (b0 | (1u128 << kk)) >> 88u128 == 0u128 && (b0 & !(1u128 << kk)) >> 88u128 == 0u128) by(bit_vector);
    assert forall|j: nat| j < 128 implies bit(b1, j) == (if j == k { u.initialized } else { bit(b0, j) }) by { lemma_bit_set(b0, k, j); }
    lemma_pc_set(b0, b1, k, k); lemma_pc_set(b0, b1, k, 88);
    assert(off(b1, k) == off(b0, k));
    assert forall|i: nat| i < 88 implies ((#[trigger] a1[off(b1, i)]) != 0) == bit(b1, i) by {
        if i != k { lemma_dyn_update_slot(b0, a0, k, u, b1, a1, i); }
    }
    assert forall|i: nat| i < 88 && i != k implies #[trigger] bit(b1, i) == bit(b0, i) by { lemma_dyn_update_slot(b0, a0, k, u, b1, a1, i); }
    assert forall|i: nat| i < 88 && i != k && bit(b0, i) implies #[trigger] tick_view_at(a1, off(b1, i)) == tick_view_at(a0, off(b0, i)) by { lemma_dyn_update_slot(b0, a0, k, u, b1, a1, i); }
}
}
