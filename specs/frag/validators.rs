//@ needs specs errors stdspecs anchor_shim state_core oracle tick_math_abs
pub mod validators {
use vstd::prelude::*;
use crate::errors::ErrorCode;
use crate::specs::*;
use crate::anchor_shim::*;
use crate::oracle::*;
use crate::tick_math::{MAX_SQRT_PRICE_X64, MIN_SQRT_PRICE_X64};
//@ tags C19
//@ const math/token_math.rs MAX_FEE_RATE MAX_PROTOCOL_FEE_RATE
//@ struct state/config.rs WhirlpoolsConfig
//@ struct state/fee_tier.rs FeeTier
//@ struct state/adaptive_fee_tier.rs AdaptiveFeeTier
//@ struct state/oracle.rs Oracle

//@ assume bitflags shim: ConfigFeatureFlags::empty().bits() == 0 (bitflags! macro expansion is not repository text)
pub struct ConfigFeatureFlags(pub u16);
impl ConfigFeatureFlags {
    pub fn empty() -> (r: Self) ensures r.0 == 0 { ConfigFeatureFlags(0) }
    pub fn bits(&self) -> (r: u16) ensures r == self.0 { self.0 }
}

impl WhirlpoolsConfig {
//@ fn state/config.rs update_default_protocol_fee_rate in=/^impl WhirlpoolsConfig \{/ -> r
    ensures
        default_protocol_fee_rate > 2_500 ==> r == err::<()>(ErrorCode::ProtocolFeeRateMaxExceeded) && *final(self) == *old(self),
        default_protocol_fee_rate <= 2_500 ==> r is Ok && *final(self) == (WhirlpoolsConfig { default_protocol_fee_rate: default_protocol_fee_rate, ..*old(self) }),
//@ end
//@ fn state/config.rs initialize in=/^impl WhirlpoolsConfig \{/ -> r
    ensures
        r is Ok <==> default_protocol_fee_rate <= 2_500,
        r is Ok ==> final(self).default_protocol_fee_rate == default_protocol_fee_rate && final(self).default_protocol_fee_rate <= 2_500
            && final(self).fee_authority == fee_authority && final(self).collect_protocol_fees_authority == collect_protocol_fees_authority
            && final(self).reward_emissions_super_authority == reward_emissions_super_authority && final(self).feature_flags == 0,
//@ end
//@ fn state/config.rs update_fee_authority in=/^impl WhirlpoolsConfig \{/
    ensures *final(self) == (WhirlpoolsConfig { fee_authority: fee_authority, ..*old(self) }),
//@ end
//@ fn state/config.rs update_collect_protocol_fees_authority in=/^impl WhirlpoolsConfig \{/
    ensures *final(self) == (WhirlpoolsConfig { collect_protocol_fees_authority: collect_protocol_fees_authority, ..*old(self) }),
//@ end
//@ fn state/config.rs update_reward_emissions_super_authority in=/^impl WhirlpoolsConfig \{/
    ensures *final(self) == (WhirlpoolsConfig { reward_emissions_super_authority: reward_emissions_super_authority, ..*old(self) }),
//@ end
}

impl FeeTier {
//@ fn state/fee_tier.rs update_default_fee_rate in=/^impl FeeTier \{/ -> r
    ensures
        default_fee_rate > 60_000 ==> r == err::<()>(ErrorCode::FeeRateMaxExceeded) && *final(self) == *old(self),
        default_fee_rate <= 60_000 ==> r is Ok && *final(self) == (FeeTier { default_fee_rate: default_fee_rate, ..*old(self) }),
//@ end
//@ fn state/fee_tier.rs initialize in=/^impl FeeTier \{/ -> r
    ensures
        r is Ok <==> (tick_spacing != 0 && default_fee_rate <= 60_000),
        tick_spacing == 0 ==> r == err::<()>(ErrorCode::InvalidTickSpacing),
        r is Ok ==> final(self).tick_spacing == tick_spacing && final(self).tick_spacing != 0 && final(self).default_fee_rate == default_fee_rate
            && final(self).default_fee_rate <= 60_000 && final(self).whirlpools_config == whirlpools_config.k,
//@ end
}

impl AdaptiveFeeTier {
    pub open spec fn constants_valid(&self) -> bool {
        valid_constants(self.tick_spacing as int, self.filter_period as int, self.decay_period as int, self.reduction_factor as int, self.adaptive_fee_control_factor as int,
            self.max_volatility_accumulator as int, self.tick_group_size as int, self.major_swap_threshold_ticks as int)
    }
//@ fn state/adaptive_fee_tier.rs update_default_base_fee_rate in=/^impl AdaptiveFeeTier \{/ -> r
    ensures
        default_base_fee_rate > 60_000 ==> r == err::<()>(ErrorCode::FeeRateMaxExceeded) && *final(self) == *old(self),
        default_base_fee_rate <= 60_000 ==> r is Ok && *final(self) == (AdaptiveFeeTier { default_base_fee_rate: default_base_fee_rate, ..*old(self) }),
//@ end
//@ fn state/adaptive_fee_tier.rs update_initialize_pool_authority in=/^impl AdaptiveFeeTier \{/
    ensures *final(self) == (AdaptiveFeeTier { initialize_pool_authority: initialize_pool_authority, ..*old(self) }),
//@ end
//@ fn state/adaptive_fee_tier.rs update_delegated_fee_authority in=/^impl AdaptiveFeeTier \{/
    ensures *final(self) == (AdaptiveFeeTier { delegated_fee_authority: delegated_fee_authority, ..*old(self) }),
//@ end
//@ fn state/adaptive_fee_tier.rs update_adaptive_fee_constants in=/^impl AdaptiveFeeTier \{/ -> r
    ensures ({
        let ok = valid_constants(old(self).tick_spacing as int, filter_period as int, decay_period as int, reduction_factor as int, adaptive_fee_control_factor as int,
                    max_volatility_accumulator as int, tick_group_size as int, major_swap_threshold_ticks as int);
        &&& (!ok ==> r == err::<()>(ErrorCode::InvalidAdaptiveFeeConstants) && *final(self) == *old(self))
        &&& (ok ==> r is Ok && final(self).constants_valid() && *final(self) == (AdaptiveFeeTier { filter_period, decay_period, reduction_factor, adaptive_fee_control_factor,
                    max_volatility_accumulator, tick_group_size, major_swap_threshold_ticks, ..*old(self) }))
    }),
//@ end
//@ fn state/adaptive_fee_tier.rs initialize in=/^impl AdaptiveFeeTier \{/ -> r
    ensures
        fee_tier_index == tick_spacing ==> r == err::<()>(ErrorCode::InvalidFeeTierIndex),
        fee_tier_index != tick_spacing && tick_spacing == 0 ==> r == err::<()>(ErrorCode::InvalidTickSpacing),
        r is Ok ==> final(self).tick_spacing == tick_spacing && tick_spacing != 0 && final(self).fee_tier_index == fee_tier_index && fee_tier_index != tick_spacing
            && final(self).default_base_fee_rate == default_base_fee_rate && default_base_fee_rate <= 60_000
            && final(self).constants_valid() && final(self).whirlpools_config == whirlpools_config.k
            && final(self).initialize_pool_authority == initialize_pool_authority && final(self).delegated_fee_authority == delegated_fee_authority,
        r is Ok <==> (fee_tier_index != tick_spacing && tick_spacing != 0 && default_base_fee_rate <= 60_000
            && valid_constants(tick_spacing as int, filter_period as int, decay_period as int, reduction_factor as int, adaptive_fee_control_factor as int,
                    max_volatility_accumulator as int, tick_group_size as int, major_swap_threshold_ticks as int)),
//@ end
}

impl Oracle {
//@ fn state/oracle.rs initialize_adaptive_fee_constants in=/^impl Oracle \{/ -> r
    ensures
        !constants.valid_for(tick_spacing as int) ==> r == err::<()>(ErrorCode::InvalidAdaptiveFeeConstants) && *final(self) == *old(self),
        constants.valid_for(tick_spacing as int) ==> r is Ok && *final(self) == (Oracle { adaptive_fee_constants: constants, ..*old(self) }),
//@ end
//@ fn state/oracle.rs update_adaptive_fee_variables in=/^impl Oracle \{/
    ensures *final(self) == (Oracle { adaptive_fee_variables: variables, ..*old(self) }),
//@ end
//@ fn state/oracle.rs reset_adaptive_fee_variables in=/^impl Oracle \{/
    ensures is_vars_default(final(self).adaptive_fee_variables), final(self).adaptive_fee_constants == old(self).adaptive_fee_constants,
        final(self).whirlpool == old(self).whirlpool, final(self).trade_enable_timestamp == old(self).trade_enable_timestamp,
//@ end
//@ fn state/oracle.rs initialize in=/^impl Oracle \{/ -> r
    ensures
        r is Ok <==> valid_constants(tick_spacing as int, filter_period as int, decay_period as int, reduction_factor as int, adaptive_fee_control_factor as int,
                    max_volatility_accumulator as int, tick_group_size as int, major_swap_threshold_ticks as int),
        r is Ok ==> final(self).adaptive_fee_constants.valid_for(tick_spacing as int) && is_vars_default(final(self).adaptive_fee_variables)
            && final(self).whirlpool == whirlpool && final(self).trade_enable_timestamp == (match trade_enable_timestamp { Some(t) => t, None => 0u64 })
            // the variables start inside the reachable-state invariant
            && inv14(final(self).adaptive_fee_constants, final(self).adaptive_fee_variables),
//@ end
}
}
