//@ needs specs errors stdspecs lebytes anchor_shim state_core oracle tick_math_abs
pub mod validators {
use vstd::prelude::*;
use crate::errors::ErrorCode;
use crate::specs::*;
use crate::anchor_shim::*;
use crate::oracle::*;
use crate::tick_math::{MAX_SQRT_PRICE_X64, MIN_SQRT_PRICE_X64};
//@ tags C19
//@ const math/token_math.rs MAX_FEE_RATE MAX_PROTOCOL_FEE_RATE
//@ struct state/config.rs WhirlpoolsConfig
//@ struct state/fee_tier.rs FeeTier
//@ struct state/adaptive_fee_tier.rs AdaptiveFeeTier
//@ struct state/oracle.rs Oracle

//@ assume bitflags shim: ConfigFeatureFlags::empty().bits() == 0 (bitflags! macro expansion is not repository text)
pub struct ConfigFeatureFlags(pub u16);
impl ConfigFeatureFlags {
    pub fn empty() -> (r: Self) ensures r.0 == 0 { ConfigFeatureFlags(0) }
    pub fn bits(&self) -> (r: u16) ensures r == self.0 { self.0 }
}

impl WhirlpoolsConfig {
//@ fn state/config.rs update_default_protocol_fee_rate in=/^impl WhirlpoolsConfig \{/ -> r
    ensures
        default_protocol_fee_rate > 2_500 ==> r == err::<()>(ErrorCode::ProtocolFeeRateMaxExceeded) && *final(self) == *old(self),
        default_protocol_fee_rate <= 2_500 ==> r is Ok && *final(self) == (WhirlpoolsConfig { default_protocol_fee_rate: default_protocol_fee_rate, ..*old(self) }),
//@ end
//@ fn state/config.rs initialize in=/^impl WhirlpoolsConfig \{/ -> r canary
    ensures
        r is Ok <==> default_protocol_fee_rate <= 2_500,
        r is Ok ==> final(self).default_protocol_fee_rate == default_protocol_fee_rate && final(self).default_protocol_fee_rate <= 2_500
            && final(self).fee_authority == fee_authority && final(self).collect_protocol_fees_authority == collect_protocol_fees_authority
            && final(self).reward_emissions_super_authority == reward_emissions_super_authority && final(self).feature_flags == 0,
//@ end
//@ fn state/config.rs update_fee_authority in=/^impl WhirlpoolsConfig \{/
    ensures *final(self) == (WhirlpoolsConfig { fee_authority: fee_authority, ..*old(self) }),
//@ end
//@ fn state/config.rs update_collect_protocol_fees_authority in=/^impl WhirlpoolsConfig \{/
    ensures *final(self) == (WhirlpoolsConfig { collect_protocol_fees_authority: collect_protocol_fees_authority, ..*old(self) }),
//@ end
//@ fn state/config.rs update_reward_emissions_super_authority in=/^impl WhirlpoolsConfig \{/
    ensures *final(self) == (WhirlpoolsConfig { reward_emissions_super_authority: reward_emissions_super_authority, ..*old(self) }),
//@ end
}

impl FeeTier {
//@ fn state/fee_tier.rs update_default_fee_rate in=/^impl FeeTier \{/ -> r
    ensures
        default_fee_rate > 60_000 ==> r == err::<()>(ErrorCode::FeeRateMaxExceeded) && *final(self) == *old(self),
        default_fee_rate <= 60_000 ==> r is Ok && *final(self) == (FeeTier { default_fee_rate: default_fee_rate, ..*old(self) }),
//@ end
//@ fn state/fee_tier.rs initialize in=/^impl FeeTier \{/ -> r canary
    ensures
        r is Ok <==> (tick_spacing != 0 && default_fee_rate <= 60_000),
        tick_spacing == 0 ==> r == err::<()>(ErrorCode::InvalidTickSpacing),
        r is Ok ==> final(self).tick_spacing == tick_spacing && final(self).tick_spacing != 0 && final(self).default_fee_rate == default_fee_rate
            && final(self).default_fee_rate <= 60_000 && final(self).whirlpools_config == whirlpools_config.k,
//@ end
}

impl AdaptiveFeeTier {
    pub open spec fn constants_valid(&self) -> bool {
        valid_constants(self.tick_spacing as int, self.filter_period as int, self.decay_period as int, self.reduction_factor as int, self.adaptive_fee_control_factor as int,
            self.max_volatility_accumulator as int, self.tick_group_size as int, self.major_swap_threshold_ticks as int)
    }
//@ fn state/adaptive_fee_tier.rs update_default_base_fee_rate in=/^impl AdaptiveFeeTier \{/ -> r
    ensures
        default_base_fee_rate > 60_000 ==> r == err::<()>(ErrorCode::FeeRateMaxExceeded) && *final(self) == *old(self),
        default_base_fee_rate <= 60_000 ==> r is Ok && *final(self) == (AdaptiveFeeTier { default_base_fee_rate: default_base_fee_rate, ..*old(self) }),
//@ end
//@ fn state/adaptive_fee_tier.rs update_initialize_pool_authority in=/^impl AdaptiveFeeTier \{/
    ensures *final(self) == (AdaptiveFeeTier { initialize_pool_authority: initialize_pool_authority, ..*old(self) }),
//@ end
//@ fn state/adaptive_fee_tier.rs update_delegated_fee_authority in=/^impl AdaptiveFeeTier \{/
    ensures *final(self) == (AdaptiveFeeTier { delegated_fee_authority: delegated_fee_authority, ..*old(self) }),
//@ end
//@ fn state/adaptive_fee_tier.rs update_adaptive_fee_constants in=/^impl AdaptiveFeeTier \{/ -> r
    ensures ({
        let ok = valid_constants(old(self).tick_spacing as int, filter_period as int, decay_period as int, reduction_factor as int, adaptive_fee_control_factor as int,
                    max_volatility_accumulator as int, tick_group_size as int, major_swap_threshold_ticks as int);
        &&& (!ok ==> r == err::<()>(ErrorCode::InvalidAdaptiveFeeConstants) && *final(self) == *old(self))
        &&& (ok ==> r is Ok && final(self).constants_valid() && *final(self) == (AdaptiveFeeTier { filter_period, decay_period, reduction_factor, adaptive_fee_control_factor,
                    max_volatility_accumulator, tick_group_size, major_swap_threshold_ticks, ..*old(self) }))
    }),
//@ end
//@ fn state/adaptive_fee_tier.rs initialize in=/^impl AdaptiveFeeTier \{/ -> r canary
    ensures
        fee_tier_index == tick_spacing ==> r == err::<()>(ErrorCode::InvalidFeeTierIndex),
        fee_tier_index != tick_spacing && tick_spacing == 0 ==> r == err::<()>(ErrorCode::InvalidTickSpacing),
        r is Ok ==> final(self).tick_spacing == tick_spacing && tick_spacing != 0 && final(self).fee_tier_index == fee_tier_index && fee_tier_index != tick_spacing
            && final(self).default_base_fee_rate == default_base_fee_rate && default_base_fee_rate <= 60_000
            && final(self).constants_valid() && final(self).whirlpools_config == whirlpools_config.k
            && final(self).initialize_pool_authority == initialize_pool_authority && final(self).delegated_fee_authority == delegated_fee_authority,
        r is Ok <==> (fee_tier_index != tick_spacing && tick_spacing != 0 && default_base_fee_rate <= 60_000
            && valid_constants(tick_spacing as int, filter_period as int, decay_period as int, reduction_factor as int, adaptive_fee_control_factor as int,
                    max_volatility_accumulator as int, tick_group_size as int, major_swap_threshold_ticks as int)),
//@ end
}

impl Oracle {
//@ fn state/oracle.rs initialize_adaptive_fee_constants in=/^impl Oracle \{/ -> r
    ensures
        !constants.valid_for(tick_spacing as int) ==> r == err::<()>(ErrorCode::InvalidAdaptiveFeeConstants) && *final(self) == *old(self),
        constants.valid_for(tick_spacing as int) ==> r is Ok && *final(self) == (Oracle { adaptive_fee_constants: constants, ..*old(self) }),
//@ end
//@ fn state/oracle.rs update_adaptive_fee_variables in=/^impl Oracle \{/
    ensures *final(self) == (Oracle { adaptive_fee_variables: variables, ..*old(self) }),
//@ end
//@ fn state/oracle.rs reset_adaptive_fee_variables in=/^impl Oracle \{/
    ensures is_vars_default(final(self).adaptive_fee_variables), final(self).adaptive_fee_constants == old(self).adaptive_fee_constants,
        final(self).whirlpool == old(self).whirlpool, final(self).trade_enable_timestamp == old(self).trade_enable_timestamp,
//@ end
//@ fn state/oracle.rs initialize in=/^impl Oracle \{/ -> r canary
    ensures
        r is Ok <==> valid_constants(tick_spacing as int, filter_period as int, decay_period as int, reduction_factor as int, adaptive_fee_control_factor as int,
                    max_volatility_accumulator as int, tick_group_size as int, major_swap_threshold_ticks as int),
        r is Ok ==> final(self).adaptive_fee_constants.valid_for(tick_spacing as int) && is_vars_default(final(self).adaptive_fee_variables)
            && final(self).whirlpool == whirlpool && final(self).trade_enable_timestamp == (match trade_enable_timestamp { Some(t) => t, None => 0u64 })
            // the stored constants are exactly the arguments (in this order)
            && final(self).adaptive_fee_constants.filter_period == filter_period && final(self).adaptive_fee_constants.decay_period == decay_period
            && final(self).adaptive_fee_constants.reduction_factor == reduction_factor && final(self).adaptive_fee_constants.adaptive_fee_control_factor == adaptive_fee_control_factor
            && final(self).adaptive_fee_constants.max_volatility_accumulator == max_volatility_accumulator && final(self).adaptive_fee_constants.tick_group_size == tick_group_size
            && final(self).adaptive_fee_constants.major_swap_threshold_ticks == major_swap_threshold_ticks
            // the variables start inside the reachable-state invariant
            && inv14(final(self).adaptive_fee_constants, final(self).adaptive_fee_variables),
//@ end
}

// ------------------------------------------------------------------ OracleAccessor: how handlers read and write a pool's adaptive-fee state (C14)
//@ assume OracleAccessor shims: the oracle account is reduced to its key; is_oracle_account_initialized (system-owned empty account -> false; otherwise owner, discriminator and whirlpool-field checks -> true) and load / load_mut (bytemuck casts of the account data; load_mut demands a writable account) are external stubs: an initialized oracle's content is the uninterpreted oracle_of(key)
pub struct OracleInfo<'info> { pub key: &'info Pubkey, pub is_writable: bool }
pub type AccountInfo<'info> = OracleInfo<'info>;
pub uninterp spec fn oracle_initialized(oracle: Pubkey, whirlpool: Pubkey) -> Result<bool>;
pub uninterp spec fn oracle_of(oracle: Pubkey) -> Oracle;
pub struct OracleRef { pub o: Oracle }
impl std::ops::Deref for OracleRef { type Target = Oracle; fn deref(&self) -> (r: &Oracle) ensures *r == self.o { &self.o } }
impl std::ops::DerefMut for OracleRef { fn deref_mut(&mut self) -> (r: &mut Oracle) ensures *r == old(self).o, *final(r) == final(self).o { &mut self.o } }
//@ struct state/oracle.rs OracleAccessor
impl<'info> OracleAccessor<'info> {
    pub closed spec fn init(&self) -> bool { self.oracle_account_initialized }
    pub closed spec fn okey(&self) -> Pubkey { *self.oracle_account_info.key }
    pub closed spec fn writable(&self) -> bool { self.oracle_account_info.is_writable }
    #[verifier::external_body]
    fn is_oracle_account_initialized(oracle_account_info: &AccountInfo<'info>, whirlpool: Pubkey) -> (r: Result<bool>) ensures r == oracle_initialized(*oracle_account_info.key, whirlpool) { unimplemented!() }
    #[verifier::external_body]
    fn load(&self) -> (r: Result<OracleRef>) ensures r matches Ok(x) ==> x.o == oracle_of(self.okey()) { unimplemented!() }
    #[verifier::external_body]
    fn load_mut(&self) -> (r: Result<OracleRef>) ensures r matches Ok(x) ==> x.o == oracle_of(self.okey()) && self.writable() { unimplemented!() }
//@ fn state/oracle.rs new in=/^impl<'info> OracleAccessor<'info> \{/ -> r tags=C14,C15
    ensures r matches Ok(a) ==> oracle_initialized(*oracle_account_info.key, whirlpool.k) == Ok::<bool, Error>(a.init()) && a.okey() == *oracle_account_info.key && a.writable() == oracle_account_info.is_writable,
//@ end
/// trading is enabled on a pool without an oracle; on a pool with one, from its trade-enable timestamp on (inclusive)
//@ fn state/oracle.rs is_trade_enabled in=/^impl<'info> OracleAccessor<'info> \{/ -> r tags=C14 canary
    ensures r matches Ok(b) ==> b == (!self.init() || oracle_of(self.okey()).trade_enable_timestamp <= current_timestamp),
//@ end
/// the adaptive-fee state handed to the swap loop is exactly the stored constants and variables (None for a pool without an oracle)
//@ fn state/oracle.rs get_adaptive_fee_info in=/^impl<'info> OracleAccessor<'info> \{/ -> r tags=C14 canary
    ensures r matches Ok(o) ==> o == (if self.init() { Some(AdaptiveFeeInfo { constants: oracle_of(self.okey()).adaptive_fee_constants, variables: oracle_of(self.okey()).adaptive_fee_variables }) } else { None::<AdaptiveFeeInfo> }),
//@ end
/// the variables computed by the swap are written back into the oracle (and only the variables); a pool without an oracle has nothing to write
//@ fn state/oracle.rs update_adaptive_fee_variables in=/^impl<'info> OracleAccessor<'info> \{/ -> r tags=C14 canary
    requires self.init() == (*adaptive_fee_info is Some), // a swap returns next_adaptive_fee_info of the same shape as the info it was given
    ensures r is Ok && self.init() ==> self.writable(),
//@ inject before /^                Ok\(\(\)\)/
                proof { assert(oracle.o == (Oracle { adaptive_fee_variables: adaptive_fee_info.variables, ..oracle_of(self.okey()) })); }
//@ end
}

// ------------------------------------------------------------------ pool initialization (C19)
//@ assume shims for Whirlpool::initialize / initialize_reward: Pubkey::ge is the negation of an uninterpreted strict order that is irreflexive (equal mints are rejected); WhirlpoolControlFlags and the two extension segments are opaque (their 32 bytes are not interpreted); derive(Default) on WhirlpoolRewardInfo is the all-default value; `(MIN..=MAX).contains(&x)` is rewritten (logged) to the comparison it denotes; `iter().position(|r| !r.initialized())` to the named helper first_uninitialized_reward
#[verifier::external_body]
pub broadcast proof fn ax_pk_lt_irrefl(a: Pubkey) ensures !#[trigger] pk_lt(a, a) {}
pub struct WhirlpoolControlFlags(pub u16);
pub struct WhirlpoolExtensionSegmentPrimary { pub bytes: [u8; 32] }
pub struct WhirlpoolExtensionSegmentSecondary { pub bytes: [u8; 32] }
pub uninterp spec fn ext_primary(flags: u16) -> [u8; 32];
pub uninterp spec fn ext_secondary() -> [u8; 32];
impl WhirlpoolExtensionSegmentPrimary {
    #[verifier::external_body] pub fn new(control_flags: WhirlpoolControlFlags) -> (r: Self) ensures r.bytes == ext_primary(control_flags.0) { unimplemented!() }
    pub fn to_bytes(&self) -> (r: [u8; 32]) ensures r == self.bytes { self.bytes }
}
impl WhirlpoolExtensionSegmentSecondary {
    #[verifier::external_body] pub fn new() -> (r: Self) ensures r.bytes == ext_secondary() { unimplemented!() }
    pub fn to_bytes(&self) -> (r: [u8; 32]) ensures r == self.bytes { self.bytes }
}
pub open spec fn reward_info_default(ext: [u8; 32]) -> WhirlpoolRewardInfo {
    WhirlpoolRewardInfo { mint: pk_default(), vault: pk_default(), extension: ext, emissions_per_second_x64: 0, growth_global_x64: 0 }
}
impl Default for WhirlpoolRewardInfo {
    fn default() -> (r: Self) ensures r == reward_info_default(r.extension), forall|i: int| 0 <= i < 32 ==> r.extension[i] == 0 {
        WhirlpoolRewardInfo { mint: Pubkey::default(), vault: Pubkey::default(), extension: [0u8; 32], emissions_per_second_x64: 0, growth_global_x64: 0 }
    }
}
/// lowest index of a reward that is not initialized (what `iter().position(|r| !r.initialized())` returns)
pub fn first_uninitialized_reward(infos: &[WhirlpoolRewardInfo; 3]) -> (r: Option<usize>)
    ensures match r { Some(i) => i < 3 && !infos[i as int].is_init() && forall|j: int| 0 <= j < i ==> infos[j].is_init(), None => forall|j: int| 0 <= j < 3 ==> infos[j].is_init() },
{
    if !infos[0].initialized() { Some(0) } else if !infos[1].initialized() { Some(1) } else if !infos[2].initialized() { Some(2) } else { None }
}
use crate::state_core::{Whirlpool, WhirlpoolRewardInfo, NUM_REWARDS};
#[allow(unused_imports)]
use crate::state_core::{MIN_TICK_INDEX, MAX_TICK_INDEX};
use crate::tick_math::{tick_of, tick_index_from_sqrt_price};
use crate::lebytes::*;
impl WhirlpoolRewardInfo {
//@ fn state/whirlpool.rs new in=/^impl WhirlpoolRewardInfo \{/ -> r
    ensures r == reward_info_default(extension),
//@ end
}
impl Whirlpool {
/// C19: a pool is created only with ordered, distinct mints, a sqrt-price inside the protocol bounds and validated fee rates; it starts with zero
/// liquidity, zero fee growth / protocol fees, the tick of its price, and three uninitialized rewards
//@ fn state/whirlpool.rs initialize in=/^impl Whirlpool \{/ -> r canary
    requires tick_spacing > 0,
    ensures
        !pk_lt(token_mint_a, token_mint_b) ==> r == err::<()>(ErrorCode::InvalidTokenMintOrder),
        pk_lt(token_mint_a, token_mint_b) && !price_ok(sqrt_price as int) ==> r == err::<()>(ErrorCode::SqrtPriceOutOfBounds),
        r is Ok <==> (pk_lt(token_mint_a, token_mint_b) && price_ok(sqrt_price as int) && default_fee_rate <= 60_000 && whirlpools_config.data.default_protocol_fee_rate <= 2_500),
        r is Ok ==> ({ let w = *final(self);
            &&& w.token_mint_a == token_mint_a && w.token_mint_b == token_mint_b && w.token_mint_a != w.token_mint_b
            &&& w.token_vault_a == token_vault_a && w.token_vault_b == token_vault_b
            &&& w.whirlpools_config == whirlpools_config.k && w.tick_spacing == tick_spacing && w.fee_tier_index_seed == to_le_u16(fee_tier_index)
            &&& w.fee_rate == default_fee_rate && w.fee_rate <= 60_000 && w.protocol_fee_rate == whirlpools_config.data.default_protocol_fee_rate && w.protocol_fee_rate <= 2_500
            &&& w.sqrt_price == sqrt_price && w.tick_current_index as int == tick_of(sqrt_price as int)
            &&& w.liquidity == 0 && w.protocol_fee_owed_a == 0 && w.protocol_fee_owed_b == 0 && w.fee_growth_global_a == 0 && w.fee_growth_global_b == 0
            &&& (forall|k: int| 0 <= k < 3 ==> !(#[trigger] w.reward_infos[k]).is_init() && w.reward_infos[k].emissions_per_second_x64 == 0 && w.reward_infos[k].growth_global_x64 == 0)
            &&& w.reward_infos[0].extension == whirlpools_config.data.reward_emissions_super_authority.0 }),
//@ rewrite /!\((\w+)\.\.=(\w+)\)\.contains\(&(\w+)\)/ => /!(\1 <= \3 && \3 <= \2)/
//@ rewrite /fee_tier_index\.to_le_bytes\(\)/ => /fee_tier_index.to_le_bytes_v()/
//@ inject at /^\s*\{/
        proof { broadcast use ax_pk_lt_irrefl; }
//@ end
/// rewards are initialized in index order, each at most once
//@ fn state/whirlpool.rs initialize_reward in=/^impl Whirlpool \{/ -> r canary
    ensures
        r is Ok <==> (index < 3 && !old(self).reward_infos[index as int].is_init() && forall|j: int| 0 <= j < index ==> old(self).reward_infos[j].is_init()),
        r is Err ==> r == err::<()>(ErrorCode::InvalidRewardIndex) && *final(self) == *old(self),
        r is Ok ==> final(self).reward_infos[index as int] == (WhirlpoolRewardInfo { mint: mint, vault: vault, ..old(self).reward_infos[index as int] })
            && (forall|j: int| 0 <= j < 3 && j != index ==> final(self).reward_infos[j] == old(self).reward_infos[j])
            && *final(self) == (Whirlpool { reward_infos: final(self).reward_infos, ..*old(self) }),
//@ rewrite /self\.reward_infos\.iter\(\)\.position\(\|r\| !r\.initialized\(\)\)/ => /first_uninitialized_reward(&self.reward_infos)/
//@ end
}
}
