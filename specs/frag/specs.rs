// Spec vocabulary (DESIGN.md section 4). Spec-only code: nothing here is executable.
pub mod specs {
use vstd::prelude::*;
pub open spec fn Q() -> int { 0x1_0000_0000_0000_0000 }
pub open spec fn U64MAX() -> int { 0xFFFF_FFFF_FFFF_FFFF }
pub open spec fn U128MAX() -> int { 0xFFFF_FFFF_FFFF_FFFF_FFFF_FFFF_FFFF_FFFF }
pub open spec fn div_round(n: int, d: int, up: bool) -> int { if up && n % d != 0 { n / d + 1 } else { n / d } }
pub open spec fn abs_diff(a: int, b: int) -> int { if a > b { a - b } else { b - a } }
pub open spec fn min_i(a: int, b: int) -> int { if a < b { a } else { b } }
pub open spec fn max_i(a: int, b: int) -> int { if a > b { a } else { b } }
/// token B for a price move p0 <-> p1 at liquidity l
pub open spec fn delta_b(p0: int, p1: int, l: int, up: bool) -> int { div_round(l * abs_diff(p0, p1), Q(), up) }
/// token A for a price move p0 <-> p1 at liquidity l  (p0, p1 > 0)
pub open spec fn delta_a(p0: int, p1: int, l: int, up: bool) -> int { div_round(l * abs_diff(p0, p1) * Q(), p0 * p1, up) }
pub open spec fn MIN_PRICE() -> int { 4295048016 }
pub open spec fn MAX_PRICE() -> int { 79226673515401279992447579055 }
pub open spec fn price_ok(p: int) -> bool { MIN_PRICE() <= p <= MAX_PRICE() }
/// next sqrt-price after adding (add = true) / removing x of token A at liquidity l: ceil(l*p*Q / (l*Q +- x*p))
pub open spec fn next_from_a(p: int, l: int, x: int, add: bool) -> int {
    if x == 0 { p } else { div_round(l * p * Q(), if add { l * Q() + x * p } else { l * Q() - x * p }, true) }
}
/// next sqrt-price after adding (add = true) / removing x of token B: p + floor(x*Q/l) | p - ceil(x*Q/l)
pub open spec fn next_from_b(p: int, l: int, x: int, add: bool) -> int {
    if add { p + div_round(x * Q(), l, false) } else { p - div_round(x * Q(), l, true) }
}
pub open spec fn next_price(p: int, l: int, x: int, is_in: bool, a_to_b: bool) -> int {
    if is_in == a_to_b { next_from_a(p, l, x, is_in) } else { next_from_b(p, l, x, is_in) }
}
/// the token whose amount is specified ("fixed") and the other one ("unfixed"), with the pool-favouring rounding
pub open spec fn fixed_delta(p0: int, p1: int, l: int, is_in: bool, a_to_b: bool) -> int { if a_to_b == is_in { delta_a(p0, p1, l, is_in) } else { delta_b(p0, p1, l, is_in) } }
pub open spec fn unfixed_delta(p0: int, p1: int, l: int, is_in: bool, a_to_b: bool) -> int { if a_to_b == is_in { delta_b(p0, p1, l, !is_in) } else { delta_a(p0, p1, l, !is_in) } }
/// token taken from the trader / paid to the trader for a move p0 -> p1 (input rounds up, output rounds down)
pub open spec fn delta_in(p0: int, p1: int, l: int, a_to_b: bool) -> int { if a_to_b { delta_a(p0, p1, l, true) } else { delta_b(p0, p1, l, true) } }
pub open spec fn delta_out(p0: int, p1: int, l: int, a_to_b: bool) -> int { if a_to_b { delta_b(p0, p1, l, false) } else { delta_a(p0, p1, l, false) } }
pub open spec fn FEE_DEN() -> int { 1_000_000 }
/// fee on a curve input x at rate r (hundredths of a bp): ceil(x * r / (1e6 - r))
pub open spec fn fee_on(x: int, r: int) -> int { div_round(x * r, FEE_DEN() - r, true) }
/// exact-in budget net of fee: floor(x * (1e6 - r) / 1e6)
pub open spec fn net_of_fee(x: int, r: int) -> int { (x * (FEE_DEN() - r)) / FEE_DEN() }
}
