// Spec vocabulary (DESIGN.md section 4). Spec-only code: nothing here is executable.
pub mod specs {
use vstd::prelude::*;
pub open spec fn Q() -> int { 0x1_0000_0000_0000_0000 }
pub open spec fn U64MAX() -> int { 0xFFFF_FFFF_FFFF_FFFF }
pub open spec fn U128MAX() -> int { 0xFFFF_FFFF_FFFF_FFFF_FFFF_FFFF_FFFF_FFFF }
pub open spec fn div_round(n: int, d: int, up: bool) -> int { if up && n % d != 0 { n / d + 1 } else { n / d } }
pub open spec fn abs_diff(a: int, b: int) -> int { if a > b { a - b } else { b - a } }
pub open spec fn min_i(a: int, b: int) -> int { if a < b { a } else { b } }
pub open spec fn max_i(a: int, b: int) -> int { if a > b { a } else { b } }
/// token B for a price move p0 <-> p1 at liquidity l
pub open spec fn delta_b(p0: int, p1: int, l: int, up: bool) -> int { div_round(l * abs_diff(p0, p1), Q(), up) }
/// token A for a price move p0 <-> p1 at liquidity l  (p0, p1 > 0)
pub open spec fn delta_a(p0: int, p1: int, l: int, up: bool) -> int { div_round(l * abs_diff(p0, p1) * Q(), p0 * p1, up) }
}
