//@ needs specs errors stdspecs
pub mod liquidity_math {
use vstd::prelude::*;
use crate::errors::ErrorCode;
use crate::specs::*;
//@ tags C05 C07 C08 C12 C01 C11
//@ fn math/liquidity_math.rs add_liquidity_delta -> r
    ensures
        liquidity as int + delta as int > U128MAX() ==> r == Err::<u128, ErrorCode>(ErrorCode::LiquidityOverflow),
        (liquidity as int + delta as int) < 0 ==> r == Err::<u128, ErrorCode>(ErrorCode::LiquidityUnderflow),
        0 <= liquidity as int + delta as int <= U128MAX() ==> r == Ok::<u128, ErrorCode>((liquidity as int + delta as int) as u128),
//@ end
//@ fn math/liquidity_math.rs convert_to_liquidity_delta -> r
    ensures
        liquidity_amount as int > i128::MAX as int ==> r == Err::<i128, ErrorCode>(ErrorCode::LiquidityTooHigh),
        liquidity_amount as int <= i128::MAX as int ==> r == Ok::<i128, ErrorCode>((if positive { liquidity_amount as int } else { -(liquidity_amount as int) }) as i128),
//@ end
}
