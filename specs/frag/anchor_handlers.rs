//@ needs specs errors stdspecs lebytes anchor_shim state_core authority position_rules managers bit_math swap_handlers(stub) handlers_small tick_math_abs liquidity_manager
// Handler layer of the small Anchor instructions: lock / close position, fee and protocol-fee collection, reward emissions.
// The account wrappers are the shims of fragment swap_handlers; the #[account(..)] attributes become the generated preconditions constraints_<Struct> (K-rules of tools/vx.py).
pub mod anchor_handlers {
use vstd::prelude::*;
use crate::errors::ErrorCode;
use crate::specs::*;
use crate::anchor_shim::{Pubkey, Error, Result, err, ax_qmark_anchor, SKey, SOwner};
use crate::authority::{authority_rule, copt, verify_position_authority, verify_position_authority_interface, InterfaceAccount, TokenAccount, TokenAccountInterface, Signer, AccountInfo};
use crate::state_core::{Whirlpool, WhirlpoolRewardInfo, Position, NUM_REWARDS};
use crate::position_rules::{LockConfig, LockType, LockTypeLabel, PositionBundle, range_valid, bundle_open};
use crate::handlers_small::{resolve_one_sided_position_ticks, one_sided_spec};
use crate::authority::verify_position_bundle_authority;
#[allow(unused_imports)]
use crate::tick_math::*;
use crate::swap_handlers::{Context, Account, Program, Token, UncheckedAccount, Clock, ClockData, now_unix, to_timestamp_u64, moved, transfer_from_vault_to_owner, Mint};
use crate::swap_handlers::{Interface, TokenInterface, Memo, RemainingAccountsInfo, RemainingAccountsSlice, AccountsType, ParsedRemainingAccounts, parse_remaining_accounts, parsed_remaining, transfer_from_vault_to_owner_v2, memo_bytes, moved_with, hook_tag};
use crate::handlers_small::calculate_collect_reward_v2;
use crate::authority::{is_locked_position, validate_owner};
use crate::handlers_small::calculate_collect_reward;
use crate::state_core::PositionRewardInfo;
use crate::managers::{next_whirlpool_reward_infos, reward_infos_spec, next_growth};
use crate::bit_math::checked_mul_shift_right;
broadcast use crate::anchor_shim::ax_qmark_anchor;
//@ tags C18 C04
//@ assume anchor small-handler shims: freeze_user_position_token_2022 / burn_and_close_user_position_token (token CPIs) are external stubs recording frozen(token account) / burned(token account); InterfaceAccount::is_frozen reads the shim's state field; ctx.bumps is an opaque struct
pub struct Token2022 {}
pub struct System {}
pub uninterp spec fn frozen_by_cpi(token_account: Pubkey) -> bool;
pub uninterp spec fn burned_by_cpi(token_account: Pubkey) -> bool;
#[verifier::external_body]
pub fn freeze_user_position_token_2022<'info>(position_mint: &InterfaceAccount<'info, Mint>, position_token_account: &InterfaceAccount<'info, TokenAccount>, token_2022_program: &Program<'info, Token2022>,
    position: &Account<'info, Position>, position_seeds: &[&[u8]]) -> (r: Result<()>)
    ensures r is Ok ==> frozen_by_cpi(*position_token_account.info.key) { unimplemented!() }
#[verifier::external_body]
pub fn burn_and_close_user_position_token<'info>(token_authority: &Signer<'info>, receiver: &UncheckedAccount<'info>, position_mint: &Account<'info, Mint>, position_token_account: &Account<'info, TokenAccount>,
    token_program: &Program<'info, Token>) -> (r: Result<()>)
    ensures r is Ok ==> burned_by_cpi(position_token_account.k) { unimplemented!() }

// ------------------------------------------------------------------ close_position
//@ struct instructions/close_position.rs ClosePosition
//@ constraints instructions/close_position.rs ClosePosition
/// C18 / C04: a position is closed only on its authority's signature and only when it holds no liquidity, no owed fees and no owed rewards
//@ fn instructions/close_position.rs handler -> r as=close_position_handler tags=C18,C04
    requires constraints_ClosePosition(old(ctx.accounts)),
    ensures
        r is Ok ==> old(ctx.accounts).position_token_account.data.mint == old(ctx.accounts).position.data.position_mint && old(ctx.accounts).position_token_account.data.amount == 1, //# C04
        r is Ok ==> old(ctx.accounts).position_mint.skey() == old(ctx.accounts).position.data.position_mint, //# C18
       
        r is Ok ==> authority_rule(old(ctx.accounts).position_token_account.data.owner, copt(old(ctx.accounts).position_token_account.data.delegate), old(ctx.accounts).position_token_account.data.delegated_amount,
            *old(ctx.accounts).position_authority.info.key, old(ctx.accounts).position_authority.info.is_signer), //# C04
        r is Ok ==> old(ctx.accounts).position.data.empty(), //# C18
        r is Ok ==> burned_by_cpi(old(ctx.accounts).position_token_account.k), //# C18
//@ end

// ------------------------------------------------------------------ reset_position_range
//@ assume ensure_position_has_enough_rent_for_ticks (Rent sysvar, system-program transfer CPI from the funder) is an external stub
#[verifier::external_body]
fn ensure_position_has_enough_rent_for_ticks<'info>(funder: &Signer<'info>, position: &Account<'info, Position>, system_program: &Program<'info, System>) -> (r: Result<()>) { unimplemented!() }
//@ struct instructions/reset_position_range.rs ResetPositionRange
//@ constraints instructions/reset_position_range.rs ResetPositionRange
/// C18 / C04: a position is re-ranged only on the signature of the holder of ITS token (one token of the position's own mint), only when empty, only to a
/// different range that is valid for the position's OWN pool (the pool account passed is the one the position belongs to), with its growth checkpoints reset
//@ fn instructions/reset_position_range.rs handler -> r as=reset_position_range_handler tags=C18,C04 canary
    requires constraints_ResetPositionRange(old(ctx.accounts)), old(ctx.accounts).whirlpool.data.tick_spacing > 0,
    ensures
        r is Ok ==> authority_rule(old(ctx.accounts).position_token_account.data.owner, copt(old(ctx.accounts).position_token_account.data.delegate), old(ctx.accounts).position_token_account.data.delegated_amount,
            *old(ctx.accounts).position_authority.info.key, old(ctx.accounts).position_authority.info.is_signer), //# C04
        r is Ok ==> old(ctx.accounts).position_token_account.data.mint == old(ctx.accounts).position.data.position_mint && old(ctx.accounts).position_token_account.data.amount == 1, //# C04
        r is Ok ==> old(ctx.accounts).position.data.whirlpool == old(ctx.accounts).whirlpool.k, //# C18
        r is Ok ==> old(ctx.accounts).position.data.empty()
            && !(new_tick_lower_index == old(ctx.accounts).position.data.tick_lower_index && new_tick_upper_index == old(ctx.accounts).position.data.tick_upper_index)
            && range_valid(new_tick_lower_index as int, new_tick_upper_index as int, old(ctx.accounts).whirlpool.data.tick_spacing as int), //# C18
        r is Ok ==> final(ctx.accounts).position.data.tick_lower_index == new_tick_lower_index && final(ctx.accounts).position.data.tick_upper_index == new_tick_upper_index
            && final(ctx.accounts).position.data.fee_growth_checkpoint_a == 0 && final(ctx.accounts).position.data.fee_growth_checkpoint_b == 0
            && (forall|k: int| 0 <= k < 3 ==> (#[trigger] final(ctx.accounts).position.data.reward_infos[k]).growth_inside_checkpoint == 0)
            && final(ctx.accounts).position.data.whirlpool == old(ctx.accounts).position.data.whirlpool && final(ctx.accounts).position.data.position_mint == old(ctx.accounts).position.data.position_mint, //# C18
        final(ctx.accounts).whirlpool == old(ctx.accounts).whirlpool,
//@ end

// ------------------------------------------------------------------ collect_fees
//@ struct instructions/collect_fees.rs CollectFees
//@ constraints instructions/collect_fees.rs CollectFees
/// C07 / C01 / C04: on the authority's signature exactly the owed fees are paid from the pool's vaults to the owner's accounts and the owed amounts are reset to
/// zero (everything else in the position is unchanged)
//@ fn instructions/collect_fees.rs handler -> r as=collect_fees_handler tags=C04,C07,C01,C06,C15
    requires constraints_CollectFees(old(ctx.accounts)),
    ensures
        r is Ok ==> old(ctx.accounts).position_token_account.data.mint == old(ctx.accounts).position.data.position_mint && old(ctx.accounts).position_token_account.data.amount == 1, //# C04
        r is Ok ==> old(ctx.accounts).position.data.whirlpool == old(ctx.accounts).whirlpool.skey(), //# C15
        r is Ok ==> old(ctx.accounts).token_vault_a.skey() == old(ctx.accounts).whirlpool.data.token_vault_a && old(ctx.accounts).token_vault_b.skey() == old(ctx.accounts).whirlpool.data.token_vault_b, //# C15
        r is Ok ==> old(ctx.accounts).token_owner_account_a.data.mint == old(ctx.accounts).whirlpool.data.token_mint_a && old(ctx.accounts).token_owner_account_b.data.mint == old(ctx.accounts).whirlpool.data.token_mint_b, //# C15
       
        r is Ok ==> authority_rule(old(ctx.accounts).position_token_account.data.owner, copt(old(ctx.accounts).position_token_account.data.delegate), old(ctx.accounts).position_token_account.data.delegated_amount,
            *old(ctx.accounts).position_authority.info.key, old(ctx.accounts).position_authority.info.is_signer), //# C04
        r is Ok ==> final(ctx.accounts).position.data == (Position { fee_owed_a: 0, fee_owed_b: 0, ..old(ctx.accounts).position.data }), //# C07 C01
        r is Ok ==> moved(old(ctx.accounts).token_vault_a.k, old(ctx.accounts).token_owner_account_a.k, old(ctx.accounts).position.data.fee_owed_a)
            && moved(old(ctx.accounts).token_vault_b.k, old(ctx.accounts).token_owner_account_b.k, old(ctx.accounts).position.data.fee_owed_b), //# C07 C01 C06
//@ end

// ------------------------------------------------------------------ collect_protocol_fees
//@ struct state/config.rs WhirlpoolsConfig
//@ struct instructions/collect_protocol_fees.rs CollectProtocolFees
//@ constraints instructions/collect_protocol_fees.rs CollectProtocolFees
/// C06: exactly the protocol's accumulated share is paid out from the two vaults and the counters are reset (nothing else in the pool changes)
//@ fn instructions/collect_protocol_fees.rs handler -> r as=collect_protocol_fees_handler tags=C06,C01,C15,C04
    requires constraints_CollectProtocolFees(old(ctx.accounts)),
    ensures
        r is Ok ==> old(ctx.accounts).collect_protocol_fees_authority.skey() == old(ctx.accounts).whirlpools_config.data.collect_protocol_fees_authority && old(ctx.accounts).collect_protocol_fees_authority.info.is_signer && old(ctx.accounts).whirlpool.data.whirlpools_config == old(ctx.accounts).whirlpools_config.skey(), //# C04
        r is Ok ==> old(ctx.accounts).token_vault_a.skey() == old(ctx.accounts).whirlpool.data.token_vault_a && old(ctx.accounts).token_vault_b.skey() == old(ctx.accounts).whirlpool.data.token_vault_b, //# C15
        r is Ok ==> old(ctx.accounts).token_destination_a.data.mint == old(ctx.accounts).whirlpool.data.token_mint_a && old(ctx.accounts).token_destination_b.data.mint == old(ctx.accounts).whirlpool.data.token_mint_b, //# C15
       
        r is Ok ==> final(ctx.accounts).whirlpool.data == (Whirlpool { protocol_fee_owed_a: 0, protocol_fee_owed_b: 0, ..old(ctx.accounts).whirlpool.data }),
        r is Ok ==> moved(old(ctx.accounts).token_vault_a.k, old(ctx.accounts).token_destination_a.k, old(ctx.accounts).whirlpool.data.protocol_fee_owed_a)
            && moved(old(ctx.accounts).token_vault_b.k, old(ctx.accounts).token_destination_b.k, old(ctx.accounts).whirlpool.data.protocol_fee_owed_b),
//@ end

// ------------------------------------------------------------------ lock_position
#[verifier::external_body]
pub fn position_seeds_shim() -> (r: &'static [&'static [u8]]) { unimplemented!() }
//@ struct instructions/lock_position.rs LockPosition
//@ constraints instructions/lock_position.rs LockPosition method:is_frozen
/// C18 / C04: only a position WITH LIQUIDITY can be locked (so that a locked position can never become empty and hence never be closed or re-ranged), on its
/// authority's signature; locking freezes the position token account and records position, owner and pool in the lock config
//@ fn instructions/lock_position.rs handler -> r as=lock_position_handler tags=C18,C04
    requires constraints_LockPosition(old(ctx.accounts)),
    ensures
        r is Ok ==> old(ctx.accounts).position.skey() == crate::anchor_shim::pda_of(seq![crate::anchor_shim::Seed::Lit(0x706f736974696f6eint), crate::anchor_shim::Seed::Key(old(ctx.accounts).position_mint.skey())]) && old(ctx.accounts).lock_config.skey() == crate::anchor_shim::pda_of(seq![crate::anchor_shim::Seed::Lit(0x6c6f636b5f636f6e666967int), crate::anchor_shim::Seed::Key(old(ctx.accounts).position.skey())]), //# C18
        r is Ok ==> old(ctx.accounts).position_token_account.data.mint == old(ctx.accounts).position.data.position_mint && old(ctx.accounts).position_token_account.data.amount == 1, //# C04
        r is Ok ==> old(ctx.accounts).position.data.whirlpool == old(ctx.accounts).whirlpool.skey() && old(ctx.accounts).position_mint.skey() == old(ctx.accounts).position.data.position_mint, //# C18
        r is Ok ==> authority_rule(old(ctx.accounts).position_token_account.data.owner, copt(old(ctx.accounts).position_token_account.data.delegate), old(ctx.accounts).position_token_account.data.delegated_amount,
            *old(ctx.accounts).position_authority.info.key, old(ctx.accounts).position_authority.info.is_signer), //# C04
        r is Ok ==> old(ctx.accounts).position.data.liquidity > 0, //# C18
        r is Ok ==> frozen_by_cpi(*old(ctx.accounts).position_token_account.info.key), //# C18
        r is Ok ==> final(ctx.accounts).lock_config.data.position == old(ctx.accounts).position.k && final(ctx.accounts).lock_config.data.position_owner == old(ctx.accounts).position_token_account.data.owner
            && final(ctx.accounts).lock_config.data.whirlpool == old(ctx.accounts).position.data.whirlpool, //# C18
//@ rewrite /&\[\s*b"position"\.as_ref\(\),[^\]]*\[ctx\.bumps\.position\],\s*\]/ => /position_seeds_shim()/
//@ end

// ------------------------------------------------------------------ set_reward_emissions (v1, v2)
//@ const instructions/set_reward_emissions.rs pub DAY_IN_SECONDS
//@ struct instructions/set_reward_emissions.rs SetRewardEmissions
//@ constraints instructions/set_reward_emissions.rs SetRewardEmissions method:reward_authority
//@ struct instructions/v2/set_reward_emissions.rs SetRewardEmissionsV2
//@ constraints instructions/v2/set_reward_emissions.rs SetRewardEmissionsV2 method:reward_authority
/// C11: the vault must hold at least one day of the new emissions; every reward is first settled up to now with its OLD rate (growths per next_growth, shared
/// clock = now), then the indexed reward takes the new rate
pub open spec fn set_emissions_post(w0: Whirlpool, w1: Whirlpool, vault_amount: u64, reward_index: u8, rate: u128) -> bool {
    let ts = now_unix() as u64;
    &&& now_unix() >= 0 && reward_index < 3 && ts >= w0.reward_last_updated_timestamp
    &&& vault_amount as int >= (86400 * rate as int) / Q()
    &&& w1.reward_last_updated_timestamp == ts
    &&& (forall|k: int| 0 <= k < 3 ==> #[trigger] w1.reward_infos[k] == (WhirlpoolRewardInfo { growth_global_x64: next_growth(w0, ts as int, k), emissions_per_second_x64: if k == reward_index { rate } else { w0.reward_infos[k].emissions_per_second_x64 }, ..w0.reward_infos[k] }))
    &&& w1 == (Whirlpool { reward_infos: w1.reward_infos, reward_last_updated_timestamp: ts, ..w0 })
}
//@ fn instructions/set_reward_emissions.rs handler -> r as=set_reward_emissions_handler tags=C11,C04,C15
    requires constraints_SetRewardEmissions(old(ctx.accounts), reward_index),
    ensures
        r is Ok ==> old(ctx.accounts).reward_authority.skey() == old(ctx.accounts).whirlpool.data.reward_authority_spec() && old(ctx.accounts).reward_authority.info.is_signer, //# C04
        r is Ok ==> old(ctx.accounts).reward_vault.skey() == old(ctx.accounts).whirlpool.data.reward_infos[reward_index as int].vault, //# C15
        r is Ok ==> set_emissions_post(old(ctx.accounts).whirlpool.data, final(ctx.accounts).whirlpool.data, old(ctx.accounts).reward_vault.data.amount, reward_index, emissions_per_second_x64),
//@ end
//@ fn instructions/v2/set_reward_emissions.rs handler -> r as=set_reward_emissions_v2_handler tags=C11,C04,C15
    requires constraints_SetRewardEmissionsV2(old(ctx.accounts), reward_index),
    ensures
        r is Ok ==> old(ctx.accounts).reward_authority.skey() == old(ctx.accounts).whirlpool.data.reward_authority_spec() && old(ctx.accounts).reward_authority.info.is_signer, //# C04
        r is Ok ==> old(ctx.accounts).reward_vault.skey() == old(ctx.accounts).whirlpool.data.reward_infos[reward_index as int].vault, //# C15
        r is Ok ==> set_emissions_post(old(ctx.accounts).whirlpool.data, final(ctx.accounts).whirlpool.data, old(ctx.accounts).reward_vault.data.amount, reward_index, emissions_per_second_x64),
//@ end

// ------------------------------------------------------------------ collect_reward
//@ struct instructions/collect_reward.rs CollectReward
//@ constraints instructions/collect_reward.rs CollectReward
/// C11 / C04: on the authority's signature min(owed, vault balance) of the indexed reward is paid from the reward vault and the rest stays owed
//@ fn instructions/collect_reward.rs handler -> r as=collect_reward_handler tags=C11,C04,C15
    requires constraints_CollectReward(old(ctx.accounts), reward_index), reward_index < 3, // an index above 2 panics on the array access (the transaction fails)
    ensures
        r is Ok ==> old(ctx.accounts).position_token_account.data.mint == old(ctx.accounts).position.data.position_mint && old(ctx.accounts).position_token_account.data.amount == 1, //# C04
        r is Ok ==> old(ctx.accounts).position.data.whirlpool == old(ctx.accounts).whirlpool.skey(), //# C15
        r is Ok ==> old(ctx.accounts).reward_vault.skey() == old(ctx.accounts).whirlpool.data.reward_infos[reward_index as int].vault, //# C15
        r is Ok ==> old(ctx.accounts).reward_owner_account.data.mint == old(ctx.accounts).whirlpool.data.reward_infos[reward_index as int].mint, //# C15
        r is Ok ==> authority_rule(old(ctx.accounts).position_token_account.data.owner, copt(old(ctx.accounts).position_token_account.data.delegate), old(ctx.accounts).position_token_account.data.delegated_amount,
            *old(ctx.accounts).position_authority.info.key, old(ctx.accounts).position_authority.info.is_signer), //# C04
        r is Ok ==> ({ let owed = old(ctx.accounts).position.data.reward_infos[reward_index as int].amount_owed; let paid = min_i(owed as int, old(ctx.accounts).reward_vault.data.amount as int);
            moved(old(ctx.accounts).reward_vault.k, old(ctx.accounts).reward_owner_account.k, paid as u64)
            && final(ctx.accounts).position.data.reward_infos[reward_index as int].amount_owed as int == owed as int - paid
            && (forall|k: int| 0 <= k < 3 && k != reward_index ==> final(ctx.accounts).position.data.reward_infos[k] == old(ctx.accounts).position.data.reward_infos[k])
            && final(ctx.accounts).position.data.liquidity == old(ctx.accounts).position.data.liquidity
            && final(ctx.accounts).position.data.fee_owed_a == old(ctx.accounts).position.data.fee_owed_a && final(ctx.accounts).position.data.fee_owed_b == old(ctx.accounts).position.data.fee_owed_b }), //# C11
//@ end

// ------------------------------------------------------------------ open_position / open_bundled_position
//@ assume open-position shims: Whirlpool::is_position_with_token_extensions_required reads an extension segment (uninterpreted predicate of the pool); collect_rent_for_ticks_in_position (system transfer) and mint_position_token_and_remove_authority (mint one token, then remove the mint authority: two token CPIs) are external stubs, the latter recording minted_one_and_sealed(position mint, token account); Sysvar / AssociatedToken / OpenPositionBumps are opaque
pub struct Sysvar<'info, T> { pub p: core::marker::PhantomData<&'info T> }
pub struct Rent {}
pub struct AssociatedToken {}
pub mod state { pub struct OpenPositionBumps { pub position: u8 } }
pub uninterp spec fn ext_required(w: Whirlpool) -> bool;
pub trait WhirlpoolExt { fn is_position_with_token_extensions_required(&self) -> (r: bool); }
impl WhirlpoolExt for Whirlpool {
    #[verifier::external_body]
    fn is_position_with_token_extensions_required(&self) -> (r: bool) ensures r == ext_required(*self) { unimplemented!() }
}
#[verifier::external_body]
pub fn collect_rent_for_ticks_in_position<'info>(funder: &Signer<'info>, position: &Account<'info, Position>, system_program: &Program<'info, System>) -> (r: Result<()>) { unimplemented!() }
pub uninterp spec fn minted_one_and_sealed(mint: Pubkey, token_account: Pubkey) -> bool;
#[verifier::external_body]
pub fn mint_position_token_and_remove_authority<'info>(whirlpool: &Account<'info, Whirlpool>, position_mint: &Account<'info, Mint>, position_token_account: &Account<'info, TokenAccount>, token_program: &Program<'info, Token>) -> (r: Result<()>)
    ensures r is Ok ==> minted_one_and_sealed(position_mint.k, position_token_account.k) { unimplemented!() }
//@ struct events.rs PositionOpened
pub uninterp spec fn position_opened_emitted(e: PositionOpened) -> bool;
#[verifier::external_body]
pub fn emit_position_opened(e: PositionOpened) ensures position_opened_emitted(e) { unimplemented!() }
/// C18: the stored range is the requested one with a sentinel bound derived from the pool's CURRENT SQRT-PRICE (one_sided_spec), it is a valid range of the
/// pool (lower < upper on usable ticks, only the full range on full-range-only pools), and the position names the pool and its mint
pub open spec fn opened_ok(w: Account<'_, Whirlpool>, mint: Pubkey, lo_in: i32, hi_in: i32, p1: Position) -> bool {
    &&& one_sided_spec(lo_in, hi_in, w.data.tick_spacing, w.data.sqrt_price, Ok::<(i32, i32), Error>((p1.tick_lower_index, p1.tick_upper_index)))
    &&& range_valid(p1.tick_lower_index as int, p1.tick_upper_index as int, w.data.tick_spacing as int)
    &&& p1.whirlpool == w.k && p1.position_mint == mint
}
//@ struct instructions/open_position.rs OpenPosition
//@ constraints instructions/open_position.rs OpenPosition
//@ fn instructions/open_position.rs handler -> r as=open_position_handler tags=C18
    requires constraints_OpenPosition(old(ctx.accounts)), old(ctx.accounts).whirlpool.data.tick_spacing > 0, price_ok(old(ctx.accounts).whirlpool.data.sqrt_price as int),
    ensures
        r is Ok ==> opened_ok(*old(ctx.accounts).whirlpool, old(ctx.accounts).position_mint.k, tick_lower_index, tick_upper_index, final(ctx.accounts).position.data),
        r is Ok ==> !ext_required(old(ctx.accounts).whirlpool.data),
        r is Ok ==> minted_one_and_sealed(old(ctx.accounts).position_mint.k, old(ctx.accounts).position_token_account.k),
//@ rewrite /emit!\(PositionOpened \{/ => /emit_position_opened(PositionOpened {/
//@ end
//@ struct instructions/open_bundled_position.rs OpenBundledPosition
//@ constraints instructions/open_bundled_position.rs OpenBundledPosition
//@ fn instructions/open_bundled_position.rs handler -> r as=open_bundled_position_handler tags=C18,C04
    requires constraints_OpenBundledPosition(old(ctx.accounts), bundle_index), old(ctx.accounts).whirlpool.data.tick_spacing > 0, price_ok(old(ctx.accounts).whirlpool.data.sqrt_price as int),
    ensures
        r is Ok ==> old(ctx.accounts).position_bundle_token_account.data.mint == old(ctx.accounts).position_bundle.data.position_bundle_mint && old(ctx.accounts).position_bundle_token_account.data.amount == 1, //# C04
        r is Ok ==> opened_ok(*old(ctx.accounts).whirlpool, old(ctx.accounts).position_bundle.data.position_bundle_mint, tick_lower_index, tick_upper_index, final(ctx.accounts).bundled_position.data), //# C18
        r is Ok ==> !ext_required(old(ctx.accounts).whirlpool.data), //# C18
        r is Ok ==> authority_rule(old(ctx.accounts).position_bundle_token_account.data.owner, copt(old(ctx.accounts).position_bundle_token_account.data.delegate), old(ctx.accounts).position_bundle_token_account.data.delegated_amount,
            *old(ctx.accounts).position_bundle_authority.info.key, old(ctx.accounts).position_bundle_authority.info.is_signer), //# C04
        r is Ok ==> old(ctx.accounts).bundled_position.skey() == crate::anchor_shim::pda_of(seq![crate::anchor_shim::Seed::Lit(0x62756e646c65645f706f736974696f6eint), crate::anchor_shim::Seed::Key(old(ctx.accounts).position_bundle.data.position_bundle_mint), crate::anchor_shim::Seed::Dec(bundle_index as int)]), //# C18
        // the bundle's bitmap marks exactly one more open position: this index
        r is Ok ==> bundle_index < 256 && !bundle_open(old(ctx.accounts).position_bundle.data.position_bitmap, bundle_index as int)
            && (forall|j: int| 0 <= j < 256 ==> #[trigger] bundle_open(final(ctx.accounts).position_bundle.data.position_bitmap, j) == (j == bundle_index || bundle_open(old(ctx.accounts).position_bundle.data.position_bitmap, j))), //# C18
//@ rewrite /emit!\(PositionOpened \{/ => /emit_position_opened(PositionOpened {/
//@ end

// ------------------------------------------------------------------ close_bundled_position / delete_position_bundle / transfer_locked_position
//@ assume bundle / locked-transfer shims: burn_and_close_position_bundle_token, unfreeze_user_position_token_2022, transfer_user_position_token_2022, close_empty_token_account_2022 (token CPIs) are external stubs recording a fact each; `unreachable!` is a panic (the transaction fails)
#[verifier::external_body]
pub fn burn_and_close_position_bundle_token<'info>(position_bundle_authority: &Signer<'info>, receiver: &UncheckedAccount<'info>, position_bundle_mint: &Account<'info, Mint>, position_bundle_token_account: &Account<'info, TokenAccount>,
    token_program: &Program<'info, Token>) -> (r: Result<()>)
    ensures r is Ok ==> burned_by_cpi(position_bundle_token_account.k) { unimplemented!() }
/// a panic aborts the instruction: modelled as an error return (logged rewrite of `unreachable!`)
#[verifier::external_body]
pub fn panic_abort<T>() -> (r: Result<T>) ensures r is Err { unimplemented!() }
pub uninterp spec fn unfrozen_by_cpi(token_account: Pubkey) -> bool;
pub uninterp spec fn nft_transferred(from: Pubkey, to: Pubkey) -> bool;
#[verifier::external_body]
pub fn unfreeze_user_position_token_2022<'info>(position_mint: &InterfaceAccount<'info, Mint>, position_token_account: &InterfaceAccount<'info, TokenAccount>, token_2022_program: &Program<'info, Token2022>,
    position: &Account<'info, Position>, position_seeds: &[&[u8]]) -> (r: Result<()>)
    ensures r is Ok ==> unfrozen_by_cpi(*position_token_account.info.key) { unimplemented!() }
#[verifier::external_body]
pub fn transfer_user_position_token_2022<'info>(position_authority: &Signer<'info>, position_mint: &InterfaceAccount<'info, Mint>, position_token_account: &InterfaceAccount<'info, TokenAccount>,
    destination_token_account: &InterfaceAccount<'info, TokenAccount>, token_2022_program: &Program<'info, Token2022>) -> (r: Result<()>)
    ensures r is Ok ==> nft_transferred(*position_token_account.info.key, *destination_token_account.info.key) { unimplemented!() }
#[verifier::external_body]
pub fn close_empty_token_account_2022<'info>(token_authority: &Signer<'info>, token_account: &InterfaceAccount<'info, TokenAccount>, token_2022_program: &Program<'info, Token2022>, receiver: &UncheckedAccount<'info>) -> (r: Result<()>) { unimplemented!() }
impl LockConfig {
//@ fn state/lock_config.rs update_position_owner in=/^impl LockConfig \{/
    ensures *final(self) == (LockConfig { position_owner: position_owner, ..*old(self) }),
//@ end
}
//@ struct instructions/close_bundled_position.rs CloseBundledPosition
//@ constraints instructions/close_bundled_position.rs CloseBundledPosition
/// C18 / C04: a bundled position is closed only on the signature of the holder of the BUNDLE's token (which is also this position's mint), only when it is empty,
/// and the bundle's bitmap loses exactly this index
//@ fn instructions/close_bundled_position.rs handler -> r as=close_bundled_position_handler tags=C18,C04 canary
    requires constraints_CloseBundledPosition(old(ctx.accounts), bundle_index),
    ensures
        r is Ok ==> old(ctx.accounts).position_bundle_token_account.data.mint == old(ctx.accounts).position_bundle.data.position_bundle_mint && old(ctx.accounts).position_bundle_token_account.data.amount == 1
            && old(ctx.accounts).bundled_position.data.position_mint == old(ctx.accounts).position_bundle.data.position_bundle_mint, //# C04
        r is Ok ==> authority_rule(old(ctx.accounts).position_bundle_token_account.data.owner, copt(old(ctx.accounts).position_bundle_token_account.data.delegate), old(ctx.accounts).position_bundle_token_account.data.delegated_amount,
            *old(ctx.accounts).position_bundle_authority.info.key, old(ctx.accounts).position_bundle_authority.info.is_signer), //# C04
        r is Ok ==> old(ctx.accounts).bundled_position.data.empty(), //# C18
        // the position account closed is the one derived from (this bundle's mint, this index): the bit cleared below belongs to it ("bundled_position" = 0x62756e..)
        r is Ok ==> old(ctx.accounts).bundled_position.skey() == crate::anchor_shim::pda_of(seq![crate::anchor_shim::Seed::Lit(0x62756e646c65645f706f736974696f6eint), crate::anchor_shim::Seed::Key(old(ctx.accounts).position_bundle.data.position_bundle_mint), crate::anchor_shim::Seed::Dec(bundle_index as int)]), //# C18
        r is Ok ==> bundle_index < 256 && bundle_open(old(ctx.accounts).position_bundle.data.position_bitmap, bundle_index as int)
            && (forall|j: int| 0 <= j < 256 ==> #[trigger] bundle_open(final(ctx.accounts).position_bundle.data.position_bitmap, j) == (j != bundle_index && bundle_open(old(ctx.accounts).position_bundle.data.position_bitmap, j))), //# C18
//@ end
//@ struct instructions/delete_position_bundle.rs DeletePositionBundle
//@ constraints instructions/delete_position_bundle.rs DeletePositionBundle
/// C18 / C04: a bundle is deleted only when none of its 256 positions is open, by the signing OWNER of the bundle's token (no delegation), and the bundle token is burned
//@ fn instructions/delete_position_bundle.rs handler -> r as=delete_position_bundle_handler tags=C18,C04 canary
    requires constraints_DeletePositionBundle(old(ctx.accounts)),
    ensures
        r is Ok ==> (forall|j: int| 0 <= j < 256 ==> !#[trigger] bundle_open(old(ctx.accounts).position_bundle.data.position_bitmap, j)), //# C18
        r is Ok ==> old(ctx.accounts).position_bundle_token_account.data.mint == old(ctx.accounts).position_bundle.data.position_bundle_mint && old(ctx.accounts).position_bundle_token_account.data.amount == 1
            && old(ctx.accounts).position_bundle_token_account.data.owner == *old(ctx.accounts).position_bundle_owner.info.key && old(ctx.accounts).position_bundle_owner.info.is_signer, //# C04
        r is Ok ==> old(ctx.accounts).position_bundle_mint.skey() == old(ctx.accounts).position_bundle.data.position_bundle_mint && burned_by_cpi(old(ctx.accounts).position_bundle_token_account.k), //# C18
//@ end
//@ struct instructions/transfer_locked_position.rs TransferLockedPosition
//@ constraints instructions/transfer_locked_position.rs TransferLockedPosition
/// C18 / C04: a locked position moves only on the signature of the OWNER of its token account (no delegate), to another account of the same mint; the token stays
/// frozen at the destination and the lock config of THIS position records the new owner
//@ fn instructions/transfer_locked_position.rs handler -> r as=transfer_locked_position_handler tags=C18,C04 canary
    requires constraints_TransferLockedPosition(old(ctx.accounts)),
    ensures
        r is Ok ==> old(ctx.accounts).position_token_account.data.owner == *old(ctx.accounts).position_authority.info.key && old(ctx.accounts).position_authority.info.is_signer, //# C04
        r is Ok ==> old(ctx.accounts).position_token_account.data.mint == old(ctx.accounts).position.data.position_mint && old(ctx.accounts).position_token_account.data.amount == 1
            && old(ctx.accounts).destination_token_account.data.mint == old(ctx.accounts).position.data.position_mint && old(ctx.accounts).destination_token_account.skey() != old(ctx.accounts).position_token_account.skey(), //# C04
        r is Ok ==> old(ctx.accounts).position_token_account.data.frozen, //# C18
        r is Ok ==> old(ctx.accounts).lock_config.data.position == old(ctx.accounts).position.skey(), //# C18
        r is Ok ==> nft_transferred(*old(ctx.accounts).position_token_account.info.key, *old(ctx.accounts).destination_token_account.info.key) && frozen_by_cpi(*old(ctx.accounts).destination_token_account.info.key), //# C18
        r is Ok ==> final(ctx.accounts).lock_config.data == (LockConfig { position_owner: old(ctx.accounts).destination_token_account.data.owner, ..old(ctx.accounts).lock_config.data }), //# C18
//@ rewrite /&\[\s*b"position"\.as_ref\(\),[^\]]*\[ctx\.bumps\.position\],\s*\]/ => /position_seeds_shim()/ 2
//@ rewrite /unreachable!\("Position has to be locked for this instruction"\);/ => /return panic_abort();/
//@ end

// ------------------------------------------------------------------ v2 (token-extension aware) collect handlers
pub mod transfer_memo {
    pub const TRANSFER_MEMO_COLLECT_PROTOCOL_FEES: &'static str = "Orca CollectProtocolFees";
    pub const TRANSFER_MEMO_COLLECT_FEES: &'static str = "Orca CollectFees";
    pub const TRANSFER_MEMO_COLLECT_REWARD: &'static str = "Orca CollectReward";
}
//@ subst /transfer_memo::(TRANSFER_MEMO_[A-Z_]+)\.as_bytes\(\)/ => /memo_bytes(transfer_memo::\1)/
//@ subst /calculate_collect_reward\(\n/ => /calculate_collect_reward_v2(\n/
//@ struct instructions/v2/collect_fees.rs CollectFeesV2
//@ constraints instructions/v2/collect_fees.rs CollectFeesV2
//@ fn instructions/v2/collect_fees.rs handler -> r as=collect_fees_v2_handler tags=C04,C07,C01,C06,C15
    requires constraints_CollectFeesV2(old(ctx.accounts)),
    ensures
        r is Ok ==> old(ctx.accounts).position_token_account.data.mint == old(ctx.accounts).position.data.position_mint && old(ctx.accounts).position_token_account.data.amount == 1, //# C04
        r is Ok ==> old(ctx.accounts).position.data.whirlpool == old(ctx.accounts).whirlpool.skey(), //# C15
        r is Ok ==> old(ctx.accounts).token_vault_a.skey() == old(ctx.accounts).whirlpool.data.token_vault_a && old(ctx.accounts).token_vault_b.skey() == old(ctx.accounts).whirlpool.data.token_vault_b, //# C15
        r is Ok ==> old(ctx.accounts).token_owner_account_a.data.mint == old(ctx.accounts).whirlpool.data.token_mint_a && old(ctx.accounts).token_owner_account_b.data.mint == old(ctx.accounts).whirlpool.data.token_mint_b, //# C15
        r is Ok ==> old(ctx.accounts).token_mint_a.skey() == old(ctx.accounts).whirlpool.data.token_mint_a && old(ctx.accounts).token_mint_b.skey() == old(ctx.accounts).whirlpool.data.token_mint_b && old(ctx.accounts).token_program_a.skey() == old(ctx.accounts).token_mint_a.data.owner_program && old(ctx.accounts).token_program_b.skey() == old(ctx.accounts).token_mint_b.data.owner_program, //# C15
       
        r is Ok ==> authority_rule(old(ctx.accounts).position_token_account.data.owner, copt(old(ctx.accounts).position_token_account.data.delegate), old(ctx.accounts).position_token_account.data.delegated_amount,
            *old(ctx.accounts).position_authority.info.key, old(ctx.accounts).position_authority.info.is_signer), //# C04
        r is Ok ==> final(ctx.accounts).position.data == (Position { fee_owed_a: 0, fee_owed_b: 0, ..old(ctx.accounts).position.data }), //# C07 C01
        r is Ok ==> moved(*old(ctx.accounts).token_vault_a.info.key, *old(ctx.accounts).token_owner_account_a.info.key, old(ctx.accounts).position.data.fee_owed_a)
            && moved(*old(ctx.accounts).token_vault_b.info.key, *old(ctx.accounts).token_owner_account_b.info.key, old(ctx.accounts).position.data.fee_owed_b), //# C07 C01 C06
        // each payout is made with the mint account, token program and transfer-hook accounts of ITS token
        r is Ok ==> (parsed_remaining(ctx.remaining_accounts@, remaining_accounts_info) matches Ok(pr) && moved_with(*old(ctx.accounts).token_vault_a.info.key, *old(ctx.accounts).token_owner_account_a.info.key, *old(ctx.accounts).token_mint_a.info.key, old(ctx.accounts).token_program_a.k, hook_tag(pr.transfer_hook_a))
            && moved_with(*old(ctx.accounts).token_vault_b.info.key, *old(ctx.accounts).token_owner_account_b.info.key, *old(ctx.accounts).token_mint_b.info.key, old(ctx.accounts).token_program_b.k, hook_tag(pr.transfer_hook_b))), //# C16 C15
//@ end
//@ struct instructions/v2/collect_protocol_fees.rs CollectProtocolFeesV2
//@ constraints instructions/v2/collect_protocol_fees.rs CollectProtocolFeesV2
//@ fn instructions/v2/collect_protocol_fees.rs handler -> r as=collect_protocol_fees_v2_handler tags=C06,C01,C15,C04
    requires constraints_CollectProtocolFeesV2(old(ctx.accounts)),
    ensures
        r is Ok ==> old(ctx.accounts).collect_protocol_fees_authority.skey() == old(ctx.accounts).whirlpools_config.data.collect_protocol_fees_authority && old(ctx.accounts).collect_protocol_fees_authority.info.is_signer && old(ctx.accounts).whirlpool.data.whirlpools_config == old(ctx.accounts).whirlpools_config.skey(), //# C04
        r is Ok ==> old(ctx.accounts).token_vault_a.skey() == old(ctx.accounts).whirlpool.data.token_vault_a && old(ctx.accounts).token_vault_b.skey() == old(ctx.accounts).whirlpool.data.token_vault_b, //# C15
        r is Ok ==> old(ctx.accounts).token_destination_a.data.mint == old(ctx.accounts).whirlpool.data.token_mint_a && old(ctx.accounts).token_destination_b.data.mint == old(ctx.accounts).whirlpool.data.token_mint_b, //# C15
        r is Ok ==> old(ctx.accounts).token_mint_a.skey() == old(ctx.accounts).whirlpool.data.token_mint_a && old(ctx.accounts).token_mint_b.skey() == old(ctx.accounts).whirlpool.data.token_mint_b && old(ctx.accounts).token_program_a.skey() == old(ctx.accounts).token_mint_a.data.owner_program && old(ctx.accounts).token_program_b.skey() == old(ctx.accounts).token_mint_b.data.owner_program, //# C15
       
        r is Ok ==> final(ctx.accounts).whirlpool.data == (Whirlpool { protocol_fee_owed_a: 0, protocol_fee_owed_b: 0, ..old(ctx.accounts).whirlpool.data }),
        r is Ok ==> moved(*old(ctx.accounts).token_vault_a.info.key, *old(ctx.accounts).token_destination_a.info.key, old(ctx.accounts).whirlpool.data.protocol_fee_owed_a)
            && moved(*old(ctx.accounts).token_vault_b.info.key, *old(ctx.accounts).token_destination_b.info.key, old(ctx.accounts).whirlpool.data.protocol_fee_owed_b),
        r is Ok ==> (parsed_remaining(ctx.remaining_accounts@, remaining_accounts_info) matches Ok(pr) && moved_with(*old(ctx.accounts).token_vault_a.info.key, *old(ctx.accounts).token_destination_a.info.key, *old(ctx.accounts).token_mint_a.info.key, old(ctx.accounts).token_program_a.k, hook_tag(pr.transfer_hook_a))
            && moved_with(*old(ctx.accounts).token_vault_b.info.key, *old(ctx.accounts).token_destination_b.info.key, *old(ctx.accounts).token_mint_b.info.key, old(ctx.accounts).token_program_b.k, hook_tag(pr.transfer_hook_b))), //# C16 C15
//@ end
//@ struct instructions/v2/collect_reward.rs CollectRewardV2
//@ constraints instructions/v2/collect_reward.rs CollectRewardV2
//@ fn instructions/v2/collect_reward.rs handler -> r as=collect_reward_v2_handler tags=C11,C04,C15
    requires constraints_CollectRewardV2(old(ctx.accounts), reward_index), reward_index < 3,
    ensures
        r is Ok ==> old(ctx.accounts).position_token_account.data.mint == old(ctx.accounts).position.data.position_mint && old(ctx.accounts).position_token_account.data.amount == 1, //# C04
        r is Ok ==> old(ctx.accounts).position.data.whirlpool == old(ctx.accounts).whirlpool.skey(), //# C15
        r is Ok ==> old(ctx.accounts).reward_vault.skey() == old(ctx.accounts).whirlpool.data.reward_infos[reward_index as int].vault, //# C15
        r is Ok ==> old(ctx.accounts).reward_owner_account.data.mint == old(ctx.accounts).whirlpool.data.reward_infos[reward_index as int].mint, //# C15
        r is Ok ==> old(ctx.accounts).reward_mint.skey() == old(ctx.accounts).whirlpool.data.reward_infos[reward_index as int].mint && old(ctx.accounts).reward_token_program.skey() == old(ctx.accounts).reward_mint.data.owner_program, //# C15
        r is Ok ==> authority_rule(old(ctx.accounts).position_token_account.data.owner, copt(old(ctx.accounts).position_token_account.data.delegate), old(ctx.accounts).position_token_account.data.delegated_amount,
            *old(ctx.accounts).position_authority.info.key, old(ctx.accounts).position_authority.info.is_signer), //# C04
        r is Ok ==> ({ let owed = old(ctx.accounts).position.data.reward_infos[reward_index as int].amount_owed; let paid = min_i(owed as int, old(ctx.accounts).reward_vault.data.amount as int);
            moved(*old(ctx.accounts).reward_vault.info.key, *old(ctx.accounts).reward_owner_account.info.key, paid as u64)
            && final(ctx.accounts).position.data.reward_infos[reward_index as int].amount_owed as int == owed as int - paid
            && (forall|k: int| 0 <= k < 3 && k != reward_index ==> final(ctx.accounts).position.data.reward_infos[k] == old(ctx.accounts).position.data.reward_infos[k])
            && final(ctx.accounts).position.data.liquidity == old(ctx.accounts).position.data.liquidity
            && final(ctx.accounts).position.data.fee_owed_a == old(ctx.accounts).position.data.fee_owed_a && final(ctx.accounts).position.data.fee_owed_b == old(ctx.accounts).position.data.fee_owed_b }), //# C11
        r is Ok ==> (parsed_remaining(ctx.remaining_accounts@, remaining_accounts_info) matches Ok(pr) && moved_with(*old(ctx.accounts).reward_vault.info.key, *old(ctx.accounts).reward_owner_account.info.key, *old(ctx.accounts).reward_mint.info.key, old(ctx.accounts).reward_token_program.k, hook_tag(pr.transfer_hook_reward))), //# C16 C15
//@ end

// ------------------------------------------------------------------ update_fees_and_rewards
//@ assume update_fees_and_rewards shims: load_tick_array (owner, discriminator and whirlpool-field checks, then an unsafe cast) is an external stub recording ta_loaded(account, pool) and handing out an abstract tick array
pub use crate::liquidity_manager::{TickArrayType, calculate_fee_and_reward_growths, refresh_spec};
pub uninterp spec fn ta_loaded(account: Pubkey, pool: Pubkey) -> bool;
pub struct TA { pub x: u8 }
impl TickArrayType for TA {
    uninterp spec fn tick_at(&self, tick_index: int, spacing: int) -> Option<crate::state_core::Tick>;
    uninterp spec fn variable(&self) -> bool;
    #[verifier::external_body] fn is_variable_size(&self) -> (r: bool) { unimplemented!() }
    #[verifier::external_body] fn get_tick(&self, tick_index: i32, tick_spacing: u16) -> (r: Result<crate::state_core::Tick>) { unimplemented!() }
    #[verifier::external_body] fn update_tick(&mut self, tick_index: i32, tick_spacing: u16, update: &crate::state_core::TickUpdate) -> (r: Result<()>) { unimplemented!() }
}
pub struct LoadedTickArray { pub ta: TA }
impl LoadedTickArray { pub fn deref(&self) -> (r: &TA) ensures *r == self.ta { &self.ta } }
#[verifier::external_body]
pub fn load_tick_array(account: &UncheckedAccount<'_>, whirlpool: &Pubkey) -> (r: Result<LoadedTickArray>) ensures r is Ok ==> ta_loaded(*account.k, *whirlpool) { unimplemented!() }
//@ struct instructions/update_fees_and_rewards.rs UpdateFeesAndRewards
//@ constraints instructions/update_fees_and_rewards.rs UpdateFeesAndRewards
/// C07 / C11: the position's fee and reward checkpoints and owed amounts are refreshed by the zero-delta computation on the position's own bound ticks (read from
/// tick arrays loaded against THIS pool), and the pool's reward growths are settled up to now; liquidity and everything else stay as they are
//@ fn instructions/update_fees_and_rewards.rs handler -> r as=update_fees_and_rewards_handler tags=C07,C11,C15
    requires constraints_UpdateFeesAndRewards(old(ctx.accounts)),
    ensures
        r is Ok ==> old(ctx.accounts).position.data.whirlpool == old(ctx.accounts).whirlpool.skey(), //# C15
       
        r is Ok ==> ta_loaded(*old(ctx.accounts).tick_array_lower.k, old(ctx.accounts).whirlpool.k) && ta_loaded(*old(ctx.accounts).tick_array_upper.k, old(ctx.accounts).whirlpool.k), //# C15
        r is Ok ==> now_unix() >= 0 && exists|tl: crate::state_core::Tick, tu: crate::state_core::Tick, lv: bool, uv: bool, pu: crate::state_core::PositionUpdate, ri: [WhirlpoolRewardInfo; NUM_REWARDS]|
            #[trigger] refresh_spec(old(ctx.accounts).whirlpool.data, old(ctx.accounts).position.data, tl, tu, lv, uv, now_unix() as u64 as int, pu, ri)
            && final(ctx.accounts).whirlpool.data == (Whirlpool { reward_infos: ri, reward_last_updated_timestamp: now_unix() as u64, ..old(ctx.accounts).whirlpool.data })
            && final(ctx.accounts).position.data.liquidity == pu.liquidity && final(ctx.accounts).position.data.fee_owed_a == pu.fee_owed_a && final(ctx.accounts).position.data.fee_owed_b == pu.fee_owed_b
            && final(ctx.accounts).position.data.fee_growth_checkpoint_a == pu.fee_growth_checkpoint_a && final(ctx.accounts).position.data.fee_growth_checkpoint_b == pu.fee_growth_checkpoint_b
            && final(ctx.accounts).position.data.tick_lower_index == old(ctx.accounts).position.data.tick_lower_index && final(ctx.accounts).position.data.tick_upper_index == old(ctx.accounts).position.data.tick_upper_index, //# C07 C11
//@ end

// ------------------------------------------------------------------ reachability canaries (vacuity guard, see tools/run.py)
/// reachability canary (must FAIL): the same body with the contract 'never succeeds'
//@ fn instructions/close_position.rs handler -> r as=reach_canary_close_position_handler tags=C18,C04
    requires constraints_ClosePosition(old(ctx.accounts)),
    ensures r is Err,
//@ end
/// reachability canary (must FAIL): the same body with the contract 'never succeeds'
//@ fn instructions/collect_fees.rs handler -> r as=reach_canary_collect_fees_handler tags=C04,C07,C01,C06,C15
    requires constraints_CollectFees(old(ctx.accounts)),
    ensures r is Err,
//@ end
/// reachability canary (must FAIL): the same body with the contract 'never succeeds'
//@ fn instructions/collect_protocol_fees.rs handler -> r as=reach_canary_collect_protocol_fees_handler tags=C06,C01,C15,C04
    requires constraints_CollectProtocolFees(old(ctx.accounts)),
    ensures r is Err,
//@ end
/// reachability canary (must FAIL): the same body with the contract 'never succeeds'
//@ fn instructions/lock_position.rs handler -> r as=reach_canary_lock_position_handler tags=C18,C04
    requires constraints_LockPosition(old(ctx.accounts)),
    ensures r is Err,
//@ rewrite /&\[\s*b"position"\.as_ref\(\),[^\]]*\[ctx\.bumps\.position\],\s*\]/ => /position_seeds_shim()/
//@ end
/// reachability canary (must FAIL): the same body with the contract 'never succeeds'
//@ fn instructions/set_reward_emissions.rs handler -> r as=reach_canary_set_reward_emissions_handler tags=C11,C04,C15
    requires constraints_SetRewardEmissions(old(ctx.accounts), reward_index),
    ensures r is Err,
//@ end
/// reachability canary (must FAIL): the same body with the contract 'never succeeds'
//@ fn instructions/v2/set_reward_emissions.rs handler -> r as=reach_canary_set_reward_emissions_v2_handler tags=C11,C04,C15
    requires constraints_SetRewardEmissionsV2(old(ctx.accounts), reward_index),
    ensures r is Err,
//@ end
/// reachability canary (must FAIL): the same body with the contract 'never succeeds'
//@ fn instructions/collect_reward.rs handler -> r as=reach_canary_collect_reward_handler tags=C11,C04,C15
    requires constraints_CollectReward(old(ctx.accounts), reward_index), reward_index < 3, // an index above 2 panics on the array access (the transaction fails)
    ensures r is Err,
//@ end
/// reachability canary (must FAIL): the same body with the contract 'never succeeds'
//@ fn instructions/open_position.rs handler -> r as=reach_canary_open_position_handler tags=C18
    requires constraints_OpenPosition(old(ctx.accounts)), old(ctx.accounts).whirlpool.data.tick_spacing > 0, price_ok(old(ctx.accounts).whirlpool.data.sqrt_price as int),
    ensures r is Err,
//@ rewrite /emit!\(PositionOpened \{/ => /emit_position_opened(PositionOpened {/
//@ end
/// reachability canary (must FAIL): the same body with the contract 'never succeeds'
//@ fn instructions/open_bundled_position.rs handler -> r as=reach_canary_open_bundled_position_handler tags=C18,C04
    requires constraints_OpenBundledPosition(old(ctx.accounts), bundle_index), old(ctx.accounts).whirlpool.data.tick_spacing > 0, price_ok(old(ctx.accounts).whirlpool.data.sqrt_price as int),
    ensures r is Err,
//@ rewrite /emit!\(PositionOpened \{/ => /emit_position_opened(PositionOpened {/
//@ end
/// reachability canary (must FAIL): the same body with the contract 'never succeeds'
//@ fn instructions/v2/collect_fees.rs handler -> r as=reach_canary_collect_fees_v2_handler tags=C04,C07,C01,C06,C15
    requires constraints_CollectFeesV2(old(ctx.accounts)),
    ensures r is Err,
//@ end
/// reachability canary (must FAIL): the same body with the contract 'never succeeds'
//@ fn instructions/v2/collect_protocol_fees.rs handler -> r as=reach_canary_collect_protocol_fees_v2_handler tags=C06,C01,C15,C04
    requires constraints_CollectProtocolFeesV2(old(ctx.accounts)),
    ensures r is Err,
//@ end
/// reachability canary (must FAIL): the same body with the contract 'never succeeds'
//@ fn instructions/v2/collect_reward.rs handler -> r as=reach_canary_collect_reward_v2_handler tags=C11,C04,C15
    requires constraints_CollectRewardV2(old(ctx.accounts), reward_index), reward_index < 3,
    ensures r is Err,
//@ end
/// reachability canary (must FAIL): the same body with the contract 'never succeeds'
//@ fn instructions/update_fees_and_rewards.rs handler -> r as=reach_canary_update_fees_and_rewards_handler tags=C07,C11,C15
    requires constraints_UpdateFeesAndRewards(old(ctx.accounts)),
    ensures r is Err,
//@ end
}
