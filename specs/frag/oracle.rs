//@ needs specs errors stdspecs anchor_shim u256_math token_math tick_math_abs
pub mod oracle {
use vstd::prelude::*;
use crate::errors::ErrorCode;
use crate::specs::*;
use crate::anchor_shim::*;
use crate::u256_math::*;
use crate::token_math::increasing_price_order;
use crate::tick_math::*;
use crate::bit_math::Q64_RESOLUTION;
//@ tags C14 C19
//@ const state/oracle.rs MAX_TRADE_ENABLE_TIMESTAMP_DELTA VOLATILITY_ACCUMULATOR_SCALE_FACTOR REDUCTION_FACTOR_DENOMINATOR ADAPTIVE_FEE_CONTROL_FACTOR_DENOMINATOR MAX_REFERENCE_AGE
//@ const state/tick_array.rs TICK_ARRAY_SIZE
//@ struct state/oracle.rs AdaptiveFeeConstants AdaptiveFeeVariables AdaptiveFeeInfo

/// the published validity rules for adaptive-fee constants (C19 / C14), written independently of the code
pub open spec fn valid_constants(tick_spacing: int, filter: int, decay: int, reduction: int, control: int, max_acc: int, group: int, major: int) -> bool {
    &&& filter >= 1
    &&& decay > filter
    &&& control < 100_000
    &&& max_acc * group <= 0xFFFF_FFFF
    &&& reduction < 10_000
    &&& 1 <= group <= tick_spacing && tick_spacing % group == 0
    &&& 1 <= major <= tick_spacing * 88
}
impl AdaptiveFeeConstants {
    pub open spec fn valid_for(&self, tick_spacing: int) -> bool {
        valid_constants(tick_spacing, self.filter_period as int, self.decay_period as int, self.reduction_factor as int, self.adaptive_fee_control_factor as int,
            self.max_volatility_accumulator as int, self.tick_group_size as int, self.major_swap_threshold_ticks as int)
    }
    /// the part of validity that does not mention the pool's tick spacing
    pub open spec fn wf(&self) -> bool {
        self.filter_period >= 1 && self.decay_period > self.filter_period && self.adaptive_fee_control_factor < 100_000
        && self.max_volatility_accumulator as int * self.tick_group_size as int <= 0xFFFF_FFFF && self.reduction_factor < 10_000
        && self.tick_group_size >= 1 && self.major_swap_threshold_ticks >= 1
    }
//@ fn state/oracle.rs validate_constants in=/^impl AdaptiveFeeConstants \{/ -> r canary
    ensures r == valid_constants(tick_spacing as int, filter_period as int, decay_period as int, reduction_factor as int, adaptive_fee_control_factor as int,
            max_volatility_accumulator as int, tick_group_size as int, major_swap_threshold_ticks as int),
//@ inject at /^\{/
    proof { assert(max_volatility_accumulator as int * tick_group_size as int <= 0xFFFF_FFFF * 0xFFFF) by(nonlinear_arith)
                requires 0 <= max_volatility_accumulator as int <= 0xFFFF_FFFF, 0 <= tick_group_size as int <= 0xFFFF;
            assert(tick_spacing as int * 88 <= 0xFFFF * 88); }
//@ end
}

pub open spec fn is_vars_default(v: AdaptiveFeeVariables) -> bool {
    v.last_reference_update_timestamp == 0 && v.last_major_swap_timestamp == 0 && v.volatility_reference == 0 && v.tick_group_index_reference == 0 && v.volatility_accumulator == 0
}
//@ assume derive(Default) on AdaptiveFeeVariables replaced by an explicit all-zero impl
impl Default for AdaptiveFeeVariables {
    fn default() -> (r: Self) ensures is_vars_default(r) {
        AdaptiveFeeVariables { last_reference_update_timestamp: 0, last_major_swap_timestamp: 0, volatility_reference: 0, tick_group_index_reference: 0, volatility_accumulator: 0, reserved: [0u8; 16] }
    }
}

pub open spec fn GROUP_BOUND() -> int { 1_000_000 }
/// reachable-state invariant of the adaptive-fee variables w.r.t. their constants (DESIGN Inv14)
pub open spec fn inv14(c: AdaptiveFeeConstants, v: AdaptiveFeeVariables) -> bool {
    c.wf() && v.volatility_reference <= c.max_volatility_accumulator && v.volatility_accumulator <= c.max_volatility_accumulator
    && -GROUP_BOUND() <= v.tick_group_index_reference <= GROUP_BOUND()
}

/// the documented filter / decay / reset rules of the reference update, as a function (None = InvalidTimestamp)
pub open spec fn reference_after(o: AdaptiveFeeVariables, tick_group_index: i32, current_timestamp: u64, c: AdaptiveFeeConstants) -> Option<AdaptiveFeeVariables> {
    let max_ts = max_i(o.last_reference_update_timestamp as int, o.last_major_swap_timestamp as int);
    let now = current_timestamp as int;
    if now < max_ts { None }
    else if now - o.last_reference_update_timestamp as int > 3_600 {
        Some(AdaptiveFeeVariables { tick_group_index_reference: tick_group_index, volatility_reference: 0, last_reference_update_timestamp: current_timestamp, ..o })
    } else if now - max_ts < c.filter_period as int { Some(o) }
    else if now - max_ts < c.decay_period as int {
        Some(AdaptiveFeeVariables { tick_group_index_reference: tick_group_index,
            volatility_reference: ((o.volatility_accumulator as int * c.reduction_factor as int) / 10_000) as u32, last_reference_update_timestamp: current_timestamp, ..o })
    } else {
        Some(AdaptiveFeeVariables { tick_group_index_reference: tick_group_index, volatility_reference: 0, last_reference_update_timestamp: current_timestamp, ..o })
    }
}
/// accumulator of tick group g: min(reference + |distance| * 10_000, max)
pub open spec fn accumulator_at(v: AdaptiveFeeVariables, g: int, c: AdaptiveFeeConstants) -> int {
    min_i(v.volatility_reference as int + abs_diff(v.tick_group_index_reference as int, g) * 10_000, c.max_volatility_accumulator as int)
}
impl AdaptiveFeeVariables {
//@ fn state/oracle.rs update_volatility_accumulator in=/^impl AdaptiveFeeVariables \{/ -> r canary
    requires -GROUP_BOUND() <= tick_group_index <= GROUP_BOUND(), -GROUP_BOUND() <= old(self).tick_group_index_reference <= GROUP_BOUND(),
    ensures r is Ok,
        // accumulator = min(reference + |group distance| * 10_000, max); nothing else changes
        final(self).volatility_accumulator as int == min_i(old(self).volatility_reference as int
            + abs_diff(old(self).tick_group_index_reference as int, tick_group_index as int) * 10_000, adaptive_fee_constants.max_volatility_accumulator as int),
        final(self).volatility_accumulator <= adaptive_fee_constants.max_volatility_accumulator,
        *final(self) == (AdaptiveFeeVariables { volatility_accumulator: final(self).volatility_accumulator, ..*old(self) }),
//@ end

//@ fn state/oracle.rs update_reference in=/^impl AdaptiveFeeVariables \{/ -> r canary
    requires adaptive_fee_constants.reduction_factor < 10_000,
    ensures
        match reference_after(*old(self), tick_group_index, current_timestamp, *adaptive_fee_constants) {
            None => r == err::<()>(ErrorCode::InvalidTimestamp) && *final(self) == *old(self),
            Some(n) => r is Ok && *final(self) == n && n.volatility_reference as int <= max_i(old(self).volatility_accumulator as int, old(self).volatility_reference as int),
        },
      ({
        let o = *old(self); let n = *final(self);
        let max_ts = max_i(o.last_reference_update_timestamp as int, o.last_major_swap_timestamp as int);
        let now = current_timestamp as int;
        if now < max_ts { r == err::<()>(ErrorCode::InvalidTimestamp) && n == o }
        else if now - o.last_reference_update_timestamp as int > 3_600 {
            // reset after one hour without a reference update
            r is Ok && n == (AdaptiveFeeVariables { tick_group_index_reference: tick_group_index, volatility_reference: 0, last_reference_update_timestamp: current_timestamp, ..o })
        } else if now - max_ts < adaptive_fee_constants.filter_period as int {
            r is Ok && n == o                                                   // high-frequency: filter, no change
        } else if now - max_ts < adaptive_fee_constants.decay_period as int {
            r is Ok && n == (AdaptiveFeeVariables { tick_group_index_reference: tick_group_index,                    // decay
                volatility_reference: ((o.volatility_accumulator as int * adaptive_fee_constants.reduction_factor as int) / 10_000) as u32,
                last_reference_update_timestamp: current_timestamp, ..o })
            && n.volatility_reference <= o.volatility_accumulator
        } else {
            r is Ok && n == (AdaptiveFeeVariables { tick_group_index_reference: tick_group_index, volatility_reference: 0, last_reference_update_timestamp: current_timestamp, ..o })
        }
    }),
//@ inject at /^\{/
    proof {
        let a = old(self).volatility_accumulator as int; let f = adaptive_fee_constants.reduction_factor as int;
        assert(0 <= a * f <= a * 10_000) by(nonlinear_arith) requires 0 <= a, 0 <= f < 10_000;
        assert(a * f <= 0xFFFF_FFFF * 10_000) by(nonlinear_arith) requires 0 <= a <= 0xFFFF_FFFF, 0 <= f < 10_000;
        vstd::arithmetic::div_mod::lemma_fundamental_div_mod(a * f, 10_000);
    }
//@ end

//@ fn state/oracle.rs update_major_swap_timestamp in=/^impl AdaptiveFeeVariables \{/ -> r
    requires price_ok(pre_sqrt_price as int), price_ok(post_sqrt_price as int), 1 <= adaptive_fee_constants.major_swap_threshold_ticks as int <= 443636,
    ensures
        r is Ok ==> *final(self) == (AdaptiveFeeVariables { last_major_swap_timestamp:
            if major_swap_spec(pre_sqrt_price as int, post_sqrt_price as int, adaptive_fee_constants.major_swap_threshold_ticks as int) { current_timestamp } else { old(self).last_major_swap_timestamp }, ..*old(self) }),
        r is Err ==> *final(self) == *old(self),
//@ end

//@ fn state/oracle.rs is_major_swap in=/^impl AdaptiveFeeVariables \{/ -> r
    requires price_ok(pre_sqrt_price as int), price_ok(post_sqrt_price as int), 1 <= major_swap_threshold_ticks as int <= 443636,
    ensures r matches Ok(b) ==> b == major_swap_spec(pre_sqrt_price as int, post_sqrt_price as int, major_swap_threshold_ticks as int),
//@ inject before /let major_swap_sqrt_price_target = /
    proof {
        axiom_price_at();
        let a = smaller_sqrt_price as int; let f = major_swap_sqrt_price_factor as int;
        assert(0 <= a * f <= MAX_PRICE() * MAX_PRICE()) by(nonlinear_arith) requires 0 <= a <= MAX_PRICE(), 0 <= f <= MAX_PRICE();
        assert(MAX_PRICE() * MAX_PRICE() < Q3()) by(compute);
        assert(Q3() < Q4()) by(compute);
        assert(Q3() == U128MAX() * Q() + Q()) by(compute);
        vstd::arithmetic::div_mod::lemma_fundamental_div_mod(a * f, Q());
        assert((a * f) / Q() <= U128MAX()) by(nonlinear_arith) requires a * f < U128MAX() * Q() + Q(), a * f == Q() * ((a * f) / Q()) + (a * f) % Q(), (a * f) % Q() >= 0, Q() > 0;
    }
//@ end
}
/// the price moved by at least the threshold: larger >= floor(smaller * price(threshold) / 2^64)
pub open spec fn major_swap_spec(pre: int, post: int, threshold: int) -> bool {
    max_i(pre, post) >= (min_i(pre, post) * price_at(threshold)) / Q()
}
}
