//@ needs specs errors stdspecs anchor_shim state_core managers swap_fees swap_math token_math tick_math_abs oracle fee_rate_manager
// C03 (and the whole-swap part of C06): the real swap loop, for pools WITHOUT adaptive fee (adaptive_fee_info == None).
pub mod swap_manager {
use vstd::prelude::*;
use std::convert::TryInto;
use crate::errors::ErrorCode;
use crate::specs::*;
use crate::anchor_shim::*;
use crate::state_core::{Tick, TickUpdate, Whirlpool, WhirlpoolRewardInfo, NUM_REWARDS, TICK_ARRAY_SIZE};
use crate::liquidity_math::*;
use crate::managers::*;
use crate::swap_fees::*;
use crate::swap_math::*;
use crate::token_math::{AmountDeltaU64};
use crate::tick_math::*;
use crate::oracle::{AdaptiveFeeInfo, AdaptiveFeeConstants, AdaptiveFeeVariables};
use crate::fee_rate_manager::*;
//@ tags C03 C06 C07 C05 C01
//@ struct manager/swap_manager.rs PostSwapUpdate

//@ assume SwapTickSequence (Vec of proxied, RefMut-loaded tick arrays) is a shim whose four methods carry ASSUMED contracts over an abstract predicate seq_init(t): the next initialized tick lies on the trade side of the search index (or is the protocol bound) with no initialized tick in between, get_tick reports seq_init (an unreachable tick is not initialized), update_tick changes the flag of that tick only, returned ticks are reachable-state ticks (liquidity_net != i128::MIN); the fragments tick_arrays / swap_tick_sequence prove the per-array and hand-over parts of these contracts on the real code
pub struct SwapTickSequence { pub n: usize }
/// tick index t holds an initialized tick of the sequence (abstract: the bitmap / `initialized` flags of the loaded arrays)
pub uninterp spec fn seq_init(s: SwapTickSequence, t: int) -> bool;
impl SwapTickSequence {
    #[verifier::external_body]
    pub fn get_next_initialized_tick_index(&self, tick_index: i32, tick_spacing: u16, a_to_b: bool, start_array_index: usize) -> (r: Result<(usize, i32)>)
        ensures r matches Ok(p) ==> tick_ok(p.1 as int) && p.0 >= start_array_index && p.0 < 3
            && (a_to_b ==> p.1 <= tick_index || p.1 == -443636) && (!a_to_b ==> p.1 > tick_index || p.1 == 443636)
            // "next": no initialized tick lies between the search index and the answer (a_to_b searches downwards from tick_index inclusive, b_to_a upwards exclusive)
            && (a_to_b ==> forall|t: int| p.1 < t <= tick_index ==> !#[trigger] seq_init(*self, t))
            && (!a_to_b ==> forall|t: int| tick_index < t < p.1 ==> !#[trigger] seq_init(*self, t))
            // initialized ticks sit on the spacing grid; the two protocol bounds are the only other answers
            && (p.1 as int % tick_spacing as int == 0 || (a_to_b && p.1 == -443636) || (!a_to_b && p.1 == 443636)),
    { unimplemented!() }
    #[verifier::external_body]
    pub fn get_tick(&self, array_index: usize, tick_index: i32, tick_spacing: u16) -> (r: Result<Tick>)
        ensures r matches Ok(t) ==> t.liquidity_net != i128::MIN && t.initialized == seq_init(*self, tick_index as int),
            r is Err ==> !seq_init(*self, tick_index as int),
    { unimplemented!() }
    #[verifier::external_body]
    pub fn update_tick(&mut self, array_index: usize, tick_index: i32, tick_spacing: u16, update: &TickUpdate) -> (r: Result<()>)
        ensures forall|t: int| t != tick_index ==> #[trigger] seq_init(*final(self), t) == seq_init(*old(self), t),
            seq_init(*final(self), tick_index as int) == (if r is Ok { update.initialized } else { seq_init(*old(self), tick_index as int) }),
    { unimplemented!() }
    #[verifier::external_body]
    pub fn get_tick_offset(&self, array_index: usize, tick_index: i32, tick_spacing: u16) -> (r: Result<isize>) { unimplemented!() }
}

//@ assume the two closures of `.map_or_else(|_| (None, false), |tick| (Some(tick), tick.initialized))` in swap() are replaced (logged rewrite) by the named method map_or_else_tick with exactly that behaviour (Verus cannot attach contracts to the unannotated closures)
pub trait MapOrElseTick { fn map_or_else_tick(self) -> (r: (Option<Tick>, bool)); }
impl MapOrElseTick for Result<Tick> {
    fn map_or_else_tick(self) -> (r: (Option<Tick>, bool))
        ensures self matches Ok(t) ==> r == (Some(t), t.initialized), self is Err ==> r == (None::<Tick>, false),
    { match self { Ok(tick) => (Some(tick), tick.initialized), Err(_e) => (None, false) } }
}

//@ fn manager/swap_manager.rs get_next_sqrt_prices -> r pub
    requires tick_ok(next_tick_index as int), price_ok(sqrt_price_limit as int),
    ensures r.0 as int == price_at(next_tick_index as int), price_ok(r.0 as int), price_ok(r.1 as int),
        a_to_b ==> r.1 as int == max_i(sqrt_price_limit as int, r.0 as int),
        !a_to_b ==> r.1 as int == min_i(sqrt_price_limit as int, r.0 as int),
//@ end

/// the pool's (tick, sqrt-price) pair is consistent; after a downward crossing the tick is one below the price's tick ("shifted" state)
pub open spec fn tick_price_consistent(tick: int, p: int) -> bool {
    &&& -443637 <= tick <= 443636 && price_ok(p)
    &&& (tick_ok(tick) ==> price_at(tick) <= p)
    &&& (tick_ok(tick + 1) ==> p <= price_at(tick + 1))
}

/// C03 for one swap on a static-fee pool
pub open spec fn swap_post(w: Whirlpool, amount: u64, limit: u128, is_in: bool, a_to_b: bool, u: PostSwapUpdate) -> bool {
    let adj = if limit == 0 { if a_to_b { MIN_PRICE() } else { MAX_PRICE() } } else { limit as int };
    let specified = if a_to_b == is_in { u.amount_a } else { u.amount_b };
    // never more than the specified amount on the specified side
    &&& specified <= amount
    // the price moves only in the trade direction, stays within the protocol bounds and never goes beyond the limit
    &&& price_ok(u.next_sqrt_price as int)
    &&& (a_to_b ==> adj <= u.next_sqrt_price as int <= w.sqrt_price as int)
    &&& (!a_to_b ==> w.sqrt_price as int <= u.next_sqrt_price as int <= adj)
    // if less than the specified amount was used, the final price is the limit (or the protocol bound)
    &&& (specified < amount ==> u.next_sqrt_price as int == adj)
    // an exact-out swap without explicit limit delivers the full amount
    &&& (!is_in && limit == 0 ==> specified == amount)
    // C06: protocol share + LP share == total fee
    &&& tick_price_consistent(u.next_tick_index as int, u.next_sqrt_price as int)
}

//@ fn manager/swap_manager.rs swap -> r nodec canary
    requires
        *adaptive_fee_info is None,
        whirlpool.fee_rate <= 60_000, whirlpool.protocol_fee_rate <= 2_500, whirlpool.tick_spacing > 0,
        tick_price_consistent(whirlpool.tick_current_index as int, whirlpool.sqrt_price as int),
    ensures
        // the three pre-loop rejections
        ({ let adj = if sqrt_price_limit == 0 { if a_to_b { MIN_PRICE() } else { MAX_PRICE() } } else { sqrt_price_limit as int };
           &&& (!price_ok(adj) ==> r == err::<Box<PostSwapUpdate>>(ErrorCode::SqrtPriceOutOfBounds))
           &&& (price_ok(adj) && ((a_to_b && adj >= whirlpool.sqrt_price as int) || (!a_to_b && adj <= whirlpool.sqrt_price as int)) ==> r == err::<Box<PostSwapUpdate>>(ErrorCode::InvalidSqrtPriceLimitDirection))
           &&& (r is Ok ==> amount != 0 && price_ok(adj)) }),
        r matches Ok(u) ==> swap_post(*whirlpool, amount, sqrt_price_limit, amount_specified_is_input, a_to_b, *u),
//@ rewrite /\.map_or_else\(\|_\| \(None, false\), \|tick\| \(Some\(tick\), tick\.initialized\)\)/ => /.map_or_else_tick()/
//@ loop 0
        invariant
            tick_spacing == whirlpool.tick_spacing, fee_rate == whirlpool.fee_rate, protocol_fee_rate == whirlpool.protocol_fee_rate,
            whirlpool.fee_rate <= 60_000, whirlpool.protocol_fee_rate <= 2_500, whirlpool.tick_spacing > 0,
            fee_rate_manager is Static, fee_rate_manager.wf(), fee_rate_manager == (FeeRateManager::Static { static_fee_rate: fee_rate }),
            price_ok(adjusted_sqrt_price_limit as int), amount_remaining <= amount, amount != 0,
            adjusted_sqrt_price_limit as int == (if sqrt_price_limit == 0 { if a_to_b { MIN_PRICE() } else { MAX_PRICE() } } else { sqrt_price_limit as int }),
            a_to_b ==> adjusted_sqrt_price_limit <= curr_sqrt_price <= whirlpool.sqrt_price,
            !a_to_b ==> whirlpool.sqrt_price <= curr_sqrt_price <= adjusted_sqrt_price_limit,
            tick_price_consistent(curr_tick_index as int, curr_sqrt_price as int),
            curr_protocol_fee <= fee_sum,
            a_to_b ==> adjusted_sqrt_price_limit < whirlpool.sqrt_price, !a_to_b ==> adjusted_sqrt_price_limit > whirlpool.sqrt_price,
            // C05 (ghost interval): the current tick lies in a run of tick indexes [g_lo, g_hi] that contains no initialized tick boundary, and the
            // liquidity has not changed since the run was entered (liquidity changes only when an initialized tick is crossed)
            g_lo <= curr_tick_index <= g_hi, //# C05
            forall|t: int| g_lo < t <= g_hi ==> !#[trigger] seq_init(*swap_tick_sequence, t), //# C05
            curr_liquidity == g_liq, //# C05
//@ loop 1
            invariant
                tick_spacing == whirlpool.tick_spacing, fee_rate == whirlpool.fee_rate, protocol_fee_rate == whirlpool.protocol_fee_rate,
                whirlpool.fee_rate <= 60_000, whirlpool.protocol_fee_rate <= 2_500, whirlpool.tick_spacing > 0,
                fee_rate_manager is Static, fee_rate_manager.wf(), fee_rate_manager == (FeeRateManager::Static { static_fee_rate: fee_rate }),
                price_ok(adjusted_sqrt_price_limit as int), amount_remaining <= amount, amount != 0,
                adjusted_sqrt_price_limit as int == (if sqrt_price_limit == 0 { if a_to_b { MIN_PRICE() } else { MAX_PRICE() } } else { sqrt_price_limit as int }),
                a_to_b ==> adjusted_sqrt_price_limit <= curr_sqrt_price <= whirlpool.sqrt_price,
                !a_to_b ==> whirlpool.sqrt_price <= curr_sqrt_price <= adjusted_sqrt_price_limit,
                tick_price_consistent(curr_tick_index as int, curr_sqrt_price as int),
                curr_protocol_fee <= fee_sum,
                a_to_b ==> adjusted_sqrt_price_limit < whirlpool.sqrt_price, !a_to_b ==> adjusted_sqrt_price_limit > whirlpool.sqrt_price,
                next_array_index < 3,
                // the step target: the next initialized tick's price clipped by the limit, on the trade side of the current price
                tick_ok(next_tick_index as int), next_tick_sqrt_price as int == price_at(next_tick_index as int), price_ok(sqrt_price_target as int),
                a_to_b ==> sqrt_price_target as int == max_i(adjusted_sqrt_price_limit as int, next_tick_sqrt_price as int) && sqrt_price_target <= curr_sqrt_price,
                !a_to_b ==> sqrt_price_target as int == min_i(adjusted_sqrt_price_limit as int, next_tick_sqrt_price as int) && sqrt_price_target >= curr_sqrt_price,
                g_lo <= curr_tick_index <= g_hi, //# C05
                forall|t: int| g_lo < t <= g_hi ==> !#[trigger] seq_init(*swap_tick_sequence, t), //# C05
                curr_liquidity == g_liq, //# C05
                // the step's initialized-tick target bounds the run on the trade side
                a_to_b ==> g_lo <= next_tick_index, !a_to_b ==> next_tick_index <= g_hi + 1, //# C05
//@ inject before /while amount_remaining > 0 && adjusted_sqrt_price_limit != curr_sqrt_price \{/
    // C06 / C07: the LP share of this swap's fees accrues to the fee growth of the INPUT token (token A for a->b, token B for b->a), whatever the mode
    proof { assert(curr_fee_growth_global_input == (if a_to_b { whirlpool.fee_growth_global_a } else { whirlpool.fee_growth_global_b })); } //# C06 C07 C01
    let ghost mut g_lo: int = curr_tick_index as int; let ghost mut g_hi: int = curr_tick_index as int; let ghost mut g_liq: u128 = curr_liquidity;
//@ inject before /let \(next_tick_sqrt_price, sqrt_price_target\) =/
        proof { axiom_price_at(); }
        // the search result extends the run up to (a_to_b: down to) the next initialized tick
        proof { if a_to_b { if (next_tick_index as int) < g_lo { g_lo = next_tick_index as int; } } else { if next_tick_index as int - 1 > g_hi { g_hi = next_tick_index as int - 1; } } }
//@ inject before /fee_rate_manager\.update_volatility_accumulator\(\)\?;/
            proof { axiom_price_at(); }
            let ghost g_step_liquidity = curr_liquidity; let ghost g_step_price = curr_sqrt_price; let ghost g_fee_split_done = false;
//@ inject before /let \(next_protocol_fee, next_fee_growth_global_input\) = calculate_fees\(/
            // C06: the fee of a step accrues to the liquidity that was in range during that step (ghost state: liquidity and price at the step's start)
            proof { assert(curr_liquidity == g_step_liquidity && curr_sqrt_price == g_step_price); } //# C06 C01
            let ghost g_proto_before = curr_protocol_fee; let ghost g_growth_before = curr_fee_growth_global_input;
//@ inject before /^\s*curr_protocol_fee = next_protocol_fee;/
            // C06 / C01: the split that is booked is the one of THIS step's fee, with the pool's protocol rate, against the liquidity in range during the step and the running accumulators
            proof { assert(fees_booked(swap_computation.fee_amount, protocol_fee_rate, g_step_liquidity, g_proto_before, g_growth_before, next_protocol_fee, next_fee_growth_global_input)); } //# C06 C01
//@ inject after /curr_fee_growth_global_input = next_fee_growth_global_input;/
            let ghost g_fee_split_done = true;
//@ inject before /let \(update, next_liquidity\) = calculate_update\(/
                    // C07: a crossed tick snapshots the fee growth AFTER this step's fee has been accrued
                    proof { assert(g_fee_split_done); } //# C07 C01
                    // C07 / C01: the crossed tick is flipped against the CURRENT global growth of both tokens: the running value (including the fees
                    // accrued so far in this swap) on the input side, the pool's stored value on the other side
                    proof {
                        assert(fee_growth_global_a == (if a_to_b { curr_fee_growth_global_input } else { whirlpool.fee_growth_global_a })); //# C07 C01
                        assert(fee_growth_global_b == (if a_to_b { whirlpool.fee_growth_global_b } else { curr_fee_growth_global_input })); //# C07 C01
                    }
//@ inject after /curr_liquidity = next_liquidity;/
                    // an initialized tick is crossed: a new run starts on its far side, with the new liquidity
                    proof { g_liq = next_liquidity; if a_to_b { g_lo = next_tick_index as int - 1; g_hi = next_tick_index as int - 1; } else { g_lo = next_tick_index as int; g_hi = next_tick_index as int; } }
//@ inject before /let tick_offset = swap_tick_sequence\.get_tick_offset\(/
                // the target tick is reached: if it is not initialized the run extends over it
                proof { if !next_tick_initialized { if a_to_b { if next_tick_index as int - 1 < g_lo { g_lo = next_tick_index as int - 1; } } else { if next_tick_index as int > g_hi { g_hi = next_tick_index as int; } } } }
//@ rewrite /Ok\(Box::new\(PostSwapUpdate \{/ => /let result_update = (PostSwapUpdate {/
//@ rewrite /        next_adaptive_fee_info: fee_rate_manager\.get_next_adaptive_fee_info\(\),\n    \}\)\)/ => /        next_adaptive_fee_info: fee_rate_manager.get_next_adaptive_fee_info(),\n    });\n    Ok(Box::new(result_update))/
//@ inject before /^    Ok\(Box::new\(result_update\)\)/
    // result assembly: what is handed to Whirlpool::update_after_swap is the state the loop ended in - liquidity, tick, price, the INPUT token's fee growth,
    // the protocol share, the LP share (total fee minus protocol share) and the settled reward growths
    proof { assert(result_update.next_liquidity == curr_liquidity && result_update.next_tick_index == curr_tick_index && result_update.next_sqrt_price == curr_sqrt_price); } //# C05 C03 C01
    proof { assert(result_update.next_fee_growth_global == curr_fee_growth_global_input && result_update.next_protocol_fee == curr_protocol_fee
        && result_update.lp_fee as int == fee_sum as int - curr_protocol_fee as int); } //# C06 C07 C01
    proof { assert(result_update.next_reward_infos == next_reward_infos); } //# C11 C01
    // the specified side reports what was consumed of the specified amount, the other side what the steps computed
    proof { assert((if a_to_b == amount_specified_is_input { result_update.amount_a } else { result_update.amount_b }) as int == amount as int - amount_remaining as int
        && (if a_to_b == amount_specified_is_input { result_update.amount_b } else { result_update.amount_a }) == amount_calculated); } //# C03 C06 C01
//@ end
}
