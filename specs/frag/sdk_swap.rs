//@ needs specs errors stdspecs bitlemmas u256_math bit_math token_math curve_lemmas swap_math sdk_token
// C20: the SDK's swap step (rust-sdk/core quote/swap.rs) against the PROGRAM's step specification (swap_math::step_spec / step_fee_spec).
pub mod sdk_swap {
use vstd::prelude::*;
use crate::specs::*;
use crate::ethnum::*;
use crate::sdk_token::*;
use crate::u256_math::Q3;
use crate::swap_math::{SwapStepComputation, step_spec, step_fee_spec, step_budget_spec};
use crate::curve_lemmas::*;
//@ tags C20
//@ root rust-sdk/core/src
//@ struct quote/swap.rs SwapStepQuote
//@ subst /\b(current_sqrt_price|target_sqrt_price|current_liquidity|amount_calculated|amount_remaining|amount_in)\.into\(\)/ => /\1/
//@ subst /\n\s*\.map\(\|x\| x\.into\(\)\)/ => //

//@ fn math/token.rs try_reverse_apply_swap_fee -> r
    requires fee_rate <= 100_000,
    ensures r matches Ok(v) ==> v as int == div_round(amount as int * 1_000_000, 1_000_000 - fee_rate as int, true),
        div_round(amount as int * 1_000_000, 1_000_000 - fee_rate as int, true) <= U64MAX() ==> r is Ok,
//@ rewrite /<u128>::from\(FEE_RATE_DENOMINATOR\) - <u128>::from\(fee_rate\)/ => /(FEE_RATE_DENOMINATOR as u128) - (fee_rate as u128)/
//@ rewrite /FEE_RATE_DENOMINATOR\.into\(\)/ => /FEE_RATE_DENOMINATOR as u128/
//@ inject at /^\{/
    proof { assert(amount as int * 1_000_000 <= U64MAX() * 1_000_000) by(nonlinear_arith) requires 0 <= amount as int <= U64MAX(); }
//@ end

//@ fn quote/swap.rs try_get_amount_fixed_delta -> r
    requires current_sqrt_price > 0, target_sqrt_price > 0, (current_liquidity as int * abs_diff(current_sqrt_price as int, target_sqrt_price as int)) < Q3(),
    ensures r matches Ok(v) ==> v as int == fixed_delta(current_sqrt_price as int, target_sqrt_price as int, current_liquidity as int, specified_input, a_to_b),
        r matches Err(e) ==> fixed_delta(current_sqrt_price as int, target_sqrt_price as int, current_liquidity as int, specified_input, a_to_b) > U64MAX(),
//@ end
//@ fn quote/swap.rs try_get_amount_unfixed_delta -> r
    requires current_sqrt_price > 0, target_sqrt_price > 0, (current_liquidity as int * abs_diff(current_sqrt_price as int, target_sqrt_price as int)) < Q3(),
    ensures r matches Ok(v) ==> v as int == unfixed_delta(current_sqrt_price as int, target_sqrt_price as int, current_liquidity as int, specified_input, a_to_b),
//@ end

//@ fn quote/swap.rs try_get_next_sqrt_price -> r
    requires current_sqrt_price > 0, (current_liquidity as int * current_sqrt_price as int) < Q3(),
        (specified_input == a_to_b) ==> (specified_input || current_liquidity as int * Q() > amount_calculated as int * current_sqrt_price as int),
        (specified_input != a_to_b) ==> current_liquidity > 0 && (specified_input || current_sqrt_price as int >= div_round(amount_calculated as int * Q(), current_liquidity as int, true)),
    ensures r matches Ok(v) ==> v as int == next_price(current_sqrt_price as int, current_liquidity as int, amount_calculated as int, specified_input, a_to_b),
//@ end

pub closed spec fn as_step(q: SwapStepQuote) -> SwapStepComputation {
    SwapStepComputation { amount_in: q.amount_in, amount_out: q.amount_out, next_price: q.next_sqrt_price, fee_amount: q.fee_amount }
}
/// ceil(a*D/(D-r)) - a == ceil(a*r/(D-r)): the SDK's "reverse-apply the fee and subtract" equals the program's fee formula
pub proof fn lemma_fee_equiv(a: int, r: int)
    requires 0 <= a, 0 <= r <= 100_000,
    ensures div_round(a * 1_000_000, 1_000_000 - r, true) - a == fee_on(a, r), fee_on(a, r) >= 0,
{
    let m = 1_000_000 - r;
    assert(a * 1_000_000 == a * r + a * m) by(nonlinear_arith) requires m == 1_000_000 - r;
    assert(a * r >= 0) by(nonlinear_arith) requires a >= 0, r >= 0;
    vstd::arithmetic::div_mod::lemma_fundamental_div_mod(a * r, m);
    vstd::arithmetic::div_mod::lemma_mod_bound(a * r, m);
    vstd::arithmetic::div_mod::lemma_div_pos_is_pos(a * r, m);
    let q = (a * r) / m; let t = (a * r) % m;
    assert(a * 1_000_000 == m * (q + a) + t) by(nonlinear_arith) requires a * 1_000_000 == a * r + a * m, a * r == m * q + t;
    assert(a * 1_000_000 == (q + a) * m + t) by(nonlinear_arith) requires a * 1_000_000 == m * (q + a) + t;
    vstd::arithmetic::div_mod::lemma_fundamental_div_mod_converse(a * 1_000_000, m, q + a, t);
}

/// C20: on the inputs where the program's compute_swap succeeds without hitting its overflow rejections, a successful SDK step
/// satisfies the program's step specification (same next price, amounts in/out, fee)
//@ fn quote/swap.rs compute_swap_step -> r
    requires
        price_ok(current_sqrt_price as int), price_ok(target_sqrt_price as int), fee_rate <= 100_000,
        a_to_b ==> target_sqrt_price <= current_sqrt_price, !a_to_b ==> target_sqrt_price >= current_sqrt_price,
        (current_liquidity as int * abs_diff(current_sqrt_price as int, target_sqrt_price as int)) < Q3(), (current_liquidity as int * current_sqrt_price as int) < Q3(),
        (!specified_input && !a_to_b) ==> current_liquidity as int * Q() > amount_remaining as int * current_sqrt_price as int,
    ensures
        r matches Ok(q) ==> step_spec(amount_remaining as int, fee_rate as int, current_liquidity as int, current_sqrt_price as int, target_sqrt_price as int, specified_input, a_to_b, as_step(q))
            && step_fee_spec(amount_remaining as int, fee_rate as int, target_sqrt_price as int, specified_input, as_step(q))
            && step_budget_spec(amount_remaining as int, target_sqrt_price as int, specified_input, as_step(q)),
//@ rewrite /initial_amount_fixed_delta == Err\(AMOUNT_EXCEEDS_MAX_U64\)/ => /is_err_code(&initial_amount_fixed_delta, AMOUNT_EXCEEDS_MAX_U64)/
//@ inject before /let next_sqrt_price =/
    proof {
        let l = current_liquidity as int; let cur = current_sqrt_price as int; let tgt = target_sqrt_price as int; let x = amount_calculated as int;
        lemma_fee_fits(amount_remaining as int, fee_rate as int);
        assert(specified_input ==> x == net_of_fee(amount_remaining as int, fee_rate as int));
        lemma_fixed_delta_zero_liquidity(cur, tgt, specified_input, a_to_b);
        if fixed_delta(cur, tgt, l, specified_input, a_to_b) > x {
            lemma_partial_step(cur, tgt, l, x, specified_input, a_to_b);
            if !specified_input && a_to_b { lemma_partial_b_out(cur, tgt, l, x); }
            let nx = next_price(cur, l, x, specified_input, a_to_b);
            if specified_input || a_to_b || l * Q() > x * cur {
                assert(abs_diff(cur, nx) <= abs_diff(cur, tgt));
                assert(l * abs_diff(cur, nx) <= l * abs_diff(cur, tgt)) by(nonlinear_arith) requires l >= 0, abs_diff(cur, nx) <= abs_diff(cur, tgt);
            }
        }
    }
//@ inject before /let fee_amount = if specified_input/
    proof { lemma_fee_equiv(amount_in as int, fee_rate as int);
            if specified_input && amount_in <= amount_calculated { lemma_fee_fits_one(amount_remaining as int, fee_rate as int, amount_in as int); } }
//@ end
#[verifier::external_body]
pub fn is_err_code(r: &Result<u64, CoreError>, c: CoreError) -> (b: bool) ensures b == (*r == Err::<u64, CoreError>(c)) { unimplemented!() }
}
