//@ needs specs stdspecs
pub mod int_division_math {
use vstd::prelude::*;
use crate::specs::*;
//@ tags C14 C10 C13 C12
//@ fn math/int_division_math.rs floor_division -> r
    requires divisor > 0,
    ensures r as int == dividend as int / divisor as int,   // Euclidean = floor for a positive divisor
//@ inject at /^\{/
    proof {
        let a = dividend as int; let b = divisor as int;
        vstd::arithmetic::div_mod::lemma_fundamental_div_mod(a, b);
        vstd::arithmetic::div_mod::lemma_fundamental_div_mod(-a, b);
        if a < 0 {
            // trunc(a/b) = -((-a)/b);  floor(a/b) = that, or that - 1 when b does not divide a
            let q = (-a) / b; let m = (-a) % b;
            if m == 0 {
                assert(a == b * (-q) + 0) by(nonlinear_arith) requires -a == b * q + m, m == 0;
                vstd::arithmetic::div_mod::lemma_fundamental_div_mod_converse(a, b, -q, 0);
            } else {
                assert(a == b * (-q - 1) + (b - m)) by(nonlinear_arith) requires -a == b * q + m;
                vstd::arithmetic::div_mod::lemma_fundamental_div_mod_converse(a, b, -q - 1, b - m);
                vstd::arithmetic::div_mod::lemma_div_pos_is_pos(-a, b);
                assert(b >= 2) by { if b == 1 { vstd::arithmetic::div_mod::lemma_mod_bound(-a, 1); } };
                assert(-q - 1 >= a) by(nonlinear_arith) requires -a == b * q + m, b >= 2, m >= 1, q >= 0;
            }
            vstd::arithmetic::div_mod::lemma_div_pos_is_pos(-a, b);
            assert(q <= -a) by(nonlinear_arith) requires -a == b * q + m, m >= 0, b >= 1, q >= 0;
        }
    }
//@ end
//@ fn math/int_division_math.rs ceil_division_u128 -> r
    requires divisor > 0,
    ensures r as int == div_round(dividend as int, divisor as int, true),
//@ inject at /^\{/
    proof { lemma_ceil(dividend as int, divisor as int); }
//@ end
//@ fn math/int_division_math.rs ceil_division_u32 -> r
    requires divisor > 0,
    ensures r as int == div_round(dividend as int, divisor as int, true),
//@ inject at /^\{/
    proof { lemma_ceil(dividend as int, divisor as int); }
//@ end
pub proof fn lemma_ceil(n: int, d: int)
    requires n >= 0, d > 0,
    ensures (n / d) * d <= n, ((n / d) * d == n) <==> (n % d == 0), n % d != 0 ==> n / d + 1 <= n, n / d >= 0,
{
    vstd::arithmetic::div_mod::lemma_fundamental_div_mod(n, d);
    vstd::arithmetic::div_mod::lemma_mod_bound(n, d);
    vstd::arithmetic::div_mod::lemma_div_pos_is_pos(n, d);
    assert((n / d) * d == d * (n / d)) by(nonlinear_arith);
    if n % d != 0 {
        assert(d >= 2) by { if d == 1 { vstd::arithmetic::div_mod::lemma_mod_bound(n, 1); } };
        assert(n / d + 1 <= n) by(nonlinear_arith) requires n == d * (n / d) + n % d, d >= 2, n / d >= 0, n % d >= 1;
    }
}
}
