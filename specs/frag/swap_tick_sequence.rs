//@ needs specs errors stdspecs anchor_shim state_core tick_arrays
// C10: the hand-over between the (up to three) tick arrays of a swap. The arrays are abstract implementors of the TickArrayType
// contract (fragment tick_arrays proves that contract for the fixed, dynamic and zeroed packagings).
pub mod swap_tick_sequence {
use vstd::prelude::*;
use crate::errors::ErrorCode;
use crate::specs::*;
use crate::anchor_shim::*;
use crate::state_core::*;
use crate::tick_arrays::*;
//@ tags C10 C03
//@ assume ProxiedTickArray (enum over a RefMut-loaded fixed/dynamic array or a ZeroedTickArray, dispatching by Deref) is an opaque implementor of the TickArrayType contract
pub struct ProxiedTickArray<'a> { pub p: &'a u8 }
impl<'a> TickArrayType for ProxiedTickArray<'a> {
    uninterp spec fn vstart(&self) -> int;
    uninterp spec fn vinit(&self, slot: int) -> bool;
    uninterp spec fn vtick(&self, slot: int) -> Tick;
    uninterp spec fn wf(&self) -> bool;
    uninterp spec fn updatable(&self) -> bool;
    #[verifier::external_body] fn is_variable_size(&self) -> (r: bool) { unimplemented!() }
    #[verifier::external_body] fn start_tick_index(&self) -> (r: i32) { unimplemented!() }
    #[verifier::external_body] fn get_next_init_tick_index(&self, tick_index: i32, tick_spacing: u16, a_to_b: bool) -> (r: Result<Option<i32>>) { unimplemented!() }
    #[verifier::external_body] fn get_tick(&self, tick_index: i32, tick_spacing: u16) -> (r: Result<Tick>) { unimplemented!() }
    #[verifier::external_body] fn update_tick(&mut self, tick_index: i32, tick_spacing: u16, update: &TickUpdate) -> (r: Result<()>) { unimplemented!() }
}
pub struct SwapTickSequence<'a> { pub arrays: Vec<ProxiedTickArray<'a>> }

/// the tick index at which array j of the sequence is searched: the caller's index for the first array, else one tick beyond the
/// previous array's edge in the trade direction (so that the next array is searched from its very first slot in that direction)
pub open spec fn search_ix(arrs: Seq<ProxiedTickArray>, sp: int, a_to_b: bool, start: int, tick: int, j: int) -> int {
    if j <= start { tick } else if a_to_b { arrs[j - 1].vstart() - 1 } else { arrs[j - 1].vstart() + 88 * sp - 1 }
}
pub open spec fn found_in(arrs: Seq<ProxiedTickArray>, sp: int, a_to_b: bool, start: int, tick: int, j: int, r: Option<i32>) -> bool {
    next_init_spec(arrs[j].vstart(), |s: int| arrs[j].vinit(s), search_ix(arrs, sp, a_to_b, start, tick, j), sp, a_to_b, r)
}
/// result of the sequence search: every array before the answering one was searched completely and holds no initialized tick in the
/// path; the answer is the nearest initialized tick of the answering array, or - if that array has none either - the protocol
/// bound (first/last array of the tick range) or the edge of the last supplied array
pub open spec fn seq_search_spec(arrs: Seq<ProxiedTickArray>, sp: int, a_to_b: bool, start: int, tick: int, ai: int, t: int) -> bool {
    &&& start <= ai < arrs.len()
    &&& (forall|j: int| start <= j < ai ==> #[trigger] found_in(arrs, sp, a_to_b, start, tick, j, None))
    &&& (found_in(arrs, sp, a_to_b, start, tick, ai, Some(t as i32))
         || (found_in(arrs, sp, a_to_b, start, tick, ai, None) && (
                (a_to_b && arrs[ai].vstart() <= -443636 && t == -443636)
             || (!a_to_b && arrs[ai].vstart() + 88 * sp > 443636 && t == 443636)
             || (ai + 1 == arrs.len() && t == (if a_to_b { arrs[ai].vstart() } else { arrs[ai].vstart() + 88 * sp - 1 })))))
}

impl<'a> SwapTickSequence<'a> {
//@ fn util/swap_tick_sequence.rs get_next_initialized_tick_index in=/^impl<'a> SwapTickSequence<'a> \{/ -> r nodec canary
    requires tick_spacing > 0, -IDX_BOUND() <= tick_index <= IDX_BOUND(), self.arrays@.len() <= 3, forall|j: int| 0 <= j < self.arrays@.len() ==> (#[trigger] self.arrays@[j]).wf(),
    ensures
        start_array_index >= self.arrays@.len() ==> r == err::<(usize, i32)>(ErrorCode::TickArraySequenceInvalidIndex),
        r matches Ok(p) ==> seq_search_spec(self.arrays@, tick_spacing as int, a_to_b, start_array_index as int, tick_index as int, p.0 as int, p.1 as int),
//@ loop 0
        invariant tick_spacing > 0, ticks_in_array == 88 * tick_spacing as int, self.arrays@.len() <= 3, start_array_index <= array_index,
            forall|j: int| 0 <= j < self.arrays@.len() ==> (#[trigger] self.arrays@[j]).wf(),
            -IDX_BOUND() <= search_index <= IDX_BOUND(),
            search_index as int == search_ix(self.arrays@, tick_spacing as int, a_to_b, start_array_index as int, tick_index as int, array_index as int),
            forall|j: int| start_array_index <= j < array_index ==> #[trigger] found_in(self.arrays@, tick_spacing as int, a_to_b, start_array_index as int, tick_index as int, j, None),
//@ inject before /let next_index =/
            proof { assert(array_index < self.arrays@.len()); }
//@ end
}
}
