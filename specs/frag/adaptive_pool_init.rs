//@ needs specs errors stdspecs lebytes anchor_shim state_core oracle tick_math_abs authority validators mint_admission pool_init_handlers(stub)
// C19 / C14 / C04 at handler level: initialize_pool_with_adaptive_fee. Success implies: both mints admitted with THIS config's badge for THAT mint, the pool
// is created by a key the adaptive fee tier accepts (the tier's initialize-pool authority, or anybody on a permission-less tier), from a tier of THIS config,
// with the tier's spacing, base fee rate (<= 6%) and valid adaptive constants; a trade-enable timestamp only on a permissioned tier and only within
// [now - 30 s, now + 72 h]; the oracle account is bound to this pool and starts with default variables.
pub mod adaptive_pool_init {
use vstd::prelude::*;
use crate::errors::ErrorCode;
use crate::specs::*;
use crate::anchor_shim::*;
use crate::authority::{InterfaceAccount, Signer, TokenAccount};
use crate::state_core::Whirlpool;
use crate::validators::*;
use crate::oracle::*;
use crate::mint_admission::{Mint, UncheckedAccount, BadgeAccount, verify_supported_token_mint, is_non_transferable_position_required, mint_supported, badge_ok};
use crate::tick_math::tick_of;
use crate::pool_init_handlers::{Context, Program, Interface, Sysvar, TokenInterface, System, Rent, initialize_vault_token_account, vault_initialized, PoolInitialized, emit_pool_initialized, flag_empty, flag_union, FLAG_NTP, MAX_TRADE_ENABLE_TIMESTAMP_DELTA};
broadcast use crate::anchor_shim::ax_qmark_anchor;
//@ tags C19 C14 C04
//@ assume adaptive-pool-init shims: as in fragment pool_init_handlers; AccountLoader<Oracle>::load_init hands out the (zeroed) oracle account mutably; Clock::get yields now_unix(); to_timestamp_u64 rejects negative timestamps
pub struct AccountLoader<'info, T> { pub data: T, pub k: Pubkey, pub p: core::marker::PhantomData<&'info ()> }
impl<'info, T> AccountLoader<'info, T> {
    #[verifier::external_body]
    pub fn load_init(&mut self) -> (r: Result<&mut T>) ensures r matches Ok(x) ==> *x == old(self).data && *final(x) == final(self).data && final(self).k == old(self).k, r is Err ==> *final(self) == *old(self) { unimplemented!() }
}
impl<'info, T> SKey for AccountLoader<'info, T> { open spec fn skey(&self) -> Pubkey { self.k } }
pub uninterp spec fn now_unix() -> i64;
pub struct ClockData { pub slot: u64, pub epoch_start_timestamp: i64, pub epoch: u64, pub leader_schedule_epoch: u64, pub unix_timestamp: i64 }
pub struct Clock {}
impl Clock {
    #[verifier::external_body]
    pub fn get() -> (r: Result<ClockData>) ensures r matches Ok(c) ==> c.unix_timestamp == now_unix() { unimplemented!() }
}
#[verifier::external_body]
pub fn to_timestamp_u64(t: i64) -> (r: Result<u64>) ensures r is Ok <==> t >= 0, r matches Ok(v) ==> v == t as u64 { unimplemented!() }

impl AdaptiveFeeTier {
    pub open spec fn is_permissioned_spec(&self) -> bool { self.initialize_pool_authority != pk_default() }
    pub open spec fn is_valid_initialize_pool_authority_spec(&self, k: Pubkey) -> bool { self.initialize_pool_authority == pk_default() || self.initialize_pool_authority == k }
//@ fn state/adaptive_fee_tier.rs is_valid_initialize_pool_authority in=/^impl AdaptiveFeeTier \{/ -> r
    ensures r == self.is_valid_initialize_pool_authority_spec(initialize_pool_authority),
//@ end
//@ fn state/adaptive_fee_tier.rs is_permissioned in=/^impl AdaptiveFeeTier \{/ -> r
    ensures r == self.is_permissioned_spec(),
//@ rewrite /self\.initialize_pool_authority != Pubkey::default\(\)/ => /self.initialize_pool_authority.ne(&Pubkey::default())/
//@ end
}

/// a trade-enable timestamp may be set only on a permissioned tier, at most 72 hours ahead and at most 30 seconds in the past
//@ fn instructions/adaptive_fee/initialize_pool_with_adaptive_fee.rs is_valid_trade_enable_timestamp -> r
    ensures r == (match trade_enable_timestamp { None => true,
        Some(t) => is_permissioned_adaptive_fee_tier && (if t > current_timestamp { t - current_timestamp <= 259_200 } else { current_timestamp - t <= 30 }) }),
//@ end
//@ struct instructions/adaptive_fee/initialize_pool_with_adaptive_fee.rs InitializePoolWithAdaptiveFee
//@ constraints instructions/adaptive_fee/initialize_pool_with_adaptive_fee.rs InitializePoolWithAdaptiveFee
//@ fn instructions/adaptive_fee/initialize_pool_with_adaptive_fee.rs handler -> r as=initialize_pool_with_adaptive_fee_handler canary
    requires constraints_InitializePoolWithAdaptiveFee(old(ctx.accounts)), old(ctx.accounts).adaptive_fee_tier.data.tick_spacing > 0, // adaptive fee tiers have a non-zero spacing (AdaptiveFeeTier::initialize)
        old(ctx.accounts).adaptive_fee_tier.data.is_valid_initialize_pool_authority_spec(old(ctx.accounts).initialize_pool_authority.skey()), // the one clause outside the K-rules' expression subset (a call with a `.key()` argument), restated by hand
    ensures
        r is Ok ==> vault_initialized(*old(ctx.accounts).token_vault_a.info.key, old(ctx.accounts).token_mint_a.data.k, old(ctx.accounts).token_program_a.k, old(ctx.accounts).whirlpool.k) && vault_initialized(*old(ctx.accounts).token_vault_b.info.key, old(ctx.accounts).token_mint_b.data.k, old(ctx.accounts).token_program_b.k, old(ctx.accounts).whirlpool.k), // each vault is a token account of ITS mint under that mint's token program, owned by the pool
        r is Ok ==> old(ctx.accounts).token_badge_a.skey() == crate::anchor_shim::pda_of(seq![crate::anchor_shim::Seed::Lit(0x746f6b656e5f6261646765int), crate::anchor_shim::Seed::Key(old(ctx.accounts).whirlpools_config.skey()), crate::anchor_shim::Seed::Key(old(ctx.accounts).token_mint_a.skey())]) && old(ctx.accounts).token_badge_b.skey() == crate::anchor_shim::pda_of(seq![crate::anchor_shim::Seed::Lit(0x746f6b656e5f6261646765int), crate::anchor_shim::Seed::Key(old(ctx.accounts).whirlpools_config.skey()), crate::anchor_shim::Seed::Key(old(ctx.accounts).token_mint_b.skey())]), // the badge accounts examined are the ones derived from ("token_badge", this config, that mint)
        r is Ok ==> old(ctx.accounts).initialize_pool_authority.info.is_signer
            && old(ctx.accounts).adaptive_fee_tier.data.is_valid_initialize_pool_authority_spec(old(ctx.accounts).initialize_pool_authority.skey()), //# C04
        r is Ok ==> old(ctx.accounts).adaptive_fee_tier.data.whirlpools_config == old(ctx.accounts).whirlpools_config.k, //# C19 C04
        r is Ok ==> mint_supported(old(ctx.accounts).token_mint_a.data, badge_ok(old(ctx.accounts).token_badge_a, old(ctx.accounts).whirlpools_config.k, old(ctx.accounts).token_mint_a.data.k))
            && mint_supported(old(ctx.accounts).token_mint_b.data, badge_ok(old(ctx.accounts).token_badge_b, old(ctx.accounts).whirlpools_config.k, old(ctx.accounts).token_mint_b.data.k)), //# C19
        r is Ok ==> now_unix() >= 0 && (match trade_enable_timestamp { None => true,
            Some(t) => old(ctx.accounts).adaptive_fee_tier.data.is_permissioned_spec() && (if t > now_unix() as u64 { t - now_unix() as u64 <= 259_200 } else { now_unix() as u64 - t <= 30 }) }), //# C14 C19
        r is Ok ==> ({ let w = final(ctx.accounts).whirlpool.data; let a0 = old(ctx.accounts); let t = a0.adaptive_fee_tier.data;
            &&& pk_lt(a0.token_mint_a.data.k, a0.token_mint_b.data.k) && price_ok(initial_sqrt_price as int)
            &&& w.token_mint_a == a0.token_mint_a.data.k && w.token_mint_b == a0.token_mint_b.data.k
            &&& w.token_vault_a == *a0.token_vault_a.info.key && w.token_vault_b == *a0.token_vault_b.info.key
            &&& w.whirlpools_config == a0.whirlpools_config.k && w.tick_spacing == t.tick_spacing
            &&& w.fee_rate == t.default_base_fee_rate && w.fee_rate <= 60_000 && w.protocol_fee_rate <= 2_500
            &&& w.sqrt_price == initial_sqrt_price && w.tick_current_index as int == tick_of(initial_sqrt_price as int) && w.liquidity == 0 }), //# C19
        r is Ok ==> ({ let o = final(ctx.accounts).oracle.data; let t = old(ctx.accounts).adaptive_fee_tier.data;
            &&& o.whirlpool == old(ctx.accounts).whirlpool.k
            &&& o.trade_enable_timestamp == (match trade_enable_timestamp { Some(x) => x, None => 0u64 })
            &&& o.adaptive_fee_constants.valid_for(t.tick_spacing as int) && is_vars_default(o.adaptive_fee_variables)
            // the pool's constants are the tier's preset, field by field
            &&& o.adaptive_fee_constants.filter_period == t.filter_period && o.adaptive_fee_constants.decay_period == t.decay_period && o.adaptive_fee_constants.reduction_factor == t.reduction_factor
            &&& o.adaptive_fee_constants.adaptive_fee_control_factor == t.adaptive_fee_control_factor && o.adaptive_fee_constants.max_volatility_accumulator == t.max_volatility_accumulator
            &&& o.adaptive_fee_constants.tick_group_size == t.tick_group_size && o.adaptive_fee_constants.major_swap_threshold_ticks == t.major_swap_threshold_ticks }), //# C14 C19
//@ rewrite /WhirlpoolControlFlags::empty\(\)/ => /flag_empty()/
//@ rewrite /control_flags \|= WhirlpoolControlFlags::REQUIRE_NON_TRANSFERABLE_POSITION;/ => /control_flags = flag_union(control_flags, FLAG_NTP);/ 2
//@ rewrite /emit!\(PoolInitialized \{/ => /emit_pool_initialized(PoolInitialized {/
//@ rewrite /let mut oracle = ctx\.accounts\.oracle\.load_init\(\)\?;/ => /let oracle = ctx.accounts.oracle.load_init()?;/
//@ end
}
