//@ needs specs errors stdspecs anchor_shim oracle int_division_math tick_math_abs
pub mod fee_rate_manager {
use vstd::prelude::*;
use crate::errors::ErrorCode;
use crate::specs::*;
use crate::anchor_shim::*;
use crate::oracle::*;
use crate::int_division_math::*;
use crate::tick_math::*;
//@ tags C14
//@ const manager/fee_rate_manager.rs FEE_RATE_HARD_LIMIT
//@ enum manager/fee_rate_manager.rs FeeRateManager

/// adaptive rate = min(ceil(control * (accumulator * group_size)^2 / (100_000 * 10_000^2)), 100_000)
pub open spec fn adaptive_rate(c: AdaptiveFeeConstants, v: AdaptiveFeeVariables) -> int {
    let crossed = v.volatility_accumulator as int * c.tick_group_size as int;
    min_i(div_round(c.adaptive_fee_control_factor as int * (crossed * crossed), 10_000_000_000_000, true), 100_000)
}
pub open spec fn total_rate(static_rate: int, c: AdaptiveFeeConstants, v: AdaptiveFeeVariables) -> int {
    min_i(static_rate + adaptive_rate(c, v), 100_000)
}
pub proof fn lemma_adaptive_rate_bounds(c: AdaptiveFeeConstants, v: AdaptiveFeeVariables)
    requires c.wf(), v.volatility_accumulator <= c.max_volatility_accumulator,
    ensures 0 <= adaptive_rate(c, v) <= 100_000, c.adaptive_fee_control_factor == 0 ==> adaptive_rate(c, v) == 0,
        0 <= v.volatility_accumulator as int * c.tick_group_size as int <= 0xFFFF_FFFF,
{
    let crossed = v.volatility_accumulator as int * c.tick_group_size as int;
    assert(0 <= crossed <= c.max_volatility_accumulator as int * c.tick_group_size as int) by(nonlinear_arith)
        requires 0 <= v.volatility_accumulator as int <= c.max_volatility_accumulator as int, 0 <= c.tick_group_size as int, crossed == v.volatility_accumulator as int * c.tick_group_size as int;
    let n = c.adaptive_fee_control_factor as int * (crossed * crossed);
    assert(n >= 0) by(nonlinear_arith) requires c.adaptive_fee_control_factor as int >= 0, n == c.adaptive_fee_control_factor as int * (crossed * crossed);
    vstd::arithmetic::div_mod::lemma_div_pos_is_pos(n, 10_000_000_000_000);
    if c.adaptive_fee_control_factor == 0 {
        assert(n == 0) by(nonlinear_arith) requires n == 0 * (crossed * crossed);
    }
}

/// reachable-state bound: the reference group lies inside the tick range (it is always the group of an in-range tick)
pub open spec fn ref_ok(c: AdaptiveFeeConstants, v: AdaptiveFeeVariables) -> bool {
    -443637 - (c.tick_group_size as int) < (v.tick_group_index_reference as int) * (c.tick_group_size as int) <= 443636
}
/// FeeRateManager::new for an adaptive pool (None = InvalidTimestamp): tick group of the current tick, reference updated by the
/// filter/decay/reset rules, and the core range outside of which the accumulator is saturated
pub open spec fn new_spec(a_to_b: bool, current_tick_index: i32, timestamp: u64, static_fee_rate: u16, info: AdaptiveFeeInfo) -> Option<FeeRateManager> {
    let c = info.constants; let gs = c.tick_group_size as int;
    let g = current_tick_index as int / gs;
    match reference_after(info.variables, g as i32, timestamp, c) {
        None => None,
        Some(v) => {
            let d = div_round(c.max_volatility_accumulator as int - v.volatility_reference as int, 10_000, true);
            let lo_idx = v.tick_group_index_reference as int - d; let hi_idx = v.tick_group_index_reference as int + d;
            let lo_tick = lo_idx * gs; let hi_tick = hi_idx * gs + gs;
            Some(FeeRateManager::Adaptive { a_to_b, tick_group_index: g as i32, static_fee_rate, adaptive_fee_constants: c, adaptive_fee_variables: v,
                core_tick_group_range_lower_bound: if lo_tick > -443636 { Some((lo_idx as i32, price_at(lo_tick) as u128)) } else { None },
                core_tick_group_range_upper_bound: if hi_tick < 443636 { Some((hi_idx as i32, price_at(hi_tick) as u128)) } else { None } })
        }
    }
}
pub proof fn lemma_group_bound(t: int, gs: int)
    requires -443637 <= t <= 443636, 1 <= gs <= 0xFFFF,
    ensures -443637 <= t / gs <= 443636, -443637 - gs < (t / gs) * gs <= t, -443638 <= t / gs - 1,
{
    vstd::arithmetic::div_mod::lemma_fundamental_div_mod(t, gs); vstd::arithmetic::div_mod::lemma_mod_bound(t, gs);
    let q = t / gs;
    assert(gs * q == q * gs) by(nonlinear_arith);
    assert(q <= 443636) by(nonlinear_arith) requires gs * q <= 443636, gs >= 1;
    assert(q >= -443637) by(nonlinear_arith) requires gs * q > -443637 - gs, gs >= 1;
}
/// Rust's truncating % agrees with divisibility, and on a multiple the truncating / is the exact quotient
pub proof fn lemma_trunc_rem(t: i32, gs: i32)
    requires 1 <= gs <= 0xFFFF, -443637 <= t <= 443636,
    ensures (vstd::arithmetic::div_mod::rust_rem(t as int, gs as int) == 0) <==> ((t as int) % (gs as int) == 0),
        ((t as int) % (gs as int) == 0) ==> vstd::arithmetic::div_mod::rust_div(t as int, gs as int) == (t as int) / (gs as int),
{
    let a = t as int; let b = gs as int;
    vstd::arithmetic::div_mod::lemma_fundamental_div_mod(a, b); vstd::arithmetic::div_mod::lemma_mod_bound(a, b);
    if a < 0 {
        vstd::arithmetic::div_mod::lemma_fundamental_div_mod(-a, b); vstd::arithmetic::div_mod::lemma_mod_bound(-a, b);
        let q = (-a) / b; let m = (-a) % b;
        if m == 0 {
            assert(a == b * (-q) + 0) by(nonlinear_arith) requires -a == b * q + m, m == 0;
            vstd::arithmetic::div_mod::lemma_fundamental_div_mod_converse(a, b, -q, 0);
        } else {
            assert(a == b * (-q - 1) + (b - m)) by(nonlinear_arith) requires -a == b * q + m;
            vstd::arithmetic::div_mod::lemma_fundamental_div_mod_converse(a, b, -q - 1, b - m);
        }
    }
}
/// the last tick group the price moved through when a swap step ends at `sqrt_price`
pub open spec fn skip_last_group(sqrt_price: int, next_tick_sqrt_price: int, next_tick_index: int, gs: int, a_to_b: bool) -> int {
    let tick_index = if sqrt_price == next_tick_sqrt_price { next_tick_index } else { tick_of(sqrt_price) };
    let on_boundary = tick_index % gs == 0 && (sqrt_price == next_tick_sqrt_price || sqrt_price == price_at(tick_index));
    if on_boundary && !a_to_b { tick_index / gs - 1 } else { tick_index / gs }
}
/// the core range arithmetic of FeeRateManager::new stays inside i32 and its bound ticks inside the tick range
pub proof fn lemma_core_range(c: AdaptiveFeeConstants, v: AdaptiveFeeVariables)
    requires c.wf(), v.volatility_reference <= c.max_volatility_accumulator, ref_ok(c, v),
    ensures ({
        let gs = c.tick_group_size as int;
        let d = div_round(c.max_volatility_accumulator as int - v.volatility_reference as int, 10_000, true);
        let r = v.tick_group_index_reference as int;
        0 <= d <= 429_497 && d * gs <= 429_497 + 0xFFFF && -2_000_000 <= r - d && r + d <= 2_000_000
        && -1_100_000 <= (r - d) * gs <= 443636 && -443636 <= (r + d) * gs + gs <= 1_100_000
        && -GROUP_BOUND() < r < GROUP_BOUND()
    }),
{
    let gs = c.tick_group_size as int; let n = c.max_volatility_accumulator as int - v.volatility_reference as int;
    let r = v.tick_group_index_reference as int;
    crate::int_division_math::lemma_ceil(n, 10_000);
    vstd::arithmetic::div_mod::lemma_fundamental_div_mod(n, 10_000); vstd::arithmetic::div_mod::lemma_mod_bound(n, 10_000);
    let d = div_round(n, 10_000, true);
    assert(d <= n / 10_000 + 1);
    let m = c.max_volatility_accumulator as int;
    assert((n / 10_000) * gs <= 429_497) by(nonlinear_arith) requires n == 10_000 * (n / 10_000) + n % 10_000, n % 10_000 >= 0, n <= m, m * gs <= 0xFFFF_FFFF, gs >= 1, n / 10_000 >= 0;
    assert(d * gs <= (n / 10_000) * gs + gs) by(nonlinear_arith) requires d <= n / 10_000 + 1, gs >= 1;
    assert(d <= d * gs) by(nonlinear_arith) requires d >= 0, gs >= 1;
    assert((r - d) * gs == r * gs - d * gs) by(nonlinear_arith);
    assert((r + d) * gs == r * gs + d * gs) by(nonlinear_arith);
    assert(-GROUP_BOUND() < r < GROUP_BOUND()) by(nonlinear_arith) requires -443637 - gs < r * gs <= 443636, 1 <= gs <= 0xFFFF;
}
/// price of the (clamped) lower boundary tick of tick group g
pub open spec fn group_price(g: int, gs: int) -> int { price_at(clamp_tick(g * gs)) }
pub open spec fn clamp_tick(t: int) -> int { if t < -443636 { -443636 } else if t > 443636 { 443636 } else { t } }
pub open spec fn opt_idx(o: Option<(i32, u128)>) -> int { match o { Some(b) => b.0 as int, None => 0 } }
pub open spec fn opt_price(o: Option<(i32, u128)>) -> u128 { match o { Some(b) => b.1, None => 0 } }
/// spec twin of get_bounded_sqrt_price_target for an adaptive manager
pub open spec fn bounded_target_spec(m: FeeRateManager, sqrt_price: u128, liq: u128) -> (u128, bool) {
    let c = m->adaptive_fee_constants; let g = m->tick_group_index as int; let gs = c.tick_group_size as int; let a_to_b = m->a_to_b;
    let lo = m->core_tick_group_range_lower_bound; let up = m->core_tick_group_range_upper_bound;
    if c.adaptive_fee_control_factor == 0 || liq == 0 { (sqrt_price, true) }
    else if lo is Some && g < opt_idx(lo) { if a_to_b { (sqrt_price, true) } else { (if sqrt_price <= opt_price(lo) { sqrt_price } else { opt_price(lo) }, true) } }
    else if up is Some && g > opt_idx(up) { if a_to_b { (if sqrt_price >= opt_price(up) { sqrt_price } else { opt_price(up) }, true) } else { (sqrt_price, true) } }
    else if a_to_b { let b = group_price(g, gs) as u128; (if sqrt_price >= b { sqrt_price } else { b }, false) }
    else { let b = group_price(g + 1, gs) as u128; (if sqrt_price <= b { sqrt_price } else { b }, false) }
}
impl FeeRateManager {
    pub open spec fn wf(&self) -> bool {
        match *self {
            FeeRateManager::Static { static_fee_rate } => static_fee_rate <= 60_000,
            FeeRateManager::Adaptive { static_fee_rate, adaptive_fee_constants, adaptive_fee_variables, tick_group_index, core_tick_group_range_lower_bound, core_tick_group_range_upper_bound, .. } =>
                static_fee_rate <= 60_000 && inv14(adaptive_fee_constants, adaptive_fee_variables) && -GROUP_BOUND() < tick_group_index < GROUP_BOUND()
                && (core_tick_group_range_lower_bound matches Some(b) ==> price_ok(b.1 as int))
                && (core_tick_group_range_upper_bound matches Some(b) ==> price_ok(b.1 as int)),
        }
    }

//@ fn manager/fee_rate_manager.rs compute_adaptive_fee_rate in=/^impl FeeRateManager \{/ -> r
    requires adaptive_fee_constants.wf(), adaptive_fee_variables.volatility_accumulator <= adaptive_fee_constants.max_volatility_accumulator,
    ensures r as int == adaptive_rate(*adaptive_fee_constants, *adaptive_fee_variables), r <= 100_000,
//@ inject at /^\{/
    proof {
        lemma_adaptive_rate_bounds(*adaptive_fee_constants, *adaptive_fee_variables);
        let crossed = adaptive_fee_variables.volatility_accumulator as int * adaptive_fee_constants.tick_group_size as int;
        assert(0 <= crossed * crossed <= 0xFFFF_FFFF * 0xFFFF_FFFF) by(nonlinear_arith) requires 0 <= crossed <= 0xFFFF_FFFF;
        assert(adaptive_fee_constants.adaptive_fee_control_factor as int * (crossed * crossed) <= 100_000 * (0xFFFF_FFFF * 0xFFFF_FFFF)) by(nonlinear_arith)
            requires 0 <= adaptive_fee_constants.adaptive_fee_control_factor as int <= 100_000, 0 <= crossed * crossed <= 0xFFFF_FFFF * 0xFFFF_FFFF;
    }
//@ end

//@ fn manager/fee_rate_manager.rs get_total_fee_rate in=/^impl FeeRateManager \{/ -> r
    requires self.wf(),
    ensures
        // never above the 10% hard limit, never below the static rate
        r <= 100_000,
        *self matches FeeRateManager::Static { static_fee_rate } ==> r == static_fee_rate,
        *self matches FeeRateManager::Adaptive { static_fee_rate, adaptive_fee_constants, adaptive_fee_variables, .. } ==>
            r as int == total_rate(static_fee_rate as int, adaptive_fee_constants, adaptive_fee_variables) && r >= static_fee_rate
            // a pool whose control factor is zero charges exactly the static rate
            && (adaptive_fee_constants.adaptive_fee_control_factor == 0 ==> r == static_fee_rate),
//@ inject at /^\{/
    proof { if let FeeRateManager::Adaptive { adaptive_fee_constants, adaptive_fee_variables, .. } = *self { lemma_adaptive_rate_bounds(adaptive_fee_constants, adaptive_fee_variables); } }
//@ end

//@ fn manager/fee_rate_manager.rs update_volatility_accumulator in=/^impl FeeRateManager \{/ -> r canary
    requires old(self).wf(),
    ensures r is Ok, final(self).wf(),
        *old(self) is Static ==> *final(self) == *old(self),
        *old(self) matches FeeRateManager::Adaptive { a_to_b, tick_group_index, static_fee_rate, adaptive_fee_constants, adaptive_fee_variables, core_tick_group_range_lower_bound, core_tick_group_range_upper_bound } ==>
            *final(self) == (FeeRateManager::Adaptive { a_to_b, tick_group_index, static_fee_rate, adaptive_fee_constants, core_tick_group_range_lower_bound, core_tick_group_range_upper_bound,
                adaptive_fee_variables: AdaptiveFeeVariables { volatility_accumulator: min_i(adaptive_fee_variables.volatility_reference as int
                    + abs_diff(adaptive_fee_variables.tick_group_index_reference as int, tick_group_index as int) * 10_000, adaptive_fee_constants.max_volatility_accumulator as int) as u32, ..adaptive_fee_variables } }),
//@ end

//@ fn manager/fee_rate_manager.rs advance_tick_group in=/^impl FeeRateManager \{/
    requires old(self).wf(),
    ensures
        *old(self) is Static ==> *final(self) == *old(self),
        *old(self) matches FeeRateManager::Adaptive { a_to_b, tick_group_index, static_fee_rate, adaptive_fee_constants, adaptive_fee_variables, core_tick_group_range_lower_bound, core_tick_group_range_upper_bound } ==>
            *final(self) == (FeeRateManager::Adaptive { a_to_b, tick_group_index: (tick_group_index + (if a_to_b { -1int } else { 1int })) as i32, static_fee_rate, adaptive_fee_constants, adaptive_fee_variables, core_tick_group_range_lower_bound, core_tick_group_range_upper_bound }),
//@ end

//@ fn manager/fee_rate_manager.rs get_next_adaptive_fee_info in=/^impl FeeRateManager \{/ -> r canary
    ensures
        *self is Static ==> r is None,
        *self matches FeeRateManager::Adaptive { adaptive_fee_constants, adaptive_fee_variables, .. } ==>
            r matches Some(i) && i.constants == adaptive_fee_constants && i.variables == adaptive_fee_variables,
//@ end

//@ fn manager/fee_rate_manager.rs get_bounded_sqrt_price_target in=/^impl FeeRateManager \{/ -> r
    requires self.wf(), price_ok(sqrt_price as int),
        *self matches FeeRateManager::Adaptive { tick_group_index, adaptive_fee_constants, .. } ==> -600_000 <= tick_group_index as int * adaptive_fee_constants.tick_group_size as int <= 600_000,
    ensures
        // a static pool, a zero control factor and a zero-liquidity gap all leave the target alone
        *self is Static ==> r == (sqrt_price, false),
        *self matches FeeRateManager::Adaptive { adaptive_fee_constants, .. } ==> (adaptive_fee_constants.adaptive_fee_control_factor == 0 || curr_liquidity == 0) ==> r == (sqrt_price, true),
        // the bounded target is never beyond the requested target
        *self matches FeeRateManager::Adaptive { a_to_b, .. } ==> (if a_to_b { r.0 >= sqrt_price } else { r.0 <= sqrt_price }),
        price_ok(r.0 as int),
        // exactly: inside the core range the step is cut at the boundary of the current tick group; outside of it (accumulator saturated) it may run to the
        // edge of the core range or, moving away from it, all the way
        *self is Adaptive ==> r == bounded_target_spec(*self, sqrt_price, curr_liquidity),
//@ inject at /^\{/
    proof { axiom_price_at();
        if let FeeRateManager::Adaptive { tick_group_index, adaptive_fee_constants, .. } = *self {
            let g = tick_group_index as int; let gs = adaptive_fee_constants.tick_group_size as int;
            assert((g + 1) * gs == g * gs + gs) by(nonlinear_arith);
        } }
//@ end

//@ fn manager/fee_rate_manager.rs new in=/^impl FeeRateManager \{/ -> r
    requires static_fee_rate <= 60_000, -443637 <= current_tick_index <= 443636,
        *adaptive_fee_info matches Some(info) ==> inv14(info.constants, info.variables) && ref_ok(info.constants, info.variables),
    ensures
        *adaptive_fee_info is None ==> (r matches Ok(m) && m == (FeeRateManager::Static { static_fee_rate })),
        *adaptive_fee_info matches Some(info) ==> (match new_spec(a_to_b, current_tick_index, timestamp, static_fee_rate, info) {
            None => r == err::<FeeRateManager>(ErrorCode::InvalidTimestamp),
            Some(m) => r == Ok::<FeeRateManager, Error>(m),
        }),
        r matches Ok(m) ==> m.wf() && (m is Static <==> *adaptive_fee_info is None),
//@ inject after /let mut adaptive_fee_variables = adaptive_fee_info.variables;/
                proof {
                    let gs = adaptive_fee_info.constants.tick_group_size as int; let t = current_tick_index as int;
                    vstd::arithmetic::div_mod::lemma_fundamental_div_mod(t, gs); vstd::arithmetic::div_mod::lemma_mod_bound(t, gs);
                    assert(gs * (t / gs) == (t / gs) * gs) by(nonlinear_arith);
                    lemma_group_bound(t, gs);
                }
//@ inject before /let max_volatility_accumulator_tick_group_index_delta =/
                proof {
                    let c = adaptive_fee_constants; let v = adaptive_fee_variables;
                    assert(reference_after(adaptive_fee_info.variables, tick_group_index, timestamp, c) == Some(v));
                    lemma_core_range(c, v);
                }
//@ end
//@ fn manager/fee_rate_manager.rs advance_tick_group_after_skip in=/^impl FeeRateManager \{/ -> r
    requires old(self).wf(), *old(self) is Adaptive, price_ok(sqrt_price as int), price_ok(next_tick_sqrt_price as int), -443637 <= next_tick_index <= 443636,
        *old(self) matches FeeRateManager::Adaptive { tick_group_index, .. } ==> -GROUP_BOUND() + 1 < tick_group_index < GROUP_BOUND() - 1,
    ensures
        r is Ok, *final(self) is Adaptive, final(self).wf(),
        // nothing but the tick group and the accumulator changes
        old(self)->a_to_b == final(self)->a_to_b, old(self)->Adaptive_static_fee_rate == final(self)->Adaptive_static_fee_rate,
        old(self)->adaptive_fee_constants == final(self)->adaptive_fee_constants,
        old(self)->core_tick_group_range_lower_bound == final(self)->core_tick_group_range_lower_bound, old(self)->core_tick_group_range_upper_bound == final(self)->core_tick_group_range_upper_bound,
        final(self)->adaptive_fee_variables == (AdaptiveFeeVariables { volatility_accumulator: final(self)->adaptive_fee_variables.volatility_accumulator, ..old(self)->adaptive_fee_variables }),
        // the tick group the price stopped in (a price exactly on a group boundary belongs to the group below when moving up); the manager moves there only
        // in the trade direction, refreshes the accumulator for that group, and then steps one group further for the next loop iteration
        ({
            let gs = old(self)->adaptive_fee_constants.tick_group_size as int; let a_to_b = old(self)->a_to_b; let g0 = old(self)->tick_group_index as int;
            let last = skip_last_group(sqrt_price as int, next_tick_sqrt_price as int, next_tick_index as int, gs, a_to_b);
            let moved = if a_to_b { last < g0 } else { last > g0 };
            final(self)->tick_group_index as int == (if moved { last } else { g0 }) + (if a_to_b { -1int } else { 1int })
            && final(self)->adaptive_fee_variables.volatility_accumulator as int == (if moved { accumulator_at(old(self)->adaptive_fee_variables, last, old(self)->adaptive_fee_constants) } else { old(self)->adaptive_fee_variables.volatility_accumulator as int })
        }),
//@ inject at /^\{/
    proof {
        axiom_price_at();
        if let FeeRateManager::Adaptive { adaptive_fee_constants, .. } = *old(self) {
            let gs = adaptive_fee_constants.tick_group_size as int;
            lemma_group_bound(next_tick_index as int, gs);
            lemma_trunc_rem(next_tick_index, adaptive_fee_constants.tick_group_size as i32);
        }
    }
//@ inject after /let tick_index = tick_index_from_sqrt_price\(&sqrt_price\);/
                    proof { lemma_trunc_rem(tick_index, adaptive_fee_constants.tick_group_size as i32); lemma_group_bound(tick_index as int, adaptive_fee_constants.tick_group_size as int); }
//@ end
//@ fn manager/fee_rate_manager.rs update_major_swap_timestamp in=/^impl FeeRateManager \{/ -> r
    requires old(self).wf(), price_ok(pre_sqrt_price as int), price_ok(post_sqrt_price as int),
        *old(self) matches FeeRateManager::Adaptive { adaptive_fee_constants, .. } ==> adaptive_fee_constants.major_swap_threshold_ticks as int <= 443636,
    ensures *old(self) is Static ==> r is Ok && *final(self) == *old(self),
        final(self).wf(),
        // the major-swap timestamp is set exactly when the price moved by the configured threshold; nothing else changes
        *old(self) matches FeeRateManager::Adaptive { a_to_b, tick_group_index, static_fee_rate, adaptive_fee_constants, adaptive_fee_variables, core_tick_group_range_lower_bound, core_tick_group_range_upper_bound } ==> (
            r is Ok ==> *final(self) == (FeeRateManager::Adaptive { a_to_b, tick_group_index, static_fee_rate, adaptive_fee_constants, core_tick_group_range_lower_bound, core_tick_group_range_upper_bound,
                adaptive_fee_variables: AdaptiveFeeVariables { last_major_swap_timestamp:
                    if major_swap_spec(pre_sqrt_price as int, post_sqrt_price as int, adaptive_fee_constants.major_swap_threshold_ticks as int) { timestamp } else { adaptive_fee_variables.last_major_swap_timestamp }, ..adaptive_fee_variables } })),
//@ end
}
}