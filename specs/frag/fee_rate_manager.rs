//@ needs specs errors stdspecs anchor_shim oracle int_division_math tick_math_abs
pub mod fee_rate_manager {
use vstd::prelude::*;
use crate::errors::ErrorCode;
use crate::specs::*;
use crate::anchor_shim::*;
use crate::oracle::*;
use crate::int_division_math::*;
use crate::tick_math::*;
//@ tags C14
//@ const manager/fee_rate_manager.rs FEE_RATE_HARD_LIMIT
//@ enum manager/fee_rate_manager.rs FeeRateManager

/// adaptive rate = min(ceil(control * (accumulator * group_size)^2 / (100_000 * 10_000^2)), 100_000)
pub open spec fn adaptive_rate(c: AdaptiveFeeConstants, v: AdaptiveFeeVariables) -> int {
    let crossed = v.volatility_accumulator as int * c.tick_group_size as int;
    min_i(div_round(c.adaptive_fee_control_factor as int * (crossed * crossed), 10_000_000_000_000, true), 100_000)
}
pub open spec fn total_rate(static_rate: int, c: AdaptiveFeeConstants, v: AdaptiveFeeVariables) -> int {
    min_i(static_rate + adaptive_rate(c, v), 100_000)
}
pub proof fn lemma_adaptive_rate_bounds(c: AdaptiveFeeConstants, v: AdaptiveFeeVariables)
    requires c.wf(), v.volatility_accumulator <= c.max_volatility_accumulator,
    ensures 0 <= adaptive_rate(c, v) <= 100_000, c.adaptive_fee_control_factor == 0 ==> adaptive_rate(c, v) == 0,
        0 <= v.volatility_accumulator as int * c.tick_group_size as int <= 0xFFFF_FFFF,
{
    let crossed = v.volatility_accumulator as int * c.tick_group_size as int;
    assert(0 <= crossed <= c.max_volatility_accumulator as int * c.tick_group_size as int) by(nonlinear_arith)
        requires 0 <= v.volatility_accumulator as int <= c.max_volatility_accumulator as int, 0 <= c.tick_group_size as int, crossed == v.volatility_accumulator as int * c.tick_group_size as int;
    let n = c.adaptive_fee_control_factor as int * (crossed * crossed);
    assert(n >= 0) by(nonlinear_arith) requires c.adaptive_fee_control_factor as int >= 0, n == c.adaptive_fee_control_factor as int * (crossed * crossed);
    vstd::arithmetic::div_mod::lemma_div_pos_is_pos(n, 10_000_000_000_000);
    if c.adaptive_fee_control_factor == 0 {
        assert(n == 0) by(nonlinear_arith) requires n == 0 * (crossed * crossed);
    }
}

impl FeeRateManager {
    pub open spec fn wf(&self) -> bool {
        match *self {
            FeeRateManager::Static { static_fee_rate } => static_fee_rate <= 60_000,
            FeeRateManager::Adaptive { static_fee_rate, adaptive_fee_constants, adaptive_fee_variables, tick_group_index, core_tick_group_range_lower_bound, core_tick_group_range_upper_bound, .. } =>
                static_fee_rate <= 60_000 && inv14(adaptive_fee_constants, adaptive_fee_variables) && -GROUP_BOUND() < tick_group_index < GROUP_BOUND()
                && (core_tick_group_range_lower_bound matches Some(b) ==> price_ok(b.1 as int))
                && (core_tick_group_range_upper_bound matches Some(b) ==> price_ok(b.1 as int)),
        }
    }

//@ fn manager/fee_rate_manager.rs compute_adaptive_fee_rate in=/^impl FeeRateManager \{/ -> r
    requires adaptive_fee_constants.wf(), adaptive_fee_variables.volatility_accumulator <= adaptive_fee_constants.max_volatility_accumulator,
    ensures r as int == adaptive_rate(*adaptive_fee_constants, *adaptive_fee_variables), r <= 100_000,
//@ inject at /^\{/
    proof {
        lemma_adaptive_rate_bounds(*adaptive_fee_constants, *adaptive_fee_variables);
        let crossed = adaptive_fee_variables.volatility_accumulator as int * adaptive_fee_constants.tick_group_size as int;
        assert(0 <= crossed * crossed <= 0xFFFF_FFFF * 0xFFFF_FFFF) by(nonlinear_arith) requires 0 <= crossed <= 0xFFFF_FFFF;
        assert(adaptive_fee_constants.adaptive_fee_control_factor as int * (crossed * crossed) <= 100_000 * (0xFFFF_FFFF * 0xFFFF_FFFF)) by(nonlinear_arith)
            requires 0 <= adaptive_fee_constants.adaptive_fee_control_factor as int <= 100_000, 0 <= crossed * crossed <= 0xFFFF_FFFF * 0xFFFF_FFFF;
    }
//@ end

//@ fn manager/fee_rate_manager.rs get_total_fee_rate in=/^impl FeeRateManager \{/ -> r
    requires self.wf(),
    ensures
        // never above the 10% hard limit, never below the static rate
        r <= 100_000,
        *self matches FeeRateManager::Static { static_fee_rate } ==> r == static_fee_rate,
        *self matches FeeRateManager::Adaptive { static_fee_rate, adaptive_fee_constants, adaptive_fee_variables, .. } ==>
            r as int == total_rate(static_fee_rate as int, adaptive_fee_constants, adaptive_fee_variables) && r >= static_fee_rate
            // a pool whose control factor is zero charges exactly the static rate
            && (adaptive_fee_constants.adaptive_fee_control_factor == 0 ==> r == static_fee_rate),
//@ inject at /^\{/
    proof { if let FeeRateManager::Adaptive { adaptive_fee_constants, adaptive_fee_variables, .. } = *self { lemma_adaptive_rate_bounds(adaptive_fee_constants, adaptive_fee_variables); } }
//@ end

//@ fn manager/fee_rate_manager.rs update_volatility_accumulator in=/^impl FeeRateManager \{/ -> r
    requires old(self).wf(),
    ensures r is Ok, final(self).wf(),
        *old(self) is Static ==> *final(self) == *old(self),
        *old(self) matches FeeRateManager::Adaptive { a_to_b, tick_group_index, static_fee_rate, adaptive_fee_constants, adaptive_fee_variables, core_tick_group_range_lower_bound, core_tick_group_range_upper_bound } ==>
            *final(self) == (FeeRateManager::Adaptive { a_to_b, tick_group_index, static_fee_rate, adaptive_fee_constants, core_tick_group_range_lower_bound, core_tick_group_range_upper_bound,
                adaptive_fee_variables: AdaptiveFeeVariables { volatility_accumulator: min_i(adaptive_fee_variables.volatility_reference as int
                    + abs_diff(adaptive_fee_variables.tick_group_index_reference as int, tick_group_index as int) * 10_000, adaptive_fee_constants.max_volatility_accumulator as int) as u32, ..adaptive_fee_variables } }),
//@ end

//@ fn manager/fee_rate_manager.rs advance_tick_group in=/^impl FeeRateManager \{/
    requires old(self).wf(),
    ensures
        *old(self) is Static ==> *final(self) == *old(self),
        *old(self) matches FeeRateManager::Adaptive { a_to_b, tick_group_index, static_fee_rate, adaptive_fee_constants, adaptive_fee_variables, core_tick_group_range_lower_bound, core_tick_group_range_upper_bound } ==>
            *final(self) == (FeeRateManager::Adaptive { a_to_b, tick_group_index: (tick_group_index + (if a_to_b { -1int } else { 1int })) as i32, static_fee_rate, adaptive_fee_constants, adaptive_fee_variables, core_tick_group_range_lower_bound, core_tick_group_range_upper_bound }),
//@ end

//@ fn manager/fee_rate_manager.rs get_next_adaptive_fee_info in=/^impl FeeRateManager \{/ -> r
    ensures
        *self is Static ==> r is None,
        *self matches FeeRateManager::Adaptive { adaptive_fee_constants, adaptive_fee_variables, .. } ==>
            r matches Some(i) && i.constants == adaptive_fee_constants && i.variables == adaptive_fee_variables,
//@ end

//@ fn manager/fee_rate_manager.rs get_bounded_sqrt_price_target in=/^impl FeeRateManager \{/ -> r
    requires self.wf(), price_ok(sqrt_price as int),
        *self matches FeeRateManager::Adaptive { tick_group_index, adaptive_fee_constants, .. } ==> -500_000 <= tick_group_index as int * adaptive_fee_constants.tick_group_size as int <= 500_000,
    ensures
        // a static pool, a zero control factor and a zero-liquidity gap all leave the target alone
        *self is Static ==> r == (sqrt_price, false),
        *self matches FeeRateManager::Adaptive { adaptive_fee_constants, .. } ==> (adaptive_fee_constants.adaptive_fee_control_factor == 0 || curr_liquidity == 0) ==> r == (sqrt_price, true),
        // the bounded target is never beyond the requested target
        *self matches FeeRateManager::Adaptive { a_to_b, .. } ==> (if a_to_b { r.0 >= sqrt_price } else { r.0 <= sqrt_price }),
        price_ok(r.0 as int),
//@ inject at /^\{/
    proof { axiom_price_at(); }
//@ end

//@ assume FeeRateManager::new and advance_tick_group_after_skip (adaptive bookkeeping; i32 tick-group arithmetic) are external stubs: new returns the Static manager when no adaptive-fee info is given and some well-formed manager otherwise; the skip bookkeeping keeps the manager well formed
//@ fn manager/fee_rate_manager.rs new in=/^impl FeeRateManager \{/ -> r stub
    requires static_fee_rate <= 60_000,
    ensures
        *adaptive_fee_info is None ==> (r matches Ok(m) && m == (FeeRateManager::Static { static_fee_rate })),
        r matches Ok(m) ==> m.wf() && (m is Static <==> *adaptive_fee_info is None),
//@ end
//@ fn manager/fee_rate_manager.rs advance_tick_group_after_skip in=/^impl FeeRateManager \{/ -> r stub
    requires old(self).wf(), *old(self) is Adaptive,
    ensures r is Ok ==> final(self).wf() && *final(self) is Adaptive,
//@ end
//@ fn manager/fee_rate_manager.rs update_major_swap_timestamp in=/^impl FeeRateManager \{/ -> r
    requires old(self).wf(), price_ok(pre_sqrt_price as int), price_ok(post_sqrt_price as int),
        *old(self) matches FeeRateManager::Adaptive { adaptive_fee_constants, .. } ==> adaptive_fee_constants.major_swap_threshold_ticks as int <= 443636,
    ensures *old(self) is Static ==> r is Ok && *final(self) == *old(self),
        final(self).wf(),
//@ end
}
}