//@ needs specs errors stdspecs lebytes anchor_shim state_core authority position_rules pino_state pino_managers transfer_fee liquidity_math
// Handler layer of the Pinocchio-dispatched instructions (increase / decrease / reposition liquidity): the real handler bodies under contract.
// What is real: account labelling (AccountIterator), every verify_address / verify_constraint call, the authority and lock checks, the order of
// computation / write-back / tick-array resize, the threshold comparisons, which accounts and amounts go to which transfer.
// What is a stub (assumed contract, listed): instruction-data decoding, the account loaders (owner + discriminator check, then an unsafe cast),
// TickArraysMut (loader checks recorded as ta_pool), Clock, the tick-array resize / rent helper, the token CPIs (record a fact moved(from, to, amount)), event emission.
pub mod pino_handlers {
use vstd::prelude::*;
use crate::errors::ErrorCode as WhirlpoolErrorCode;
use crate::errors::ErrorCode;
use crate::specs::*;
use crate::anchor_shim::Pubkey;
use crate::authority::authority_rule;
use crate::authority_pino::*;
use crate::state_core::{Tick, Position, PositionUpdate, Whirlpool};
use crate::pino_state::*;
use crate::pino_managers::{PinoModifyLiquidityUpdate, TickArray, pino_calculate_modify_liquidity, pino_sync_modify_liquidity_values, pino_calculate_liquidity_token_deltas, perr};
use crate::liquidity_manager::{token_deltas_spec, modify_liquidity_core};
use crate::token_math_est::{estimate_max_liquidity_from_token_amounts, max_liquidity_spec};
use crate::tick_array_manager::TickArrayUpdate;
use crate::liquidity_math::convert_to_liquidity_delta;
use crate::token_pino::{pino_calculate_transfer_fee_excluded_amount, pino_calculate_transfer_fee_included_amount, pino_mint_fee};
use crate::token_v2::{TransferFeeExcludedAmount, TransferFeeIncludedAmount};
use crate::tick_math::*;
broadcast use crate::authority_pino::ax_qmark_pino;
//@ tags C15 C04 C08 C18
//@ assume pinocchio handler shims: `crate::instruction::*::try_from_slice` (Borsh decoding of the instruction data) yields an uninterpreted function of the bytes; load_account_mut::<T> / load_token_program_account::<T> are external stubs: on success the account is owned by the whirlpool program (resp. a token program) and the returned view is the uninterpreted content acct::<T>(info) (their bodies: owner check, discriminator check, unsafe cast); TickArraysMut::load is an external stub recording the loader's checks (writable, owned by the program, whirlpool field == the given key) as ta_ok(info, whirlpool); deref / deref_mut hand out abstract `dyn TickArray`s; Clock::get yields now_unix(); pino_update_tick_array_accounts, pino_ensure_position_has_enough_rent_for_ticks, pino_parse_remaining_accounts, Event::emit are external stubs; the token CPI wrappers are external stubs recording moved(from, to, amount)
pub struct RefMut<'a, T> { pub v: T, pub p: core::marker::PhantomData<&'a ()> }
impl<'a, T> std::ops::Deref for RefMut<'a, T> { type Target = T; fn deref(&self) -> (r: &T) ensures *r == self.v { &self.v } }
impl<'a, T> std::ops::DerefMut for RefMut<'a, T> { fn deref_mut(&mut self) -> (r: &mut T) ensures *r == old(self).v, *final(r) == final(self).v { &mut self.v } }
pub assume_specification<T> [std::mem::drop] (_0: T) where T: std::marker::Destruct;
/// the content of a program-owned account as the loader maps it
pub uninterp spec fn acct<T>(i: AccountInfo) -> T;
/// reachable-state facts about stored accounts (assumed of every account the loader accepts): an uninitialized reward slot has zero emissions (C11),
/// the pool price is positive; a position's bounds are in the protocol range and ordered (C18: enforced when the position was opened)
pub trait Reachable { spec fn reachable(&self) -> bool; }
pub trait WhirlpoolProgramAccount: Reachable { const DISCRIMINATOR: [u8; 8]; }
impl Reachable for MemoryMappedWhirlpool {
    open spec fn reachable(&self) -> bool {
        self.sqrt_price_v() > 0 && price_ok(self.sqrt_price_v() as int) && self.tick_spacing_v() > 0 && forall|k: int| 0 <= k < 3 ==> (!(#[trigger] self.view().reward_infos[k]).is_init() ==> self.view().reward_infos[k].emissions_per_second_x64 == 0)
    }
}
impl Reachable for MemoryMappedPosition {
    open spec fn reachable(&self) -> bool { tick_ok(self.view().tick_lower_index as int) && tick_ok(self.view().tick_upper_index as int) && self.view().tick_lower_index < self.view().tick_upper_index }
}
//@ item pinocchio/state/whirlpool/whirlpool.rs /^impl WhirlpoolProgramAccount for MemoryMappedWhirlpool \{/
//@ item pinocchio/state/whirlpool/position.rs /^impl WhirlpoolProgramAccount for MemoryMappedPosition \{/
// ------------------------------------------------------------------ the loaders (C15): owner-program, discriminator, initialised-flag, multisig and account-type checks are real code
//@ assume loader shims: AccountInfo::try_borrow_data hands out the account's bytes as a slice; `array_ref![bytes, 0, 8] != discriminator` is the comparison of the first eight bytes (disc_ne); the final unsafe casts (load_account_mut_unchecked: bytes -> &mut T; TokenProgramAccountWithExtensions::new + Deref: bytes -> &T) are external stubs that yield the uninterpreted content acct::<T>(info) together with the reachable-state facts
pub trait TokenProgramAccount { const BASE_STATE_LEN: usize; const IS_INITIALIZED_OFFSET: usize; const ACCOUNT_TYPE: u8; }
//@ item pinocchio/state/token/account.rs /^impl TokenProgramAccount for MemoryMappedTokenAccount \{/
#[verifier::external_body]
pub fn disc_ne(bytes: &[u8], discriminator: &[u8; 8]) -> (r: bool) requires bytes@.len() >= 8, ensures r == (bytes@.subrange(0, 8) != discriminator@) { unimplemented!() }
//@ const pinocchio/utils/account_load.rs pub ACCOUNT_TYPE_OFFSET MULTISIG_ACCOUNT_LEN LAST_BYTE_OF_TOKEN_PROGRAM_ID LAST_BYTE_OF_TOKEN_2022_PROGRAM_ID
pub use crate::authority_pino::address::{TOKEN_PROGRAM_ID, TOKEN_2022_PROGRAM_ID, WHIRLPOOL_PROGRAM_ID};
//@ fn pinocchio/utils/account_load.rs check_owner_program -> r tags=C15
    ensures r is Ok <==> account_info.owner_k == *program_id,
//@ end
//@ fn pinocchio/utils/account_load.rs check_discriminator -> r tags=C15
    ensures r is Ok ==> account_info.data().len() >= 8 && account_info.data().subrange(0, 8) == discriminator@,
//@ rewrite /array_ref!\[bytes, 0, 8\] != discriminator/ => /disc_ne(bytes, discriminator)/
//@ end
#[verifier::external_body]
pub fn load_account_mut_unchecked<T: WhirlpoolProgramAccount>(account_info: &'_ AccountInfo) -> (r: Result<RefMut<'_, T>>)
    ensures r matches Ok(x) ==> x.v == acct::<T>(*account_info) && x.v.reachable()
{ unimplemented!() }
/// a program account is loaded only if it is owned by the whirlpool program and starts with the discriminator of the requested account type
//@ fn pinocchio/utils/account_load.rs load_account_mut -> r tags=C15
    ensures r matches Ok(x) ==> x.v == acct::<T>(*account_info) && account_info.owner_k == address::WHIRLPOOL_PROGRAM_ID && x.v.reachable()
        && account_info.data().len() >= 8 && account_info.data().subrange(0, 8) == T::DISCRIMINATOR@,
//@ end
pub struct TokenProgramAccountWithExtensions<T> { pub v: T, pub is_token_2022: bool }
impl<T> std::ops::Deref for TokenProgramAccountWithExtensions<T> { type Target = T; fn deref(&self) -> (r: &T) ensures *r == self.v { &self.v } }
pub uninterp spec fn acct_of_bytes<T>(b: Seq<u8>) -> T;
impl<T> TokenProgramAccountWithExtensions<T> {
    #[verifier::external_body]
    pub fn new(bytes: &[u8], is_token_2022: bool) -> (r: Self) ensures r.v == acct_of_bytes::<T>(bytes@), r.is_token_2022 == is_token_2022 { unimplemented!() }
}
/// C15: a token-program account is accepted only if it is owned by the SPL Token or the Token-2022 program, is not a 355-byte Multisig, is initialized, and
/// either has exactly the base length of the requested type or carries that type's account-type byte
pub open spec fn token_account_ok<T: TokenProgramAccount>(a: AccountInfo) -> bool {
    let d = a.data();
    &&& (a.owner_k == address::TOKEN_PROGRAM_ID || a.owner_k == address::TOKEN_2022_PROGRAM_ID)
    &&& d.len() != 355
    &&& d.len() > T::IS_INITIALIZED_OFFSET && d[T::IS_INITIALIZED_OFFSET as int] != 0
    &&& (d.len() == T::BASE_STATE_LEN || (d.len() > 165 && d[165] == T::ACCOUNT_TYPE))
}
//@ fn pinocchio/utils/account_load.rs load_token_program_account -> r tags=C15
    ensures r matches Ok(x) ==> token_account_ok::<T>(*account_info) && x.v == acct_of_bytes::<T>(account_info.data()),
//@ rewrite /owner_program_id\[31\]/ => /owner_program_id.0[31]/
//@ end
#[verifier::external_body]
pub fn pubkey_eq(a: &Pubkey, b: &Pubkey) -> (r: bool) ensures r == (*a == *b) { unimplemented!() }
//@ fn pinocchio/utils/verify.rs verify_constraint -> r tags=C15
    ensures r is Ok <==> condition, !condition ==> r == Err::<(), UnifiedError>(UnifiedError::Anchor(AnchorErrorCode::ConstraintRaw)),
//@ end
//@ fn pinocchio/utils/verify.rs verify_address -> r tags=C15
    ensures r is Ok <==> *address == *expected, *address != *expected ==> r == Err::<(), UnifiedError>(UnifiedError::Anchor(AnchorErrorCode::ConstraintAddress)),
//@ end
//@ fn pinocchio/ported/util_shared.rs pino_is_locked_position -> r tags=C18
    ensures r == position_token_account.frozen(),
//@ end
pub struct ClockData { pub slot: u64, pub epoch_start_timestamp: i64, pub epoch: u64, pub leader_schedule_epoch: u64, pub unix_timestamp: i64 }
pub uninterp spec fn now_unix() -> i64;
pub struct Clock {}
impl Clock {
    #[verifier::external_body]
    pub fn get() -> (r: Result<ClockData>) ensures r matches Ok(c) ==> c.unix_timestamp == now_unix() { unimplemented!() }
}
#[verifier::external_body]
pub fn to_timestamp_u64(t: i64) -> (r: core::result::Result<u64, WhirlpoolErrorCode>) ensures t >= 0 ==> r == Ok::<u64, WhirlpoolErrorCode>(t as u64), t < 0 ==> r is Err { unimplemented!() }

/// what TickArraysMut::load has checked about a tick-array account: writable, owned by the whirlpool program, one of the two tick-array discriminators, whirlpool field == `pool`
pub uninterp spec fn ta_ok(i: AccountInfo, pool: Pubkey) -> bool;
pub struct TA { pub x: u8 }
impl TickArray for TA {
    uninterp spec fn tick_at(&self, tick_index: int, spacing: int) -> Option<Tick>;
    uninterp spec fn variable(&self) -> bool;
    #[verifier::external_body] fn is_variable_size(&self) -> (r: bool) { unimplemented!() }
    #[verifier::external_body] fn get_tick(&self, tick_index: i32, tick_spacing: u16) -> (r: Result<&MemoryMappedTick>) { unimplemented!() }
    #[verifier::external_body] fn update_tick(&mut self, tick_index: i32, tick_spacing: u16, update: &TickUpdate) -> (r: Result<()>) { unimplemented!() }
}
pub struct TickArraysMut { pub lower: TA, pub upper: Option<TA> }
impl TickArraysMut {
    #[verifier::external_body]
    pub fn load(lower_tick_array_info: &AccountInfo, upper_tick_array_info: &AccountInfo, whirlpool: &Pubkey) -> (r: Result<Self>)
        ensures r is Ok ==> ta_ok(*lower_tick_array_info, *whirlpool) && ta_ok(*upper_tick_array_info, *whirlpool),
            r matches Ok(t) ==> (t.upper is None <==> lower_tick_array_info.k == upper_tick_array_info.k)
    { unimplemented!() }
    #[verifier::external_body]
    pub fn deref(&self) -> (r: (&dyn TickArray, &dyn TickArray)) { unimplemented!() }
    #[verifier::external_body]
    pub fn deref_mut(&mut self) -> (r: (&mut dyn TickArray, Option<&mut dyn TickArray>)) { unimplemented!() }
}
#[verifier::external_body]
pub fn pino_update_tick_array_accounts(position_info: &AccountInfo, lower_tick_array_info: &AccountInfo, upper_tick_array_info: &AccountInfo, lower_tick_array_update: &TickArrayUpdate, upper_tick_array_update: &TickArrayUpdate) -> (r: Result<()>) { unimplemented!() }
/// fact recorded by the token CPI stubs
pub uninterp spec fn moved(from: Pubkey, to: Pubkey, amount: u64) -> bool;
#[verifier::external_body]
pub fn pino_transfer_from_vault_to_owner(whirlpool: &MemoryMappedWhirlpool, whirlpool_info: &AccountInfo, token_vault_info: &AccountInfo, token_owner_account_info: &AccountInfo, token_program_info: &AccountInfo, amount: u64) -> (r: Result<()>)
    ensures r is Ok ==> moved(token_vault_info.k, token_owner_account_info.k, amount) { unimplemented!() }
#[verifier::external_body]
pub fn pino_transfer_from_owner_to_vault(authority_info: &AccountInfo, token_owner_account_info: &AccountInfo, token_vault_info: &AccountInfo, token_program_info: &AccountInfo, amount: u64) -> (r: Result<()>)
    ensures r is Ok ==> moved(token_owner_account_info.k, token_vault_info.k, amount) { unimplemented!() }
#[verifier::external_body]
pub fn pino_transfer_from_owner_to_vault_v2(authority_info: &AccountInfo, token_mint_info: &AccountInfo, token_owner_account_info: &AccountInfo, token_vault_info: &AccountInfo, token_program_info: &AccountInfo,
    memo_program_info: &AccountInfo, transfer_hook_account_infos: &Option<Vec<&AccountInfo>>, amount: u64) -> (r: Result<()>)
    ensures r is Ok ==> moved(token_owner_account_info.k, token_vault_info.k, amount)
        && pino_moved_with(token_owner_account_info.k, token_vault_info.k, token_mint_info.k, token_program_info.k, pino_hook_tag(*transfer_hook_account_infos)) { unimplemented!() }
#[verifier::external_body]
pub fn pino_transfer_from_vault_to_owner_v2(whirlpool: &MemoryMappedWhirlpool, whirlpool_info: &AccountInfo, token_mint_info: &AccountInfo, token_vault_info: &AccountInfo, token_owner_account_info: &AccountInfo,
    token_program_info: &AccountInfo, memo_program_info: &AccountInfo, transfer_hook_account_infos: &Option<Vec<&AccountInfo>>, amount: u64, memo: &[u8]) -> (r: Result<()>)
    ensures r is Ok ==> moved(token_vault_info.k, token_owner_account_info.k, amount)
        && pino_moved_with(token_vault_info.k, token_owner_account_info.k, token_mint_info.k, token_program_info.k, pino_hook_tag(*transfer_hook_account_infos)) { unimplemented!() }
/// C16 / C15: a token-extension transfer is made WITH the mint account, the token program and the transfer-hook accounts of the token side it moves
pub uninterp spec fn pino_moved_with(from: Pubkey, to: Pubkey, mint: Pubkey, program: Pubkey, hooks: int) -> bool;
pub uninterp spec fn pino_hook_tag(h: Option<Vec<&AccountInfo>>) -> int;
//@ root programs/whirlpool/src
//@ enum util/v2/remaining_accounts_utils.rs AccountsType
//@ struct util/v2/remaining_accounts_utils.rs RemainingAccountsSlice RemainingAccountsInfo
//@ struct pinocchio/ported/util_remaining_accounts_utils.rs PinoParsedRemainingAccounts
//@ enum instructions/v2/increase_liquidity.rs IncreaseLiquidityMethod
//@ enum instructions/v2/reposition_liquidity_v2.rs RepositionLiquidityMethod
#[verifier::external_body]
pub fn pino_parse_remaining_accounts<'a>(remaining_accounts: &'a [AccountInfo], remaining_accounts_info: &Option<RemainingAccountsInfo>, valid_accounts_type_list: &[AccountsType]) -> (r: Result<PinoParsedRemainingAccounts<'a>>) { unimplemented!() }
#[verifier::external_body]
pub fn pino_ensure_position_has_enough_rent_for_ticks(funder_info: &AccountInfo, position_info: &AccountInfo, system_program_info: &AccountInfo) -> (r: Result<()>) { unimplemented!() }
pub mod transfer_memo { pub const TRANSFER_MEMO_DECREASE_LIQUIDITY: &'static str = "Orca Liq"; }
#[verifier::external_body]
pub fn memo_bytes(s: &'static str) -> (r: &'static [u8]) { s.as_bytes() }
//@ subst /transfer_memo::TRANSFER_MEMO_DECREASE_LIQUIDITY\.as_bytes\(\)/ => /memo_bytes(transfer_memo::TRANSFER_MEMO_DECREASE_LIQUIDITY)/
//@ enum pinocchio/events.rs Event
/// what an emitted event reports (C06 / C08: indexers and the SDK read the moved amounts and fees from here)
pub uninterp spec fn pino_emitted<'a>(e: Event<'a>) -> bool;
impl<'a> Event<'a> {
    #[verifier::external_body]
    pub fn emit(&self) -> (r: Result<()>) ensures r is Ok ==> pino_emitted(*self) { unimplemented!() }
}
/// a LiquidityIncreased / LiquidityDecreased event with exactly these contents
pub open spec fn liq_event_is<'a>(e: Event<'a>, increased: bool, wp: Pubkey, pos: Pubkey, lo: i32, hi: i32, liq: u128, a: u64, b: u64, fa: u64, fb: u64) -> bool {
    match e {
        Event::LiquidityIncreased { whirlpool, position, tick_lower_index, tick_upper_index, liquidity, token_a_amount, token_b_amount, token_a_transfer_fee, token_b_transfer_fee } =>
            increased && *whirlpool == wp && *position == pos && tick_lower_index == lo && tick_upper_index == hi && liquidity == liq && token_a_amount == a && token_b_amount == b && token_a_transfer_fee == fa && token_b_transfer_fee == fb,
        Event::LiquidityDecreased { whirlpool, position, tick_lower_index, tick_upper_index, liquidity, token_a_amount, token_b_amount, token_a_transfer_fee, token_b_transfer_fee } =>
            !increased && *whirlpool == wp && *position == pos && tick_lower_index == lo && tick_upper_index == hi && liquidity == liq && token_a_amount == a && token_b_amount == b && token_a_transfer_fee == fa && token_b_transfer_fee == fb,
        _ => false,
    }
}
pub mod instruction {
    use vstd::prelude::*;
    use super::*;
    pub struct DecreaseLiquidity { pub liquidity_amount: u128, pub token_min_a: u64, pub token_min_b: u64 }
    pub uninterp spec fn dec_decrease(b: Seq<u8>) -> DecreaseLiquidity;
    impl DecreaseLiquidity {
        #[verifier::external_body]
        pub fn try_from_slice(b: &[u8]) -> (r: Result<Self>) ensures r matches Ok(d) ==> d == dec_decrease(b@) { unimplemented!() }
    }
    pub use super::{RemainingAccountsInfo, IncreaseLiquidityMethod, RepositionLiquidityMethod};
    pub struct DecreaseLiquidityV2 { pub liquidity_amount: u128, pub token_min_a: u64, pub token_min_b: u64, pub remaining_accounts_info: Option<RemainingAccountsInfo> }
    pub uninterp spec fn dec_decrease_v2(b: Seq<u8>) -> DecreaseLiquidityV2;
    impl DecreaseLiquidityV2 {
        #[verifier::external_body]
        pub fn try_from_slice(b: &[u8]) -> (r: Result<Self>) ensures r matches Ok(d) ==> d == dec_decrease_v2(b@) { unimplemented!() }
    }
    pub struct IncreaseLiquidityV2 { pub liquidity_amount: u128, pub token_max_a: u64, pub token_max_b: u64, pub remaining_accounts_info: Option<RemainingAccountsInfo> }
    pub uninterp spec fn dec_increase_v2(b: Seq<u8>) -> IncreaseLiquidityV2;
    impl IncreaseLiquidityV2 {
        #[verifier::external_body]
        pub fn try_from_slice(b: &[u8]) -> (r: Result<Self>) ensures r matches Ok(d) ==> d == dec_increase_v2(b@) { unimplemented!() }
    }
    pub struct IncreaseLiquidityByTokenAmountsV2 { pub method: IncreaseLiquidityMethod, pub remaining_accounts_info: Option<RemainingAccountsInfo> }
    pub uninterp spec fn dec_increase_bta(b: Seq<u8>) -> IncreaseLiquidityByTokenAmountsV2;
    impl IncreaseLiquidityByTokenAmountsV2 {
        #[verifier::external_body]
        pub fn try_from_slice(b: &[u8]) -> (r: Result<Self>) ensures r matches Ok(d) ==> d == dec_increase_bta(b@) { unimplemented!() }
    }
    pub struct RepositionLiquidityV2 { pub new_tick_lower_index: i32, pub new_tick_upper_index: i32, pub method: RepositionLiquidityMethod, pub remaining_accounts_info: Option<RemainingAccountsInfo> }
    pub uninterp spec fn dec_reposition(b: Seq<u8>) -> RepositionLiquidityV2;
    impl RepositionLiquidityV2 {
        #[verifier::external_body]
        pub fn try_from_slice(b: &[u8]) -> (r: Result<Self>) ensures r matches Ok(d) ==> d == dec_reposition(b@) { unimplemented!() }
    }
    pub struct IncreaseLiquidity { pub liquidity_amount: u128, pub token_max_a: u64, pub token_max_b: u64 }
    pub uninterp spec fn dec_increase(b: Seq<u8>) -> IncreaseLiquidity;
    impl IncreaseLiquidity {
        #[verifier::external_body]
        pub fn try_from_slice(b: &[u8]) -> (r: Result<Self>) ensures r matches Ok(d) ==> d == dec_increase(b@) { unimplemented!() }
    }
}

pub open spec fn wp(i: AccountInfo) -> MemoryMappedWhirlpool { acct::<MemoryMappedWhirlpool>(i) }
pub open spec fn pos(i: AccountInfo) -> MemoryMappedPosition { acct::<MemoryMappedPosition>(i) }
pub open spec fn tok(i: AccountInfo) -> MemoryMappedTokenAccount { acct_of_bytes::<MemoryMappedTokenAccount>(i.data()) }
/// C04: the position-authority rule on the labelled accounts
pub open spec fn authority_ok(token_account: AccountInfo, authority: AccountInfo) -> bool {
    authority_rule(tok(token_account).owner_k(), tok(token_account).delegate_k(), tok(token_account).delegated(), authority.k, authority.signer)
}
/// C15 for the position-modifying instructions: the position belongs to the named pool, the position token account holds exactly one token of the
/// position's mint, the two vaults are the pool's vaults, both tick arrays belong to the pool
pub open spec fn position_accounts_ok(pool: AccountInfo, position: AccountInfo, position_token: AccountInfo, vault_a: AccountInfo, vault_b: AccountInfo) -> bool {
    &&& pool.writable && pool.owner_k == address::WHIRLPOOL_PROGRAM_ID
    &&& position.writable && position.owner_k == address::WHIRLPOOL_PROGRAM_ID
    &&& pos(position).view().whirlpool == pool.k
    &&& tok(position_token).mint_k() == pos(position).view().position_mint && tok(position_token).amount_v() == 1
    &&& vault_a.k == wp(pool).token_vault_a_v() && vault_b.k == wp(pool).token_vault_b_v()
}

//@ subst /use anchor_lang::AnchorDeserialize;/ => //
//@ subst /crate::instruction::/ => /instruction::/
/// decrease_liquidity (plain SPL tokens). Success implies (C15) the account relations, (C04) the authority rule with a signature, (C18) the position
/// token is not frozen (locked), a non-zero amount; further, as tagged assertions over the handler's own values before it returns: (C08) the two
/// token amounts are the rounded-down deltas of the removed liquidity at the pool's price and are not below the caller's minima, (C06/C01) exactly
/// these amounts are moved from vault A/B to the owner's account A/B.
//@ fn pinocchio/instructions/decrease_liquidity.rs handler -> r as=decrease_liquidity_handler tags=C15,C04,C18,C08
    requires data.len() >= 8,
    ensures
        r is Ok ==> accounts@.len() >= 11,
        r is Ok ==> accounts@[1].k == address::TOKEN_PROGRAM_ID, //# C15
        r is Ok ==> position_accounts_ok(accounts@[0], accounts@[3], accounts@[4], accounts@[7], accounts@[8]), //# C15
        r is Ok ==> ta_ok(accounts@[9], accounts@[0].k) && ta_ok(accounts@[10], accounts@[0].k), //# C15
        r is Ok ==> authority_ok(accounts@[4], accounts@[2]), //# C04
        r is Ok ==> !tok(accounts@[4]).frozen(), //# C18
        r is Ok ==> instruction::dec_decrease(data@.subrange(8, data@.len() as int)).liquidity_amount != 0, //# C08 C05
//@ inject before /^    Event::LiquidityDecreased \{/
    proof {
        let d = instruction::dec_decrease(old_data@.subrange(8, old_data@.len() as int));
        assert(delta_a >= d.token_min_a && delta_b >= d.token_min_b); //# C08
        assert(liquidity_delta as int == -(d.liquidity_amount as int)); //# C08 C05
        assert(token_deltas_spec(whirlpool.v.tick_current_index_v() as int, whirlpool.v.sqrt_price_v() as int, position.v.view().tick_lower_index as int, position.v.view().tick_upper_index as int, liquidity_delta as int, delta_a as int, delta_b as int)); //# C08
        assert(moved(accounts@[7].k, accounts@[5].k, delta_a) && moved(accounts@[8].k, accounts@[6].k, delta_b)); //# C06 C01 C15
    }
//@ inject at /^\{/
    let ghost old_data = data;
//@ inject before /^    Ok\(\(\)\)$/
    // the event reports THIS pool and position, the position's range, the liquidity change and, per token side, the amount moved and the fee withheld
    proof { assert(exists|e: Event| #[trigger] pino_emitted(e) && liq_event_is(e, false, whirlpool_info.k, position_info.k, position.v.view().tick_lower_index, position.v.view().tick_upper_index, data.liquidity_amount, delta_a, delta_b, 0, 0)); } //# C06 C08 C16
//@ end

/// increase_liquidity (plain SPL tokens): same account relations and authority rule (a locked position may still add liquidity); (C08) the deposits are the
/// rounded-up deltas and do not exceed the caller's maxima; they are moved from the owner's accounts to vault A/B.
//@ fn pinocchio/instructions/increase_liquidity.rs handler -> r as=increase_liquidity_handler tags=C15,C04,C08
    requires data.len() >= 8,
    ensures
        r is Ok ==> accounts@.len() >= 11,
        r is Ok ==> accounts@[1].k == address::TOKEN_PROGRAM_ID, //# C15
        r is Ok ==> position_accounts_ok(accounts@[0], accounts@[3], accounts@[4], accounts@[7], accounts@[8]), //# C15
        r is Ok ==> ta_ok(accounts@[9], accounts@[0].k) && ta_ok(accounts@[10], accounts@[0].k), //# C15
        r is Ok ==> authority_ok(accounts@[4], accounts@[2]), //# C04
        r is Ok ==> instruction::dec_increase(data@.subrange(8, data@.len() as int)).liquidity_amount != 0, //# C08 C05
//@ inject before /^    Event::LiquidityIncreased \{/
    proof {
        let d = instruction::dec_increase(old_data@.subrange(8, old_data@.len() as int));
        assert(delta_a <= d.token_max_a && delta_b <= d.token_max_b); //# C08
        assert(liquidity_delta as int == d.liquidity_amount as int); //# C08 C05
        assert(token_deltas_spec(whirlpool.v.tick_current_index_v() as int, whirlpool.v.sqrt_price_v() as int, position.v.view().tick_lower_index as int, position.v.view().tick_upper_index as int, liquidity_delta as int, delta_a as int, delta_b as int)); //# C08
        assert(moved(accounts@[5].k, accounts@[7].k, delta_a) && moved(accounts@[6].k, accounts@[8].k, delta_b)); //# C06 C01 C15
    }
//@ inject at /^\{/
    let ghost old_data = data;
//@ inject before /^    Ok\(\(\)\)$/
    // the event reports THIS pool and position, the position's range, the liquidity change and, per token side, the amount moved and the fee withheld
    proof { assert(exists|e: Event| #[trigger] pino_emitted(e) && liq_event_is(e, true, whirlpool_info.k, position_info.k, position.v.view().tick_lower_index, position.v.view().tick_upper_index, data.liquidity_amount, delta_a, delta_b, 0, 0)); } //# C06 C08 C16
//@ end

/// C15 for the token-extension aware variants: additionally each token program is the owner of its mint account and the two mint accounts are the pool's mints
pub open spec fn v2_mints_ok(pool: AccountInfo, program_a: AccountInfo, program_b: AccountInfo, mint_a: AccountInfo, mint_b: AccountInfo) -> bool {
    &&& (program_a.k == address::TOKEN_PROGRAM_ID || program_a.k == address::TOKEN_2022_PROGRAM_ID) && (program_b.k == address::TOKEN_PROGRAM_ID || program_b.k == address::TOKEN_2022_PROGRAM_ID)
    &&& program_a.k == mint_a.owner_k && program_b.k == mint_b.owner_k
    &&& mint_a.k == wp(pool).token_mint_a_v() && mint_b.k == wp(pool).token_mint_b_v()
}
/// decrease_liquidity_v2: as decrease_liquidity; (C16/C08) the minima apply to what the owner actually receives (delta minus the mint's transfer fee),
/// the vaults send the full deltas, the event reports the deltas and the fees.
//@ fn pinocchio/instructions/decrease_liquidity_v2.rs handler -> r as=decrease_liquidity_v2_handler tags=C15,C04,C18,C08,C16
    requires data.len() >= 8,
    ensures
        r is Ok ==> accounts@.len() >= 15,
        r is Ok ==> accounts@[3].k == address::MEMO_PROGRAM_ID, //# C15
        r is Ok ==> v2_mints_ok(accounts@[0], accounts@[1], accounts@[2], accounts@[7], accounts@[8]), //# C15
        r is Ok ==> position_accounts_ok(accounts@[0], accounts@[5], accounts@[6], accounts@[11], accounts@[12]), //# C15
        r is Ok ==> ta_ok(accounts@[13], accounts@[0].k) && ta_ok(accounts@[14], accounts@[0].k), //# C15
        r is Ok ==> authority_ok(accounts@[6], accounts@[4]), //# C04
        r is Ok ==> !tok(accounts@[6]).frozen(), //# C18
        r is Ok ==> instruction::dec_decrease_v2(data@.subrange(8, data@.len() as int)).liquidity_amount != 0, //# C08 C05
//@ inject before /^    Event::LiquidityDecreased \{/
    proof {
        let d = instruction::dec_decrease_v2(old_data@.subrange(8, old_data@.len() as int));
        assert(delta_a as int - pino_mint_fee(accounts@[7], delta_a as int) >= d.token_min_a && delta_b as int - pino_mint_fee(accounts@[8], delta_b as int) >= d.token_min_b); //# C08 C16
        assert(liquidity_delta as int == -(d.liquidity_amount as int)); //# C08 C05
        assert(token_deltas_spec(whirlpool.v.tick_current_index_v() as int, whirlpool.v.sqrt_price_v() as int, position.v.view().tick_lower_index as int, position.v.view().tick_upper_index as int, liquidity_delta as int, delta_a as int, delta_b as int)); //# C08
        assert(moved(accounts@[11].k, accounts@[9].k, delta_a) && moved(accounts@[12].k, accounts@[10].k, delta_b)); //# C06 C01 C15 C16
        // each transfer uses the mint account, token program and transfer-hook accounts of ITS token
        assert(pino_moved_with(accounts@[11].k, accounts@[9].k, accounts@[7].k, accounts@[1].k, pino_hook_tag(remaining_accounts.transfer_hook_a))
            && pino_moved_with(accounts@[12].k, accounts@[10].k, accounts@[8].k, accounts@[2].k, pino_hook_tag(remaining_accounts.transfer_hook_b))); //# C16 C15
        assert(transfer_fee_excluded_delta_a.transfer_fee as int == pino_mint_fee(accounts@[7], delta_a as int) && transfer_fee_excluded_delta_b.transfer_fee as int == pino_mint_fee(accounts@[8], delta_b as int)); //# C16
    }
//@ inject at /^\{/
    let ghost old_data = data;
//@ inject before /^    Ok\(\(\)\)$/
    // the event reports THIS pool and position, the position's range, the liquidity change and, per token side, the amount moved and the fee withheld
    proof { assert(exists|e: Event| #[trigger] pino_emitted(e) && liq_event_is(e, false, whirlpool_info.k, position_info.k, position.v.view().tick_lower_index, position.v.view().tick_upper_index, data.liquidity_amount, delta_a, delta_b, transfer_fee_excluded_delta_a.transfer_fee, transfer_fee_excluded_delta_b.transfer_fee)); } //# C06 C08 C16
//@ end

/// increase_liquidity_v2: as increase_liquidity; (C16/C08) the owner is charged the delta grossed up with the mint's transfer fee so that the vault receives
/// exactly the delta, and the maxima apply to what the owner is charged.
//@ fn pinocchio/instructions/increase_liquidity_v2.rs handler -> r as=increase_liquidity_v2_handler tags=C15,C04,C08,C16
    requires data.len() >= 8,
    ensures
        r is Ok ==> accounts@.len() >= 15,
        r is Ok ==> accounts@[3].k == address::MEMO_PROGRAM_ID, //# C15
        r is Ok ==> v2_mints_ok(accounts@[0], accounts@[1], accounts@[2], accounts@[7], accounts@[8]), //# C15
        r is Ok ==> position_accounts_ok(accounts@[0], accounts@[5], accounts@[6], accounts@[11], accounts@[12]), //# C15
        r is Ok ==> ta_ok(accounts@[13], accounts@[0].k) && ta_ok(accounts@[14], accounts@[0].k), //# C15
        r is Ok ==> authority_ok(accounts@[6], accounts@[4]), //# C04
        r is Ok ==> instruction::dec_increase_v2(data@.subrange(8, data@.len() as int)).liquidity_amount != 0, //# C08 C05
//@ inject before /^    Event::LiquidityIncreased \{/
    proof {
        let d = instruction::dec_increase_v2(old_data@.subrange(8, old_data@.len() as int));
        let ca = transfer_fee_included_delta_a.amount; let cb = transfer_fee_included_delta_b.amount;
        assert(ca <= d.token_max_a && cb <= d.token_max_b); //# C08 C16
        assert(ca as int - pino_mint_fee(accounts@[7], ca as int) == delta_a && cb as int - pino_mint_fee(accounts@[8], cb as int) == delta_b); //# C16
        assert(liquidity_delta as int == d.liquidity_amount as int); //# C08 C05
        assert(token_deltas_spec(whirlpool.v.tick_current_index_v() as int, whirlpool.v.sqrt_price_v() as int, position.v.view().tick_lower_index as int, position.v.view().tick_upper_index as int, liquidity_delta as int, delta_a as int, delta_b as int)); //# C08
        assert(moved(accounts@[9].k, accounts@[11].k, ca) && moved(accounts@[10].k, accounts@[12].k, cb)); //# C06 C01 C15 C16
        assert(pino_moved_with(accounts@[9].k, accounts@[11].k, accounts@[7].k, accounts@[1].k, pino_hook_tag(remaining_accounts.transfer_hook_a))
            && pino_moved_with(accounts@[10].k, accounts@[12].k, accounts@[8].k, accounts@[2].k, pino_hook_tag(remaining_accounts.transfer_hook_b))); //# C16 C15
    }
//@ inject at /^\{/
    let ghost old_data = data;
//@ inject before /^    Ok\(\(\)\)$/
    // the event reports THIS pool and position, the position's range, the liquidity change and, per token side, the amount moved and the fee withheld
    proof { assert(exists|e: Event| #[trigger] pino_emitted(e) && liq_event_is(e, true, whirlpool_info.k, position_info.k, position.v.view().tick_lower_index, position.v.view().tick_upper_index, data.liquidity_amount, transfer_fee_included_delta_a.amount, transfer_fee_included_delta_b.amount, transfer_fee_included_delta_a.transfer_fee, transfer_fee_included_delta_b.transfer_fee)); } //# C06 C08 C16
//@ end

pub open spec fn bta_method(d: instruction::IncreaseLiquidityByTokenAmountsV2) -> (u64, u64, u128, u128) {
    match d.method { IncreaseLiquidityMethod::ByTokenAmounts { token_max_a, token_max_b, min_sqrt_price, max_sqrt_price } => (token_max_a, token_max_b, min_sqrt_price, max_sqrt_price) }
}
/// increase_liquidity_by_token_amounts_v2: (C08) the liquidity added is the LARGEST whose cost fits both maxima net of the mints' transfer fees, evaluated at the
/// pool's current price, which must lie inside the caller's price bounds; the owner is charged no more than the maxima.
//@ fn pinocchio/instructions/increase_liquidity_by_token_amounts_v2.rs handler -> r as=increase_liquidity_by_token_amounts_v2_handler tags=C15,C04,C08,C16
    requires data.len() >= 8,
    ensures
        r is Ok ==> accounts@.len() >= 15,
        r is Ok ==> accounts@[3].k == address::MEMO_PROGRAM_ID, //# C15
        r is Ok ==> v2_mints_ok(accounts@[0], accounts@[1], accounts@[2], accounts@[7], accounts@[8]), //# C15
        r is Ok ==> position_accounts_ok(accounts@[0], accounts@[5], accounts@[6], accounts@[11], accounts@[12]), //# C15
        r is Ok ==> ta_ok(accounts@[13], accounts@[0].k) && ta_ok(accounts@[14], accounts@[0].k), //# C15
        r is Ok ==> authority_ok(accounts@[6], accounts@[4]), //# C04
        r is Ok ==> ({ let m = bta_method(instruction::dec_increase_bta(data@.subrange(8, data@.len() as int))); m.2 <= wp(accounts@[0]).sqrt_price_v() <= m.3 }), //# C08 C03
//@ inject before /^    Event::LiquidityIncreased \{/
    proof {
        let d = instruction::dec_increase_bta(old_data@.subrange(8, old_data@.len() as int)); let m = bta_method(d);
        let ca = transfer_fee_included_delta_a.amount; let cb = transfer_fee_included_delta_b.amount;
        assert(ca <= m.0 && cb <= m.1); //# C08 C16
        assert(ca as int - pino_mint_fee(accounts@[7], ca as int) == delta_a && cb as int - pino_mint_fee(accounts@[8], cb as int) == delta_b); //# C16
        assert(liquidity_amount as int == max_liquidity_spec(current_sqrt_price as int, position.v.view().tick_lower_index as int, position.v.view().tick_upper_index as int,
            m.0 as int - pino_mint_fee(accounts@[7], m.0 as int), m.1 as int - pino_mint_fee(accounts@[8], m.1 as int))); //# C08
        assert(liquidity_delta as int == liquidity_amount as int && liquidity_amount != 0); //# C08 C05
        assert(token_deltas_spec(whirlpool.v.tick_current_index_v() as int, current_sqrt_price as int, position.v.view().tick_lower_index as int, position.v.view().tick_upper_index as int, liquidity_delta as int, delta_a as int, delta_b as int)); //# C08
        assert(moved(accounts@[9].k, accounts@[11].k, ca) && moved(accounts@[10].k, accounts@[12].k, cb)); //# C06 C01 C15 C16
        assert(pino_moved_with(accounts@[9].k, accounts@[11].k, accounts@[7].k, accounts@[1].k, pino_hook_tag(remaining_accounts.transfer_hook_a))
            && pino_moved_with(accounts@[10].k, accounts@[12].k, accounts@[8].k, accounts@[2].k, pino_hook_tag(remaining_accounts.transfer_hook_b))); //# C16 C15
    }
//@ inject at /^\{/
    let ghost old_data = data;
//@ inject before /^    Ok\(\(\)\)$/
    // the event reports THIS pool and position, the position's range, the liquidity change and, per token side, the amount moved and the fee withheld
    proof { assert(exists|e: Event| #[trigger] pino_emitted(e) && liq_event_is(e, true, whirlpool_info.k, position_info.k, position.v.view().tick_lower_index, position.v.view().tick_upper_index, liquidity_amount, transfer_fee_included_delta_a.amount, transfer_fee_included_delta_b.amount, transfer_fee_included_delta_a.transfer_fee, transfer_fee_included_delta_b.transfer_fee)); } //# C06 C08 C16
//@ end

// ------------------------------------------------------------------ reposition_liquidity_v2
//@ fn pinocchio/instructions/reposition_liquidity_v2.rs calculate_token_delta -> r tags=C08,C06
    ensures r == (if existing_amount > new_amount { ((existing_amount - new_amount) as u64, false) } else { ((new_amount - existing_amount) as u64, true) }),
//@ end
/// the cost of the new range plus the transfer fee the owner pays on top must not exceed the caller's maximum
//@ fn pinocchio/instructions/reposition_liquidity_v2.rs assert_new_range_token_increase_under_max -> r tags=C08,C16
    ensures r is Ok <==> new_range_amount as int + transfer_fee as int <= token_max as int,
//@ rewrite /pinocchio_log::log!\([^;]*\);/ => //
//@ end
/// C08 / C16 per token: only the difference between what the old range releases and what the new range needs is transferred; towards the vault it is grossed
/// up with the mint's fee (the vault receives exactly the difference); the NEW range's cost (plus that fee) is bounded by the caller's maximum in EITHER direction
//@ fn pinocchio/instructions/reposition_liquidity_v2.rs calculate_token_transfer_info -> r tags=C08,C16
    ensures
        r matches Ok(t) ==> t.2 == (existing_range_decrease_amount <= new_range_increase_amount), //# C08 C06
        r matches Ok(t) ==> t.1 as int == pino_mint_fee(*token_mint_info, t.0 as int), //# C16
        r matches Ok(t) ==> (t.2 ==> t.0 as int - t.1 as int == new_range_increase_amount as int - existing_range_decrease_amount as int), //# C16 C08
        r matches Ok(t) ==> (!t.2 ==> t.0 as int == existing_range_decrease_amount as int - new_range_increase_amount as int), //# C08 C06
        r matches Ok(t) ==> (t.2 ==> new_range_increase_amount as int + t.1 as int <= token_max as int), //# C08 C16
        r matches Ok(t) ==> new_range_increase_amount as int <= token_max as int, //# C08
//@ end
//@ fn pinocchio/instructions/reposition_liquidity_v2.rs execute_token_delta_transfers -> r tags=C06,C15,C16 canary
    ensures r is Ok ==> (if is_token_a_transfer_from_owner { moved(token_owner_account_a.k, token_vault_a.k, token_a_delta) } else { moved(token_vault_a.k, token_owner_account_a.k, token_a_delta) })
                     && (if is_token_b_transfer_from_owner { moved(token_owner_account_b.k, token_vault_b.k, token_b_delta) } else { moved(token_vault_b.k, token_owner_account_b.k, token_b_delta) }),
        // each transfer uses the mint, token program and the deposit / withdrawal transfer-hook accounts of ITS token and direction
        r is Ok ==> (if is_token_a_transfer_from_owner { pino_moved_with(token_owner_account_a.k, token_vault_a.k, token_mint_a.k, token_program_a.k, pino_hook_tag(remaining_accounts.transfer_hook_deposit_a)) }
                     else { pino_moved_with(token_vault_a.k, token_owner_account_a.k, token_mint_a.k, token_program_a.k, pino_hook_tag(remaining_accounts.transfer_hook_withdrawal_a)) })
                 && (if is_token_b_transfer_from_owner { pino_moved_with(token_owner_account_b.k, token_vault_b.k, token_mint_b.k, token_program_b.k, pino_hook_tag(remaining_accounts.transfer_hook_deposit_b)) }
                     else { pino_moved_with(token_vault_b.k, token_owner_account_b.k, token_mint_b.k, token_program_b.k, pino_hook_tag(remaining_accounts.transfer_hook_withdrawal_b)) }), //# C16 C15
//@ end
/// removing everything from the existing range: nothing to do for an empty position; otherwise both tick arrays must belong to the pool, the amounts are the rounded-down deltas
//@ fn pinocchio/instructions/reposition_liquidity_v2.rs decrease_liquidity_from_existing_range -> r tags=C15,C08,C05 canary
    requires old(whirlpool).reachable(), old(position).reachable(),
    ensures
        r is Ok ==> final(position).view().whirlpool == old(position).view().whirlpool && final(position).view().position_mint == old(position).view().position_mint
            && final(position).view().tick_lower_index == old(position).view().tick_lower_index && final(position).view().tick_upper_index == old(position).view().tick_upper_index
            && final(whirlpool).reachable() && final(whirlpool).sqrt_price_v() == old(whirlpool).sqrt_price_v() && final(whirlpool).tick_current_index_v() == old(whirlpool).tick_current_index_v()
            && final(whirlpool).token_vault_a_v() == old(whirlpool).token_vault_a_v() && final(whirlpool).token_vault_b_v() == old(whirlpool).token_vault_b_v()
            && final(whirlpool).token_mint_a_v() == old(whirlpool).token_mint_a_v() && final(whirlpool).token_mint_b_v() == old(whirlpool).token_mint_b_v(),
        old(position).view().liquidity == 0 ==> r is Ok && *final(token_a_amount_out) == 0 && *final(token_b_amount_out) == 0 && final(position).view() == old(position).view(),
        r is Ok && old(position).view().liquidity != 0 ==> ta_ok(*existing_tick_array_lower_info, *whirlpool_pubkey) && ta_ok(*existing_tick_array_upper_info, *whirlpool_pubkey) //# C15
            && token_deltas_spec(old(whirlpool).tick_current_index_v() as int, old(whirlpool).sqrt_price_v() as int, old(position).view().tick_lower_index as int, old(position).view().tick_upper_index as int,
                -(old(position).view().liquidity as int), *final(token_a_amount_out) as int, *final(token_b_amount_out) as int),
//@ end
//@ fn pinocchio/instructions/reposition_liquidity_v2.rs increase_liquidity_into_new_range -> r tags=C15,C08,C05 canary
    requires old(whirlpool).reachable(), old(position).reachable(),
    ensures
        r is Ok ==> final(position).view().whirlpool == old(position).view().whirlpool
            && final(position).view().tick_lower_index == old(position).view().tick_lower_index && final(position).view().tick_upper_index == old(position).view().tick_upper_index
            && final(whirlpool).token_vault_a_v() == old(whirlpool).token_vault_a_v() && final(whirlpool).token_vault_b_v() == old(whirlpool).token_vault_b_v(),
        r matches Ok(ab) ==> ta_ok(*new_tick_array_lower_info, *whirlpool_pubkey) && ta_ok(*new_tick_array_upper_info, *whirlpool_pubkey) //# C15
            && new_range_liquidity != 0
            && token_deltas_spec(old(whirlpool).tick_current_index_v() as int, old(whirlpool).sqrt_price_v() as int, old(position).view().tick_lower_index as int, old(position).view().tick_upper_index as int,
                new_range_liquidity as int, ab.0 as int, ab.1 as int),
//@ end
pub open spec fn repo_method(d: instruction::RepositionLiquidityV2) -> (u128, u64, u64, u64, u64) {
    match d.method { RepositionLiquidityMethod::ByLiquidity { new_liquidity_amount, existing_range_token_min_a, existing_range_token_min_b, new_range_token_max_a, new_range_token_max_b } =>
        (new_liquidity_amount, existing_range_token_min_a, existing_range_token_min_b, new_range_token_max_a, new_range_token_max_b) }
}
/// reposition_liquidity_v2: account relations as for the other liquidity instructions (all four tick arrays belong to the pool as far as they are used), authority rule,
/// not locked, funder signed; the old range's release net of fee is not below the caller's minima and the new range's cost is not above the caller's maxima;
/// only the differences move.
//@ fn pinocchio/instructions/reposition_liquidity_v2.rs handler -> r as=reposition_liquidity_v2_handler tags=C15,C04,C18,C08,C16
    requires data.len() >= 8,
    ensures
        r is Ok ==> accounts@.len() >= 19,
        r is Ok ==> accounts@[3].k == address::MEMO_PROGRAM_ID && accounts@[18].k == address::SYSTEM_PROGRAM_ID, //# C15
        r is Ok ==> v2_mints_ok(accounts@[0], accounts@[1], accounts@[2], accounts@[8], accounts@[9]), //# C15
        r is Ok ==> position_accounts_ok(accounts@[0], accounts@[6], accounts@[7], accounts@[12], accounts@[13]), //# C15
        r is Ok ==> ta_ok(accounts@[16], accounts@[0].k) && ta_ok(accounts@[17], accounts@[0].k), //# C15
        r is Ok && pos(accounts@[6]).view().liquidity != 0 ==> ta_ok(accounts@[14], accounts@[0].k) && ta_ok(accounts@[15], accounts@[0].k), //# C15
        r is Ok ==> authority_ok(accounts@[7], accounts@[4]) && accounts@[5].signer, //# C04
        r is Ok ==> !tok(accounts@[7]).frozen(), //# C18
        r is Ok ==> repo_method(instruction::dec_reposition(data@.subrange(8, data@.len() as int))).0 != 0, //# C08 C05
//@ inject before /^    Event::LiquidityRepositioned \{/
    proof {
        let d = instruction::dec_reposition(old_data@.subrange(8, old_data@.len() as int)); let m = repo_method(d);
        let ea = existing_range_token_a_decrease_amount; let eb = existing_range_token_b_decrease_amount;
        assert(ea as int - pino_mint_fee(accounts@[8], ea as int) >= m.1 && eb as int - pino_mint_fee(accounts@[9], eb as int) >= m.2); //# C08 C16
        assert(new_range_token_a_increase_amount <= m.3 && new_range_token_b_increase_amount <= m.4); //# C08
        assert(is_token_a_transfer_from_owner ==> new_range_token_a_increase_amount as int + token_a_transfer_fee as int <= m.3); //# C08 C16
        assert(is_token_b_transfer_from_owner ==> new_range_token_b_increase_amount as int + token_b_transfer_fee as int <= m.4); //# C08 C16
        assert(if is_token_a_transfer_from_owner { moved(accounts@[10].k, accounts@[12].k, token_a_transfer_amount) } else { moved(accounts@[12].k, accounts@[10].k, token_a_transfer_amount) }); //# C06 C01 C15
        assert(if is_token_b_transfer_from_owner { moved(accounts@[11].k, accounts@[13].k, token_b_transfer_amount) } else { moved(accounts@[13].k, accounts@[11].k, token_b_transfer_amount) }); //# C06 C01 C15
        assert(position.v.view().tick_lower_index == d.new_tick_lower_index && position.v.view().tick_upper_index == d.new_tick_upper_index); //# C18
        // each transfer uses the mint, token program and the deposit / withdrawal hook accounts of ITS token and direction
        assert(if is_token_a_transfer_from_owner { pino_moved_with(accounts@[10].k, accounts@[12].k, accounts@[8].k, accounts@[1].k, pino_hook_tag(remaining_accounts.transfer_hook_deposit_a)) }
               else { pino_moved_with(accounts@[12].k, accounts@[10].k, accounts@[8].k, accounts@[1].k, pino_hook_tag(remaining_accounts.transfer_hook_withdrawal_a)) }); //# C16 C15
        assert(if is_token_b_transfer_from_owner { pino_moved_with(accounts@[11].k, accounts@[13].k, accounts@[9].k, accounts@[2].k, pino_hook_tag(remaining_accounts.transfer_hook_deposit_b)) }
               else { pino_moved_with(accounts@[13].k, accounts@[11].k, accounts@[9].k, accounts@[2].k, pino_hook_tag(remaining_accounts.transfer_hook_withdrawal_b)) }); //# C16 C15
    }
//@ inject at /^\{/
    let ghost old_data = data;
//@ end

// ------------------------------------------------------------------ reachability canaries (vacuity guard, see tools/run.py)
/// reachability canary (must FAIL): the same body with the contract 'never succeeds'
//@ fn pinocchio/utils/account_load.rs load_account_mut -> r as=reach_canary_load_account_mut tags=C15
    ensures r is Err,
//@ end
/// reachability canary (must FAIL): the same body with the contract 'never succeeds'
//@ fn pinocchio/utils/account_load.rs load_token_program_account -> r as=reach_canary_load_token_program_account tags=C15
    ensures r is Err,
//@ rewrite /owner_program_id\[31\]/ => /owner_program_id.0[31]/
//@ end
/// reachability canary (must FAIL): the same body with the contract 'never succeeds'
//@ fn pinocchio/instructions/decrease_liquidity.rs handler -> r as=reach_canary_decrease_liquidity_handler tags=C15,C04,C18,C08
    requires data.len() >= 8,
    ensures r is Err,
//@ end
/// reachability canary (must FAIL): the same body with the contract 'never succeeds'
//@ fn pinocchio/instructions/increase_liquidity.rs handler -> r as=reach_canary_increase_liquidity_handler tags=C15,C04,C08
    requires data.len() >= 8,
    ensures r is Err,
//@ end
/// reachability canary (must FAIL): the same body with the contract 'never succeeds'
//@ fn pinocchio/instructions/decrease_liquidity_v2.rs handler -> r as=reach_canary_decrease_liquidity_v2_handler tags=C15,C04,C18,C08,C16
    requires data.len() >= 8,
    ensures r is Err,
//@ end
/// reachability canary (must FAIL): the same body with the contract 'never succeeds'
//@ fn pinocchio/instructions/increase_liquidity_v2.rs handler -> r as=reach_canary_increase_liquidity_v2_handler tags=C15,C04,C08,C16
    requires data.len() >= 8,
    ensures r is Err,
//@ end
/// reachability canary (must FAIL): the same body with the contract 'never succeeds'
//@ fn pinocchio/instructions/increase_liquidity_by_token_amounts_v2.rs handler -> r as=reach_canary_increase_liquidity_by_token_amounts_v2_handler tags=C15,C04,C08,C16
    requires data.len() >= 8,
    ensures r is Err,
//@ end
/// reachability canary (must FAIL): the same body with the contract 'never succeeds'
//@ fn pinocchio/instructions/reposition_liquidity_v2.rs calculate_token_transfer_info -> r as=reach_canary_calculate_token_transfer_info tags=C08,C16
    ensures r is Err,
//@ end
/// reachability canary (must FAIL): the same body with the contract 'never succeeds'
//@ fn pinocchio/instructions/reposition_liquidity_v2.rs handler -> r as=reach_canary_reposition_liquidity_v2_handler tags=C15,C04,C18,C08,C16
    requires data.len() >= 8,
    ensures r is Err,
//@ end
}
