//@ needs specs errors stdspecs anchor_shim
// C04 kernel: the position-authority rule, both runtimes. Account types are shims with exactly the fields the functions read.
pub mod authority {
use vstd::prelude::*;
use crate::errors::ErrorCode;
use crate::anchor_shim::*;
//@ tags C04
//@ assume authority shims: anchor_spl TokenAccount / InterfaceAccount / Signer / AccountInfo and solana COption are plain structs with the fields read by the extracted functions (owner, delegate, delegated_amount, key, is_signer)
pub enum COption<T> { None, Some(T) }
pub struct TokenAccount { pub owner: Pubkey, pub delegate: COption<Pubkey>, pub delegated_amount: u64, pub amount: u64, pub mint: Pubkey }
pub type TokenAccountInterface = TokenAccount;
pub struct AccountInfo<'a> { pub key: &'a Pubkey, pub is_signer: bool, pub is_writable: bool }
pub struct Signer<'a> { pub info: AccountInfo<'a> }
impl<'a> Signer<'a> {
    pub fn to_account_info(&self) -> (r: AccountInfo<'a>) ensures r == self.info { AccountInfo { key: self.info.key, is_signer: self.info.is_signer, is_writable: self.info.is_writable } }
}
impl<'a> std::ops::Deref for Signer<'a> {
    type Target = AccountInfo<'a>;
    fn deref(&self) -> (r: &AccountInfo<'a>) ensures *r == self.info { &self.info }
}
pub struct InterfaceAccount<'a, T> { pub data: T, pub info: AccountInfo<'a> }
impl<'a, T> std::ops::Deref for InterfaceAccount<'a, T> {
    type Target = T;
    fn deref(&self) -> (r: &T) ensures *r == self.data { &self.data }
}

/// the rule of C04 for position operations: a signature of the token owner, or of its delegate for exactly one token
pub open spec fn authority_rule(owner: Pubkey, delegate: Option<Pubkey>, delegated_amount: u64, auth_key: Pubkey, auth_is_signer: bool) -> bool {
    auth_is_signer && (auth_key == owner || (delegate == Some(auth_key) && delegated_amount == 1))
}
pub open spec fn copt(c: COption<Pubkey>) -> Option<Pubkey> { match c { COption::None => None, COption::Some(k) => Some(k) } }

//@ fn util/shared.rs validate_owner -> r
    ensures
        r is Ok <==> (*expected_owner == *owner_account_info.key && owner_account_info.is_signer),
        r is Err ==> r == err::<()>(ErrorCode::MissingOrInvalidDelegate),
//@ end

//@ fn util/shared.rs verify_position_authority -> r
    ensures
        r is Ok ==> authority_rule(position_token_account.owner, copt(position_token_account.delegate), position_token_account.delegated_amount, *position_authority.info.key, position_authority.info.is_signer),
        // with the right key but no signature, or a wrong key, it fails
        !position_authority.info.is_signer ==> r is Err,
        (*position_authority.info.key != position_token_account.owner && copt(position_token_account.delegate) != Some(*position_authority.info.key)) ==> r is Err,
        (copt(position_token_account.delegate) == Some(*position_authority.info.key) && position_token_account.delegated_amount != 1) ==> r is Err,
//@ end

//@ fn util/shared.rs verify_position_bundle_authority -> r
    ensures
        r is Ok ==> authority_rule(position_bundle_token_account.owner, copt(position_bundle_token_account.delegate), position_bundle_token_account.delegated_amount, *position_bundle_authority.info.key, position_bundle_authority.info.is_signer),
        !position_bundle_authority.info.is_signer ==> r is Err,
//@ end

//@ fn util/shared.rs verify_position_authority_interface -> r
    ensures
        r is Ok ==> authority_rule(position_token_account.data.owner, copt(position_token_account.data.delegate), position_token_account.data.delegated_amount, *position_authority.info.key, position_authority.info.is_signer),
        !position_authority.info.is_signer ==> r is Err,
        (*position_authority.info.key != position_token_account.data.owner && copt(position_token_account.data.delegate) != Some(*position_authority.info.key)) ==> r is Err,
        (copt(position_token_account.data.delegate) == Some(*position_authority.info.key) && position_token_account.data.delegated_amount != 1) ==> r is Err,
//@ end
}

// ------------------------------------------------------------------ Pinocchio runtime
pub mod authority_pino {
use vstd::prelude::*;
use crate::errors::ErrorCode as WhirlpoolErrorCode;
use crate::anchor_shim::Pubkey;
use crate::authority::authority_rule;
//@ tags C04 C12
//@ assume pinocchio shims: AccountInfo (key(), is_signer(), is_writable()) and MemoryMappedTokenAccount (owner(), delegate(), delegated_amount()) are opaque views with assumed accessor specs; UnifiedError keeps only the whirlpool/anchor error code
pub enum AnchorErrorCode { AccountNotEnoughKeys, AccountNotSigner, AccountNotMutable, InvalidProgramId, ConstraintAddress, ConstraintRaw, Other }
pub enum UnifiedError { Whirlpool(WhirlpoolErrorCode), Anchor(AnchorErrorCode), Pinocchio }
pub type Result<T> = core::result::Result<T, UnifiedError>;
impl vstd::std_specs::convert::FromSpecImpl<WhirlpoolErrorCode> for UnifiedError {
    open spec fn obeys_from_spec() -> bool { true }
    open spec fn from_spec(v: WhirlpoolErrorCode) -> Self { UnifiedError::Whirlpool(v) }
}
impl From<WhirlpoolErrorCode> for UnifiedError { fn from(e: WhirlpoolErrorCode) -> (r: Self) { UnifiedError::Whirlpool(e) } }
impl vstd::std_specs::convert::FromSpecImpl<AnchorErrorCode> for UnifiedError {
    open spec fn obeys_from_spec() -> bool { true }
    open spec fn from_spec(v: AnchorErrorCode) -> Self { UnifiedError::Anchor(v) }
}
impl From<AnchorErrorCode> for UnifiedError { fn from(e: AnchorErrorCode) -> (r: Self) { UnifiedError::Anchor(e) } }
//@ assume the `?` operator converts a whirlpool ErrorCode into UnifiedError with From::from
#[verifier::external_body]
pub broadcast proof fn ax_qmark_pino(e: WhirlpoolErrorCode, r: UnifiedError) requires #[trigger] vstd::std_specs::control_flow::spec_from::<UnifiedError, WhirlpoolErrorCode>(e, r) ensures r == UnifiedError::Whirlpool(e) {}

pub struct AccountInfo { pub k: Pubkey, pub signer: bool, pub writable: bool }
impl AccountInfo {
    pub fn key(&self) -> (r: &Pubkey) ensures *r == self.k { &self.k }
    pub fn is_signer(&self) -> (r: bool) ensures r == self.signer { self.signer }
    pub fn is_writable(&self) -> (r: bool) ensures r == self.writable { self.writable }
}
pub struct MemoryMappedTokenAccount { pub owner_k: Pubkey, pub delegate_k: Option<Pubkey>, pub delegated: u64 }
impl MemoryMappedTokenAccount {
    pub fn owner(&self) -> (r: &Pubkey) ensures *r == self.owner_k { &self.owner_k }
    #[verifier::external_body]
    pub fn delegate(&self) -> (r: Option<&Pubkey>) ensures (r is None <==> self.delegate_k is None), r matches Some(k) ==> Some(*k) == self.delegate_k { unimplemented!() }
    pub fn delegated_amount(&self) -> (r: u64) ensures r == self.delegated { self.delegated }
}

//@ fn pinocchio/ported/util_shared.rs pino_validate_owner -> r
    ensures
        r is Ok <==> (*expected_owner == owner_account_info.k && owner_account_info.signer),
        r is Err ==> r == Err::<(), UnifiedError>(UnifiedError::Whirlpool(WhirlpoolErrorCode::MissingOrInvalidDelegate)),
//@ end

//@ fn pinocchio/ported/util_shared.rs pino_verify_position_authority -> r
    ensures
        r is Ok ==> authority_rule(position_token_account.owner_k, position_token_account.delegate_k, position_token_account.delegated, position_authority_info.k, position_authority_info.signer),
        !position_authority_info.signer ==> r is Err,
        (position_authority_info.k != position_token_account.owner_k && position_token_account.delegate_k != Some(position_authority_info.k)) ==> r is Err,
        (position_token_account.delegate_k == Some(position_authority_info.k) && position_token_account.delegated != 1) ==> r is Err,
//@ end

pub struct AccountIterator<'a> {
    pub accounts: &'a [AccountInfo],
    pub accounts_len: usize,
    pub current_index: usize,
}
impl<'a> AccountIterator<'a> {
    pub open spec fn wf(&self) -> bool { self.accounts_len == self.accounts@.len() }
//@ fn pinocchio/utils/account_info_iter.rs new in=/^impl<'a> AccountIterator<'a> \{/ -> r
    ensures r.wf(), r.current_index == 0, r.accounts@ == accounts@,
//@ end
//@ fn pinocchio/utils/account_info_iter.rs next_account in=/^impl<'a> AccountIterator<'a> \{/ -> r
    requires old(self).wf(),
    ensures final(self).wf(), final(self).accounts@ == old(self).accounts@,
        old(self).current_index >= old(self).accounts_len ==> r == Err::<&AccountInfo, UnifiedError>(UnifiedError::Anchor(AnchorErrorCode::AccountNotEnoughKeys)) && final(self).current_index == old(self).current_index,
        old(self).current_index < old(self).accounts_len ==> (r matches Ok(a) && *a == old(self).accounts@[old(self).current_index as int] && final(self).current_index == old(self).current_index + 1),
//@ end
//@ fn pinocchio/utils/account_info_iter.rs next_signer in=/^impl<'a> AccountIterator<'a> \{/ -> r
    requires old(self).wf(),
    ensures final(self).wf(), final(self).accounts@ == old(self).accounts@,
        // Ok only for the next account in order, and only if it signed the transaction
        r matches Ok(a) ==> old(self).current_index < old(self).accounts_len && *a == old(self).accounts@[old(self).current_index as int] && a.signer
            && final(self).current_index == old(self).current_index + 1,
        old(self).current_index < old(self).accounts_len && !old(self).accounts@[old(self).current_index as int].signer ==> r is Err,
        old(self).current_index >= old(self).accounts_len ==> r is Err,
//@ end
//@ fn pinocchio/utils/account_info_iter.rs next_signer_mut in=/^impl<'a> AccountIterator<'a> \{/ -> r
    requires old(self).wf(),
    ensures final(self).wf(), final(self).accounts@ == old(self).accounts@,
        r matches Ok(a) ==> old(self).current_index < old(self).accounts_len && *a == old(self).accounts@[old(self).current_index as int] && a.signer && a.writable
            && final(self).current_index == old(self).current_index + 1,
        old(self).current_index < old(self).accounts_len && !old(self).accounts@[old(self).current_index as int].signer ==> r is Err,
//@ end
//@ fn pinocchio/utils/account_info_iter.rs next_mut in=/^impl<'a> AccountIterator<'a> \{/ -> r
    requires old(self).wf(),
    ensures final(self).wf(), final(self).accounts@ == old(self).accounts@,
        r matches Ok(a) ==> old(self).current_index < old(self).accounts_len && *a == old(self).accounts@[old(self).current_index as int] && a.writable
            && final(self).current_index == old(self).current_index + 1,
//@ end
}
}
