//@ needs specs errors stdspecs lebytes anchor_shim
// C04 kernel: the position-authority rule, both runtimes. Account types are shims with exactly the fields the functions read.
pub mod authority {
use vstd::prelude::*;
use crate::errors::ErrorCode;
use crate::anchor_shim::*;
//@ tags C04
//@ assume authority shims: anchor_spl TokenAccount / InterfaceAccount / Signer / AccountInfo and solana COption are plain structs with the fields read by the extracted functions (owner, delegate, delegated_amount, key, is_signer)
pub enum COption<T> { None, Some(T) }
pub struct TokenAccount { pub owner: Pubkey, pub delegate: COption<Pubkey>, pub delegated_amount: u64, pub amount: u64, pub mint: Pubkey, pub frozen: bool }
impl TokenAccount { pub fn is_frozen(&self) -> (r: bool) ensures r == self.frozen { self.frozen } }
pub type TokenAccountInterface = TokenAccount;
pub struct AccountInfo<'a> { pub key: &'a Pubkey, pub is_signer: bool, pub is_writable: bool }
pub struct Signer<'a> { pub info: AccountInfo<'a> }
impl<'a> Signer<'a> {
    pub fn key(&self) -> (r: Pubkey) ensures r == *self.info.key { *self.info.key }
    pub fn to_account_info(&self) -> (r: AccountInfo<'a>) ensures r == self.info { AccountInfo { key: self.info.key, is_signer: self.info.is_signer, is_writable: self.info.is_writable } }
}
impl<'a> std::ops::Deref for Signer<'a> {
    type Target = AccountInfo<'a>;
    fn deref(&self) -> (r: &AccountInfo<'a>) ensures *r == self.info { &self.info }
}
pub struct InterfaceAccount<'a, T> { pub data: T, pub info: AccountInfo<'a> }
impl<'a> crate::anchor_shim::SKey for Signer<'a> { open spec fn skey(&self) -> Pubkey { *self.info.key } }
impl<'a, T> crate::anchor_shim::SKey for InterfaceAccount<'a, T> { open spec fn skey(&self) -> Pubkey { *self.info.key } }
impl TokenAccount { pub open spec fn is_frozen_spec(&self) -> bool { self.frozen } }
impl<'a, T> std::ops::Deref for InterfaceAccount<'a, T> {
    type Target = T;
    fn deref(&self) -> (r: &T) ensures *r == self.data { &self.data }
}

/// the rule of C04 for position operations: a signature of the token owner, or of its delegate for exactly one token
pub open spec fn authority_rule(owner: Pubkey, delegate: Option<Pubkey>, delegated_amount: u64, auth_key: Pubkey, auth_is_signer: bool) -> bool {
    auth_is_signer && (auth_key == owner || (delegate == Some(auth_key) && delegated_amount == 1))
}
pub open spec fn copt(c: COption<Pubkey>) -> Option<Pubkey> { match c { COption::None => None, COption::Some(k) => Some(k) } }

//@ fn util/shared.rs validate_owner -> r canary
    ensures
        r is Ok <==> (*expected_owner == *owner_account_info.key && owner_account_info.is_signer),
        r is Err ==> r == err::<()>(ErrorCode::MissingOrInvalidDelegate),
//@ end

//@ fn util/shared.rs verify_position_authority -> r canary
    ensures
        r is Ok ==> authority_rule(position_token_account.owner, copt(position_token_account.delegate), position_token_account.delegated_amount, *position_authority.info.key, position_authority.info.is_signer),
        // with the right key but no signature, or a wrong key, it fails
        !position_authority.info.is_signer ==> r is Err,
        (*position_authority.info.key != position_token_account.owner && copt(position_token_account.delegate) != Some(*position_authority.info.key)) ==> r is Err,
        (copt(position_token_account.delegate) == Some(*position_authority.info.key) && position_token_account.delegated_amount != 1) ==> r is Err,
//@ end

//@ fn util/shared.rs is_locked_position -> r tags=C18
    ensures r == position_token_account.data.frozen,
//@ end

//@ fn util/shared.rs verify_position_bundle_authority -> r canary
    ensures
        r is Ok ==> authority_rule(position_bundle_token_account.owner, copt(position_bundle_token_account.delegate), position_bundle_token_account.delegated_amount, *position_bundle_authority.info.key, position_bundle_authority.info.is_signer),
        !position_bundle_authority.info.is_signer ==> r is Err,
//@ end

//@ fn util/shared.rs verify_position_authority_interface -> r canary
    ensures
        r is Ok ==> authority_rule(position_token_account.data.owner, copt(position_token_account.data.delegate), position_token_account.data.delegated_amount, *position_authority.info.key, position_authority.info.is_signer),
        !position_authority.info.is_signer ==> r is Err,
        (*position_authority.info.key != position_token_account.data.owner && copt(position_token_account.data.delegate) != Some(*position_authority.info.key)) ==> r is Err,
        (copt(position_token_account.data.delegate) == Some(*position_authority.info.key) && position_token_account.data.delegated_amount != 1) ==> r is Err,
//@ end
}

// ------------------------------------------------------------------ Pinocchio runtime
pub mod authority_pino {
use vstd::prelude::*;
use crate::errors::ErrorCode as WhirlpoolErrorCode;
use crate::anchor_shim::Pubkey;
use crate::authority::authority_rule;
//@ tags C04 C12
//@ assume pinocchio shims: AccountInfo (key(), is_signer(), is_writable()) and MemoryMappedTokenAccount (owner(), delegate(), delegated_amount()) are opaque views with assumed accessor specs; UnifiedError keeps only the whirlpool/anchor error code
pub enum AnchorErrorCode { AccountNotEnoughKeys, AccountNotSigner, AccountNotMutable, InvalidProgramId, ConstraintAddress, ConstraintRaw, AccountOwnedByWrongProgram, AccountDiscriminatorNotFound, AccountDiscriminatorMismatch, AccountNotInitialized, Other }
pub enum UnifiedError { Whirlpool(WhirlpoolErrorCode), Anchor(AnchorErrorCode), Pinocchio }
pub type Result<T> = core::result::Result<T, UnifiedError>;
impl vstd::std_specs::convert::FromSpecImpl<WhirlpoolErrorCode> for UnifiedError {
    open spec fn obeys_from_spec() -> bool { true }
    open spec fn from_spec(v: WhirlpoolErrorCode) -> Self { UnifiedError::Whirlpool(v) }
}
impl From<WhirlpoolErrorCode> for UnifiedError { fn from(e: WhirlpoolErrorCode) -> (r: Self) { UnifiedError::Whirlpool(e) } }
impl vstd::std_specs::convert::FromSpecImpl<AnchorErrorCode> for UnifiedError {
    open spec fn obeys_from_spec() -> bool { true }
    open spec fn from_spec(v: AnchorErrorCode) -> Self { UnifiedError::Anchor(v) }
}
impl From<AnchorErrorCode> for UnifiedError { fn from(e: AnchorErrorCode) -> (r: Self) { UnifiedError::Anchor(e) } }
//@ assume the `?` operator converts a whirlpool ErrorCode into UnifiedError with From::from
#[verifier::external_body]
pub broadcast proof fn ax_qmark_pino(e: WhirlpoolErrorCode, r: UnifiedError) requires #[trigger] vstd::std_specs::control_flow::spec_from::<UnifiedError, WhirlpoolErrorCode>(e, r) ensures r == UnifiedError::Whirlpool(e) {}

pub struct AccountInfo { pub k: Pubkey, pub signer: bool, pub writable: bool, pub owner_k: Pubkey }
impl AccountInfo {
    pub fn key(&self) -> (r: &Pubkey) ensures *r == self.k { &self.k }
    pub fn is_signer(&self) -> (r: bool) ensures r == self.signer { self.signer }
    pub fn is_writable(&self) -> (r: bool) ensures r == self.writable { self.writable }
    pub fn owner(&self) -> (r: &Pubkey) ensures *r == self.owner_k { &self.owner_k }
    pub fn is_owned_by(&self, program: &Pubkey) -> (r: bool) ensures r == (self.owner_k == *program) { self.owner_k == *program }
    /// the account's data bytes (uninterpreted; the runtime's borrow bookkeeping is not modelled)
    pub uninterp spec fn data(&self) -> Seq<u8>;
    #[verifier::external_body]
    pub fn data_len(&self) -> (r: usize) ensures r == self.data().len() { unimplemented!() }
    #[verifier::external_body]
    pub fn try_borrow_data(&self) -> (r: Result<&[u8]>) ensures r matches Ok(b) ==> b@ == self.data() { unimplemented!() }
}
// the real #[repr(C)] view of an SPL token account and its accessors (C04 reads owner / delegate / delegated amount; C15 / C18 read mint, amount and the frozen state)
pub type BytesU64 = [u8; 8];
pub type COption<T> = ([u8; 4], T);
//@ subst /\bu64::from_le_bytes\(/ => /crate::lebytes::u64_from_le_bytes(/
//@ enum pinocchio/state/token/account.rs AccountState
//@ struct pinocchio/state/token/account.rs MemoryMappedTokenAccount
impl MemoryMappedTokenAccount {
    pub closed spec fn owner_k(&self) -> Pubkey { self.owner }
    pub closed spec fn mint_k(&self) -> Pubkey { self.mint }
    pub closed spec fn delegate_k(&self) -> Option<Pubkey> { if self.delegate.0[0] == 1 { Some(self.delegate.1) } else { None } }
    pub closed spec fn delegated(&self) -> u64 { crate::lebytes::le_u64(self.delegated_amount) }
    pub closed spec fn amount_v(&self) -> u64 { crate::lebytes::le_u64(self.amount) }
    /// SPL AccountState::Frozen == 2
    pub closed spec fn frozen(&self) -> bool { self.state == 2 }
//@ fn pinocchio/state/token/account.rs mint in=/^impl MemoryMappedTokenAccount \{/ -> r tags=C15,C12
    ensures *r == self.mint_k(),
//@ end
//@ fn pinocchio/state/token/account.rs owner in=/^impl MemoryMappedTokenAccount \{/ -> r
    ensures *r == self.owner_k(),
//@ end
//@ fn pinocchio/state/token/account.rs amount in=/^impl MemoryMappedTokenAccount \{/ -> r tags=C15,C04,C12
    ensures r == self.amount_v(),
//@ end
//@ fn pinocchio/state/token/account.rs delegate in=/^impl MemoryMappedTokenAccount \{/ -> r
    ensures (r is None <==> self.delegate_k() is None), r matches Some(k) ==> Some(*k) == self.delegate_k(),
//@ end
//@ fn pinocchio/state/token/account.rs delegated_amount in=/^impl MemoryMappedTokenAccount \{/ -> r
    ensures r == self.delegated(),
//@ end
//@ fn pinocchio/state/token/account.rs is_frozen in=/^impl MemoryMappedTokenAccount \{/ -> r tags=C18,C12
    ensures r == self.frozen(),
//@ end
}

//@ fn pinocchio/ported/util_shared.rs pino_validate_owner -> r canary
    ensures
        r is Ok <==> (*expected_owner == owner_account_info.k && owner_account_info.signer),
        r is Err ==> r == Err::<(), UnifiedError>(UnifiedError::Whirlpool(WhirlpoolErrorCode::MissingOrInvalidDelegate)),
//@ end

//@ fn pinocchio/ported/util_shared.rs pino_verify_position_authority -> r canary
    ensures
        r is Ok ==> authority_rule(position_token_account.owner_k(), position_token_account.delegate_k(), position_token_account.delegated(), position_authority_info.k, position_authority_info.signer),
        !position_authority_info.signer ==> r is Err,
        (position_authority_info.k != position_token_account.owner_k() && position_token_account.delegate_k() != Some(position_authority_info.k)) ==> r is Err,
        (position_token_account.delegate_k() == Some(position_authority_info.k) && position_token_account.delegated() != 1) ==> r is Err,
//@ end

pub mod address {
    use crate::anchor_shim::Pubkey;
//@ pubkey pinocchio/constants/address.rs WHIRLPOOL_PROGRAM_ID TOKEN_PROGRAM_ID TOKEN_2022_PROGRAM_ID MEMO_PROGRAM_ID SYSTEM_PROGRAM_ID
}
pub struct AccountIterator<'a> {
    pub accounts: &'a [AccountInfo],
    pub accounts_len: usize,
    pub current_index: usize,
}
impl<'a> AccountIterator<'a> {
    pub open spec fn wf(&self) -> bool { self.accounts_len == self.accounts@.len() && self.current_index <= self.accounts_len }
//@ fn pinocchio/utils/account_info_iter.rs new in=/^impl<'a> AccountIterator<'a> \{/ -> r
    ensures r.wf(), r.current_index == 0, r.accounts@ == accounts@,
//@ end
//@ fn pinocchio/utils/account_info_iter.rs next_account in=/^impl<'a> AccountIterator<'a> \{/ -> r
    requires old(self).wf(),
    ensures final(self).wf(), final(self).accounts@ == old(self).accounts@,
        old(self).current_index >= old(self).accounts_len ==> r == Err::<&AccountInfo, UnifiedError>(UnifiedError::Anchor(AnchorErrorCode::AccountNotEnoughKeys)) && final(self).current_index == old(self).current_index,
        old(self).current_index < old(self).accounts_len ==> (r matches Ok(a) && *a == old(self).accounts@[old(self).current_index as int] && final(self).current_index == old(self).current_index + 1),
//@ end
//@ fn pinocchio/utils/account_info_iter.rs next_signer in=/^impl<'a> AccountIterator<'a> \{/ -> r
    requires old(self).wf(),
    ensures final(self).wf(), final(self).accounts@ == old(self).accounts@,
        // Ok only for the next account in order, and only if it signed the transaction
        r matches Ok(a) ==> old(self).current_index < old(self).accounts_len && *a == old(self).accounts@[old(self).current_index as int] && a.signer
            && final(self).current_index == old(self).current_index + 1,
        old(self).current_index < old(self).accounts_len && !old(self).accounts@[old(self).current_index as int].signer ==> r is Err,
        old(self).current_index >= old(self).accounts_len ==> r is Err,
//@ end
//@ fn pinocchio/utils/account_info_iter.rs next_signer_mut in=/^impl<'a> AccountIterator<'a> \{/ -> r
    requires old(self).wf(),
    ensures final(self).wf(), final(self).accounts@ == old(self).accounts@,
        r matches Ok(a) ==> old(self).current_index < old(self).accounts_len && *a == old(self).accounts@[old(self).current_index as int] && a.signer && a.writable
            && final(self).current_index == old(self).current_index + 1,
        old(self).current_index < old(self).accounts_len && !old(self).accounts@[old(self).current_index as int].signer ==> r is Err,
//@ end
//@ fn pinocchio/utils/account_info_iter.rs next_mut in=/^impl<'a> AccountIterator<'a> \{/ -> r
    requires old(self).wf(),
    ensures final(self).wf(), final(self).accounts@ == old(self).accounts@,
        r matches Ok(a) ==> old(self).current_index < old(self).accounts_len && *a == old(self).accounts@[old(self).current_index as int] && a.writable
            && final(self).current_index == old(self).current_index + 1,
//@ end
/// the plain accessor hands out the next account in order, whatever its flags
//@ fn pinocchio/utils/account_info_iter.rs next in=/^impl<'a> AccountIterator<'a> \{/ -> r tags=C04,C15
    requires old(self).wf(),
    ensures final(self).wf(), final(self).accounts@ == old(self).accounts@,
        r matches Ok(a) ==> old(self).current_index < old(self).accounts_len && *a == old(self).accounts@[old(self).current_index as int] && final(self).current_index == old(self).current_index + 1,
        old(self).current_index >= old(self).accounts_len ==> r is Err,
//@ end
//@ fn pinocchio/utils/account_info_iter.rs remaining_accounts in=/^impl<'a> AccountIterator<'a> \{/ -> r tags=C15
    requires self.wf(),
    ensures r@ == self.accounts@.subrange(self.current_index as int, self.accounts_len as int),
//@ end
/// a program account slot: the next account in order, and its key is one of the listed program ids (C15: "a program account other than the expected program")
//@ assume next_program_account: `valid_programs.iter().any(|program_id| pubkey_eq(account.key(), program_id))` (iterator adapter with a closure) is outside Verus; the method is an external stub with the contract "next account in order, key among the listed ids"
//@ fn pinocchio/utils/account_info_iter.rs next_program_account in=/^impl<'a> AccountIterator<'a> \{/ -> r stub tags=C15
    requires old(self).wf(),
    ensures final(self).wf(), final(self).accounts@ == old(self).accounts@,
        r matches Ok(a) ==> old(self).current_index < old(self).accounts_len && *a == old(self).accounts@[old(self).current_index as int] && final(self).current_index == old(self).current_index + 1
            && exists|i: int| 0 <= i < valid_programs@.len() && a.k == *#[trigger] valid_programs@[i],
//@ end
//@ fn pinocchio/utils/account_info_iter.rs next_program_memo in=/^impl<'a> AccountIterator<'a> \{/ -> r tags=C15
    requires old(self).wf(),
    ensures final(self).wf(), final(self).accounts@ == old(self).accounts@,
        r matches Ok(a) ==> old(self).current_index < old(self).accounts_len && *a == old(self).accounts@[old(self).current_index as int] && final(self).current_index == old(self).current_index + 1
            && a.k == address::MEMO_PROGRAM_ID,
//@ end
//@ fn pinocchio/utils/account_info_iter.rs next_program_token in=/^impl<'a> AccountIterator<'a> \{/ -> r tags=C15
    requires old(self).wf(),
    ensures final(self).wf(), final(self).accounts@ == old(self).accounts@,
        r matches Ok(a) ==> old(self).current_index < old(self).accounts_len && *a == old(self).accounts@[old(self).current_index as int] && final(self).current_index == old(self).current_index + 1
            && a.k == address::TOKEN_PROGRAM_ID,
//@ end
//@ fn pinocchio/utils/account_info_iter.rs next_program_token_or_token_2022 in=/^impl<'a> AccountIterator<'a> \{/ -> r tags=C15
    requires old(self).wf(),
    ensures final(self).wf(), final(self).accounts@ == old(self).accounts@,
        r matches Ok(a) ==> old(self).current_index < old(self).accounts_len && *a == old(self).accounts@[old(self).current_index as int] && final(self).current_index == old(self).current_index + 1
            && (a.k == address::TOKEN_PROGRAM_ID || a.k == address::TOKEN_2022_PROGRAM_ID),
//@ end
//@ fn pinocchio/utils/account_info_iter.rs next_program_system in=/^impl<'a> AccountIterator<'a> \{/ -> r tags=C15
    requires old(self).wf(),
    ensures final(self).wf(), final(self).accounts@ == old(self).accounts@,
        r matches Ok(a) ==> old(self).current_index < old(self).accounts_len && *a == old(self).accounts@[old(self).current_index as int] && final(self).current_index == old(self).current_index + 1
            && a.k == address::SYSTEM_PROGRAM_ID,
//@ end
}
}
