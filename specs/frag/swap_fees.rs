//@ needs specs errors stdspecs state_core liquidity_math bit_math managers token_math
pub mod swap_fees {
use vstd::prelude::*;
use std::convert::TryInto;
use crate::errors::ErrorCode;
use crate::specs::*;
use crate::state_core::*;
use crate::liquidity_math::*;
use crate::bit_math::*;
use crate::token_math::*;
use crate::managers::*;
use crate::anchor_shim::{Result, Error};
broadcast use {crate::bitlemmas::bits64, vstd::arithmetic::mul::group_mul_basics};
//@ tags C06 C01 C05

/// the protocol's share of a fee: floor(fee * rate / 10_000)
pub open spec fn proto_cut(fee: int, rate: int) -> int { (fee * rate) / 10_000 }

//@ fn manager/swap_manager.rs calculate_protocol_fee -> r pub
    requires protocol_fee_rate <= 10_000,
    ensures r as int == proto_cut(global_fee as int, protocol_fee_rate as int), r <= global_fee,
//@ inject at /^\{/
    proof { lemma_cut_le(global_fee as int, protocol_fee_rate as int); }
//@ end

pub proof fn lemma_cut_le(fee: int, rate: int)
    requires 0 <= fee, 0 <= rate <= 10_000,
    ensures 0 <= proto_cut(fee, rate) <= fee, fee * rate <= fee * 10_000,
{
    assert(0 <= fee * rate <= fee * 10_000) by(nonlinear_arith) requires 0 <= fee, 0 <= rate <= 10_000;
    vstd::arithmetic::div_mod::lemma_fundamental_div_mod(fee * rate, 10_000);
    vstd::arithmetic::div_mod::lemma_div_pos_is_pos(fee * rate, 10_000);
}

/// what calculate_fees books for one step
pub open spec fn fees_booked(fee_amount: u64, protocol_fee_rate: u16, liquidity: u128, proto0: u64, growth0: u128, proto1: u64, growth1: u128) -> bool {
    let cut = if protocol_fee_rate > 0 { proto_cut(fee_amount as int, protocol_fee_rate as int) } else { 0 };
    let lp = fee_amount as int - cut;
    proto1 == wadd64(proto0, cut as u64) && growth1 == (if liquidity > 0 { wadd(growth0, ((lp * Q()) / liquidity as int) as u128) } else { growth0 })
}
/// C06: fee = protocol share (rounded down, added to the running protocol fee) + LP share (accrued to in-range liquidity)
//@ fn manager/swap_manager.rs calculate_fees -> r pub
    requires protocol_fee_rate <= 10_000,
    ensures ({
        let cut = if protocol_fee_rate > 0 { proto_cut(fee_amount as int, protocol_fee_rate as int) } else { 0 };
        let lp = fee_amount as int - cut;
        &&& 0 <= cut <= fee_amount
        &&& r.0 == wadd64(curr_protocol_fee, cut as u64)
        &&& r.1 == (if curr_liquidity > 0 { wadd(curr_fee_growth_global_input, ((lp * Q()) / curr_liquidity as int) as u128) } else { curr_fee_growth_global_input })
        &&& fees_booked(fee_amount, protocol_fee_rate, curr_liquidity, curr_protocol_fee, curr_fee_growth_global_input, r.0, r.1)
    }),
//@ inject at /^\{/
    proof { lemma_cut_le(fee_amount as int, protocol_fee_rate as int); }
//@ end

//@ assume reachable-state: a stored tick never has liquidity_net == i128::MIN (negating it would wrap in release builds); it would need > 2^127 liquidity bounded at one tick, which the u64 token-amount checks of increase_liquidity exclude
//@ fn manager/swap_manager.rs calculate_update -> r pub
    requires tick.liquidity_net != i128::MIN,
    ensures
        r matches Ok(p) ==> cross_spec(*tick, fee_growth_global_a, fee_growth_global_b, *reward_infos, p.0)
            && p.1 as int == liquidity as int + (if a_to_b { -(tick.liquidity_net as int) } else { tick.liquidity_net as int }),
        tick.liquidity_net != i128::MIN ==> (r is Err <==> !(0 <= liquidity as int + (if a_to_b { -(tick.liquidity_net as int) } else { tick.liquidity_net as int }) <= U128MAX())),
//@ end
}
