//@ needs specs bitlemmas errors u256_math bit_math token_math curve_lemmas
pub mod swap_math {
use vstd::prelude::*;
use std::convert::TryInto;
use crate::errors::ErrorCode;
use crate::specs::*;
use crate::u256_math::*;
use crate::bit_math::*;
use crate::token_math::*;
use crate::curve_lemmas::*;
broadcast use {crate::bitlemmas::bits64, vstd::arithmetic::mul::group_mul_basics};
//@ tags C02 C06 C01 C03
//@ const math/swap_math.rs NO_EXPLICIT_SQRT_PRICE_LIMIT
//@ struct math/swap_math.rs SwapStepComputation

/// what one swap step must compute (property C02 + the fee clause of C06), as a predicate over its result
pub open spec fn step_spec(remaining: int, fee_rate: int, l: int, cur: int, target: int, is_in: bool, a_to_b: bool, s: SwapStepComputation) -> bool {
    let net = if is_in { net_of_fee(remaining, fee_rate) } else { remaining };
    let next = s.next_price as int;
    // the price moves to the target when the whole segment is affordable / needed, else as far as the amount allows
    &&& next == (if fixed_delta(cur, target, l, is_in, a_to_b) <= net { target } else { next_price(cur, l, net, is_in, a_to_b) })
    // input: exact curve amount of the move actually made, rounded up
    &&& s.amount_in as int == delta_in(cur, next, l, a_to_b)
    // output: exact curve amount rounded down, capped by an exact-out request
    &&& s.amount_out as int == (if is_in { delta_out(cur, next, l, a_to_b) } else { min_i(delta_out(cur, next, l, a_to_b), remaining) })
    // budget (the part that does not involve the fee)
    &&& (is_in ==> s.amount_in as int <= net)
    &&& (!is_in ==> s.amount_out as int <= remaining)
    // stopping short of the target delivers the whole exact-out request
    &&& (next != target && !is_in ==> s.amount_out as int == remaining)
}
/// exact-in budget including the fee: never more than the budget, and all of it when the step stops short of its target
pub open spec fn step_budget_spec(remaining: int, target: int, is_in: bool, s: SwapStepComputation) -> bool {
    &&& (is_in ==> s.amount_in as int + s.fee_amount as int <= remaining)
    &&& (s.next_price as int != target && is_in ==> s.amount_in as int + s.fee_amount as int == remaining)
}

/// C06: fee = rate/(1-rate) of the curve input rounded up, or the unspendable remainder of an exact-in budget
pub open spec fn step_fee_spec(remaining: int, fee_rate: int, target: int, is_in: bool, s: SwapStepComputation) -> bool {
    s.fee_amount as int == (if is_in && s.next_price as int != target { remaining - s.amount_in as int } else { fee_on(s.amount_in as int, fee_rate) })
}

//@ fn math/swap_math.rs compute_swap -> r canary
    requires
        price_ok(sqrt_price_current as int), price_ok(sqrt_price_target as int), fee_rate <= 100_000,
        // the target lies on the trade side of the current price (established by the swap loop, see swap_manager)
        a_to_b ==> sqrt_price_target <= sqrt_price_current, !a_to_b ==> sqrt_price_target >= sqrt_price_current,
    ensures
        r matches Ok(s) ==> step_spec(amount_remaining as int, fee_rate as int, liquidity as int, sqrt_price_current as int, sqrt_price_target as int, amount_specified_is_input, a_to_b, s), //# C02 C01 C03
        r matches Ok(s) ==> step_budget_spec(amount_remaining as int, sqrt_price_target as int, amount_specified_is_input, s), //# C02 C03 C06 C01
        r matches Ok(s) ==> step_fee_spec(amount_remaining as int, fee_rate as int, sqrt_price_target as int, amount_specified_is_input, s), //# C06 C01
        // direction: never past the target, never against the trade direction
        r matches Ok(s) ==> (a_to_b ==> sqrt_price_target <= s.next_price <= sqrt_price_current), //# C02 C03 C01
        r matches Ok(s) ==> (!a_to_b ==> sqrt_price_current <= s.next_price <= sqrt_price_target), //# C02 C03 C01
//@ inject before /let is_max_swap = /
    proof {
        let net = amount_calc as int;
        assert(amount_specified_is_input ==> net == net_of_fee(amount_remaining as int, fee_rate as int));
        if !(initial_amount_fixed_delta matches AmountDeltaU64::Valid(v) && v <= amount_calc) {
            assert(fixed_delta(sqrt_price_current as int, sqrt_price_target as int, liquidity as int, amount_specified_is_input, a_to_b) > net);
            lemma_fixed_delta_zero_liquidity(sqrt_price_current as int, sqrt_price_target as int, amount_specified_is_input, a_to_b);
            lemma_partial_step(sqrt_price_current as int, sqrt_price_target as int, liquidity as int, net, amount_specified_is_input, a_to_b);
        }
        lemma_fee_fits(amount_remaining as int, fee_rate as int);
    }
//@ inject before /Ok\(SwapStepComputation \{/
    proof {
        if amount_specified_is_input && amount_in <= amount_calc {
            lemma_fee_fits_one(amount_remaining as int, fee_rate as int, amount_in as int);
        }
    }
//@ end

//@ fn math/swap_math.rs get_amount_fixed_delta -> r
    requires sqrt_price_current > 0, sqrt_price_target > 0,
    ensures r matches Ok(v) ==> v as int == fixed_delta(sqrt_price_current as int, sqrt_price_target as int, liquidity as int, amount_specified_is_input, a_to_b),
//@ end

//@ fn math/swap_math.rs try_get_amount_fixed_delta -> r
    requires sqrt_price_current > 0, sqrt_price_target > 0,
    ensures r is Ok ==> amount_delta_ok(r, fixed_delta(sqrt_price_current as int, sqrt_price_target as int, liquidity as int, amount_specified_is_input, a_to_b)),
//@ end

//@ fn math/swap_math.rs get_amount_unfixed_delta -> r
    requires sqrt_price_current > 0, sqrt_price_target > 0,
    ensures r matches Ok(v) ==> v as int == unfixed_delta(sqrt_price_current as int, sqrt_price_target as int, liquidity as int, amount_specified_is_input, a_to_b),
//@ end
}
