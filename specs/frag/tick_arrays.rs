//@ needs specs errors stdspecs lebytes anchor_shim state_core
// C10 / C13: the three tick-array packagings (fixed, dynamic, zeroed) implement ONE trait-level contract over an abstract view
// (start index, which slots are initialized, tick contents). Verus checks every impl against the contract written once on the trait.
pub mod tick_arrays {
use vstd::prelude::*;
use crate::errors::ErrorCode;
use crate::errors::ErrorCode as OrcaError;
use crate::specs::*;
use crate::lebytes::*;
use crate::anchor_shim::*;
use crate::state_core::*;
//@ tags C10 C13
//@ const state/tick_array.rs TICK_ARRAY_SIZE_USIZE

pub open spec fn IDX_BOUND() -> int { 16_000_000 }
pub open spec fn START_BOUND() -> int { 8_000_000 }
/// slot of a tick index in an array: floor((tick - start) / spacing)
pub open spec fn slot_of(tick: int, start: int, spacing: int) -> int { (tick - start) / spacing }
pub open spec fn in_range_spec(tick: int, start: int, spacing: int, shifted: bool) -> bool {
    if shifted { start - spacing <= tick < start + 88 * spacing - spacing } else { start <= tick < start + 88 * spacing }
}
/// answer of a next-initialized-tick query: the nearest initialized slot at-or-left of the start slot (a_to_b, inclusive)
/// or strictly right of it (b_to_a); None iff there is none in this array
pub open spec fn next_init_spec(start: int, init: spec_fn(int) -> bool, tick: int, spacing: int, a_to_b: bool, r: Option<i32>) -> bool {
    let o = slot_of(tick, start, spacing) + (if a_to_b { 0int } else { 1int });
    match r {
        Some(t) => {
            let s = slot_of(t as int, start, spacing);
            &&& t as int == start + s * spacing && 0 <= s < 88 && init(s)
            &&& (a_to_b ==> s <= o && (forall|j: int| s < j <= o && 0 <= j < 88 ==> !#[trigger] init(j)))
            &&& (!a_to_b ==> s >= o && (forall|j: int| o <= j < s && 0 <= j < 88 ==> !#[trigger] init(j)))
        },
        None => {
            &&& (a_to_b ==> (forall|j: int| j <= o && 0 <= j < 88 ==> !#[trigger] init(j)))
            &&& (!a_to_b ==> (forall|j: int| o <= j && 0 <= j < 88 ==> !#[trigger] init(j)))
        },
    }
}

//@ fn state/tick_array.rs get_offset -> r
    requires tick_spacing > 0, -IDX_BOUND() <= tick_index <= IDX_BOUND(), -IDX_BOUND() <= start_tick_index <= IDX_BOUND(),
    ensures r as int == slot_of(tick_index as int, start_tick_index as int, tick_spacing as int),
//@ inject at /^\{/
    proof { lemma_floor_div(tick_index as int - start_tick_index as int, tick_spacing as int); }
//@ end

/// truncating division + "subtract one when the remainder is negative" is floor (Euclidean) division for a positive divisor
pub proof fn lemma_floor_div(a: int, b: int)
    requires b > 0,
    ensures
        a >= 0 ==> a / b >= 0 && a / b <= a,
        a < 0 ==> ({ let q = (-a) / b; let m = (-a) % b; (m == 0 ==> a / b == -q) && (m != 0 ==> a / b == -q - 1) && 0 <= q <= -a }),
{
    vstd::arithmetic::div_mod::lemma_fundamental_div_mod(a, b);
    vstd::arithmetic::div_mod::lemma_fundamental_div_mod(-a, b);
    if a >= 0 {
        vstd::arithmetic::div_mod::lemma_div_pos_is_pos(a, b);
        assert(a / b <= a) by(nonlinear_arith) requires a == b * (a / b) + a % b, a % b >= 0, b >= 1, a / b >= 0;
    } else {
        let q = (-a) / b; let m = (-a) % b;
        vstd::arithmetic::div_mod::lemma_div_pos_is_pos(-a, b);
        if m == 0 {
            assert(a == (-q) * b + 0) by(nonlinear_arith) requires -a == b * q + m, m == 0;
            vstd::arithmetic::div_mod::lemma_fundamental_div_mod_converse(a, b, -q, 0);
        } else {
            assert(a == (-q - 1) * b + (b - m)) by(nonlinear_arith) requires -a == b * q + m;
            vstd::arithmetic::div_mod::lemma_fundamental_div_mod_converse(a, b, -q - 1, b - m);
        }
        assert(q <= -a) by(nonlinear_arith) requires -a == b * q + m, m >= 0, b >= 1, q >= 0;
    }
}

pub trait TickArrayType {
    spec fn vstart(&self) -> int;
    spec fn vinit(&self, slot: int) -> bool;
    spec fn vtick(&self, slot: int) -> Tick;
    spec fn wf(&self) -> bool;
    spec fn updatable(&self) -> bool;

//@ fn state/tick_array.rs is_variable_size in=/^pub trait TickArrayType \{/ -> r
//@ end
//@ fn state/tick_array.rs start_tick_index in=/^pub trait TickArrayType \{/ -> r
    requires self.wf(),
    ensures r as int == self.vstart(), -START_BOUND() <= r <= START_BOUND(),
//@ end
//@ fn state/tick_array.rs get_next_init_tick_index in=/^pub trait TickArrayType \{/ -> r
    requires self.wf(), -IDX_BOUND() <= tick_index <= IDX_BOUND(),
    ensures
        tick_spacing == 0 ==> r is Err,
        tick_spacing > 0 && !in_range_spec(tick_index as int, self.vstart(), tick_spacing as int, !a_to_b) ==> r == err::<Option<i32>>(ErrorCode::InvalidTickArraySequence),
        tick_spacing > 0 && in_range_spec(tick_index as int, self.vstart(), tick_spacing as int, !a_to_b) ==>
            (r matches Ok(o) && next_init_spec(self.vstart(), |s: int| self.vinit(s), tick_index as int, tick_spacing as int, a_to_b, o)),
//@ end
//@ fn state/tick_array.rs get_tick in=/^pub trait TickArrayType \{/ -> r
    requires self.wf(), tick_spacing > 0, -IDX_BOUND() <= tick_index <= IDX_BOUND(),
    ensures ({
        let ok = in_range_spec(tick_index as int, self.vstart(), tick_spacing as int, false) && tick_usable(tick_index as int, tick_spacing as int);
        &&& (!ok ==> r == err::<Tick>(ErrorCode::TickNotFound))
        &&& (ok ==> r == Ok::<Tick, Error>(self.vtick(slot_of(tick_index as int, self.vstart(), tick_spacing as int))))
    }),
//@ end
//@ fn state/tick_array.rs update_tick in=/^pub trait TickArrayType \{/ -> r
    requires old(self).wf(), old(self).updatable(), tick_spacing > 0, -IDX_BOUND() <= tick_index <= IDX_BOUND(),
    ensures final(self).wf(), final(self).updatable(), final(self).vstart() == old(self).vstart(), ({
        let ok = in_range_spec(tick_index as int, old(self).vstart(), tick_spacing as int, false) && tick_usable(tick_index as int, tick_spacing as int);
        let slot = slot_of(tick_index as int, old(self).vstart(), tick_spacing as int);
        &&& (!ok ==> r == err::<()>(ErrorCode::TickNotFound) && (forall|j: int| 0 <= j < 88 ==> final(self).vinit(j) == old(self).vinit(j) && final(self).vtick(j) == old(self).vtick(j)))
        &&& (ok ==> r is Ok && final(self).vtick(slot).as_update() == *update && final(self).vinit(slot) == update.initialized
                && (forall|j: int| 0 <= j < 88 && j != slot ==> final(self).vinit(j) == old(self).vinit(j) && final(self).vtick(j) == old(self).vtick(j)))
    }),
//@ end
//@ fn state/tick_array.rs in_search_range in=/^pub trait TickArrayType \{/ -> r
    requires self.wf(), -IDX_BOUND() <= tick_index <= IDX_BOUND(),
    ensures r == in_range_spec(tick_index as int, self.vstart(), tick_spacing as int, shifted),
//@ inject at /^\{/
    proof { assert(88 * (tick_spacing as int) <= 88 * 65535); }
//@ end
//@ fn state/tick_array.rs check_in_array_bounds in=/^pub trait TickArrayType \{/ -> r
    requires self.wf(), -IDX_BOUND() <= tick_index <= IDX_BOUND(),
    ensures r == in_range_spec(tick_index as int, self.vstart(), tick_spacing as int, false),
//@ end
//@ fn state/tick_array.rs is_min_tick_array in=/^pub trait TickArrayType \{/ -> r
    requires self.wf(),
    ensures r == (self.vstart() <= -443636),
//@ end
//@ fn state/tick_array.rs is_max_tick_array in=/^pub trait TickArrayType \{/ -> r
    requires self.wf(),
    ensures r == (self.vstart() + 88 * tick_spacing as int > 443636),
//@ end
//@ fn state/tick_array.rs tick_offset in=/^pub trait TickArrayType \{/ -> r
    requires self.wf(), -IDX_BOUND() <= tick_index <= IDX_BOUND(),
    ensures tick_spacing == 0 ==> r == err::<isize>(ErrorCode::InvalidTickSpacing),
        tick_spacing > 0 ==> r == Ok::<isize, Error>(slot_of(tick_index as int, self.vstart(), tick_spacing as int) as isize),
//@ end
}

// ------------------------------------------------------------------ fixed
pub struct TickArray {
    pub start_tick_index: i32,
    pub ticks: [Tick; TICK_ARRAY_SIZE_USIZE],
    pub whirlpool: Pubkey,
}
pub proof fn lemma_slot_mul(start: int, s: int, spacing: int)
    requires spacing > 0,
    ensures slot_of(start + s * spacing, start, spacing) == s, slot_of(s * spacing + start, start, spacing) == s,
{
    vstd::arithmetic::div_mod::lemma_div_multiples_vanish(s, spacing);
    assert(s * spacing == spacing * s) by(nonlinear_arith);
}
pub proof fn lemma_slot_range(tick: int, start: int, spacing: int, shifted: bool)
    requires spacing > 0, in_range_spec(tick, start, spacing, shifted),
    ensures !shifted ==> 0 <= slot_of(tick, start, spacing) < 88, shifted ==> -1 <= slot_of(tick, start, spacing) < 87,
{
    let a = tick - start;
    vstd::arithmetic::div_mod::lemma_fundamental_div_mod(a, spacing);
    vstd::arithmetic::div_mod::lemma_mod_bound(a, spacing);
    let q = a / spacing; let m = a % spacing;
    if !shifted {
        assert(0 <= q < 88) by(nonlinear_arith) requires a == spacing * q + m, 0 <= m < spacing, 0 <= a < 88 * spacing, spacing > 0;
    } else {
        assert(-1 <= q < 87) by(nonlinear_arith) requires a == spacing * q + m, 0 <= m < spacing, -spacing <= a < 87 * spacing, spacing > 0;
    }
}

impl TickArrayType for TickArray {
    open spec fn vstart(&self) -> int { self.start_tick_index as int }
    open spec fn vinit(&self, slot: int) -> bool { 0 <= slot < 88 && self.ticks[slot].initialized }
    open spec fn vtick(&self, slot: int) -> Tick { self.ticks[slot] }
    open spec fn wf(&self) -> bool { -START_BOUND() <= self.start_tick_index <= START_BOUND() }
    open spec fn updatable(&self) -> bool { true }
//@ fn state/fixed_tick_array.rs update_tick in=/^impl TickArrayType for TickArray \{/ -> r
//@ inject at /^\{/
        proof { if in_range_spec(tick_index as int, self.vstart(), tick_spacing as int, false) { lemma_slot_range(tick_index as int, self.vstart(), tick_spacing as int, false); } }
//@ end
//@ fn state/fixed_tick_array.rs is_variable_size in=/^impl TickArrayType for TickArray \{/ -> r
    ensures !r,
//@ end
//@ fn state/fixed_tick_array.rs start_tick_index in=/^impl TickArrayType for TickArray \{/ -> r
//@ end
//@ fn state/fixed_tick_array.rs get_next_init_tick_index in=/^impl TickArrayType for TickArray \{/ -> r
//@ loop 0
            invariant tick_spacing > 0, self.wf(), -1 <= curr_offset <= 88,
                in_range_spec(tick_index as int, self.vstart(), tick_spacing as int, !a_to_b),
                ({ let o = slot_of(tick_index as int, self.vstart(), tick_spacing as int) + (if a_to_b { 0int } else { 1int });
                   0 <= o < 88
                   && (a_to_b ==> curr_offset <= o && (forall|j: int| curr_offset < j <= o && 0 <= j < 88 ==> !self.vinit(j)))
                   && (!a_to_b ==> curr_offset >= o && (forall|j: int| o <= j < curr_offset && 0 <= j < 88 ==> !self.vinit(j))) }),
            decreases (if a_to_b { curr_offset + 1 } else { 88 - curr_offset }),
//@ inject at /^\{/
        proof { if tick_spacing > 0 && in_range_spec(tick_index as int, self.vstart(), tick_spacing as int, !a_to_b) { lemma_slot_range(tick_index as int, self.vstart(), tick_spacing as int, !a_to_b); } }
//@ inject before /return Ok\(Some\(/
                proof { lemma_slot_mul(self.vstart(), curr_offset as int, tick_spacing as int);
                        assert(curr_offset as int * tick_spacing as int <= 88 * 65535) by(nonlinear_arith) requires 0 <= curr_offset < 88, 0 < tick_spacing as int <= 65535;
                        assert(curr_offset as int * tick_spacing as int >= 0) by(nonlinear_arith) requires 0 <= curr_offset < 88, 0 < tick_spacing as int <= 65535; }
//@ end
//@ fn state/fixed_tick_array.rs get_tick in=/^impl TickArrayType for TickArray \{/ -> r
//@ inject at /^\{/
        proof { if in_range_spec(tick_index as int, self.vstart(), tick_spacing as int, false) { lemma_slot_range(tick_index as int, self.vstart(), tick_spacing as int, false); } }
//@ end
}

// ------------------------------------------------------------------ zeroed (an array account that does not exist on chain)
pub struct ZeroedTickArray {
    pub start_tick_index: i32,
    zeroed_tick: Tick,
}
pub open spec fn zero_tick() -> Tick { Tick { initialized: false, liquidity_net: 0, liquidity_gross: 0, fee_growth_outside_a: 0, fee_growth_outside_b: 0, reward_growths_outside: [0u128, 0u128, 0u128] } }
//@ assume derive(Default) on Tick replaced by an explicit all-zero impl
impl Default for Tick {
    fn default() -> (r: Self) ensures r == zero_tick() {
        Tick { initialized: false, liquidity_net: 0, liquidity_gross: 0, fee_growth_outside_a: 0, fee_growth_outside_b: 0, reward_growths_outside: [0u128, 0u128, 0u128] }
    }
}
impl ZeroedTickArray {
    pub closed spec fn ztick(&self) -> Tick { self.zeroed_tick }
//@ fn state/zeroed_tick_array.rs new in=/^impl ZeroedTickArray \{/ -> r
    requires -START_BOUND() <= start_tick_index <= START_BOUND(),
    ensures r.wf(), r.vstart() == start_tick_index, !r.updatable(),
//@ end
}
impl TickArrayType for ZeroedTickArray {
    closed spec fn vstart(&self) -> int { self.start_tick_index as int }
    open spec fn vinit(&self, slot: int) -> bool { false }
    closed spec fn vtick(&self, slot: int) -> Tick { self.zeroed_tick }
    closed spec fn wf(&self) -> bool { -START_BOUND() <= self.start_tick_index <= START_BOUND() && self.zeroed_tick == zero_tick() }
    open spec fn updatable(&self) -> bool { false }
//@ fn state/zeroed_tick_array.rs is_variable_size in=/^impl TickArrayType for ZeroedTickArray \{/ -> r
    ensures !r,
//@ end
//@ fn state/zeroed_tick_array.rs start_tick_index in=/^impl TickArrayType for ZeroedTickArray \{/ -> r
//@ end
//@ fn state/zeroed_tick_array.rs get_next_init_tick_index in=/^impl TickArrayType for ZeroedTickArray \{/ -> r
//@ end
//@ fn state/zeroed_tick_array.rs get_tick in=/^impl TickArrayType for ZeroedTickArray \{/ -> r
//@ inject at /^\{/
        proof { if in_range_spec(tick_index as int, self.vstart(), tick_spacing as int, false) { lemma_slot_range(tick_index as int, self.vstart(), tick_spacing as int, false); } }
//@ end
//@ fn state/zeroed_tick_array.rs update_tick in=/^impl TickArrayType for ZeroedTickArray \{/ -> r
//@ end
}

// ------------------------------------------------------------------ dynamic (variable-length encoding: 16-byte bitmap + 1 or 113 bytes per slot)
//@ tags C13 C10
//@ subst /\*array_ref!\[self\.0, Self::START_TICK_INDEX_OFFSET, 4\]/ => /array_ref_4(&self.0, Self::START_TICK_INDEX_OFFSET)/
//@ subst /\*array_ref!\[self\.0, Self::TICK_BITMAP_OFFSET, 16\]/ => /array_ref_16(&self.0, Self::TICK_BITMAP_OFFSET)/
//@ subst /\bi32::from_le_bytes\(/ => /i32_from_le_bytes(/
//@ subst /\bu128::from_le_bytes\(/ => /u128_from_le_bytes(/
//@ subst /\.to_le_bytes\(\)/ => /.to_le_bytes_v()/
//@ subst /\.count_ones\(\)/ => /.count_ones_v()/
//@ assume arrayref::array_ref! is modelled by array_ref_4 / array_ref_16 (copy of 4 / 16 bytes at an offset); u128::count_ones by count_ones_v with an uninterpreted popcount that is at most k on a value below 2^k
pub const DYN_MAX_LEN: usize = 10004;
pub struct DynamicTickArrayLoader(pub [u8; DYN_MAX_LEN]);
pub struct DynamicTick {}
impl DynamicTick { pub const UNINITIALIZED_LEN: usize = 1; pub const INITIALIZED_LEN: usize = 113; }
#[verifier::external_body]
pub fn array_ref_4(a: &[u8; DYN_MAX_LEN], off: usize) -> (r: [u8; 4]) requires off + 4 <= DYN_MAX_LEN, ensures r == sub4(*a, off as int) { unimplemented!() }
#[verifier::external_body]
pub fn array_ref_16(a: &[u8; DYN_MAX_LEN], off: usize) -> (r: [u8; 16]) requires off + 16 <= DYN_MAX_LEN, ensures r == sub16(*a, off as int) { unimplemented!() }
pub open spec fn sub4(a: [u8; DYN_MAX_LEN], off: int) -> [u8; 4] { [a[off], a[off + 1], a[off + 2], a[off + 3]] }
pub open spec fn sub16(a: [u8; DYN_MAX_LEN], off: int) -> [u8; 16] { [a[off], a[off + 1], a[off + 2], a[off + 3], a[off + 4], a[off + 5], a[off + 6], a[off + 7], a[off + 8], a[off + 9], a[off + 10], a[off + 11], a[off + 12], a[off + 13], a[off + 14], a[off + 15]] }
pub uninterp spec fn popcount(x: u128) -> int;
pub trait CountOnesV { fn count_ones_v(self) -> (r: u32); }
impl CountOnesV for u128 {
    #[verifier::external_body]
    fn count_ones_v(self) -> (r: u32) ensures r as int == popcount(self), 0 <= r <= 128 { self.count_ones() }
}
#[verifier::external_body]
pub proof fn axiom_popcount_below(x: u128, k: u128)
    requires k <= 127, x < (1u128 << k),
    ensures 0 <= popcount(x) <= k,
{}
pub open spec fn bit_set(x: u128, k: int) -> bool { (x >> (k as u128)) & 1u128 == 1u128 }

impl DynamicTickArrayLoader {
//@ const state/dynamic_tick_array.rs pub START_TICK_INDEX_OFFSET WHIRLPOOL_OFFSET TICK_BITMAP_OFFSET TICK_DATA_OFFSET
    pub open spec fn vbitmap(&self) -> u128 { le_u128(sub16(self.0, 36)) }
//@ fn state/dynamic_tick_array.rs tick_bitmap in=/^impl DynamicTickArrayLoader \{\n    fn byte_offset/ -> r
    ensures r == self.vbitmap(),
//@ inject at /^\{/
        proof { assert(Self::TICK_BITMAP_OFFSET == 36); }
//@ end
//@ fn state/dynamic_tick_array.rs is_initialized_tick in=/^impl DynamicTickArrayLoader \{\n    fn byte_offset/ -> r
    requires 0 <= tick_offset < 128,
    ensures r == bit_set(*tick_bitmap, tick_offset as int),
//@ inject at /^\{/
        proof { let b = *tick_bitmap; let k = tick_offset as u128;
                assert(k < 128 ==> ((b & (1u128 << k)) != 0u128) == ((b >> k) & 1u128 == 1u128)) by(bit_vector); }
//@ end
/// byte position of slot k inside the tick data: 113 bytes per initialized slot before it, 1 per uninitialized one
//@ fn state/dynamic_tick_array.rs byte_offset in=/^impl DynamicTickArrayLoader \{\n    fn byte_offset/ -> r
    requires tick_offset < 88,
    ensures tick_offset < 0 ==> r == err::<usize>(ErrorCode::TickNotFound),
        tick_offset >= 0 ==> ({ let below = popcount(self.vbitmap() & (((1u128 << (tick_offset as u128)) - 1) as u128));
            r == Ok::<usize, Error>((113 * below + (tick_offset as int - below)) as usize) && 0 <= below <= tick_offset }),
//@ inject before /let mask = /
        proof { let k = tick_offset as u128; let bm = tick_bitmap;
                assert((1u128 << tick_offset) == (1u128 << k));
                assert(k < 88 ==> (1u128 << k) >= 1u128) by(bit_vector);
                assert(k < 88 ==> (bm & (((1u128 << k) - 1u128) as u128)) < (1u128 << k)) by(bit_vector);
                axiom_popcount_below(bm & (((1u128 << k) - 1u128) as u128), k); }
//@ end
}

pub uninterp spec fn dyn_tick_at(bytes: [u8; DYN_MAX_LEN], slot: int) -> Tick;
impl TickArrayType for DynamicTickArrayLoader {
    open spec fn vstart(&self) -> int { le_i32(sub4(self.0, 0)) as int }
    open spec fn vinit(&self, slot: int) -> bool { 0 <= slot < 88 && bit_set(self.vbitmap(), slot) }
    open spec fn vtick(&self, slot: int) -> Tick { dyn_tick_at(self.0, slot) }
    open spec fn wf(&self) -> bool { -START_BOUND() <= le_i32(sub4(self.0, 0)) <= START_BOUND() }
    open spec fn updatable(&self) -> bool { true }
//@ fn state/dynamic_tick_array.rs is_variable_size in=/^impl TickArrayType for DynamicTickArrayLoader \{/ -> r
    ensures r,
//@ end
//@ fn state/dynamic_tick_array.rs start_tick_index in=/^impl TickArrayType for DynamicTickArrayLoader \{/ -> r
//@ end
/// same query, answered from the bitmap alone: must satisfy the very contract the fixed array satisfies (C13)
//@ fn state/dynamic_tick_array.rs get_next_init_tick_index in=/^impl TickArrayType for DynamicTickArrayLoader \{/ -> r
//@ loop 0
            invariant tick_spacing > 0, self.wf(), -1 <= curr_offset <= 88, tick_bitmap == self.vbitmap(),
                in_range_spec(tick_index as int, self.vstart(), tick_spacing as int, !a_to_b),
                ({ let o = slot_of(tick_index as int, self.vstart(), tick_spacing as int) + (if a_to_b { 0int } else { 1int });
                   0 <= o < 88
                   && (a_to_b ==> curr_offset <= o && (forall|j: int| curr_offset < j <= o && 0 <= j < 88 ==> !self.vinit(j)))
                   && (!a_to_b ==> curr_offset >= o && (forall|j: int| o <= j < curr_offset && 0 <= j < 88 ==> !self.vinit(j))) }),
            decreases (if a_to_b { curr_offset + 1 } else { 88 - curr_offset }),
//@ inject at /^\{/
        proof { if tick_spacing > 0 && in_range_spec(tick_index as int, self.vstart(), tick_spacing as int, !a_to_b) { lemma_slot_range(tick_index as int, self.vstart(), tick_spacing as int, !a_to_b); } }
//@ inject before /return Ok\(Some\(/
                proof { lemma_slot_mul(self.vstart(), curr_offset as int, tick_spacing as int);
                        assert(curr_offset as int * tick_spacing as int <= 88 * 65535) by(nonlinear_arith) requires 0 <= curr_offset < 88, 0 < tick_spacing as int <= 65535;
                        assert(curr_offset as int * tick_spacing as int >= 0) by(nonlinear_arith) requires 0 <= curr_offset < 88, 0 < tick_spacing as int <= 65535; }
//@ end
//@ assume the dynamic array's trait-level get_tick / update_tick are assumed to meet the slot-level trait contract; their real bodies are verified at BYTE level below (get_tick_bytes / update_tick_bytes against P2A) with the Borsh (de)serialisation of one slot and the std slice rotation as shims; the step from P2A to the slot-level contract is the layout argument proved for the Pinocchio twin (fragment pino_tick_arrays, lemma_dyn_update_slots)
//@ fn state/dynamic_tick_array.rs get_tick in=/^impl TickArrayType for DynamicTickArrayLoader \{/ -> r stub
//@ end
//@ fn state/dynamic_tick_array.rs update_tick in=/^impl TickArrayType for DynamicTickArrayLoader \{/ -> r stub
//@ end
}

// ------------------------------------------------------------------ Anchor dynamic tick array at byte level (C13)
//@ tags C13 C12
//@ assume Anchor dynamic-array shims: `DynamicTick::deserialize(&mut &tick_data()[o..o+113])?.into()` -> dyn_deserialize_at (Borsh enum: tag byte 0 = Uninitialized -> the all-zero tick, tag 1 = Initialized -> the 112 data bytes as a tick, any other tag -> error); `DynamicTick::from(update).serialize(&mut &mut tick_data_mut()[o..o+len])?` -> dyn_serialize_at (writes tag 0, or tag 1 and the 112 data bytes); `let s = &mut tick_data_mut()[o..]; s.rotate_right(n)` / rotate_left -> rotate_right_from / rotate_left_from (documented std semantics); `self.0[a..a+16].copy_from_slice(&x.to_le_bytes())` -> write16; tick_data()/tick_data_mut() are `self.0[TICK_DATA_OFFSET..]`, so the shims take TICK_DATA_OFFSET + offset
pub const DYN_TICK_DATA_LEN: usize = 112;
pub struct DynamicTickData {}
impl DynamicTickData { pub const LEN: usize = 112; }
pub uninterp spec fn dyn_tick_view(a: [u8; DYN_MAX_LEN], p: int) -> Tick;
#[verifier::external_body]
pub proof fn axiom_dyn_tick_view(a: [u8; DYN_MAX_LEN], p: int, b: [u8; DYN_MAX_LEN], q: int)
    requires 0 <= p, p + 113 <= DYN_MAX_LEN, 0 <= q, q + 113 <= DYN_MAX_LEN, forall|j: int| 0 <= j < 113 ==> #[trigger] a[p + j] == b[q + j],
    ensures dyn_tick_view(a, p) == dyn_tick_view(b, q), dyn_tick_view(a, p).initialized,
{}
#[verifier::external_body]
pub fn dyn_deserialize_at(a: &[u8; DYN_MAX_LEN], p: usize) -> (r: Result<Tick>)
    requires p + 113 <= DYN_MAX_LEN,
    ensures a[p as int] == 0 ==> r == Ok::<Tick, Error>(zero_tick()), a[p as int] == 1 ==> r == Ok::<Tick, Error>(dyn_tick_view(*a, p as int)) && dyn_tick_view(*a, p as int).initialized, a[p as int] > 1 ==> r is Err,
{ unimplemented!() }
#[verifier::external_body]
pub fn dyn_serialize_at(a: &mut [u8; DYN_MAX_LEN], p: usize, len: usize, update: &TickUpdate) -> (r: Result<()>)
    requires p + len <= DYN_MAX_LEN, len == (if update.initialized { 113usize } else { 1usize }),
    ensures r is Ok, forall|q: int| 0 <= q < DYN_MAX_LEN && (q < p || q >= p + len) ==> final(a)[q] == old(a)[q],
        final(a)[p as int] == (if update.initialized { 1u8 } else { 0u8 }), update.initialized ==> dyn_tick_view(*final(a), p as int).as_update() == *update,
{ unimplemented!() }
#[verifier::external_body]
pub fn rotate_right_from(a: &mut [u8; DYN_MAX_LEN], o: usize, n: usize)
    requires o + n <= DYN_MAX_LEN,
    ensures forall|q: int| 0 <= q < o ==> final(a)[q] == old(a)[q],
        forall|q: int| o <= q < o + n ==> final(a)[q] == old(a)[DYN_MAX_LEN - n + (q - o)],
        forall|q: int| o + n <= q < DYN_MAX_LEN ==> final(a)[q] == old(a)[q - n],
{ unimplemented!() }
#[verifier::external_body]
pub fn rotate_left_from(a: &mut [u8; DYN_MAX_LEN], o: usize, n: usize)
    requires o + n <= DYN_MAX_LEN,
    ensures forall|q: int| 0 <= q < o ==> final(a)[q] == old(a)[q],
        forall|q: int| o <= q < DYN_MAX_LEN - n ==> final(a)[q] == old(a)[q + n],
        forall|q: int| DYN_MAX_LEN - n <= q < DYN_MAX_LEN ==> final(a)[q] == old(a)[o + (q - (DYN_MAX_LEN - n))],
{ unimplemented!() }
#[verifier::external_body]
pub fn write16(a: &mut [u8; DYN_MAX_LEN], off: usize, b: [u8; 16])
    requires off + 16 <= DYN_MAX_LEN,
    ensures sub16(*final(a), off as int) == b, forall|q: int| 0 <= q < DYN_MAX_LEN && (q < off || q >= off + 16) ==> final(a)[q] == old(a)[q],
{ unimplemented!() }
/// byte position of slot k inside the loader's bytes
pub open spec fn offa(b: u128, k: int) -> int { let below = popcount(b & (((1u128 << (k as u128)) - 1) as u128)); 52 + 113 * below + (k - below) }
/// P2A - the byte-level effect of the Anchor update_tick on slot k at position o = offa(bitmap, k): the bitmap changes (bit k) only when the slot's state changes;
/// bytes below o other than the bitmap field are untouched; the slot becomes [1, tick bytes] or [0]; the bytes behind keep their order and move by +112, -112 or 0
pub open spec fn dyna_update_bytes(a0: [u8; DYN_MAX_LEN], k: int, u: TickUpdate, a1: [u8; DYN_MAX_LEN]) -> bool {
    let b0 = le_u128(sub16(a0, 36)); let b1 = le_u128(sub16(a1, 36)); let o = offa(b0, k); let was = a0[o] != 0;
    let oldlen = if was { 113int } else { 1int }; let newlen = if u.initialized { 113int } else { 1int };
    &&& b1 == (if !was && u.initialized { b0 | (1u128 << (k as u128)) } else if was && !u.initialized { b0 & !(1u128 << (k as u128)) } else { b0 })
    &&& (forall|q: int| 0 <= q < o && !(36 <= q < 52) ==> a1[q] == a0[q])
    &&& (if u.initialized { a1[o] == 1 && dyn_tick_view(a1, o).as_update() == u } else { a1[o] == 0 })
    &&& (forall|q: int| o + newlen <= q < (if was && !u.initialized { DYN_MAX_LEN - 112 } else { DYN_MAX_LEN as int }) ==> #[trigger] a1[q] == a0[q - newlen + oldlen])
}
impl DynamicTickArrayLoader {
//@ subst /self\.0\[Self::TICK_BITMAP_OFFSET\.\.Self::TICK_BITMAP_OFFSET \+ 16\]\s*\.copy_from_slice\(&tick_bitmap\.to_le_bytes_v\(\)\);/ => /write16(&mut self.0, Self::TICK_BITMAP_OFFSET, tick_bitmap.to_le_bytes_v());/
//@ fn state/dynamic_tick_array.rs update_tick_bitmap in=/^impl DynamicTickArrayLoader \{\n    fn byte_offset/
    requires 0 <= tick_offset < 88,
    ensures final(self).vbitmap() == (if initialized { old(self).vbitmap() | (1u128 << (tick_offset as u128)) } else { old(self).vbitmap() & !(1u128 << (tick_offset as u128)) }),
        forall|q: int| 0 <= q < DYN_MAX_LEN && !(36 <= q < 52) ==> final(self).0[q] == old(self).0[q],
//@ inject at /^\s*\{/
        proof { broadcast use crate::lebytes::le_roundtrip; let k = tick_offset as u128; assert((1u128 << tick_offset) == (1u128 << k)); assert(Self::TICK_BITMAP_OFFSET == 36); }
//@ end
/// reading slot k: the all-zero tick for tag 0, the 112 data bytes for tag 1 (C13: same answer as a fixed array holding the same ticks)
//@ fn state/dynamic_tick_array.rs get_tick in=/^impl TickArrayType for DynamicTickArrayLoader \{/ -> r pub as=get_tick_bytes canary
    requires self.wf(), tick_spacing > 0, -IDX_BOUND() <= tick_index <= IDX_BOUND(),
    ensures ({
        let ok = in_range_spec(tick_index as int, self.vstart(), tick_spacing as int, false) && tick_usable(tick_index as int, tick_spacing as int);
        let o = offa(self.vbitmap(), slot_of(tick_index as int, self.vstart(), tick_spacing as int));
        &&& (!ok ==> r == err::<Tick>(ErrorCode::TickNotFound))
        &&& (ok && self.0[o] == 0 ==> r == Ok::<Tick, Error>(zero_tick()))
        &&& (ok && self.0[o] == 1 ==> r == Ok::<Tick, Error>(dyn_tick_view(self.0, o)))
    }),
//@ rewrite /let ticks_data = self\.tick_data\(\);\s*let mut tick_data = &ticks_data\[byte_offset\.\.byte_offset \+ DynamicTick::INITIALIZED_LEN\];\s*let tick = DynamicTick::deserialize\(&mut tick_data\)\?;\s*Ok\(tick\.into\(\)\)/ => /let tick = dyn_deserialize_at(&self.0, Self::TICK_DATA_OFFSET + byte_offset)?; Ok(tick)/
//@ inject before /let byte_offset = /
        proof { lemma_slot_range(tick_index as int, self.vstart(), tick_spacing as int, false); assert(Self::TICK_DATA_OFFSET == 52); }
//@ end
//@ fn state/dynamic_tick_array.rs update_tick in=/^impl TickArrayType for DynamicTickArrayLoader \{/ -> r pub as=update_tick_bytes canary
    requires old(self).wf(), tick_spacing > 0, -IDX_BOUND() <= tick_index <= IDX_BOUND(),
    ensures final(self).vstart() == old(self).vstart(), ({
        let ok = in_range_spec(tick_index as int, old(self).vstart(), tick_spacing as int, false) && tick_usable(tick_index as int, tick_spacing as int);
        let k = slot_of(tick_index as int, old(self).vstart(), tick_spacing as int); let o = offa(old(self).vbitmap(), k);
        &&& (!ok ==> r == err::<()>(ErrorCode::TickNotFound) && final(self).0 == old(self).0)
        &&& (ok && old(self).0[o] <= 1 ==> r is Ok && dyna_update_bytes(old(self).0, k, *update, final(self).0))
        &&& (ok && old(self).0[o] > 1 ==> r is Err && final(self).0 == old(self).0)
    }),
//@ rewrite /let data = self\.tick_data\(\);\s*let mut tick_data = &data\[byte_offset\.\.byte_offset \+ DynamicTick::INITIALIZED_LEN\];\s*let tick: Tick = DynamicTick::deserialize\(&mut tick_data\)\?\.into\(\);/ => /let tick: Tick = dyn_deserialize_at(&self.0, Self::TICK_DATA_OFFSET + byte_offset)?;/
//@ rewrite /let data_mut = self\.tick_data_mut\(\);\s*let shift_data = &mut data_mut\[byte_offset\.\.\];\s*shift_data\.rotate_right\(([^;]*)\);/ => /rotate_right_from(&mut self.0, Self::TICK_DATA_OFFSET + byte_offset, \1);/
//@ rewrite /let data_mut = self\.tick_data_mut\(\);\s*let shift_data = &mut data_mut\[byte_offset\.\.\];\s*shift_data\.rotate_left\(([^;]*)\);/ => /rotate_left_from(&mut self.0, Self::TICK_DATA_OFFSET + byte_offset, \1);/
//@ rewrite /let data_mut = self\.tick_data_mut\(\);\s*let mut tick_data = &mut data_mut\[byte_offset\.\.byte_offset \+ tick_data_len\];\s*DynamicTick::from\(update\)\.serialize\(&mut tick_data\)\?;/ => /dyn_serialize_at(&mut self.0, Self::TICK_DATA_OFFSET + byte_offset, tick_data_len, update)?;/
//@ inject before /let byte_offset = /
        proof { lemma_slot_range(tick_index as int, self.vstart(), tick_spacing as int, false); assert(Self::TICK_DATA_OFFSET == 52); }
//@ end
}
}
