//@ needs specs errors stdspecs lebytes anchor_shim authority
// C15: the Pinocchio tick-array loader. load_tick_array_mut's checks (writable, owned by the whirlpool program, at least 8 bytes, one of the two tick-array
// discriminators, whirlpool field == the pool passed) and TickArraysMut::load (both accounts loaded against the SAME pool key; the same account is loaded once) are
// verified on the real bodies. What is NOT Verus-expressible and is replaced by ONE logged rewrite: the `match discriminator { .. Ref[Mut]::map(data, |data| unsafe { &*(ptr as *const T) } as &dyn TickArray) .. }`
// block (trait objects, closures over raw pointers) becomes the shim `ta_view_mut(data)`: Ok exactly for the two discriminators, with the view's whirlpool() the
// pool field of those bytes.
pub mod pino_ta_loader {
use vstd::prelude::*;
use crate::errors::ErrorCode as WhirlpoolErrorCode;
use crate::specs::*;
use crate::anchor_shim::Pubkey;
use crate::authority_pino::{Result, UnifiedError, AccountInfo, AnchorErrorCode};
use crate::authority_pino::address::WHIRLPOOL_PROGRAM_ID;
broadcast use crate::authority_pino::ax_qmark_pino;
//@ tags C15
//@ assume tick-array loader shims: try_borrow_mut_data hands out the account's bytes; ta_view_mut stands for the discriminator match with its two unsafe casts (the discriminators are Anchor-derived constants: uninterpreted is_ta_discriminator); the loaded view exposes whirlpool() = the pool field of the bytes (offset differs per layout: uninterpreted ta_pool_of); `crate::ID.to_bytes()` (declare_id!) is taken to be the WHIRLPOOL_PROGRAM_ID constant of pinocchio/constants/address.rs, decoded from its base58 text
pub uninterp spec fn is_ta_discriminator(first8: Seq<u8>) -> bool;
pub uninterp spec fn ta_pool_of(data: Seq<u8>) -> Pubkey;
pub struct DataMut<'a> { pub bytes: Ghost<Seq<u8>>, pub p: core::marker::PhantomData<&'a ()> }
impl<'a> DataMut<'a> {
    #[verifier::external_body]
    pub fn len(&self) -> (r: usize) ensures r == self.bytes@.len() { unimplemented!() }
}
impl AccountInfo {
    #[verifier::external_body]
    pub fn try_borrow_mut_data(&self) -> (r: Result<DataMut<'_>>) ensures r matches Ok(d) ==> d.bytes@ == self.data() { unimplemented!() }
}
pub struct LoadedTickArrayMut<'a> { pub pool: Pubkey, pub bytes: Ghost<Seq<u8>>, pub p: core::marker::PhantomData<&'a ()> }
impl<'a> LoadedTickArrayMut<'a> {
    pub fn whirlpool(&self) -> (r: &Pubkey) ensures *r == self.pool { &self.pool }
}
#[verifier::external_body]
pub fn ta_view_mut<'a>(data: DataMut<'a>) -> (r: Result<LoadedTickArrayMut<'a>>)
    requires data.bytes@.len() >= 8,
    ensures r is Ok <==> is_ta_discriminator(data.bytes@.subrange(0, 8)),
        r is Err ==> r == Err::<LoadedTickArrayMut<'a>, UnifiedError>(UnifiedError::Anchor(AnchorErrorCode::AccountDiscriminatorMismatch)),
        r matches Ok(t) ==> t.bytes@ == data.bytes@ && t.pool == ta_pool_of(data.bytes@)
{ unimplemented!() }
pub fn whirlpool_id_bytes() -> (r: Pubkey) ensures r == WHIRLPOOL_PROGRAM_ID { WHIRLPOOL_PROGRAM_ID }

/// what a successful load has established about the account
pub open spec fn ta_loaded_ok(i: AccountInfo, pool: Pubkey) -> bool {
    i.writable && i.owner_k == WHIRLPOOL_PROGRAM_ID && i.data().len() >= 8 && is_ta_discriminator(i.data().subrange(0, 8)) && ta_pool_of(i.data()) == pool
}

//@ fn pinocchio/state/whirlpool/tick_array/loader.rs load_tick_array_mut -> r canary
    ensures
        r is Ok ==> ta_loaded_ok(*account, *whirlpool), //# C15
        !account.writable ==> r is Err, account.owner_k != WHIRLPOOL_PROGRAM_ID ==> r is Err, //# C15
        r matches Ok(t) ==> t.pool == *whirlpool && t.bytes@ == account.data(),
//@ rewrite /&crate::ID\.to_bytes\(\)/ => /&whirlpool_id_bytes()/
//@ rewrite /let discriminator = data\[0\.\.8\]\.as_ref\(\);\s*let tick_array: LoadedTickArrayMut<'a> = match discriminator \{[\s\S]*?\n    \};/ => /let tick_array: LoadedTickArrayMut<'a> = ta_view_mut(data)?;/
//@ end

pub struct TickArraysMut<'a> {
    pub lower_tick_array_ref: LoadedTickArrayMut<'a>,
    pub upper_tick_array_ref: Option<LoadedTickArrayMut<'a>>,
}
impl<'a> TickArraysMut<'a> {
/// C15: both tick arrays of a liquidity instruction are loaded against the SAME pool key; when both slots name one account it is loaded once
//@ fn pinocchio/state/whirlpool/tick_array/loader.rs load in=/^impl<'a> TickArraysMut<'a> \{/ -> r canary
    ensures
        r is Ok ==> ta_loaded_ok(*lower_tick_array_info, *whirlpool) && ta_loaded_ok(*upper_tick_array_info, *whirlpool) || (lower_tick_array_info.k == upper_tick_array_info.k && ta_loaded_ok(*lower_tick_array_info, *whirlpool)), //# C15
        r matches Ok(t) ==> (t.upper_tick_array_ref is None <==> lower_tick_array_info.k == upper_tick_array_info.k),
//@ end
}
}
