//@ needs specs errors stdspecs bitlemmas u256_math tick_math
// C09, price -> tick: the real `tick_index_from_sqrt_price` against a spec twin (14-bit binary logarithm, two margin estimates, one exact
// comparison), and the argument why the twin is the floor tick: the logarithm estimate is monotone in the price, so it is enough to know
// the two estimates at the 887 272 tick boundaries (thorough tier: by(compute) sweep; quick tier: the tightest boundaries only).
pub mod tick_inverse {
use vstd::prelude::*;
use std::convert::TryInto;
use crate::specs::*;
use crate::tick_math::*;
use crate::tick_math_exec::*;
//@ tags C09
//@ const math/tick_math.rs pub LOG_B_2_X32 BIT_PRECISION LOG_B_P_ERR_MARGIN_LOWER_X64 LOG_B_P_ERR_MARGIN_UPPER_X64

pub open spec fn P63() -> int { 0x8000_0000_0000_0000int }
pub open spec fn P126() -> int { 0x4000_0000_0000_0000_0000_0000_0000_0000int }
pub open spec fn P127() -> int { 0x8000_0000_0000_0000_0000_0000_0000_0000int }
pub open spec fn p2(k: nat) -> int decreases k { if k == 0 { 1 } else { 2 * p2((k - 1) as nat) } }
/// floor(log2 p) for p >= 1
pub open spec fn ilog2(p: int) -> int decreases p { if p <= 1 { 0 } else { 1 + ilog2(p / 2) } }
/// the price scaled so that its leading one is bit 63
pub open spec fn norm(p: int) -> int { let m = ilog2(p); if m >= 64 { p / p2((m - 63) as nat) } else { p * p2((63 - m) as nat) } }
/// k more bits of the binary logarithm of r / 2^63 (r in [2^63, 2^64)), most significant worth `bit`
pub open spec fn log_frac(r: int, k: nat, bit: int) -> int decreases k {
    if k == 0 { 0 } else {
        let sq = r * r;
        let b: int = if sq >= P127() { 1 } else { 0 };
        let r2 = if b == 1 { sq / Q() } else { sq / P63() };
        bit * b + log_frac(r2, (k - 1) as nat, bit / 2)
    }
}
/// log2(p / 2^64) in Q32.32, truncated to BIT_PRECISION fractional bits
pub open spec fn log2_x32(p: int) -> int { (ilog2(p) - 64) * P32() + log_frac(norm(p), BIT_PRECISION as nat, P63()) / P32() }
pub open spec fn est_lo(l: int) -> int { (l * (LOG_B_2_X32 as int) - (LOG_B_P_ERR_MARGIN_LOWER_X64 as int)) / Q() }
pub open spec fn est_hi(l: int) -> int { (l * (LOG_B_2_X32 as int) + (LOG_B_P_ERR_MARGIN_UPPER_X64 as int)) / Q() }
/// spec twin of tick_index_from_sqrt_price
pub open spec fn inv_spec(p: int) -> int {
    let l = log2_x32(p); let lo = est_lo(l); let hi = est_hi(l);
    if lo == hi { lo } else if price_at(hi) <= p { hi } else { lo }
}
/// C09: t is THE tick of price p
pub open spec fn floor_tick(p: int, t: int) -> bool { tick_ok(t) && price_at(t) <= p && (t < 443636 ==> p < price_at(t + 1)) }

// ---------------------------------------------------------------- powers, logarithm
pub proof fn lemma_p2_pow2(k: nat) ensures p2(k) == vstd::arithmetic::power2::pow2(k), p2(k) > 0 decreases k
{
    if k == 0 { vstd::arithmetic::power2::lemma2_to64(); } else { lemma_p2_pow2((k - 1) as nat); vstd::arithmetic::power2::lemma_pow2_unfold(k); }
}
pub proof fn lemma_p2_add(a: nat, b: nat) ensures p2(a + b) == p2(a) * p2(b) decreases a
{
    if a == 0 { } else { lemma_p2_add((a - 1) as nat, b); assert(p2(a + b) == 2 * p2((a - 1 + b) as nat));
        assert(2 * (p2((a - 1) as nat) * p2(b)) == (2 * p2((a - 1) as nat)) * p2(b)) by(nonlinear_arith); }
}
pub proof fn lemma_p2_vals() ensures p2(32) == P32(), p2(63) == P63(), p2(64) == Q(), p2(126) == P126(), p2(127) == P127(), p2(128) == U128MAX() + 1
{
    assert(p2(32) == 0x1_0000_0000int) by(compute);
    assert(p2(63) == 0x8000_0000_0000_0000int) by(compute);
    assert(p2(64) == 0x1_0000_0000_0000_0000int) by(compute);
    assert(p2(126) == 0x4000_0000_0000_0000_0000_0000_0000_0000int) by(compute);
    assert(p2(127) == 0x8000_0000_0000_0000_0000_0000_0000_0000int) by(compute);
    assert(p2(128) == 0x1_0000_0000_0000_0000_0000_0000_0000_0000int) by(compute);
}
pub proof fn lemma_ilog2(p: int, m: nat) requires p2(m) <= p < p2(m + 1) ensures ilog2(p) == m decreases m
{
    if m == 0 { assert(p2(1) == 2) by(compute); } else {
        assert(p2(m) == 2 * p2((m - 1) as nat)); assert(p2(m + 1) == 2 * p2(m));
        lemma_p2_pow2((m - 1) as nat);
        lemma_ilog2(p / 2, (m - 1) as nat);
    }
}
pub proof fn lemma_ilog2_range(p: int) requires p >= 1 ensures ilog2(p) >= 0, p2(ilog2(p) as nat) <= p < p2((ilog2(p) + 1) as nat) decreases p
{
    if p <= 1 { assert(p2(1) == 2) by(compute); } else { lemma_ilog2_range(p / 2); let m = ilog2(p / 2) as nat; assert(p2(m + 1) == 2 * p2(m)); assert(p2(m + 2) == 2 * p2(m + 1)); }
}
pub proof fn lemma_ilog2_mono(a: int, b: int) requires 1 <= a <= b ensures ilog2(a) <= ilog2(b) decreases b
{
    if b <= 1 { } else if a <= 1 { lemma_ilog2_range(b); } else { lemma_ilog2_mono(a / 2, b / 2); }
}
pub proof fn lemma_p2_mono(a: nat, b: nat) requires a <= b ensures p2(a) <= p2(b) decreases b
{
    if a == b { } else { lemma_p2_mono(a, (b - 1) as nat); lemma_p2_pow2((b - 1) as nat); }
}
/// the normalised price is in [2^63, 2^64)
pub proof fn lemma_norm_range(p: int) requires 1 <= p <= U128MAX() ensures P63() <= norm(p) < Q(), 0 <= ilog2(p) < 128
{
    lemma_ilog2_range(p); lemma_p2_vals();
    let m = ilog2(p);
    if m >= 128 { lemma_p2_mono(128, m as nat); }
    if m >= 64 {
        let s = (m - 63) as nat; lemma_p2_add(s, 63); lemma_p2_add(s, 64); lemma_p2_pow2(s);
        assert(p2(m as nat) == p2(s) * P63()); assert(p2((m + 1) as nat) == p2(s) * Q());
        let d = p2(s);
        assert(P63() <= p / d < Q()) by(nonlinear_arith) requires d * P63() <= p < d * Q(), d > 0;
    } else {
        let s = (63 - m) as nat; lemma_p2_add(m as nat, s); lemma_p2_add((m + 1) as nat, s); lemma_p2_pow2(s);
        assert(p2(m as nat) * p2(s) == P63()); assert(p2((m + 1) as nat) * p2(s) == Q());
        let d = p2(s); let a = p2(m as nat); let b = p2((m + 1) as nat);
        assert(a * d <= p * d < b * d) by(nonlinear_arith) requires a <= p < b, d > 0;
    }
}

// ---------------------------------------------------------------- fast (by(compute)-friendly) forms of the same functions, proved equal
pub open spec fn ilog2_fast(p: int) -> int {
    let (p1, a1) = if p >= 0x1_0000_0000_0000_0000int { (p / 0x1_0000_0000_0000_0000int, 64int) } else { (p, 0int) };
    let (p2, a2) = if p1 >= 0x1_0000_0000int { (p1 / 0x1_0000_0000int, a1 + 32) } else { (p1, a1) };
    let (p3, a3) = if p2 >= 0x1_0000int { (p2 / 0x1_0000int, a2 + 16) } else { (p2, a2) };
    let (p4, a4) = if p3 >= 0x100int { (p3 / 0x100int, a3 + 8) } else { (p3, a3) };
    let (p5, a5) = if p4 >= 0x10int { (p4 / 0x10int, a4 + 4) } else { (p4, a4) };
    let (p6, a6) = if p5 >= 4 { (p5 / 4, a5 + 2) } else { (p5, a5) };
    if p6 >= 2 { a6 + 1 } else { a6 }
}
pub open spec fn p2_fast(k: int) -> int {
    (if (k / 64) % 2 == 1 { 0x1_0000_0000_0000_0000int } else { 1int }) * (if (k / 32) % 2 == 1 { 0x1_0000_0000int } else { 1int })
    * (if (k / 16) % 2 == 1 { 0x1_0000int } else { 1int }) * (if (k / 8) % 2 == 1 { 0x100int } else { 1int })
    * (if (k / 4) % 2 == 1 { 0x10int } else { 1int }) * (if (k / 2) % 2 == 1 { 4int } else { 1int }) * (if k % 2 == 1 { 2int } else { 1int })
}
pub open spec fn norm_fast(p: int, m: int) -> int { if m >= 64 { p / p2_fast(m - 63) } else { p * p2_fast(63 - m) } }
/// the same value as log2_x32 (lemma_log2_fast), written so that by(compute) evaluates it in a few dozen steps
#[verifier::memoize]
pub open spec fn log2_fast(p: int) -> int { let m = ilog2_fast(p); (m - 64) * P32() + log_frac(norm_fast(p, m), BIT_PRECISION as nat, P63()) / P32() }
pub proof fn lemma_ilog2_split(p: int, k: nat) requires p >= p2(k) ensures ilog2(p) == k + ilog2(p / p2(k)) decreases k
{
    if k == 0 { assert(p2(0) == 1); assert(p / 1 == p); } else {
        let k1 = (k - 1) as nat; lemma_p2_pow2(k1);
        let d = p2(k1);
        assert(p2(k) == 2 * d);
        assert(p >= 2);
        assert(ilog2(p) == 1 + ilog2(p / 2));
        assert(p / 2 >= d) by(nonlinear_arith) requires p >= 2 * d, d > 0;
        lemma_ilog2_split(p / 2, k1);
        vstd::arithmetic::div_mod::lemma_div_denominator(p, 2, d);
        assert((p / 2) / d == p / (2 * d));
    }
}
pub proof fn lemma_ilog2_fast(p: int) requires 1 <= p <= U128MAX() ensures ilog2_fast(p) == ilog2(p)
{
    assert(p2(64) == 0x1_0000_0000_0000_0000int && p2(32) == 0x1_0000_0000int && p2(16) == 0x1_0000int && p2(8) == 0x100int && p2(4) == 0x10int && p2(2) == 4 && p2(1) == 2) by(compute);
    let (p1, a1) = if p >= 0x1_0000_0000_0000_0000int { (p / 0x1_0000_0000_0000_0000int, 64int) } else { (p, 0int) };
    if p >= 0x1_0000_0000_0000_0000int { lemma_ilog2_split(p, 64); }
    assert(ilog2(p) == a1 + ilog2(p1) && 1 <= p1 < 0x1_0000_0000_0000_0000int);
    let (p2_, a2) = if p1 >= 0x1_0000_0000int { (p1 / 0x1_0000_0000int, a1 + 32) } else { (p1, a1) };
    if p1 >= 0x1_0000_0000int { lemma_ilog2_split(p1, 32); }
    assert(ilog2(p) == a2 + ilog2(p2_) && 1 <= p2_ < 0x1_0000_0000int);
    let (p3, a3) = if p2_ >= 0x1_0000int { (p2_ / 0x1_0000int, a2 + 16) } else { (p2_, a2) };
    if p2_ >= 0x1_0000int { lemma_ilog2_split(p2_, 16); }
    assert(ilog2(p) == a3 + ilog2(p3) && 1 <= p3 < 0x1_0000int);
    let (p4, a4) = if p3 >= 0x100int { (p3 / 0x100int, a3 + 8) } else { (p3, a3) };
    if p3 >= 0x100int { lemma_ilog2_split(p3, 8); }
    assert(ilog2(p) == a4 + ilog2(p4) && 1 <= p4 < 0x100int);
    let (p5, a5) = if p4 >= 0x10int { (p4 / 0x10int, a4 + 4) } else { (p4, a4) };
    if p4 >= 0x10int { lemma_ilog2_split(p4, 4); }
    assert(ilog2(p) == a5 + ilog2(p5) && 1 <= p5 < 0x10int);
    let (p6, a6) = if p5 >= 4 { (p5 / 4, a5 + 2) } else { (p5, a5) };
    if p5 >= 4 { lemma_ilog2_split(p5, 2); }
    assert(ilog2(p) == a6 + ilog2(p6) && 1 <= p6 < 4);
    if p6 >= 2 { lemma_ilog2_split(p6, 1); assert(ilog2(p6 / 2) == 0); } else { assert(ilog2(p6) == 0); }
}
pub proof fn lemma_p2_fast(k: int) requires 0 <= k < 128 ensures p2_fast(k) == p2(k as nat)
{
    assert(p2(64) == 0x1_0000_0000_0000_0000int && p2(32) == 0x1_0000_0000int && p2(16) == 0x1_0000int && p2(8) == 0x100int && p2(4) == 0x10int && p2(2) == 4 && p2(1) == 2 && p2(0) == 1) by(compute);
    let b6: nat = if (k / 64) % 2 == 1 { 64 } else { 0 }; let b5: nat = if (k / 32) % 2 == 1 { 32 } else { 0 }; let b4: nat = if (k / 16) % 2 == 1 { 16 } else { 0 };
    let b3: nat = if (k / 8) % 2 == 1 { 8 } else { 0 }; let b2: nat = if (k / 4) % 2 == 1 { 4 } else { 0 }; let b1: nat = if (k / 2) % 2 == 1 { 2 } else { 0 }; let b0: nat = if k % 2 == 1 { 1 } else { 0 };
    assert(k == b6 + b5 + b4 + b3 + b2 + b1 + b0);
    lemma_p2_add(b6, b5); lemma_p2_add(b6 + b5, b4); lemma_p2_add(b6 + b5 + b4, b3); lemma_p2_add(b6 + b5 + b4 + b3, b2);
    lemma_p2_add(b6 + b5 + b4 + b3 + b2, b1); lemma_p2_add(b6 + b5 + b4 + b3 + b2 + b1, b0);
}
pub proof fn lemma_log2_fast(p: int) requires 1 <= p <= U128MAX() ensures log2_fast(p) == log2_x32(p)
{
    lemma_ilog2_fast(p); lemma_norm_range(p);
    let m = ilog2(p);
    if m >= 64 { lemma_p2_fast(m - 63); } else { lemma_p2_fast(63 - m); }
}
// ---------------------------------------------------------------- monotonicity of the estimate
pub proof fn lemma_log_frac_bound(r: int, k: nat, bit: int) requires bit >= 0
    ensures 0 <= log_frac(r, k, bit), bit > 0 ==> log_frac(r, k, bit) < 2 * bit, bit == 0 ==> log_frac(r, k, bit) == 0 decreases k
{
    if k == 0 { } else {
        let sq = r * r; let b: int = if sq >= P127() { 1 } else { 0 }; let r2 = if b == 1 { sq / Q() } else { sq / P63() };
        lemma_log_frac_bound(r2, (k - 1) as nat, bit / 2);
        assert(bit * b == (if b == 1 { bit } else { 0 })) by(nonlinear_arith) requires b == 0 || b == 1;
    }
}
pub proof fn lemma_log_frac_mono(r1: int, r2: int, k: nat, bit: int) requires 0 <= r1 <= r2, bit >= 0
    ensures log_frac(r1, k, bit) <= log_frac(r2, k, bit) decreases k
{
    if k == 0 { } else {
        let s1 = r1 * r1; let s2 = r2 * r2;
        assert(0 <= s1 <= s2) by(nonlinear_arith) requires 0 <= r1 <= r2, s1 == r1 * r1, s2 == r2 * r2;
        let b1: int = if s1 >= P127() { 1 } else { 0 }; let b2: int = if s2 >= P127() { 1 } else { 0 };
        let n1 = if b1 == 1 { s1 / Q() } else { s1 / P63() }; let n2 = if b2 == 1 { s2 / Q() } else { s2 / P63() };
        assert(bit * b1 == (if b1 == 1 { bit } else { 0 })) by(nonlinear_arith) requires b1 == 0 || b1 == 1;
        assert(bit * b2 == (if b2 == 1 { bit } else { 0 })) by(nonlinear_arith) requires b2 == 0 || b2 == 1;
        lemma_log_frac_bound(n1, (k - 1) as nat, bit / 2); lemma_log_frac_bound(n2, (k - 1) as nat, bit / 2);
        if b1 == b2 {
            vstd::arithmetic::div_mod::lemma_div_is_ordered(s1, s2, Q()); vstd::arithmetic::div_mod::lemma_div_is_ordered(s1, s2, P63());
            vstd::arithmetic::div_mod::lemma_div_pos_is_pos(s1, Q()); vstd::arithmetic::div_mod::lemma_div_pos_is_pos(s1, P63());
            lemma_log_frac_mono(n1, n2, (k - 1) as nat, bit / 2);
        } else { }
    }
}
pub proof fn lemma_norm_mono(a: int, b: int) requires 1 <= a <= b <= U128MAX(), ilog2(a) == ilog2(b) ensures norm(a) <= norm(b)
{
    lemma_norm_range(a); let m = ilog2(a);
    if m >= 64 { let s = (m - 63) as nat; lemma_p2_pow2(s); vstd::arithmetic::div_mod::lemma_div_is_ordered(a, b, p2(s)); }
    else { let s = (63 - m) as nat; lemma_p2_pow2(s); let d = p2(s); assert(a * d <= b * d) by(nonlinear_arith) requires a <= b, d > 0; }
}
/// the logarithm estimate is monotone in the price
pub proof fn lemma_log2_mono(a: int, b: int) requires 1 <= a <= b <= U128MAX() ensures log2_x32(a) <= log2_x32(b)
{
    lemma_ilog2_mono(a, b); lemma_norm_range(a); lemma_norm_range(b);
    let k = BIT_PRECISION as nat;
    let fa = log_frac(norm(a), k, P63()); let fb = log_frac(norm(b), k, P63());
    lemma_log_frac_bound(norm(a), k, P63()); lemma_log_frac_bound(norm(b), k, P63());
    if ilog2(a) == ilog2(b) {
        lemma_norm_mono(a, b); lemma_log_frac_mono(norm(a), norm(b), k, P63());
        vstd::arithmetic::div_mod::lemma_div_is_ordered(fa, fb, P32());
    } else {
        assert(fa / P32() < P32()) by(nonlinear_arith) requires 0 <= fa < 2 * P63(), P32() * P32() == 2 * P63(), P32() > 0;
        vstd::arithmetic::div_mod::lemma_div_pos_is_pos(fb, P32());
        let ma = ilog2(a); let mb = ilog2(b);
        assert((ma - 64) * P32() + P32() <= (mb - 64) * P32()) by(nonlinear_arith) requires ma + 1 <= mb, P32() > 0;
    }
}
pub proof fn lemma_est_mono(l1: int, l2: int) requires l1 <= l2 ensures est_lo(l1) <= est_lo(l2), est_hi(l1) <= est_hi(l2), est_lo(l1) <= est_hi(l1) <= est_lo(l1) + 1
{
    let c = LOG_B_2_X32 as int;
    assert(l1 * c <= l2 * c) by(nonlinear_arith) requires l1 <= l2, c == 59543866431248int;
    vstd::arithmetic::div_mod::lemma_div_is_ordered(l1 * c - (LOG_B_P_ERR_MARGIN_LOWER_X64 as int), l2 * c - (LOG_B_P_ERR_MARGIN_LOWER_X64 as int), Q());
    vstd::arithmetic::div_mod::lemma_div_is_ordered(l1 * c + (LOG_B_P_ERR_MARGIN_UPPER_X64 as int), l2 * c + (LOG_B_P_ERR_MARGIN_UPPER_X64 as int), Q());
    let x = l1 * c - (LOG_B_P_ERR_MARGIN_LOWER_X64 as int); let y = l1 * c + (LOG_B_P_ERR_MARGIN_UPPER_X64 as int);
    // the two margins together are less than one tick (2^64 in Q64 ticks): the estimates differ by at most one
    assert(0 <= y - x < Q());
    vstd::arithmetic::div_mod::lemma_div_is_ordered(x, y, Q());
    vstd::arithmetic::div_mod::lemma_fundamental_div_mod(x, Q()); vstd::arithmetic::div_mod::lemma_fundamental_div_mod(y, Q());
    vstd::arithmetic::div_mod::lemma_mod_bound(x, Q()); vstd::arithmetic::div_mod::lemma_mod_bound(y, Q());
    let qx = x / Q(); let qy = y / Q();
    assert(qy <= qx + 1) by(nonlinear_arith) requires x == Q() * qx + x % Q(), y == Q() * qy + y % Q(), 0 <= x % Q() < Q(), 0 <= y % Q() < Q(), y - x < Q(), Q() > 0;
}

// ---------------------------------------------------------------- boundary facts and the theorem
/// what the sweep establishes at tick t: the upper estimate at the tick's own price reaches t, the lower estimate at the next tick's price does not exceed t
pub open spec fn inv_point_ok(t: int) -> bool {
    est_hi(log2_x32(price_at(t))) >= t && (t < 443636 ==> est_lo(log2_x32(price_at(t + 1))) <= t) && (t == 443636 ==> est_hi(log2_x32(price_at(t))) == t)
}
/// the same facts in the form the sweeps evaluate (one price and one logarithm per tick end)
pub open spec fn inv_point_fast(t: int, p0: int, p1: int) -> bool {
    est_hi(log2_fast(p0)) >= t && (t < 443636 ==> est_lo(log2_fast(p1)) <= t) && (t == 443636 ==> est_hi(log2_fast(p0)) == t)
}
pub proof fn lemma_point_fast(t: int)
    requires 1 <= price_at(t) <= U128MAX(), 1 <= price_at(t + 1) <= U128MAX(), inv_point_fast(t, price_at(t), price_at(t + 1)),
    ensures inv_point_ok(t),
{
    hide(price_at); hide(log2_fast); hide(log2_x32);
    lemma_log2_fast(price_at(t)); lemma_log2_fast(price_at(t + 1));
}
/// everything the thorough tier proves tick by tick (crate tick_props: lemma_all_points)
pub open spec fn pt(t: int) -> bool { true }
pub open spec fn all_points_ok() -> bool {
    forall|t: int| #![trigger pt(t)] pt(t) && tick_ok(t) ==> inv_point_ok(t) && MIN_PRICE() <= price_at(t) <= MAX_PRICE() && (t < 443636 ==> price_at(t) < price_at(t + 1))
}
pub proof fn lemma_mono_chain(a: int, b: int) requires all_points_ok(), tick_ok(a), tick_ok(b), a <= b ensures price_at(a) <= price_at(b), a < b ==> price_at(a) < price_at(b) decreases b - a
{
    if a < b { lemma_mono_chain(a, b - 1); assert(pt(b - 1)); assert(price_at(b - 1) < price_at(b - 1 + 1)); }
}
proof fn lemma_find_tick(p: int, t: int) -> (u: int) requires all_points_ok(), tick_ok(t), price_at(t) <= p <= MAX_PRICE()
    ensures floor_tick(p, u) decreases 443636 - t
{
    assert(pt(t)); assert(pt(t + 1));
    if t == 443636 { t } else if p < price_at(t + 1) { t } else { lemma_find_tick(p, t + 1) }
}
pub proof fn lemma_floor_unique(p: int, t: int, u: int)
    requires all_points_ok(), floor_tick(p, t), floor_tick(p, u),
    ensures u == t,
{
    hide(price_at);
    if u < t { lemma_mono_chain(u + 1, t); } else if u > t { lemma_mono_chain(t + 1, u); }
}
proof fn lemma_estimates_bracket(p: int, t: int)
    requires all_points_ok(), price_ok(p), floor_tick(p, t),
    ensures est_lo(log2_x32(p)) <= t <= est_hi(log2_x32(p)), est_hi(log2_x32(p)) == est_lo(log2_x32(p)) || est_hi(log2_x32(p)) == est_lo(log2_x32(p)) + 1,
{
    hide(price_at); hide(log2_x32); hide(est_lo); hide(est_hi);
    crate::tick_math_exec::lemma_endpoints();
    assert(pt(t)); assert(pt(t + 1));
    let l = log2_x32(p);
    assert(inv_point_ok(t));
    assert(price_at(t) >= MIN_PRICE());
    lemma_log2_mono(price_at(t), p);
    lemma_est_mono(log2_x32(price_at(t)), l);
    if t < 443636 {
        assert(price_at(t + 1) <= MAX_PRICE());
        lemma_log2_mono(p, price_at(t + 1));
        lemma_est_mono(l, log2_x32(price_at(t + 1)));
    } else {
        assert(price_at(t) == MAX_PRICE());
        assert(p == price_at(t));
    }
}
/// C09 (inverse): for every sqrt-price within bounds the spec twin is the unique tick whose price is at most p and whose successor's price is above p
pub proof fn lemma_inverse_floor(p: int)
    requires all_points_ok(), price_ok(p),
    ensures floor_tick(p, inv_spec(p)), forall|u: int| floor_tick(p, u) ==> u == inv_spec(p),
{
    hide(price_at); hide(log2_x32); hide(est_lo); hide(est_hi);
    assert(pt(-443636));
    crate::tick_math_exec::lemma_endpoints();
    let t = lemma_find_tick(p, -443636);
    lemma_estimates_bracket(p, t); lemma_est_in_range(p);
    let l = log2_x32(p); let lo = est_lo(l); let hi = est_hi(l);
    if lo != hi {
        if price_at(hi) <= p {
            if hi != t { assert(hi == t + 1); assert(false); }
        } else {
            if lo != t { assert(hi == t); assert(false); }
        }
    }
    assert(inv_spec(p) == t);
    assert forall|u: int| floor_tick(p, u) implies u == t by { lemma_floor_unique(p, t, u); }
}
/// the estimates stay inside the tick range, so the exact comparison is made with a supported tick (needs only monotonicity and the two end prices)
pub proof fn lemma_est_in_range(p: int)
    requires price_ok(p),
    ensures -443636 <= est_hi(log2_x32(p)) <= 443636, -443637 <= est_lo(log2_x32(p)) <= 443636,
{
    assert(MIN_PRICE() == 4295048016int && MAX_PRICE() == 79226673515401279992447579055int);
    lemma_log2_mono(MIN_PRICE(), p); lemma_log2_mono(p, MAX_PRICE());
    lemma_est_mono(log2_x32(MIN_PRICE()), log2_x32(p)); lemma_est_mono(log2_x32(p), log2_x32(MAX_PRICE()));
    assert(est_hi(log2_x32(4295048016int)) == -443636) by(compute);
    assert(est_hi(log2_x32(79226673515401279992447579055int)) == 443636) by(compute);
}

// ---------------------------------------------------------------- the real function
pub proof fn lemma_shl_is_mul(x: u128, s: u128) requires s < 128, x as int * p2(s as nat) <= U128MAX() ensures (x << s) as int == x as int * p2(s as nat) decreases s
{
    if s == 0 { assert(x << 0u128 == x) by(bit_vector); } else {
        let s1 = (s - 1) as u128;
        lemma_p2_pow2(s1 as nat);
        let d = p2(s1 as nat);
        assert(x as int * d <= x as int * (2 * d)) by(nonlinear_arith) requires x >= 0, d > 0;
        assert(x as int * (2 * d) == 2 * (x as int * d)) by(nonlinear_arith);
        lemma_shl_is_mul(x, s1);
        let y = x << s1;
        assert(x << s == (x << s1) << 1u128) by(bit_vector) requires s1 + 1 == s, s < 128;
        assert(y << 1u128 == y * 2) by(bit_vector) requires y < 0x8000_0000_0000_0000_0000_0000_0000_0000u128;
    }
}
/// one iteration of the logarithm loop on machine integers
pub proof fn lemma_log_step(r: u128)
    requires P63() <= r as int, (r as int) < Q(),
    ensures r as int * r as int <= U128MAX(), P126() <= r as int * r as int,
        ((r * r) as u128 >> 127u32) == (if r as int * r as int >= P127() { 1u128 } else { 0u128 }),
        ((r * r) as u128 >> 63u128) as int == (r as int * r as int) / P63(), ((r * r) as u128 >> 64u128) as int == (r as int * r as int) / Q(),
        (r as int * r as int >= P127()) ==> P63() <= (r as int * r as int) / Q() < Q(),
        (r as int * r as int) < P127() ==> P63() <= (r as int * r as int) / P63() < Q(),
{
    let x = r as int;
    assert(P126() <= x * x < Q() * Q()) by(nonlinear_arith) requires P63() <= x < Q(), P63() * P63() == P126(), Q() > 0;
    assert(Q() * Q() == U128MAX() + 1);
    let s = (r * r) as u128;
    assert(s >> 127u32 == (if s >= 0x8000_0000_0000_0000_0000_0000_0000_0000u128 { 1u128 } else { 0u128 })) by(bit_vector);
    assert(s >> 63u128 == s / 0x8000_0000_0000_0000u128) by(bit_vector);
    assert(s >> 64u128 == s / 0x1_0000_0000_0000_0000u128) by(bit_vector);
    let sq = x * x;
    if sq >= P127() { assert(P63() <= sq / Q() < Q()) by(nonlinear_arith) requires P127() <= sq < Q() * Q(), P127() == P63() * Q(), Q() > 0; }
    else { assert(P63() <= sq / P63() < Q()) by(nonlinear_arith) requires P126() <= sq < P127(), P126() == P63() * P63(), P127() == P63() * Q(), P63() > 0; }
}

//@ fn math/tick_math.rs tick_index_from_sqrt_price -> t
    requires price_ok(*sqrt_price_x64 as int),
    ensures t as int == inv_spec(*sqrt_price_x64 as int),
//@ rewrite /sqrt_price_x64 >> \(msb - 63\)/ => /*sqrt_price_x64 >> (msb - 63)/
//@ rewrite /sqrt_price_x64 << \(63 - msb\)/ => /*sqrt_price_x64 << (63 - msb)/
//@ inject at /^\{/
    let ghost p = *sqrt_price_x64 as int;
    proof {
        lemma_p2_vals(); lemma_norm_range(p); lemma_ilog2_range(p); lemma_est_in_range(p);
        assert(MIN_PRICE() == 4295048016int && MAX_PRICE() == 79226673515401279992447579055int);
    }
//@ inject after /let msb: u32 =/
    proof {
        lemma_p2_pow2(msb as nat); lemma_p2_pow2((msb + 1) as nat);
        assert(p2(msb as nat) <= p < p2((msb + 1) as nat));
        lemma_ilog2(p, msb as nat);
        if msb < 32 { lemma_p2_mono((msb + 1) as nat, 32); }
        if msb > 96 { lemma_p2_mono(97, msb as nat); assert(p2(97) == 0x2_0000_0000_0000_0000_0000_0000int) by(compute); }
    }
//@ inject after /let log2p_integer_x32 =/
    proof {
        assert(msb as int == ilog2(p) && 32 <= msb <= 96);
        let m = (msb as i128 - 64) as i128;
        assert(m << 32 == m * 0x1_0000_0000i128) by(bit_vector) requires -64 <= m < 64;
        assert(log2p_integer_x32 as int == (ilog2(p) - 64) * P32());
    }
//@ inject before /let mut r = if msb >= 64/
    proof {
        if msb >= 64 {
            vstd::bits::lemma_u128_shr_is_div(*sqrt_price_x64, (msb - 63) as u128); lemma_p2_pow2((msb - 63) as nat);
            assert(*sqrt_price_x64 >> (msb - 63) == *sqrt_price_x64 >> ((msb - 63) as u128));
        } else {
            let s = (63 - msb) as nat;
            assert(p * p2(s) == norm(p));
            lemma_shl_is_mul(*sqrt_price_x64, (63 - msb) as u128);
            assert(*sqrt_price_x64 << (63 - msb) == *sqrt_price_x64 << ((63 - msb) as u128));
        }
    }
//@ loop 0
        invariant
            precision <= BIT_PRECISION, BIT_PRECISION == 14, bit as int == p2((63 - precision) as nat), bit > 0,
            P63() <= r as int, (r as int) < Q(),
            0 <= log2p_fraction_x64, (log2p_fraction_x64 as int) + 2 * (bit as int) <= 2 * P63(),
            log2p_fraction_x64 as int + log_frac(r as int, (BIT_PRECISION - precision) as nat, bit as int) == log_frac(norm(p), BIT_PRECISION as nat, P63()),
        decreases BIT_PRECISION - precision,
//@ inject after /while bit > 0 && precision < BIT_PRECISION \{/
        proof {
            lemma_log_step(r); lemma_p2_pow2((63 - precision - 1) as nat);
            assert(p2((63 - precision) as nat) == 2 * p2((63 - precision - 1) as nat));
            assert(bit >> 1 == bit / 2) by(bit_vector) requires bit > 0;
            let b: int = if r as int * r as int >= P127() { 1 } else { 0 };
            assert((bit as int) * b == (if b == 1 { bit as int } else { 0 })) by(nonlinear_arith) requires b == 0 || b == 1;
        }
//@ inject after /let log2p_fraction_x32 =/
    proof {
        assert(log2p_fraction_x64 as int == log_frac(norm(p), BIT_PRECISION as nat, P63()));
        assert(log2p_fraction_x64 >> 32 == log2p_fraction_x64 / 0x1_0000_0000i128) by(bit_vector) requires log2p_fraction_x64 >= 0;
        assert(0 <= log2p_fraction_x32 < P32()) by(nonlinear_arith) requires log2p_fraction_x32 as int == (log2p_fraction_x64 as int) / P32(), 0 <= (log2p_fraction_x64 as int) < P32() * P32(), P32() > 0;
    }
//@ inject after /let log2p_x32 =/
    proof {
        assert(log2p_x32 as int == log2_x32(p));
        assert(-32 * P32() <= log2p_x32 as int <= 33 * P32());
        assert(-0x1_0000_0000_0000_0000_0000_0000int <= (log2p_x32 as int) * (LOG_B_2_X32 as int) <= 0x1_0000_0000_0000_0000_0000_0000int) by(nonlinear_arith)
            requires -32 * P32() <= log2p_x32 as int <= 33 * P32(), LOG_B_2_X32 as int == 59543866431248int, P32() == 0x1_0000_0000int;
    }
//@ inject before /let tick_low: i32 =/
    proof {
        let a = (logbp_x64 - LOG_B_P_ERR_MARGIN_LOWER_X64) as i128; let b = (logbp_x64 + LOG_B_P_ERR_MARGIN_UPPER_X64) as i128;
        assert(a >> 64 == a / 0x1_0000_0000_0000_0000i128) by(bit_vector);
        assert(b >> 64 == b / 0x1_0000_0000_0000_0000i128) by(bit_vector);
        assert((a >> 64) as int == est_lo(log2_x32(p)));
        assert((b >> 64) as int == est_hi(log2_x32(p)));
    }
//@ end
}
