//@ needs specs errors stdspecs lebytes anchor_shim state_core oracle tick_math_abs authority validators
// C04 (settings side) / C19 at handler level: the Anchor handlers that change pool, fee-tier, adaptive-fee-tier and config settings. The bodies are one call
// to a validated setter (verified in fragments state_core / validators); WHO may call is entirely in the #[derive(Accounts)] attributes, which the extractor
// turns into the precondition constraints_<Struct> (K-rules); each postcondition restates, from the property, which recorded authority must have signed and
// which account the setting belongs to, so a dropped or re-pointed attribute fails it.
pub mod settings_handlers {
use vstd::prelude::*;
use crate::errors::ErrorCode;
use crate::specs::*;
use crate::anchor_shim::*;
use crate::lebytes::*;
use crate::authority::Signer;
use crate::state_core::Whirlpool;
use crate::validators::{WhirlpoolsConfig, FeeTier, AdaptiveFeeTier};
//@ tags C04 C19
//@ assume settings-handler shims: Context (accounts behind &mut), UncheckedAccount (key only), Program / System markers; Anchor's derive(Accounts) is trusted to enforce the translated clauses
pub struct Context<'a, 'b, 'c, 'info, T> { pub accounts: &'b mut T, pub p: core::marker::PhantomData<(&'a (), &'c (), &'info ())> }
pub struct UncheckedAccount<'info> { pub k: Pubkey, pub p: core::marker::PhantomData<&'info ()> }
impl<'info> UncheckedAccount<'info> { pub fn key(&self) -> (r: Pubkey) ensures r == self.k { self.k } }
impl<'info> SKey for UncheckedAccount<'info> { open spec fn skey(&self) -> Pubkey { self.k } }
pub struct Program<'info, T> { pub k: Pubkey, pub p: core::marker::PhantomData<&'info T> }
impl<'info, T> SKey for Program<'info, T> { open spec fn skey(&self) -> Pubkey { self.k } }
pub struct System {}

impl Whirlpool {
    pub open spec fn fee_tier_index_spec(&self) -> u16 { le_u16(self.fee_tier_index_seed) }
    pub open spec fn is_initialized_with_adaptive_fee_tier_spec(&self) -> bool { self.fee_tier_index_spec() != self.tick_spacing }
//@ fn state/whirlpool.rs fee_tier_index in=/^impl Whirlpool \{/ -> r
    ensures r == self.fee_tier_index_spec(),
//@ rewrite /u16::from_le_bytes\(/ => /u16_from_le_bytes(/
//@ end
//@ fn state/whirlpool.rs is_initialized_with_adaptive_fee_tier in=/^impl Whirlpool \{/ -> r
    ensures r == self.is_initialized_with_adaptive_fee_tier_spec(),
//@ end
/// C04: the new reward authority is stored in the first reward slot's extension bytes, nothing else changes
//@ fn state/whirlpool.rs update_reward_authority in=/^impl Whirlpool \{/ -> r
    ensures r is Ok, final(self).reward_authority_spec() == authority,
        *final(self) == (Whirlpool { reward_infos: final(self).reward_infos, ..*old(self) }),
        final(self).reward_infos[0] == (crate::state_core::WhirlpoolRewardInfo { extension: authority.0, ..old(self).reward_infos[0] }),
        final(self).reward_infos[1] == old(self).reward_infos[1] && final(self).reward_infos[2] == old(self).reward_infos[2],
//@ rewrite /self\.reward_infos\[0\]\s*\.extension\s*\.copy_from_slice\(&authority\.to_bytes\(\)\);/ => /self.reward_infos[0].extension = authority.to_bytes();/
//@ end
}

// ------------------------------------------------------------------ set_fee_rate
//@ struct instructions/set_fee_rate.rs SetFeeRate
//@ constraints instructions/set_fee_rate.rs SetFeeRate
//@ fn instructions/set_fee_rate.rs handler -> r as=set_fee_rate_handler canary
    requires constraints_SetFeeRate(old(ctx.accounts)),
    ensures
        r is Ok ==> old(ctx.accounts).fee_authority.skey() == old(ctx.accounts).whirlpools_config.data.fee_authority && old(ctx.accounts).fee_authority.info.is_signer, //# C04
        r is Ok ==> old(ctx.accounts).whirlpool.data.whirlpools_config == old(ctx.accounts).whirlpools_config.skey(), //# C04
        r is Ok ==> fee_rate <= 60_000 && final(ctx.accounts).whirlpool.data == (Whirlpool { fee_rate: fee_rate, ..old(ctx.accounts).whirlpool.data }), //# C19
        r is Err ==> final(ctx.accounts).whirlpool.data == old(ctx.accounts).whirlpool.data,
//@ end

// ------------------------------------------------------------------ set_protocol_fee_rate
//@ struct instructions/set_protocol_fee_rate.rs SetProtocolFeeRate
//@ constraints instructions/set_protocol_fee_rate.rs SetProtocolFeeRate
//@ fn instructions/set_protocol_fee_rate.rs handler -> r as=set_protocol_fee_rate_handler canary
    requires constraints_SetProtocolFeeRate(old(ctx.accounts)),
    ensures
        r is Ok ==> old(ctx.accounts).fee_authority.skey() == old(ctx.accounts).whirlpools_config.data.fee_authority && old(ctx.accounts).fee_authority.info.is_signer, //# C04
        r is Ok ==> old(ctx.accounts).whirlpool.data.whirlpools_config == old(ctx.accounts).whirlpools_config.skey(), //# C04
        r is Ok ==> protocol_fee_rate <= 2_500 && final(ctx.accounts).whirlpool.data == (Whirlpool { protocol_fee_rate: protocol_fee_rate, ..old(ctx.accounts).whirlpool.data }), //# C19
        r is Err ==> final(ctx.accounts).whirlpool.data == old(ctx.accounts).whirlpool.data,
//@ end

// ------------------------------------------------------------------ set_default_fee_rate
//@ struct instructions/set_default_fee_rate.rs SetDefaultFeeRate
//@ constraints instructions/set_default_fee_rate.rs SetDefaultFeeRate
//@ fn instructions/set_default_fee_rate.rs handler -> r as=set_default_fee_rate_handler canary
    requires constraints_SetDefaultFeeRate(old(ctx.accounts)),
    ensures
        r is Ok ==> old(ctx.accounts).fee_authority.skey() == old(ctx.accounts).whirlpools_config.data.fee_authority && old(ctx.accounts).fee_authority.info.is_signer, //# C04
        r is Ok ==> old(ctx.accounts).fee_tier.data.whirlpools_config == old(ctx.accounts).whirlpools_config.skey(), //# C04
        r is Ok ==> default_fee_rate <= 60_000 && final(ctx.accounts).fee_tier.data == (FeeTier { default_fee_rate: default_fee_rate, ..old(ctx.accounts).fee_tier.data }), //# C19
//@ end

// ------------------------------------------------------------------ set_default_protocol_fee_rate
//@ struct instructions/set_default_protocol_fee_rate.rs SetDefaultProtocolFeeRate
//@ constraints instructions/set_default_protocol_fee_rate.rs SetDefaultProtocolFeeRate
//@ fn instructions/set_default_protocol_fee_rate.rs handler -> r as=set_default_protocol_fee_rate_handler canary
    requires constraints_SetDefaultProtocolFeeRate(old(ctx.accounts)),
    ensures
        r is Ok ==> old(ctx.accounts).fee_authority.skey() == old(ctx.accounts).whirlpools_config.data.fee_authority && old(ctx.accounts).fee_authority.info.is_signer, //# C04
        r is Ok ==> default_protocol_fee_rate <= 2_500 && final(ctx.accounts).whirlpools_config.data == (WhirlpoolsConfig { default_protocol_fee_rate: default_protocol_fee_rate, ..old(ctx.accounts).whirlpools_config.data }), //# C19
//@ end

// ------------------------------------------------------------------ set_fee_authority
//@ struct instructions/set_fee_authority.rs SetFeeAuthority
//@ constraints instructions/set_fee_authority.rs SetFeeAuthority
//@ fn instructions/set_fee_authority.rs handler -> r as=set_fee_authority_handler canary
    requires constraints_SetFeeAuthority(old(ctx.accounts)),
    ensures
        r is Ok ==> old(ctx.accounts).fee_authority.skey() == old(ctx.accounts).whirlpools_config.data.fee_authority && old(ctx.accounts).fee_authority.info.is_signer, //# C04
        r is Ok ==> final(ctx.accounts).whirlpools_config.data == (WhirlpoolsConfig { fee_authority: old(ctx.accounts).new_fee_authority.k, ..old(ctx.accounts).whirlpools_config.data }), //# C04
//@ end

// ------------------------------------------------------------------ set_collect_protocol_fees_authority
//@ struct instructions/set_collect_protocol_fees_authority.rs SetCollectProtocolFeesAuthority
//@ constraints instructions/set_collect_protocol_fees_authority.rs SetCollectProtocolFeesAuthority
//@ fn instructions/set_collect_protocol_fees_authority.rs handler -> r as=set_collect_protocol_fees_authority_handler canary
    requires constraints_SetCollectProtocolFeesAuthority(old(ctx.accounts)),
    ensures
        r is Ok ==> old(ctx.accounts).collect_protocol_fees_authority.skey() == old(ctx.accounts).whirlpools_config.data.collect_protocol_fees_authority && old(ctx.accounts).collect_protocol_fees_authority.info.is_signer, //# C04
        r is Ok ==> final(ctx.accounts).whirlpools_config.data == (WhirlpoolsConfig { collect_protocol_fees_authority: old(ctx.accounts).new_collect_protocol_fees_authority.k, ..old(ctx.accounts).whirlpools_config.data }), //# C04
//@ end

// ------------------------------------------------------------------ set_reward_emissions_super_authority
//@ struct instructions/set_reward_emissions_super_authority.rs SetRewardEmissionsSuperAuthority
//@ constraints instructions/set_reward_emissions_super_authority.rs SetRewardEmissionsSuperAuthority
//@ fn instructions/set_reward_emissions_super_authority.rs handler -> r as=set_reward_emissions_super_authority_handler canary
    requires constraints_SetRewardEmissionsSuperAuthority(old(ctx.accounts)),
    ensures
        r is Ok ==> old(ctx.accounts).reward_emissions_super_authority.skey() == old(ctx.accounts).whirlpools_config.data.reward_emissions_super_authority && old(ctx.accounts).reward_emissions_super_authority.info.is_signer, //# C04
        r is Ok ==> final(ctx.accounts).whirlpools_config.data == (WhirlpoolsConfig { reward_emissions_super_authority: old(ctx.accounts).new_reward_emissions_super_authority.k, ..old(ctx.accounts).whirlpools_config.data }), //# C04
//@ end

// ------------------------------------------------------------------ set_reward_authority
//@ struct instructions/set_reward_authority.rs SetRewardAuthority
//@ constraints instructions/set_reward_authority.rs SetRewardAuthority method:reward_authority
//@ fn instructions/set_reward_authority.rs handler -> r as=set_reward_authority_handler canary
    requires constraints_SetRewardAuthority(old(ctx.accounts)),
    ensures
        r is Ok ==> old(ctx.accounts).reward_authority.skey() == old(ctx.accounts).whirlpool.data.reward_authority_spec() && old(ctx.accounts).reward_authority.info.is_signer, //# C04
        r is Ok ==> final(ctx.accounts).whirlpool.data.reward_authority_spec() == old(ctx.accounts).new_reward_authority.k && final(ctx.accounts).whirlpool.data.whirlpools_config == old(ctx.accounts).whirlpool.data.whirlpools_config && final(ctx.accounts).whirlpool.data.fee_rate == old(ctx.accounts).whirlpool.data.fee_rate && final(ctx.accounts).whirlpool.data.liquidity == old(ctx.accounts).whirlpool.data.liquidity, //# C04
//@ end

// ------------------------------------------------------------------ set_reward_authority_by_super_authority
//@ struct instructions/set_reward_authority_by_super_authority.rs SetRewardAuthorityBySuperAuthority
//@ constraints instructions/set_reward_authority_by_super_authority.rs SetRewardAuthorityBySuperAuthority
//@ fn instructions/set_reward_authority_by_super_authority.rs handler -> r as=set_reward_authority_by_super_authority_handler canary
    requires constraints_SetRewardAuthorityBySuperAuthority(old(ctx.accounts)),
    ensures
        r is Ok ==> old(ctx.accounts).reward_emissions_super_authority.skey() == old(ctx.accounts).whirlpools_config.data.reward_emissions_super_authority && old(ctx.accounts).reward_emissions_super_authority.info.is_signer, //# C04
        r is Ok ==> old(ctx.accounts).whirlpool.data.whirlpools_config == old(ctx.accounts).whirlpools_config.skey(), //# C04
        r is Ok ==> final(ctx.accounts).whirlpool.data.reward_authority_spec() == old(ctx.accounts).new_reward_authority.k && final(ctx.accounts).whirlpool.data.whirlpools_config == old(ctx.accounts).whirlpool.data.whirlpools_config && final(ctx.accounts).whirlpool.data.fee_rate == old(ctx.accounts).whirlpool.data.fee_rate && final(ctx.accounts).whirlpool.data.liquidity == old(ctx.accounts).whirlpool.data.liquidity, //# C04
//@ end

// ------------------------------------------------------------------ initialize_fee_tier
//@ struct instructions/initialize_fee_tier.rs InitializeFeeTier
//@ constraints instructions/initialize_fee_tier.rs InitializeFeeTier
//@ fn instructions/initialize_fee_tier.rs handler -> r as=initialize_fee_tier_handler canary
    requires constraints_InitializeFeeTier(old(ctx.accounts), tick_spacing),
    ensures
        r is Ok ==> old(ctx.accounts).fee_authority.skey() == old(ctx.accounts).config.data.fee_authority && old(ctx.accounts).fee_authority.info.is_signer, //# C04
        r is Ok ==> tick_spacing != 0 && default_fee_rate <= 60_000 && final(ctx.accounts).fee_tier.data.tick_spacing == tick_spacing && final(ctx.accounts).fee_tier.data.default_fee_rate == default_fee_rate && final(ctx.accounts).fee_tier.data.whirlpools_config == old(ctx.accounts).config.skey(), //# C19
//@ end

// ------------------------------------------------------------------ set_default_base_fee_rate
//@ struct instructions/adaptive_fee/set_default_base_fee_rate.rs SetDefaultBaseFeeRate
//@ constraints instructions/adaptive_fee/set_default_base_fee_rate.rs SetDefaultBaseFeeRate
//@ fn instructions/adaptive_fee/set_default_base_fee_rate.rs handler -> r as=set_default_base_fee_rate_handler canary
    requires constraints_SetDefaultBaseFeeRate(old(ctx.accounts)),
    ensures
        r is Ok ==> old(ctx.accounts).fee_authority.skey() == old(ctx.accounts).whirlpools_config.data.fee_authority && old(ctx.accounts).fee_authority.info.is_signer, //# C04
        r is Ok ==> old(ctx.accounts).adaptive_fee_tier.data.whirlpools_config == old(ctx.accounts).whirlpools_config.skey(), //# C04
        r is Ok ==> default_base_fee_rate <= 60_000 && final(ctx.accounts).adaptive_fee_tier.data == (AdaptiveFeeTier { default_base_fee_rate: default_base_fee_rate, ..old(ctx.accounts).adaptive_fee_tier.data }), //# C19
//@ end

// ------------------------------------------------------------------ set_delegated_fee_authority
//@ struct instructions/adaptive_fee/set_delegated_fee_authority.rs SetDelegatedFeeAuthority
//@ constraints instructions/adaptive_fee/set_delegated_fee_authority.rs SetDelegatedFeeAuthority
//@ fn instructions/adaptive_fee/set_delegated_fee_authority.rs handler -> r as=set_delegated_fee_authority_handler canary
    requires constraints_SetDelegatedFeeAuthority(old(ctx.accounts)),
    ensures
        r is Ok ==> old(ctx.accounts).fee_authority.skey() == old(ctx.accounts).whirlpools_config.data.fee_authority && old(ctx.accounts).fee_authority.info.is_signer, //# C04
        r is Ok ==> old(ctx.accounts).adaptive_fee_tier.data.whirlpools_config == old(ctx.accounts).whirlpools_config.skey(), //# C04
        r is Ok ==> final(ctx.accounts).adaptive_fee_tier.data == (AdaptiveFeeTier { delegated_fee_authority: old(ctx.accounts).new_delegated_fee_authority.k, ..old(ctx.accounts).adaptive_fee_tier.data }), //# C04
//@ end

// ------------------------------------------------------------------ set_initialize_pool_authority
//@ struct instructions/adaptive_fee/set_initialize_pool_authority.rs SetInitializePoolAuthority
//@ constraints instructions/adaptive_fee/set_initialize_pool_authority.rs SetInitializePoolAuthority
//@ fn instructions/adaptive_fee/set_initialize_pool_authority.rs handler -> r as=set_initialize_pool_authority_handler canary
    requires constraints_SetInitializePoolAuthority(old(ctx.accounts)),
    ensures
        r is Ok ==> old(ctx.accounts).fee_authority.skey() == old(ctx.accounts).whirlpools_config.data.fee_authority && old(ctx.accounts).fee_authority.info.is_signer, //# C04
        r is Ok ==> old(ctx.accounts).adaptive_fee_tier.data.whirlpools_config == old(ctx.accounts).whirlpools_config.skey(), //# C04
        r is Ok ==> final(ctx.accounts).adaptive_fee_tier.data == (AdaptiveFeeTier { initialize_pool_authority: old(ctx.accounts).new_initialize_pool_authority.k, ..old(ctx.accounts).adaptive_fee_tier.data }), //# C04
//@ end

// ------------------------------------------------------------------ set_fee_rate_by_delegated_fee_authority
//@ struct instructions/adaptive_fee/set_fee_rate_by_delegated_fee_authority.rs SetFeeRateByDelegatedFeeAuthority
//@ constraints instructions/adaptive_fee/set_fee_rate_by_delegated_fee_authority.rs SetFeeRateByDelegatedFeeAuthority method:is_initialized_with_adaptive_fee_tier method:fee_tier_index
//@ fn instructions/adaptive_fee/set_fee_rate_by_delegated_fee_authority.rs handler -> r as=set_fee_rate_by_delegated_fee_authority_handler canary
    requires constraints_SetFeeRateByDelegatedFeeAuthority(old(ctx.accounts)),
    ensures
        r is Ok ==> old(ctx.accounts).delegated_fee_authority.skey() == old(ctx.accounts).adaptive_fee_tier.data.delegated_fee_authority && old(ctx.accounts).delegated_fee_authority.info.is_signer, //# C04
        r is Ok ==> old(ctx.accounts).adaptive_fee_tier.data.whirlpools_config == old(ctx.accounts).whirlpool.data.whirlpools_config && old(ctx.accounts).adaptive_fee_tier.data.fee_tier_index == old(ctx.accounts).whirlpool.data.fee_tier_index_spec() && old(ctx.accounts).whirlpool.data.fee_tier_index_spec() != old(ctx.accounts).whirlpool.data.tick_spacing, //# C04
        r is Ok ==> fee_rate <= 60_000 && final(ctx.accounts).whirlpool.data == (Whirlpool { fee_rate: fee_rate, ..old(ctx.accounts).whirlpool.data }), //# C19
//@ end

// ------------------------------------------------------------------ token badges and the config extension
//@ assume token-badge handler shims: WhirlpoolsConfig::verify_enabled_feature (bitflags `contains`) is an external stub over the uninterpreted predicate feature_enabled; ConfigFeatureFlags::TOKEN_BADGE is the opaque constant flag_token_badge(); the mint account is a key-only placeholder
pub struct Mint {}
pub use crate::authority::InterfaceAccount;
impl<'a> InterfaceAccount<'a, Mint> { pub fn key(&self) -> (r: Pubkey) ensures r == *self.info.key { *self.info.key } }
pub uninterp spec fn feature_enabled(flags: u16, f: crate::validators::ConfigFeatureFlags) -> bool;
pub uninterp spec fn flag_token_badge_spec() -> crate::validators::ConfigFeatureFlags;
#[verifier::external_body]
pub fn flag_token_badge() -> (r: crate::validators::ConfigFeatureFlags) ensures r == flag_token_badge_spec() { unimplemented!() }
impl WhirlpoolsConfig {
    #[verifier::external_body]
    pub fn verify_enabled_feature(&self, feature: crate::validators::ConfigFeatureFlags) -> (r: Result<()>) ensures r is Ok <==> feature_enabled(self.feature_flags, feature) { unimplemented!() }
}
//@ struct state/config_extension.rs WhirlpoolsConfigExtension
//@ struct state/token_badge.rs TokenBadge
//@ enum state/token_badge.rs TokenBadgeAttribute
impl WhirlpoolsConfigExtension {
//@ fn state/config_extension.rs initialize in=/^impl WhirlpoolsConfigExtension \{/ -> r
    ensures r is Ok, *final(self) == (WhirlpoolsConfigExtension { whirlpools_config: whirlpools_config, config_extension_authority: default_authority, token_badge_authority: default_authority }),
//@ end
//@ fn state/config_extension.rs update_config_extension_authority in=/^impl WhirlpoolsConfigExtension \{/
    ensures *final(self) == (WhirlpoolsConfigExtension { config_extension_authority: config_extension_authority, ..*old(self) }),
//@ end
//@ fn state/config_extension.rs update_token_badge_authority in=/^impl WhirlpoolsConfigExtension \{/
    ensures *final(self) == (WhirlpoolsConfigExtension { token_badge_authority: token_badge_authority, ..*old(self) }),
//@ end
}
impl TokenBadge {
//@ fn state/token_badge.rs initialize in=/^impl TokenBadge \{/ -> r
    ensures r is Ok, *final(self) == (TokenBadge { whirlpools_config: whirlpools_config, token_mint: token_mint, attribute_require_non_transferable_position: false }),
//@ end
//@ fn state/token_badge.rs update_attribute in=/^impl TokenBadge \{/ -> r
    ensures r is Ok, final(self).whirlpools_config == old(self).whirlpools_config, final(self).token_mint == old(self).token_mint,
        attribute matches TokenBadgeAttribute::RequireNonTransferablePosition(v) ==> final(self).attribute_require_non_transferable_position == v,
//@ end
}
// ------------------------------------------------------------------ set_token_badge_authority
//@ struct instructions/v2/set_token_badge_authority.rs SetTokenBadgeAuthority
//@ constraints instructions/v2/set_token_badge_authority.rs SetTokenBadgeAuthority
//@ fn instructions/v2/set_token_badge_authority.rs handler -> r as=set_token_badge_authority_handler canary
    requires constraints_SetTokenBadgeAuthority(old(ctx.accounts)),
    ensures
        r is Ok ==> old(ctx.accounts).config_extension_authority.skey() == old(ctx.accounts).whirlpools_config_extension.data.config_extension_authority && old(ctx.accounts).config_extension_authority.info.is_signer, //# C04
        r is Ok ==> old(ctx.accounts).whirlpools_config_extension.data.whirlpools_config == old(ctx.accounts).whirlpools_config.skey(), //# C04
        r is Ok ==> final(ctx.accounts).whirlpools_config_extension.data == (WhirlpoolsConfigExtension { token_badge_authority: old(ctx.accounts).new_token_badge_authority.k, ..old(ctx.accounts).whirlpools_config_extension.data }), //# C04
//@ end

// ------------------------------------------------------------------ set_config_extension_authority
//@ struct instructions/v2/set_config_extension_authority.rs SetConfigExtensionAuthority
//@ constraints instructions/v2/set_config_extension_authority.rs SetConfigExtensionAuthority
//@ fn instructions/v2/set_config_extension_authority.rs handler -> r as=set_config_extension_authority_handler canary
    requires constraints_SetConfigExtensionAuthority(old(ctx.accounts)),
    ensures
        r is Ok ==> old(ctx.accounts).config_extension_authority.skey() == old(ctx.accounts).whirlpools_config_extension.data.config_extension_authority && old(ctx.accounts).config_extension_authority.info.is_signer, //# C04
        r is Ok ==> old(ctx.accounts).whirlpools_config_extension.data.whirlpools_config == old(ctx.accounts).whirlpools_config.skey(), //# C04
        r is Ok ==> final(ctx.accounts).whirlpools_config_extension.data == (WhirlpoolsConfigExtension { config_extension_authority: old(ctx.accounts).new_config_extension_authority.k, ..old(ctx.accounts).whirlpools_config_extension.data }), //# C04
//@ end

// ------------------------------------------------------------------ initialize_token_badge
//@ struct instructions/v2/initialize_token_badge.rs InitializeTokenBadge
//@ constraints instructions/v2/initialize_token_badge.rs InitializeTokenBadge
//@ fn instructions/v2/initialize_token_badge.rs handler -> r as=initialize_token_badge_handler canary
    requires constraints_InitializeTokenBadge(old(ctx.accounts)),
    ensures
        r is Ok ==> old(ctx.accounts).token_badge_authority.skey() == old(ctx.accounts).whirlpools_config_extension.data.token_badge_authority && old(ctx.accounts).token_badge_authority.info.is_signer, //# C04
        r is Ok ==> old(ctx.accounts).whirlpools_config_extension.data.whirlpools_config == old(ctx.accounts).whirlpools_config.skey(), //# C04
        r is Ok ==> feature_enabled(old(ctx.accounts).whirlpools_config.data.feature_flags, flag_token_badge_spec()), //# C19
        r is Ok ==> final(ctx.accounts).token_badge.data == (TokenBadge { whirlpools_config: old(ctx.accounts).whirlpools_config.skey(), token_mint: old(ctx.accounts).token_mint.skey(), attribute_require_non_transferable_position: false }), //# C19 C04
//@ rewrite /ConfigFeatureFlags::TOKEN_BADGE/ => /flag_token_badge()/
//@ end

// ------------------------------------------------------------------ delete_token_badge
//@ struct instructions/v2/delete_token_badge.rs DeleteTokenBadge
//@ constraints instructions/v2/delete_token_badge.rs DeleteTokenBadge
//@ fn instructions/v2/delete_token_badge.rs handler -> r as=delete_token_badge_handler canary
    requires constraints_DeleteTokenBadge(old(ctx.accounts)),
    ensures
        r is Ok ==> old(ctx.accounts).token_badge_authority.skey() == old(ctx.accounts).whirlpools_config_extension.data.token_badge_authority && old(ctx.accounts).token_badge_authority.info.is_signer, //# C04
        r is Ok ==> old(ctx.accounts).whirlpools_config_extension.data.whirlpools_config == old(ctx.accounts).whirlpools_config.skey(), //# C04
        r is Ok ==> old(ctx.accounts).token_badge.data.whirlpools_config == old(ctx.accounts).whirlpools_config.skey(), //# C04
        r is Ok ==> feature_enabled(old(ctx.accounts).whirlpools_config.data.feature_flags, flag_token_badge_spec()), //# C19
//@ rewrite /ConfigFeatureFlags::TOKEN_BADGE/ => /flag_token_badge()/
//@ end

// ------------------------------------------------------------------ set_token_badge_attribute
//@ struct instructions/v2/set_token_badge_attribute.rs SetTokenBadgeAttribute
//@ constraints instructions/v2/set_token_badge_attribute.rs SetTokenBadgeAttribute
//@ fn instructions/v2/set_token_badge_attribute.rs handler -> r as=set_token_badge_attribute_handler canary
    requires constraints_SetTokenBadgeAttribute(old(ctx.accounts)),
    ensures
        r is Ok ==> old(ctx.accounts).token_badge_authority.skey() == old(ctx.accounts).whirlpools_config_extension.data.token_badge_authority && old(ctx.accounts).token_badge_authority.info.is_signer, //# C04
        r is Ok ==> old(ctx.accounts).whirlpools_config_extension.data.whirlpools_config == old(ctx.accounts).whirlpools_config.skey(), //# C04
        r is Ok ==> old(ctx.accounts).token_badge.data.whirlpools_config == old(ctx.accounts).whirlpools_config.skey() && old(ctx.accounts).token_badge.data.token_mint == old(ctx.accounts).token_mint.skey(), //# C04
        r is Ok ==> final(ctx.accounts).token_badge.data.whirlpools_config == old(ctx.accounts).token_badge.data.whirlpools_config && final(ctx.accounts).token_badge.data.token_mint == old(ctx.accounts).token_badge.data.token_mint, //# C04
//@ rewrite /ConfigFeatureFlags::TOKEN_BADGE/ => /flag_token_badge()/
//@ end

// ------------------------------------------------------------------ initialize_config_extension
//@ struct instructions/v2/initialize_config_extension.rs InitializeConfigExtension
//@ constraints instructions/v2/initialize_config_extension.rs InitializeConfigExtension
//@ fn instructions/v2/initialize_config_extension.rs handler -> r as=initialize_config_extension_handler canary
    requires constraints_InitializeConfigExtension(old(ctx.accounts)),
    ensures
        r is Ok ==> old(ctx.accounts).fee_authority.skey() == old(ctx.accounts).config.data.fee_authority && old(ctx.accounts).fee_authority.info.is_signer, //# C04
        r is Ok ==> final(ctx.accounts).config_extension.data == (WhirlpoolsConfigExtension { whirlpools_config: old(ctx.accounts).config.skey(), config_extension_authority: old(ctx.accounts).fee_authority.skey(), token_badge_authority: old(ctx.accounts).fee_authority.skey() }), //# C04
//@ end

// ------------------------------------------------------------------ admin-gated instructions (auth/admin.rs)
//@ assume admin shims: the ADMINS table (three cfg variants of two base58 keys each) is an opaque two-element array; `ADMINS.iter().any(|admin| maybe_admin.eq(admin))` is the named helper any_admin_eq with the std meaning; ConfigFeatureFlag / update_feature_flags (bitflags `set`) is an external stub over the uninterpreted function flags_after
pub uninterp spec fn admin_key(i: int) -> Pubkey;
pub open spec fn is_admin_key_spec(k: Pubkey) -> bool { k == admin_key(0) || k == admin_key(1) }
pub struct AdminTable {}
pub const ADMINS: AdminTable = AdminTable {};
#[verifier::external_body]
pub fn any_admin_eq(t: &AdminTable, k: &Pubkey) -> (r: bool) ensures r == is_admin_key_spec(*k) { unimplemented!() }
//@ fn auth/admin.rs is_admin_key -> r
    ensures r == is_admin_key_spec(*maybe_admin),
//@ rewrite /ADMINS\.iter\(\)\.any\(\|admin\| maybe_admin\.eq\(admin\)\)/ => /any_admin_eq(&ADMINS, maybe_admin)/
//@ end
//@ enum state/config.rs ConfigFeatureFlag
pub uninterp spec fn flags_after(flags: u16, f: ConfigFeatureFlag) -> u16;
impl WhirlpoolsConfig {
    #[verifier::external_body]
    pub fn update_feature_flags(&mut self, feature_flag: ConfigFeatureFlag) -> (r: Result<()>)
        ensures r is Ok, *final(self) == (WhirlpoolsConfig { feature_flags: flags_after(old(self).feature_flags, feature_flag), ..*old(self) }) { unimplemented!() }
}
//@ struct instructions/initialize_config.rs InitializeConfig
//@ constraints instructions/initialize_config.rs InitializeConfig fn:is_admin_key
/// C04 / C19: a config is created only by a signing admin key; its protocol fee rate is within the bound and its three authorities are the ones given
//@ fn instructions/initialize_config.rs handler -> r as=initialize_config_handler canary
    requires constraints_InitializeConfig(old(ctx.accounts)),
    ensures
        r is Ok ==> is_admin_key_spec(old(ctx.accounts).funder.skey()) && old(ctx.accounts).funder.info.is_signer, //# C04
        r is Ok ==> default_protocol_fee_rate <= 2_500 && final(ctx.accounts).config.data.default_protocol_fee_rate == default_protocol_fee_rate && final(ctx.accounts).config.data.fee_authority == fee_authority
            && final(ctx.accounts).config.data.collect_protocol_fees_authority == collect_protocol_fees_authority && final(ctx.accounts).config.data.reward_emissions_super_authority == reward_emissions_super_authority, //# C19 C04
//@ end
//@ struct instructions/set_config_feature_flag.rs SetConfigFeatureFlag
//@ constraints instructions/set_config_feature_flag.rs SetConfigFeatureFlag fn:is_admin_key
/// C04: feature flags change only on the signature of an admin key, and nothing else in the config changes
//@ fn instructions/set_config_feature_flag.rs handler -> r as=set_config_feature_flag_handler canary
    requires constraints_SetConfigFeatureFlag(old(ctx.accounts)),
    ensures
        r is Ok ==> is_admin_key_spec(old(ctx.accounts).authority.skey()) && old(ctx.accounts).authority.info.is_signer, //# C04
        r is Ok ==> final(ctx.accounts).whirlpools_config.data == (WhirlpoolsConfig { feature_flags: flags_after(old(ctx.accounts).whirlpools_config.data.feature_flags, feature_flag), ..old(ctx.accounts).whirlpools_config.data }), //# C04
//@ end
}
