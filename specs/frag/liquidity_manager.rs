//@ needs specs errors stdspecs anchor_shim state_core managers token_math tick_math_abs
pub mod tick_array_manager {
use vstd::prelude::*;
use crate::errors::ErrorCode;
use crate::anchor_shim::*;
use crate::state_core::*;
//@ tags C13 C12 C05
//@ enum manager/tick_array_manager.rs TickArrayRentTransfer TickArraySizeUpdate
//@ struct manager/tick_array_manager.rs TickArrayUpdate
//@ assume derive(Default) on TickArrayUpdate / its enums ( #[default] None ) replaced by an explicit impl
impl Default for TickArrayUpdate {
    fn default() -> (r: Self) ensures r.transfer_rent is None, r.size_update is None {
        TickArrayUpdate { transfer_rent: TickArrayRentTransfer::None, size_update: TickArraySizeUpdate::None }
    }
}
/// rent moves with the position's 0 <-> non-0 liquidity transition, the array grows / shrinks with the tick's initialized flag (dynamic arrays only)
pub open spec fn modify_tick_array_spec(pos_liq: u128, new_liq: u128, variable: bool, was_init: bool, now_init: bool, u: TickArrayUpdate) -> bool {
    if !variable { u.transfer_rent is None && u.size_update is None } else {
        &&& (u.transfer_rent is TransferToTickArray <==> (pos_liq == 0 && new_liq != 0))
        &&& (u.transfer_rent is TransferToPosition <==> (pos_liq != 0 && new_liq == 0))
        &&& (u.size_update is Increase <==> (!was_init && now_init))
        &&& (u.size_update is Decrease <==> (was_init && !now_init))
    }
}
//@ fn manager/tick_array_manager.rs calculate_modify_tick_array -> r
    ensures r matches Ok(u) && modify_tick_array_spec(position.liquidity, position_update.liquidity, is_variable_size_tick_array, tick.initialized, tick_update.initialized, u),
//@ end
}

pub mod liquidity_manager {
use vstd::prelude::*;
use crate::errors::ErrorCode;
use crate::specs::*;
use crate::anchor_shim::*;
use crate::state_core::*;
use crate::managers::*;
use crate::token_math::*;
use crate::tick_math::*;
use crate::tick_array_manager::*;
//@ tags C08 C12 C05 C07 C11 C01
//@ struct manager/liquidity_manager.rs ModifyLiquidityUpdate

/// C08: liquidity <-> token amounts. Up on deposit (delta > 0), down on withdrawal; only A below the range, only B above it.
pub open spec fn token_deltas_spec(cur_tick: int, p: int, lower: int, upper: int, delta: int, a: int, b: int) -> bool {
    let l = if delta < 0 { -delta } else { delta };
    let up = delta > 0;
    let pl = price_at(lower); let pu = price_at(upper);
    if cur_tick < lower { a == delta_a(pl, pu, l, up) && b == 0 }
    else if cur_tick < upper { a == delta_a(p, pu, l, up) && b == delta_b(pl, p, l, up) }
    else { a == 0 && b == delta_b(pl, pu, l, up) }
}
//@ fn manager/liquidity_manager.rs calculate_liquidity_token_deltas -> r canary
    requires tick_ok(position.tick_lower_index as int), tick_ok(position.tick_upper_index as int), sqrt_price > 0,
    ensures
        liquidity_delta == 0 ==> r == err::<(u64, u64)>(ErrorCode::LiquidityZero),
        r matches Ok(ab) ==> liquidity_delta != 0 && token_deltas_spec(current_tick_index as int, sqrt_price as int, position.tick_lower_index as int, position.tick_upper_index as int, liquidity_delta as int, ab.0 as int, ab.1 as int),
//@ end

pub open spec fn reward_inside_k(w: Whirlpool, tl: Tick, tu: Tick, li: int, ui: int, ts: int, k: int) -> u128 {
    if w.reward_infos[k].is_init() {
        growth_inside(w.tick_current_index as int, tl.initialized, tl.reward_growths_outside[k], li, tu.initialized, tu.reward_growths_outside[k], ui, next_growth(w, ts, k))
    } else { 0u128 }
}
/// Everything a liquidity change computes, as the conjunction of the per-component specs (C05, C07, C11), over the abstract
/// account values. The Anchor (_calculate_modify_liquidity) and the Pinocchio (_pino_calculate_modify_liquidity) implementation both prove exactly this predicate (C12).
pub open spec fn modify_liquidity_core(w: Whirlpool, p: Position, tl: Tick, tu: Tick, li: int, ui: int, var_l: bool, var_u: bool, delta: int, ts: int,
        whirlpool_liquidity: u128, tick_lower_update: TickUpdate, tick_upper_update: TickUpdate, growth: spec_fn(int) -> u128,
        position_update: PositionUpdate, tick_array_lower_update: TickArrayUpdate, tick_array_upper_update: TickArrayUpdate) -> bool {
    &&& !(delta == 0 && p.liquidity == 0)
    &&& ts >= w.reward_last_updated_timestamp as int
    &&& (forall|k: int| 0 <= k < 3 ==> #[trigger] growth(k) == next_growth(w, ts, k))
    &&& whirlpool_liquidity as int == (if p.tick_lower_index <= w.tick_current_index < p.tick_upper_index { w.liquidity as int + delta } else { w.liquidity as int })
    &&& tick_modify_err(tl, delta, false) is None && tick_modify_ok(tl, li, w.tick_current_index as int, w.fee_growth_global_a, w.fee_growth_global_b, |k: int| next_growth(w, ts, k), delta, false, tick_lower_update)
    &&& tick_modify_err(tu, delta, true) is None && tick_modify_ok(tu, ui, w.tick_current_index as int, w.fee_growth_global_a, w.fee_growth_global_b, |k: int| next_growth(w, ts, k), delta, true, tick_upper_update)
    &&& position_modify_err(p, delta) is None && position_modify_ok(p, delta,
            growth_inside(w.tick_current_index as int, tl.initialized, tl.fee_growth_outside_a, li, tu.initialized, tu.fee_growth_outside_a, ui, w.fee_growth_global_a),
            growth_inside(w.tick_current_index as int, tl.initialized, tl.fee_growth_outside_b, li, tu.initialized, tu.fee_growth_outside_b, ui, w.fee_growth_global_b),
            [reward_inside_k(w, tl, tu, li, ui, ts, 0), reward_inside_k(w, tl, tu, li, ui, ts, 1), reward_inside_k(w, tl, tu, li, ui, ts, 2)],
            position_update)
    &&& modify_tick_array_spec(p.liquidity, position_update.liquidity, var_l, tl.initialized, tick_lower_update.initialized, tick_array_lower_update)
    &&& modify_tick_array_spec(p.liquidity, position_update.liquidity, var_u, tu.initialized, tick_upper_update.initialized, tick_array_upper_update)
}
pub open spec fn modify_liquidity_spec(w: Whirlpool, p: Position, tl: Tick, tu: Tick, li: int, ui: int, var_l: bool, var_u: bool, delta: int, ts: int, u: ModifyLiquidityUpdate) -> bool {
    &&& modify_liquidity_core(w, p, tl, tu, li, ui, var_l, var_u, delta, ts, u.whirlpool_liquidity, u.tick_lower_update, u.tick_upper_update,
            |k: int| u.reward_infos[k].growth_global_x64, u.position_update, u.tick_array_lower_update, u.tick_array_upper_update)
    // besides the growth accumulator the reward infos are carried over unchanged
    &&& (forall|k: int| 0 <= k < 3 ==> #[trigger] u.reward_infos[k] == (WhirlpoolRewardInfo { growth_global_x64: next_growth(w, ts, k), ..w.reward_infos[k] }))
}
//@ fn manager/liquidity_manager.rs _calculate_modify_liquidity -> r canary
    ensures
        liquidity_delta == 0 && position.liquidity == 0 ==> r == err::<ModifyLiquidityUpdate>(ErrorCode::LiquidityZero),
        r matches Ok(u) ==> modify_liquidity_spec(*whirlpool, *position, *tick_lower, *tick_upper, tick_lower_index as int, tick_upper_index as int,
            tick_array_lower_variable_size, tick_array_upper_variable_size, liquidity_delta as int, timestamp as int, u),
//@ inject before /let position_update = next_position_modify_liquidity_update/
    proof {
        let rg = [reward_inside_k(*whirlpool, *tick_lower, *tick_upper, tick_lower_index as int, tick_upper_index as int, timestamp as int, 0),
                  reward_inside_k(*whirlpool, *tick_lower, *tick_upper, tick_lower_index as int, tick_upper_index as int, timestamp as int, 1),
                  reward_inside_k(*whirlpool, *tick_lower, *tick_upper, tick_lower_index as int, tick_upper_index as int, timestamp as int, 2)];
        assert(forall|k: int| 0 <= k < 3 ==> (#[trigger] next_reward_infos[k]).growth_global_x64 == next_growth(*whirlpool, timestamp as int, k) && next_reward_infos[k].is_init() == whirlpool.reward_infos[k].is_init());
        assert(rg[0] == reward_growths_inside[0] && rg[1] == reward_growths_inside[1] && rg[2] == reward_growths_inside[2]);
        assert(rg =~= reward_growths_inside);
    }
//@ end

// ------------------------------------------------------------------ the wrappers between the handlers and the computation (Anchor side)
//@ assume abstract Anchor tick array: `dyn TickArrayType` is specified by the view tick_at(index, spacing) with the get_tick / update_tick frame contract that fragment tick_arrays proves for the fixed / zeroed arrays and, at byte level, for the dynamic array
pub open spec fn tick_is_upd(t: Tick, u: TickUpdate) -> bool {
    t.initialized == u.initialized && t.liquidity_net == u.liquidity_net && t.liquidity_gross == u.liquidity_gross && t.fee_growth_outside_a == u.fee_growth_outside_a
    && t.fee_growth_outside_b == u.fee_growth_outside_b && (forall|k: int| 0 <= k < 3 ==> t.reward_growths_outside[k] == u.reward_growths_outside[k])
}
pub trait TickArrayType {
    spec fn tick_at(&self, tick_index: int, spacing: int) -> Option<Tick>;
    spec fn variable(&self) -> bool;
    fn is_variable_size(&self) -> (r: bool) ensures r == self.variable();
    fn get_tick(&self, tick_index: i32, tick_spacing: u16) -> (r: Result<Tick>)
        ensures match self.tick_at(tick_index as int, tick_spacing as int) { Some(t) => r == Ok::<Tick, Error>(t), None => r is Err };
    fn update_tick(&mut self, tick_index: i32, tick_spacing: u16, update: &TickUpdate) -> (r: Result<()>)
        ensures final(self).variable() == old(self).variable(),
            match old(self).tick_at(tick_index as int, tick_spacing as int) {
                Some(t0) => r is Ok && (final(self).tick_at(tick_index as int, tick_spacing as int) matches Some(t1) && tick_is_upd(t1, *update))
                    && forall|j: int| j != tick_index ==> #[trigger] final(self).tick_at(j, tick_spacing as int) == old(self).tick_at(j, tick_spacing as int),
                None => r is Err && forall|j: int| #[trigger] final(self).tick_at(j, tick_spacing as int) == old(self).tick_at(j, tick_spacing as int) };
}
/// C05/C07/C11: the update is modify_liquidity_spec evaluated on the position's OWN two bound ticks, lower from the lower array, upper from the upper array
//@ fn manager/liquidity_manager.rs calculate_modify_liquidity -> r tags=C05,C07,C11,C12 canary
    ensures
        r matches Ok(u) ==> (tick_array_lower.tick_at(position.tick_lower_index as int, whirlpool.tick_spacing as int) matches Some(tl)
            && tick_array_upper.tick_at(position.tick_upper_index as int, whirlpool.tick_spacing as int) matches Some(tu)
            && modify_liquidity_spec(*whirlpool, *position, tl, tu, position.tick_lower_index as int, position.tick_upper_index as int,
                tick_array_lower.variable(), tick_array_upper.variable(), liquidity_delta as int, timestamp as int, u)),
//@ end
pub open spec fn refresh_spec(w: Whirlpool, p: Position, tl: Tick, tu: Tick, lv: bool, uv: bool, ts: int, pu: PositionUpdate, ri: [WhirlpoolRewardInfo; NUM_REWARDS]) -> bool {
    exists|u: ModifyLiquidityUpdate| #[trigger] modify_liquidity_spec(w, p, tl, tu, p.tick_lower_index as int, p.tick_upper_index as int, lv, uv, 0, ts, u) && u.position_update == pu && u.reward_infos == ri
}
/// the fee / reward refresh is the same computation with a zero liquidity change
//@ fn manager/liquidity_manager.rs calculate_fee_and_reward_growths -> r tags=C07,C11,C12 canary
    ensures
        r is Ok ==> tick_array_lower.tick_at(position.tick_lower_index as int, whirlpool.tick_spacing as int) is Some
            && tick_array_upper.tick_at(position.tick_upper_index as int, whirlpool.tick_spacing as int) is Some,
        r matches Ok(x) ==> refresh_spec(*whirlpool, *position,
            tick_array_lower.tick_at(position.tick_lower_index as int, whirlpool.tick_spacing as int)->Some_0, tick_array_upper.tick_at(position.tick_upper_index as int, whirlpool.tick_spacing as int)->Some_0,
            tick_array_lower.variable(), tick_array_upper.variable(), timestamp as int, x.0, x.1),
//@ inject before /^    Ok\(\(update\.position_update, update\.reward_infos\)\)/
    proof { assert(refresh_spec(*whirlpool, *position, tick_lower, tick_upper, tick_array_lower.variable(), tick_array_upper.variable(), timestamp as int, update.position_update, update.reward_infos)); }
//@ end
/// C05: writing an update back: position, lower bound tick (lower array), upper bound tick (upper array or the shared one), pool liquidity / rewards / timestamp; nothing else
//@ fn manager/liquidity_manager.rs sync_modify_liquidity_values -> r tags=C05,C07,C11,C12 canary
    requires old(position).tick_lower_index != old(position).tick_upper_index,
    ensures ({
        let p0 = *old(position); let sp = old(whirlpool).tick_spacing as int; let u = modify_liquidity_update;
        r is Ok ==> {
            &&& final(position).liquidity == u.position_update.liquidity && final(position).tick_lower_index == p0.tick_lower_index && final(position).tick_upper_index == p0.tick_upper_index
            &&& final(position).fee_owed_a == u.position_update.fee_owed_a && final(position).fee_owed_b == u.position_update.fee_owed_b && final(position).whirlpool == p0.whirlpool
            &&& *final(whirlpool) == (Whirlpool { reward_infos: u.reward_infos, reward_last_updated_timestamp: reward_last_updated_timestamp, liquidity: u.whirlpool_liquidity, ..*old(whirlpool) })
            &&& (final(tick_array_lower).tick_at(p0.tick_lower_index as int, sp) matches Some(t) && tick_is_upd(t, u.tick_lower_update))
            &&& (match tick_array_upper { Some(up) => final(up).tick_at(p0.tick_upper_index as int, sp) matches Some(t) && tick_is_upd(t, u.tick_upper_update),
                    None => final(tick_array_lower).tick_at(p0.tick_upper_index as int, sp) matches Some(t) && tick_is_upd(t, u.tick_upper_update) })
            &&& (forall|j: int| j != p0.tick_lower_index && (tick_array_upper is Some || j != p0.tick_upper_index) ==> #[trigger] final(tick_array_lower).tick_at(j, sp) == old(tick_array_lower).tick_at(j, sp))
        } }),
//@ end
}

pub mod token_math_est {
use vstd::prelude::*;
use crate::errors::ErrorCode;
use crate::specs::*;
use crate::token_math::*;
use crate::tick_math::*;
//@ tags C08 C01
/// C08: liquidity derived from token maxima (rounded down so that neither maximum can be exceeded)
pub open spec fn max_liquidity_spec(cur: int, lower: int, upper: int, max_a: int, max_b: int) -> int {
    let pl = price_at(lower); let pu = price_at(upper);
    if cur >= pu { est_liq_b(pu, pl, max_b) }
    else if cur <= pl { est_liq_a(pl, pu, max_a) }
    else { min_i(est_liq_a(cur, pu, max_a), est_liq_b(cur, pl, max_b)) }
}
//@ fn math/token_math.rs estimate_max_liquidity_from_token_amounts -> r canary
    requires tick_ok(tick_lower_index as int), tick_ok(tick_upper_index as int), tick_lower_index < tick_upper_index, price_ok(current_sqrt_price as int),
    ensures
        r matches Ok(l) ==> l as int == max_liquidity_spec(current_sqrt_price as int, tick_lower_index as int, tick_upper_index as int, token_max_a as int, token_max_b as int),
//@ inject at /^\{/
    proof { axiom_price_at(); }
//@ end

/// maximality for token B: a liquidity costs at most x of token B (rounded up) exactly when it is at most est_liq_b
pub proof fn lemma_est_b_maximal(p0: int, p1: int, x: int, l: int)
    requires p0 != p1, 0 <= x, 0 <= l, p0 >= 0, p1 >= 0,
    ensures delta_b(p0, p1, l, true) <= x <==> l <= est_liq_b(p0, p1, x),
{
    let d = abs_diff(p0, p1); let q = Q();
    // ceil(l*d/q) <= x  <==>  l*d <= x*q  <==>  l <= floor(x*q/d)
    vstd::arithmetic::div_mod::lemma_fundamental_div_mod(l * d, q);
    vstd::arithmetic::div_mod::lemma_fundamental_div_mod(x * q, d);
    let n = l * d; let c = div_round(n, q, true);
    assert(n >= 0) by(nonlinear_arith) requires l >= 0, d > 0, n == l * d;
    assert(c <= x <==> n <= x * q) by(nonlinear_arith)
        requires n == q * (n / q) + n % q, 0 <= n % q < q, q > 0, c == (if n % q != 0 { n / q + 1 } else { n / q });
    let e = (x * q) / d; let m = (x * q) % d;
    assert(x * q >= 0) by(nonlinear_arith) requires x >= 0, q > 0;
    vstd::arithmetic::div_mod::lemma_mod_bound(x * q, d);
    assert(l * d <= x * q <==> l <= e) by(nonlinear_arith)
        requires x * q == d * e + m, 0 <= m < d, d > 0;
}

/// k <= floor(y / d)  <==>  k * d <= y      (d > 0)
pub proof fn lemma_le_floor(k: int, y: int, d: int)
    requires d > 0,
    ensures k <= y / d <==> k * d <= y,
{
    vstd::arithmetic::div_mod::lemma_fundamental_div_mod(y, d);
    vstd::arithmetic::div_mod::lemma_mod_bound(y, d);
    let e = y / d; let m = y % d;
    assert(k <= e <==> k * d <= y) by(nonlinear_arith) requires y == d * e + m, 0 <= m < d, d > 0;
}
/// ceil(n / d) <= x  <==>  n <= x * d      (d > 0)
pub proof fn lemma_ceil_le(n: int, d: int, x: int)
    requires d > 0,
    ensures div_round(n, d, true) <= x <==> n <= x * d,
{
    vstd::arithmetic::div_mod::lemma_fundamental_div_mod(n, d);
    vstd::arithmetic::div_mod::lemma_mod_bound(n, d);
    let c = div_round(n, d, true);
    assert(c <= x <==> n <= x * d) by(nonlinear_arith)
        requires n == d * (n / d) + n % d, 0 <= n % d < d, d > 0, c == (if n % d != 0 { n / d + 1 } else { n / d });
}
/// maximality for token A: a liquidity costs at most x of token A (rounded up) exactly when it is at most est_liq_a
pub proof fn lemma_est_a_maximal(p0: int, p1: int, x: int, l: int)
    requires p0 != p1, 0 <= x, 0 <= l, p0 > 0, p1 > 0,
    ensures delta_a(p0, p1, l, true) <= x <==> l <= est_liq_a(p0, p1, x),
{
    let d = abs_diff(p0, p1); let q = Q();
    let dn = p0 * p1;
    assert(dn > 0) by(nonlinear_arith) requires p0 > 0, p1 > 0, dn == p0 * p1;
    assert(max_i(p0, p1) * min_i(p0, p1) == dn) by(nonlinear_arith) requires dn == p0 * p1;
    lemma_ceil_le(l * d * q, dn, x);                       // cost <= x  <==>  l*d*q <= x*dn
    let y = dn * x;
    assert(max_i(p0, p1) * min_i(p0, p1) * x == y);
    lemma_le_floor(l, y / q, d);                           // l <= (y/q)/d  <==>  l*d <= y/q
    lemma_le_floor(l * d, y, q);                           // l*d <= y/q    <==>  l*d*q <= y
    assert(x * dn == dn * x) by(nonlinear_arith);
}
/// adding then removing the same liquidity at an unchanged price: the amount returned (floor) is at most the amount paid (ceil), and at most one unit less
pub proof fn lemma_round_trip_gap(n: int, d: int)
    requires d > 0,
    ensures div_round(n, d, false) <= div_round(n, d, true) <= div_round(n, d, false) + 1,
{}
}
