//@ needs specs errors stdspecs lebytes anchor_shim authority
// C16: transfer-fee arithmetic. TransferFee::{ceil_div, calculate_fee, calculate_pre_fee_amount, calculate_inverse_fee}
// are extracted from the pinned dependency source (spl-token-2022 8.0.1, the version in /repo/Cargo.lock).
pub mod spl_transfer_fee {
use vstd::prelude::*;
use std::cmp;
use std::convert::{TryFrom, TryInto};
use crate::specs::*;
broadcast use vstd::arithmetic::mul::group_mul_basics;
//@ tags C16
//@ assume spl_pod PodU64/PodU16 are modelled as plain integers with the obvious From conversions
#[derive(Clone, Copy)]
pub struct PodU64(pub u64);
#[derive(Clone, Copy)]
pub struct PodU16(pub u16);
impl vstd::std_specs::convert::FromSpecImpl<PodU64> for u64 { open spec fn obeys_from_spec() -> bool { true } open spec fn from_spec(v: PodU64) -> Self { v.0 } }
impl From<PodU64> for u64 { fn from(v: PodU64) -> (r: u64) { v.0 } }
impl vstd::std_specs::convert::FromSpecImpl<u64> for PodU64 { open spec fn obeys_from_spec() -> bool { true } open spec fn from_spec(v: u64) -> Self { PodU64(v) } }
impl From<u64> for PodU64 { fn from(v: u64) -> (r: PodU64) { PodU64(v) } }
impl vstd::std_specs::convert::FromSpecImpl<PodU16> for u16 { open spec fn obeys_from_spec() -> bool { true } open spec fn from_spec(v: PodU16) -> Self { v.0 } }
impl From<PodU16> for u16 { fn from(v: PodU16) -> (r: u16) { v.0 } }
impl vstd::std_specs::convert::FromSpecImpl<u16> for PodU16 { open spec fn obeys_from_spec() -> bool { true } open spec fn from_spec(v: u16) -> Self { PodU16(v) } }
impl From<u16> for PodU16 { fn from(v: u16) -> (r: PodU16) { PodU16(v) } }

//@ root glob:~/.cargo/registry/src/*/spl-token-2022-8.0.1/src
//@ const extension/transfer_fee/mod.rs MAX_FEE_BASIS_POINTS ONE_IN_BASIS_POINTS
#[derive(Clone, Copy)]
pub struct TransferFee {
    pub epoch: PodU64,
    pub maximum_fee: PodU64,
    pub transfer_fee_basis_points: PodU16,
}
/// the Token-2022 transfer fee on a pre-fee amount: min(ceil(x * bps / 10_000), maximum_fee)
pub open spec fn fee_of(x: int, bps: int, max_fee: int) -> int { min_i(div_round(x * bps, 10_000, true), max_fee) }
impl TransferFee {
    pub open spec fn fee(&self, x: int) -> int { fee_of(x, self.transfer_fee_basis_points.0 as int, self.maximum_fee.0 as int) }
    pub open spec fn wf(&self) -> bool { self.transfer_fee_basis_points.0 <= 10_000 }
//@ fn extension/transfer_fee/mod.rs ceil_div in=/^impl TransferFee \{/ -> r
    requires denominator > 0,
    ensures numerator as int + denominator as int <= U128MAX() ==> r == Some(div_round(numerator as int, denominator as int, true) as u128),
        numerator as int + denominator as int > U128MAX() ==> r is None,
//@ inject at /^\{/
    proof { lemma_ceil_add(numerator as int, denominator as int); }
//@ end
//@ fn extension/transfer_fee/mod.rs calculate_fee in=/^impl TransferFee \{/ -> r
    requires self.wf(),
    ensures r == Some(self.fee(pre_fee_amount as int) as u64), 0 <= self.fee(pre_fee_amount as int) <= pre_fee_amount,
//@ inject at /^\{/
    proof { lemma_fee_le(pre_fee_amount as int, self.transfer_fee_basis_points.0 as int, self.maximum_fee.0 as int); }
//@ end
//@ fn extension/transfer_fee/mod.rs calculate_pre_fee_amount in=/^impl TransferFee \{/ -> r nodec
    requires self.wf(),
    ensures r matches Some(p) ==> p >= post_fee_amount,
//@ end
//@ fn extension/transfer_fee/mod.rs calculate_inverse_fee in=/^impl TransferFee \{/ -> r
    requires self.wf(),
    ensures r matches Some(f) ==> exists|p: int| post_fee_amount <= p <= U64MAX() && f as int == #[trigger] self.fee(p),
//@ end
}
//@ assume TransferFeeConfig is reduced to its two fee schedules (the authorities and the withheld amount are not read by the whirlpool program)
pub type Epoch = u64;
pub struct TransferFeeConfig { pub older_transfer_fee: TransferFee, pub newer_transfer_fee: TransferFee }
impl TransferFeeConfig {
    pub open spec fn wf(&self) -> bool { self.older_transfer_fee.wf() && self.newer_transfer_fee.wf() }
    /// the schedule in force in `epoch`: the newer one from its epoch on, the older one before
    pub open spec fn in_force(&self, epoch: u64) -> TransferFee { if epoch >= self.newer_transfer_fee.epoch.0 { self.newer_transfer_fee } else { self.older_transfer_fee } }
//@ fn extension/transfer_fee/mod.rs get_epoch_fee in=/^impl TransferFeeConfig \{/ -> r
    ensures *r == self.in_force(epoch),
//@ end
}
pub proof fn lemma_ceil_add(n: int, d: int)
    requires n >= 0, d > 0,
    ensures (n + d - 1) / d == div_round(n, d, true), div_round(n, d, true) >= 0,
{
    vstd::arithmetic::div_mod::lemma_fundamental_div_mod(n, d);
    vstd::arithmetic::div_mod::lemma_div_pos_is_pos(n, d);
    let q = n / d; let r = n % d;
    if r == 0 {
        assert(n + d - 1 == q * d + (d - 1)) by(nonlinear_arith) requires n == d * q + r, r == 0;
        vstd::arithmetic::div_mod::lemma_fundamental_div_mod_converse(n + d - 1, d, q, d - 1);
    } else {
        assert(n + d - 1 == (q + 1) * d + (r - 1)) by(nonlinear_arith) requires n == d * q + r;
        vstd::arithmetic::div_mod::lemma_fundamental_div_mod_converse(n + d - 1, d, q + 1, r - 1);
    }
}
pub proof fn lemma_fee_le(x: int, bps: int, max_fee: int)
    requires 0 <= x <= U64MAX(), 0 <= bps <= 10_000, 0 <= max_fee,
    ensures 0 <= fee_of(x, bps, max_fee) <= x, 0 <= div_round(x * bps, 10_000, true) <= x, x * bps <= U64MAX() * 10_000, x * bps >= 0,
{
    assert(0 <= x * bps <= x * 10_000) by(nonlinear_arith) requires 0 <= x, 0 <= bps <= 10_000;
    lemma_ceil_add(x * bps, 10_000);
    vstd::arithmetic::div_mod::lemma_fundamental_div_mod(x * bps + 9_999, 10_000);
    assert((x * bps + 9_999) / 10_000 <= x) by(nonlinear_arith)
        requires x * bps + 9_999 == 10_000 * ((x * bps + 9_999) / 10_000) + (x * bps + 9_999) % 10_000, (x * bps + 9_999) % 10_000 >= 0, x * bps <= x * 10_000;
}
}

pub mod token_v2 {
use vstd::prelude::*;
use crate::errors::ErrorCode;
use crate::specs::*;
use crate::anchor_shim::*;
use crate::authority::InterfaceAccount;
use crate::spl_transfer_fee::*;
//@ tags C16
//@ root programs/whirlpool/src
//@ struct util/v2/token.rs TransferFeeIncludedAmount TransferFeeExcludedAmount
//@ assume get_epoch_transfer_fee: the Solana / SPL glue it calls is a set of shims - the mint account carries its owning program and (if present) its transfer-fee config, `to_account_info().owner`, `try_borrow_data`, `StateWithExtensions::unpack` and `get_extension::<TransferFeeConfig>()` (rewritten, logged, to get_transfer_fee_config()) hand these out unchanged, a stored config is well formed (basis points <= 10_000, enforced by the Token-2022 program), `Clock::get()` yields current_epoch(); TransferFeeConfig::get_epoch_fee is the dependency's real code
pub struct Mint { pub decimals: u8, pub owner_program: Pubkey, pub fee_config: Option<TransferFeeConfig> }
pub struct MintAccountInfo<'a> { pub owner: &'a Pubkey, pub fee_config: &'a Option<TransferFeeConfig> }
pub struct MintData<'a> { pub fee_config: &'a Option<TransferFeeConfig> }
pub struct MintUnpacked<'a> { pub fee_config: &'a Option<TransferFeeConfig> }
pub uninterp spec fn token_program_id() -> Pubkey;
pub struct Token {}
impl Token { #[verifier::external_body] pub fn id() -> (r: Pubkey) ensures r == token_program_id() { unimplemented!() } }
impl<'a> InterfaceAccount<'a, Mint> {
    pub fn to_account_info(&self) -> (r: MintAccountInfo<'_>) ensures *r.owner == self.data.owner_program, *r.fee_config == self.data.fee_config { MintAccountInfo { owner: &self.data.owner_program, fee_config: &self.data.fee_config } }
}
impl<'a> MintAccountInfo<'a> {
    #[verifier::external_body]
    pub fn try_borrow_data(&self) -> (r: Result<MintData<'a>>) ensures r matches Ok(d) ==> *d.fee_config == *self.fee_config { unimplemented!() }
}
pub mod spl_token_2022 { pub mod state { pub struct Mint {} } }
pub struct StateWithExtensions<T> { pub t: core::marker::PhantomData<T> }
impl<T> StateWithExtensions<T> {
    #[verifier::external_body]
    pub fn unpack<'a>(d: &MintData<'a>) -> (r: Result<MintUnpacked<'a>>) ensures r matches Ok(u) ==> *u.fee_config == *d.fee_config { unimplemented!() }
}
impl<'a> MintUnpacked<'a> {
    #[verifier::external_body]
    pub fn get_transfer_fee_config(&self) -> (r: core::result::Result<&'a TransferFeeConfig, ()>)
        ensures match *self.fee_config { Some(c) => r matches Ok(rc) && *rc == c && c.wf(), None => r is Err }
    { unimplemented!() }
}
pub struct ClockData { pub slot: u64, pub epoch_start_timestamp: i64, pub epoch: u64, pub leader_schedule_epoch: u64, pub unix_timestamp: i64 }
pub uninterp spec fn current_epoch() -> u64;
pub struct Clock {}
impl Clock {
    #[verifier::external_body]
    pub fn get() -> (r: Result<ClockData>) ensures r matches Ok(c) ==> c.epoch == current_epoch() { unimplemented!() }
}
/// C16: the schedule applied is the one in force in the current epoch (none for a plain SPL-token mint or a mint without the extension)
/// the fee schedule the Token-2022 program applies to transfers of this mint now (None: plain SPL token or no transfer-fee extension)
pub open spec fn mint_schedule(m: Mint) -> Option<TransferFee> {
    if m.owner_program == token_program_id() { None } else { match m.fee_config { Some(c) => Some(c.in_force(current_epoch())), None => None } }
}
/// the fee withheld from a transfer of x units of this mint
pub open spec fn mint_fee(m: Mint, x: int) -> int { match mint_schedule(m) { Some(f) => f.fee(x), None => 0 } }
//@ fn util/v2/token.rs get_epoch_transfer_fee -> r canary
    ensures
        r matches Ok(o) ==> o == mint_schedule(token_mint.data),
        token_mint.data.owner_program == token_program_id() ==> r matches Ok(None),
        r matches Ok(Some(f)) ==> f.wf() && (token_mint.data.fee_config matches Some(c) && f == c.in_force(current_epoch())),
        r matches Ok(None) ==> token_mint.data.owner_program == token_program_id() || token_mint.data.fee_config is None,
//@ rewrite /token_mint_unpacked\.get_extension::<extension::transfer_fee::TransferFeeConfig>\(\)/ => /token_mint_unpacked.get_transfer_fee_config()/
//@ end

//@ fn util/v2/token.rs calculate_transfer_fee_excluded_amount -> r canary
    ensures
        // removing the fee from an amount and the fee itself always add back to that amount
        r matches Ok(x) ==> x.amount as int + x.transfer_fee as int == transfer_fee_included_amount as int
            && (x.transfer_fee == 0 || exists|f: TransferFee| #[trigger] f.wf() && x.transfer_fee as int == f.fee(transfer_fee_included_amount as int)),
        // the fee is the one of THIS mint's schedule in force
        r matches Ok(x) ==> x.transfer_fee as int == mint_fee(token_mint.data, transfer_fee_included_amount as int),
//@ end

//@ fn util/v2/token.rs calculate_transfer_fee_included_amount -> r canary
    ensures
        r matches Ok(x) ==> x.amount as int == transfer_fee_excluded_amount as int + x.transfer_fee as int
            // the fee the token program will charge on x.amount is exactly x.transfer_fee, so the vault receives exactly the needed amount
            && (x.transfer_fee == 0 || exists|f: TransferFee| #[trigger] f.wf() && x.transfer_fee as int == f.fee(x.amount as int)),
        transfer_fee_excluded_amount == 0 ==> (r matches Ok(x) && x.amount == 0 && x.transfer_fee == 0),
        // the fee THIS mint's schedule charges on the included amount is the reported fee: the receiver gets exactly the excluded amount
        r matches Ok(x) ==> x.transfer_fee as int == mint_fee(token_mint.data, x.amount as int),
//@ end
}

pub mod token_pino {
use vstd::prelude::*;
use crate::errors::ErrorCode as WhirlpoolErrorCode;
use crate::specs::*;
use crate::authority_pino::{Result, UnifiedError, AccountInfo};
use crate::spl_transfer_fee::*;
use crate::token_v2::{TransferFeeExcludedAmount, TransferFeeIncludedAmount};
use crate::lebytes::*;
//@ tags C16 C12
//@ root programs/whirlpool/src
//@ assume pinocchio token shims: load_token_program_account_unchecked / parse_token_extensions (raw-pointer TLV parsing) and Clock::get are external stubs; the transfer-fee-config view exposes the six little-endian fields through assumed accessors
pub struct MemoryMappedTokenMint { pub x: u8 }
/// the mint account's bytes as the (unchecked) loader maps them, its TLV area, and what the hand-written TLV parser finds in it: uninterpreted
pub uninterp spec fn mint_of(a: AccountInfo) -> MemoryMappedTokenMint;
pub uninterp spec fn tlv_of(m: MemoryMappedTokenMint) -> Seq<u8>;
pub uninterp spec fn ext_of(tlv: Seq<u8>) -> Option<MemoryMappedTransferFeeConfigExtension>;
/// the transfer-fee config extension of a mint account (None: plain SPL token or no such extension)
pub open spec fn mint_cfg(a: AccountInfo) -> Option<MemoryMappedTransferFeeConfigExtension> { ext_of(tlv_of(mint_of(a))) }
/// the schedule in force: the newer one from its epoch on
pub open spec fn pino_schedule_of(c: MemoryMappedTransferFeeConfigExtension) -> TransferFee {
    if current_epoch() >= c.newer_epoch() { TransferFee { epoch: PodU64(c.newer_epoch()), maximum_fee: PodU64(c.newer_max()), transfer_fee_basis_points: PodU16(c.newer_bps()) } }
    else { TransferFee { epoch: PodU64(c.older_epoch()), maximum_fee: PodU64(c.older_max()), transfer_fee_basis_points: PodU16(c.older_bps()) } }
}
/// the fee the Token-2022 program withholds from a transfer of x units of the mint in account `a`
pub open spec fn pino_mint_fee(a: AccountInfo, x: int) -> int { match mint_cfg(a) { Some(c) => pino_schedule_of(c).fee(x), None => 0 } }
impl MemoryMappedTokenMint {
    #[verifier::external_body]
    pub fn extensions_tlv_data(&self) -> (r: &[u8]) ensures r@ == tlv_of(*self) { unimplemented!() }
}
pub type BytesU16 = [u8; 2];
pub type BytesU64 = [u8; 8];
pub type Pubkey = crate::anchor_shim::Pubkey;
//@ subst /\b(u64|u16)::from_le_bytes\(/ => /\1_from_le_bytes(/
//@ struct pinocchio/state/token/extensions.rs MemoryMappedTransferFeeConfigExtension
impl MemoryMappedTransferFeeConfigExtension {
    // the two flattened fee schedules of the Token-2022 TransferFeeConfig extension, as the little-endian values of their own bytes
    pub closed spec fn older_epoch(&self) -> u64 { le_u64(self.older_transfer_fee_epoch) }
    pub closed spec fn older_max(&self) -> u64 { le_u64(self.older_transfer_fee_maximum_fee) }
    pub closed spec fn older_bps(&self) -> u16 { le_u16(self.older_transfer_fee_transfer_fee_basis_points) }
    pub closed spec fn newer_epoch(&self) -> u64 { le_u64(self.newer_transfer_fee_epoch) }
    pub closed spec fn newer_max(&self) -> u64 { le_u64(self.newer_transfer_fee_maximum_fee) }
    pub closed spec fn newer_bps(&self) -> u16 { le_u16(self.newer_transfer_fee_transfer_fee_basis_points) }
    pub open spec fn wf(&self) -> bool { self.older_bps() <= 10_000 && self.newer_bps() <= 10_000 }
//@ fn pinocchio/state/token/extensions.rs older_transfer_fee_epoch in=/^impl MemoryMappedTransferFeeConfigExtension \{/ -> r
    ensures r == self.older_epoch(),
//@ end
//@ fn pinocchio/state/token/extensions.rs older_transfer_fee_maximum_fee in=/^impl MemoryMappedTransferFeeConfigExtension \{/ -> r
    ensures r == self.older_max(),
//@ end
//@ fn pinocchio/state/token/extensions.rs older_transfer_fee_transfer_fee_basis_points in=/^impl MemoryMappedTransferFeeConfigExtension \{/ -> r
    ensures r == self.older_bps(),
//@ end
//@ fn pinocchio/state/token/extensions.rs newer_transfer_fee_epoch in=/^impl MemoryMappedTransferFeeConfigExtension \{/ -> r
    ensures r == self.newer_epoch(),
//@ end
//@ fn pinocchio/state/token/extensions.rs newer_transfer_fee_maximum_fee in=/^impl MemoryMappedTransferFeeConfigExtension \{/ -> r
    ensures r == self.newer_max(),
//@ end
//@ fn pinocchio/state/token/extensions.rs newer_transfer_fee_transfer_fee_basis_points in=/^impl MemoryMappedTransferFeeConfigExtension \{/ -> r
    ensures r == self.newer_bps(),
//@ end
}
pub struct TokenExtensions<'a> { pub transfer_fee_config: Option<&'a MemoryMappedTransferFeeConfigExtension> }
pub struct ClockData { pub slot: u64, pub epoch_start_timestamp: i64, pub epoch: u64, pub leader_schedule_epoch: u64, pub unix_timestamp: i64 }
pub uninterp spec fn current_epoch() -> u64;
pub struct Clock {}
impl Clock {
    #[verifier::external_body]
    pub fn get() -> (r: Result<ClockData>) ensures r matches Ok(c) ==> c.epoch == current_epoch() { unimplemented!() }
}
#[verifier::external_body]
pub fn load_token_program_account_unchecked<T>(a: &AccountInfo) -> (r: Result<Box<MemoryMappedTokenMint>>) ensures r matches Ok(b) ==> *b == mint_of(*a) { unimplemented!() }
#[verifier::external_body]
pub fn parse_token_extensions<'a>(tlv: &'a [u8]) -> (r: Result<TokenExtensions<'a>>)
    ensures r matches Ok(e) ==> (e.transfer_fee_config matches Some(c) ==> c.wf()),
        r matches Ok(e) ==> (match ext_of(tlv@) { Some(c) => e.transfer_fee_config matches Some(rc) && *rc == c, None => e.transfer_fee_config is None }),
{ unimplemented!() }

/// the schedule in force: the newer one from its epoch on, the older one before (the epoch comes from the Clock sysvar stub)
//@ fn pinocchio/ported/util_token.rs pino_get_epoch_transfer_fee -> r canary
    requires token_extensions.transfer_fee_config matches Some(c) ==> c.wf(),
    ensures
        token_extensions.transfer_fee_config is None ==> r matches Ok(None),
        r matches Ok(o) ==> o == (match token_extensions.transfer_fee_config { Some(c) => Some(pino_schedule_of(*c)), None => None }),
        r matches Ok(Some(f)) ==> f.wf() && (token_extensions.transfer_fee_config matches Some(c) && (
               (current_epoch() >= c.newer_epoch() && f.epoch.0 == c.newer_epoch() && f.maximum_fee.0 == c.newer_max() && f.transfer_fee_basis_points.0 == c.newer_bps())
            || (current_epoch() < c.newer_epoch() && f.epoch.0 == c.older_epoch() && f.maximum_fee.0 == c.older_max() && f.transfer_fee_basis_points.0 == c.older_bps()))),
//@ end

//@ fn pinocchio/ported/util_token.rs pino_calculate_transfer_fee_excluded_amount -> r canary
    ensures
        r matches Ok(x) ==> x.amount as int + x.transfer_fee as int == transfer_fee_included_amount as int
            && (x.transfer_fee == 0 || exists|f: TransferFee| #[trigger] f.wf() && x.transfer_fee as int == f.fee(transfer_fee_included_amount as int)),
        // the fee is the one of THIS mint account's schedule in force
        r matches Ok(x) ==> x.transfer_fee as int == pino_mint_fee(*token_mint_info, transfer_fee_included_amount as int),
//@ end

//@ fn pinocchio/ported/util_token.rs pino_calculate_transfer_fee_included_amount -> r canary
    ensures
        r matches Ok(x) ==> x.amount as int == transfer_fee_excluded_amount as int + x.transfer_fee as int,
        r matches Ok(x) ==> x.transfer_fee as int == pino_mint_fee(*token_mint_info, x.amount as int),
        r is Ok && r->Ok_0.transfer_fee != 0 ==> exists|f: TransferFee| #[trigger] f.wf() && r->Ok_0.transfer_fee as int == f.fee(r->Ok_0.amount as int),
        transfer_fee_excluded_amount == 0 ==> (r matches Ok(x) && x.amount == 0 && x.transfer_fee == 0),
//@ inject before /return Ok\(TransferFeeIncludedAmount \{\n\s*amount: transfer_fee_included_amount/
        proof { assert(epoch_transfer_fee.wf() && transfer_fee as int == epoch_transfer_fee.fee(transfer_fee_included_amount as int));
            assert(exists|f: TransferFee| #[trigger] f.wf() && transfer_fee as int == f.fee(transfer_fee_included_amount as int)); }
//@ end
}
