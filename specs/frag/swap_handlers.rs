//@ needs specs errors stdspecs lebytes anchor_shim state_core oracle authority transfer_fee
// Handler layer of the swap instructions (Anchor): what is wrapped around the swap loop.
// The loop itself (`swap`) is verified in the crates swap_manager / swap_manager_adaptive; here it is an external stub whose result is an
// uninterpreted function of its inputs (swap_res) plus the facts of swap_post that the handler-level arguments need.
pub mod swap_handlers {
use vstd::prelude::*;
use crate::errors::ErrorCode;
use crate::specs::*;
use crate::anchor_shim::*;
use crate::authority::InterfaceAccount;
use crate::state_core::{Whirlpool, WhirlpoolRewardInfo, NUM_REWARDS};
use crate::oracle::{AdaptiveFeeInfo, AdaptiveFeeConstants, AdaptiveFeeVariables};
use crate::token_v2::*;
use crate::spl_transfer_fee::*;
//@ tags C16 C03
//@ struct manager/swap_manager.rs PostSwapUpdate
//@ assume swap-handler shims: SwapTickSequence is opaque; `swap` is an external stub: its result and its effect on the tick sequence are uninterpreted functions (swap_res, swap_seq) of all its inputs, and its result satisfies the clause "never more than the specified amount on the specified side" of swap_post (proved on the real loop in crates swap_manager / swap_manager_adaptive)
pub struct SwapTickSequence { pub n: usize }
pub uninterp spec fn swap_res(w: Whirlpool, s: SwapTickSequence, amount: u64, limit: u128, is_in: bool, a_to_b: bool, ts: u64, afi: Option<AdaptiveFeeInfo>) -> Result<Box<PostSwapUpdate>>;
pub uninterp spec fn swap_seq(w: Whirlpool, s: SwapTickSequence, amount: u64, limit: u128, is_in: bool, a_to_b: bool, ts: u64, afi: Option<AdaptiveFeeInfo>) -> SwapTickSequence;
//@ fn manager/swap_manager.rs swap -> r stub
    ensures
        r == swap_res(*whirlpool, *old(swap_tick_sequence), amount, sqrt_price_limit, amount_specified_is_input, a_to_b, timestamp, *adaptive_fee_info),
        *final(swap_tick_sequence) == swap_seq(*whirlpool, *old(swap_tick_sequence), amount, sqrt_price_limit, amount_specified_is_input, a_to_b, timestamp, *adaptive_fee_info),
        r matches Ok(u) ==> (if a_to_b == amount_specified_is_input { u.amount_a } else { u.amount_b }) <= amount,
//@ end

pub open spec fn in_of(u: PostSwapUpdate, a_to_b: bool) -> u64 { if a_to_b { u.amount_a } else { u.amount_b } }
pub open spec fn out_of(u: PostSwapUpdate, a_to_b: bool) -> u64 { if a_to_b { u.amount_b } else { u.amount_a } }
/// everything except the two token amounts is handed on unchanged
pub open spec fn same_state_update(u: PostSwapUpdate, u0: PostSwapUpdate) -> bool {
    u.lp_fee == u0.lp_fee && u.next_liquidity == u0.next_liquidity && u.next_tick_index == u0.next_tick_index && u.next_sqrt_price == u0.next_sqrt_price
    && u.next_fee_growth_global == u0.next_fee_growth_global && u.next_reward_infos == u0.next_reward_infos && u.next_protocol_fee == u0.next_protocol_fee
    && u.next_adaptive_fee_info == u0.next_adaptive_fee_info
}
/// `gross` is an amount to transfer such that, after the mint's fee is withheld, exactly `net` arrives
pub open spec fn grosses_up(m: crate::token_v2::Mint, net: int, gross: int) -> bool { gross - mint_fee(m, gross) == net }

/// C16, swaps with transfer-fee tokens.
/// exact-in: the loop runs on what the vault will actually receive (amount minus the INPUT mint's fee); a complete fill charges `amount`, a partial
///   fill charges the curve input grossed up with the INPUT mint's fee, so the vault receives exactly the curve input; the output side is the curve output.
/// exact-out: the loop is asked for an output that, after the OUTPUT mint's fee, leaves `amount` for the user; the input charged is the curve input
///   grossed up with the INPUT mint's fee.
//@ fn instructions/v2/swap.rs swap_with_transfer_fee_extension -> r
    ensures ({
        let min = if a_to_b { token_mint_a.data } else { token_mint_b.data };
        let mout = if a_to_b { token_mint_b.data } else { token_mint_a.data };
        let seq0 = *old(swap_tick_sequence);
        if amount_specified_is_input {
            let ex = (amount as int - mint_fee(min, amount as int)) as u64;
            r matches Ok(u) ==> (swap_res(*whirlpool, seq0, ex, sqrt_price_limit, true, a_to_b, timestamp, *adaptive_fee_info) matches Ok(u0)
                && same_state_update(*u, *u0) && out_of(*u, a_to_b) == out_of(*u0, a_to_b)
                && (in_of(*u0, a_to_b) == ex ==> in_of(*u, a_to_b) == amount)
                && (in_of(*u0, a_to_b) != ex ==> grosses_up(min, in_of(*u0, a_to_b) as int, in_of(*u, a_to_b) as int)))
        } else {
            r matches Ok(u) ==> exists|req: u64| grosses_up(mout, amount as int, req as int)
                && (#[trigger] swap_res(*whirlpool, seq0, req, sqrt_price_limit, false, a_to_b, timestamp, *adaptive_fee_info) matches Ok(u0)
                    && same_state_update(*u, *u0) && out_of(*u, a_to_b) == out_of(*u0, a_to_b)
                    && grosses_up(min, in_of(*u0, a_to_b) as int, in_of(*u, a_to_b) as int))
        } }),
//@ end
}
